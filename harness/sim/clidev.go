package sim

import "bytes"

// Atoms splits plain bytes into one-byte atoms.
func Atoms(b []byte) [][]byte {
	out := make([][]byte, 0, len(b))
	for i := range b {
		out = append(out, b[i:i+1])
	}
	return out
}

// Flatten concatenates atoms.
func Flatten(a [][]byte) []byte { return bytes.Join(a, nil) }

// EchoStyle says how the device echoes typed bytes.
type EchoStyle int

const (
	EchoVerbatim EchoStyle = iota
	EchoWrapCR             // a " \r" inserted every WrapEvery bytes (terminal line wrap)
	EchoWrapCRLF           // "\r\n" inserted every WrapEvery bytes
	EchoDots               // "..." inserted every WrapEvery bytes
	EchoNone               // device does not echo (hidden input)
)

// CLIDevice echoes input and answers each non-empty line with the next scripted output followed
// by its prompt.  It logs every line it receives.
type CLIDevice struct {
	Prompt    []byte
	Trail     []byte // blanks after the prompt
	Banner    [][]byte
	Echo      EchoStyle
	WrapEvery int
	EOL       []byte     // line ending the device uses, "\r\n" or "\n"
	Outputs   [][][]byte // atoms of the i-th command's output (without framing line ends)

	line  []byte
	typed int
	Lines [][]byte
	idx   int
}

func (d *CLIDevice) eol() []byte {
	if d.EOL == nil {
		return []byte("\r\n")
	}
	return d.EOL
}

func (d *CLIDevice) Start() [][]byte { return d.Banner }

func (d *CLIDevice) Feed(b []byte) [][]byte {
	var out [][]byte
	for _, c := range b {
		if c == '\n' {
			ln := append([]byte(nil), d.line...)
			d.Lines = append(d.Lines, ln)
			d.line = d.line[:0]
			d.typed = 0
			out = append(out, Atoms(d.eol())...)
			if len(ln) > 0 {
				var o [][]byte
				if d.idx < len(d.Outputs) {
					o = d.Outputs[d.idx]
				}
				d.idx++
				if len(o) > 0 {
					out = append(out, o...)
					out = append(out, Atoms(d.eol())...)
				}
			}
			out = append(out, Atoms(d.Prompt)...)
			out = append(out, Atoms(d.Trail)...)
			continue
		}
		d.line = append(d.line, c)
		if d.Echo == EchoNone {
			continue
		}
		if d.WrapEvery > 0 && d.typed > 0 && d.typed%d.WrapEvery == 0 {
			switch d.Echo {
			case EchoWrapCR:
				out = append(out, Atoms([]byte(" \r"))...)
			case EchoWrapCRLF:
				out = append(out, Atoms([]byte("\r\n"))...)
			case EchoDots:
				out = append(out, Atoms([]byte("\n..."))...)
			}
		}
		d.typed++
		out = append(out, []byte{c})
	}
	return out
}

// NonEmptyLines returns the received lines that are not bare returns.
func (d *CLIDevice) NonEmptyLines() [][]byte {
	var r [][]byte
	for _, l := range d.Lines {
		if len(l) > 0 {
			r = append(r, l)
		}
	}
	return r
}

// DropOutputs skips the next n scripted outputs (commands that were never sent).
func (d *CLIDevice) DropOutputs(n int) {
	if n > 0 {
		d.idx += n
	}
}
