// Package sim holds the in-process peers of the correspondence harness: a scriptable
// transport.Implementation, device state machines, and the case PRNG.
package sim

// Rng is splitmix64; every random choice of a run derives from one seed.
type Rng struct{ s uint64 }

func NewRng(seed uint64) *Rng {
	// mix the seed so that neighbouring seeds give unrelated streams (s is advanced by a fixed
	// gamma per draw: without mixing, seed k+1 would be seed k shifted by one draw)
	z := seed + 0x632BE59BD9B4E019
	z = (z ^ (z >> 30)) * 0xBF58476D1CE4E5B9
	z = (z ^ (z >> 27)) * 0x94D049BB133111EB
	return &Rng{s: z ^ (z >> 31)}
}

func (r *Rng) Next() uint64 {
	r.s += 0x9E3779B97F4A7C15
	z := r.s
	z = (z ^ (z >> 30)) * 0xBF58476D1CE4E5B9
	z = (z ^ (z >> 27)) * 0x94D049BB133111EB
	return z ^ (z >> 31)
}

// Intn returns a value in [0,n).
func (r *Rng) Intn(n int) int {
	if n <= 0 {
		return 0
	}
	return int(r.Next() % uint64(n))
}

func (r *Rng) Bool() bool { return r.Next()&1 == 1 }

// Chance returns true with probability num/den.
func (r *Rng) Chance(num, den int) bool { return r.Intn(den) < num }

func (r *Rng) Pick(l []string) string { return l[r.Intn(len(l))] }

// Fork derives an independent generator (so adding draws in one place does not shift others).
func (r *Rng) Fork() *Rng { return NewRng(r.Next()) }
