package sim

import "github.com/scrapli/scrapligo/transport"

// LoginTurn is one step of a login dialogue: the device prints Text (banner lines are whole
// atoms, the final prompt text is split bytewise) and then waits for a line, unless Kind is
// "shell" (login done), "error" (an ssh client failure message) or "silence".
type LoginTurn struct {
	Kind   string   `json:"kind"` // user | pass | passphrase | shell | error | silence
	Banner []string `json:"banner,omitempty"`
	Text   string   `json:"text"`
}

// LoginLine is what the device received in answer to a turn.
type LoginLine struct {
	Kind string
	Line string
}

// LoginDevice plays a scripted login dialogue.
type LoginDevice struct {
	Turns []LoginTurn
	k     int
	line  []byte
	Log   []LoginLine
}

func (d *LoginDevice) emit(k int) [][]byte {
	if k >= len(d.Turns) {
		return nil
	}
	var out [][]byte
	for _, b := range d.Turns[k].Banner {
		out = append(out, []byte(b+"\r\n"))
	}
	out = append(out, Atoms([]byte(d.Turns[k].Text))...)
	return out
}

func (d *LoginDevice) Start() [][]byte { return d.emit(0) }

func (d *LoginDevice) Feed(b []byte) [][]byte {
	var out [][]byte
	for _, c := range b {
		if c != '\n' {
			d.line = append(d.line, c)
			continue
		}
		kind := "after-script"
		if d.k < len(d.Turns) {
			kind = d.Turns[d.k].Kind
		}
		d.Log = append(d.Log, LoginLine{kind, string(d.line)})
		d.line = d.line[:0]
		if kind == "shell" || kind == "after-script" {
			out = append(out, Atoms([]byte("\r\nrouter#"))...)
			continue
		}
		d.k++
		out = append(out, []byte("\r\n"))
		out = append(out, d.emit(d.k)...)
	}
	return out
}

// AuthTransport wraps the simulated transport so that the channel performs in-channel login.
type AuthTransport struct {
	*Transport
	Kind transport.InChannelAuthType
	SSH  *transport.SSHArgs
}

func (a *AuthTransport) GetInChannelAuthType() transport.InChannelAuthType { return a.Kind }
func (a *AuthTransport) GetSSHArgs() *transport.SSHArgs                    { return a.SSH }
