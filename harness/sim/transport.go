package sim

import (
	"errors"
	"io"
	"sync"

	"github.com/scrapli/scrapligo/transport"
)

// Device is a reactive byte machine: it consumes what the client writes and returns the atoms
// (single bytes or complete escape sequences) it emits in reaction.
type Device interface {
	// Start returns what the device emits when the connection comes up.
	Start() [][]byte
	// Feed consumes client bytes and returns emitted atoms.
	Feed(b []byte) [][]byte
}

// LossKind selects how the transport fails.
type LossKind int

const (
	LossNone LossKind = iota
	LossEOF
	LossErr
)

var ErrSimIO = errors.New("sim: input/output error")
var ErrSimWrite = errors.New("sim: write error")

// CloseBehaviour selects what a blocked Read does when Close is called.
type CloseBehaviour int

const (
	CloseEOF CloseBehaviour = iota
	CloseErr
	CloseStaysBlocked
)

// Transport is a transport.Implementation whose reads follow a per-case segmentation.
type Transport struct {
	mu   sync.Mutex
	cond *sync.Cond

	Dev Device

	pending [][]byte // atoms emitted, not yet read
	// Segs is the list of read sizes (in bytes, rounded up to whole atoms); when exhausted,
	// DefaultSeg applies (0 = everything available, bounded by n).
	Segs       []int
	DefaultSeg int
	segIdx     int

	// StallAfter >= 0: after that many bytes have been delivered the device goes silent.
	StallAfter int
	// LoseAfter >= 0: after that many bytes delivered Read returns Loss.
	LoseAfter int
	Loss      LossKind
	// WriteErrAfter >= 0: the (k+1)th Write call fails.
	WriteErrAfter int
	OnClose       CloseBehaviour

	Delivered int
	Writes    [][]byte
	closed    bool
	opened    bool
	CloseN    int
	// ReadLog records the size of each successful read (for evidence / replay).
	ReadLog []int
	// Hook, when set, is called (without the lock) after every Write with the total count.
	WriteHook func(n int, b []byte)
	// ReadGate, when set, is consulted before each read returns data; it may block.
	ReadGate func()
	unstall  bool
}

func NewTransport(dev Device) *Transport {
	t := &Transport{Dev: dev, StallAfter: -1, LoseAfter: -1, WriteErrAfter: -1}
	t.cond = sync.NewCond(&t.mu)
	return t
}

var _ transport.Implementation = (*Transport)(nil)

func (t *Transport) Open(_ *transport.Args) error {
	t.mu.Lock()
	defer t.mu.Unlock()
	t.opened = true
	t.pending = append(t.pending, t.Dev.Start()...)
	t.cond.Broadcast()
	return nil
}

func (t *Transport) Close() error {
	t.mu.Lock()
	defer t.mu.Unlock()
	t.closed = true
	t.CloseN++
	t.cond.Broadcast()
	return nil
}

func (t *Transport) IsAlive() bool {
	t.mu.Lock()
	defer t.mu.Unlock()
	return t.opened && !t.closed
}

func (t *Transport) Closed() bool {
	t.mu.Lock()
	defer t.mu.Unlock()
	return t.closed
}

// Unstall lets a stalled device resume (recovery clause of C05).
func (t *Transport) Unstall() {
	t.mu.Lock()
	defer t.mu.Unlock()
	t.StallAfter = -1
	t.cond.Broadcast()
}

func (t *Transport) availLocked() int {
	n := 0
	for _, a := range t.pending {
		n += len(a)
	}
	return n
}

func (t *Transport) Read(n int) ([]byte, error) {
	if t.ReadGate != nil {
		t.ReadGate()
	}
	t.mu.Lock()
	defer t.mu.Unlock()
	for {
		if t.closed {
			switch t.OnClose {
			case CloseEOF:
				return nil, io.EOF
			case CloseErr:
				return nil, ErrSimIO
			case CloseStaysBlocked:
				t.cond.Wait()
				continue
			}
		}
		if t.LoseAfter >= 0 && t.Delivered >= t.LoseAfter {
			switch t.Loss {
			case LossEOF:
				return nil, io.EOF
			case LossErr:
				return nil, ErrSimIO
			}
		}
		stalled := t.StallAfter >= 0 && t.Delivered >= t.StallAfter
		if !stalled && len(t.pending) > 0 {
			break
		}
		t.cond.Wait()
	}
	limit := n
	seg := t.DefaultSeg
	if t.segIdx < len(t.Segs) {
		seg = t.Segs[t.segIdx]
		t.segIdx++
	}
	if seg > 0 && seg < limit {
		limit = seg
	}
	if t.StallAfter >= 0 && t.StallAfter-t.Delivered < limit {
		limit = t.StallAfter - t.Delivered
	}
	if t.LoseAfter >= 0 && t.LoseAfter-t.Delivered < limit {
		limit = t.LoseAfter - t.Delivered
	}
	var out []byte
	for len(t.pending) > 0 {
		a := t.pending[0]
		if len(out) > 0 && len(out)+len(a) > limit {
			break
		}
		if len(out) == 0 && len(a) > limit && len(a) > 1 {
			// an escape atom longer than the limit: deliver it whole (cuts never fall inside an
			// escape sequence), unless a stall/loss point falls inside it: then split bytewise.
			if (t.StallAfter >= 0 && t.StallAfter-t.Delivered < len(a)) ||
				(t.LoseAfter >= 0 && t.LoseAfter-t.Delivered < len(a)) {
				out = append(out, a[:limit]...)
				t.pending[0] = a[limit:]
				break
			}
		}
		out = append(out, a...)
		t.pending = t.pending[1:]
		if len(out) >= limit {
			break
		}
	}
	t.Delivered += len(out)
	t.ReadLog = append(t.ReadLog, len(out))
	return out, nil
}

func (t *Transport) Write(b []byte) error {
	t.mu.Lock()
	if t.closed {
		t.mu.Unlock()
		return ErrSimWrite
	}
	if t.WriteErrAfter >= 0 && len(t.Writes) >= t.WriteErrAfter {
		t.mu.Unlock()
		return ErrSimWrite
	}
	cp := append([]byte(nil), b...)
	t.Writes = append(t.Writes, cp)
	t.pending = append(t.pending, t.Dev.Feed(cp)...)
	n := len(t.Writes)
	t.cond.Broadcast()
	hook := t.WriteHook
	t.mu.Unlock()
	if hook != nil {
		hook(n, cp)
	}
	return nil
}

// Snapshot returns copies of the write log and counters.
func (t *Transport) Snapshot() (writes [][]byte, delivered int, pending int) {
	t.mu.Lock()
	defer t.mu.Unlock()
	writes = append(writes, t.Writes...)
	return writes, t.Delivered, t.availLocked()
}

// Inject appends device-originated atoms (unsolicited output).
func (t *Transport) Inject(atoms [][]byte) {
	t.mu.Lock()
	defer t.mu.Unlock()
	t.pending = append(t.pending, atoms...)
	t.cond.Broadcast()
}
