package sim

import (
	"encoding/hex"
	"errors"
	"io"
	"net"
	"strconv"
	"strings"
	"sync"
	"syscall"
	"time"

	"github.com/scrapli/scrapligo/transport"
)

// Device is a reactive byte machine: it consumes what the client writes and returns the atoms
// (single bytes or complete escape sequences) it emits in reaction.
type Device interface {
	// Start returns what the device emits when the connection comes up.
	Start() [][]byte
	// Feed consumes client bytes and returns emitted atoms.
	Feed(b []byte) [][]byte
}

// LossKind selects how the transport fails.
type LossKind int

const (
	LossNone LossKind = iota
	LossEOF
	LossErr
	// LossErrTimedOut: every read fails with "connection timed out" (ETIMEDOUT wrapped in a
	// *net.OpError, whose Timeout() is true): what a TCP read returns once a dead peer was given up on
	LossErrTimedOut
)

// ErrSimTimedOut is the error of LossErrTimedOut.
var ErrSimTimedOut error = &net.OpError{Op: "read", Net: "tcp", Err: syscall.ETIMEDOUT}

var ErrSimIO = errors.New("sim: input/output error")
var ErrSimWrite = errors.New("sim: write error")

// CloseBehaviour selects what a blocked Read does when Close is called.
type CloseBehaviour int

const (
	CloseEOF CloseBehaviour = iota
	CloseErr
	CloseStaysBlocked
)

// Transport is a transport.Implementation whose reads follow a per-case segmentation.
type delayedEmit struct {
	atoms [][]byte
	d     time.Duration
}

type Transport struct {
	mu   sync.Mutex
	cond *sync.Cond

	Dev Device

	pending [][]byte // atoms emitted, not yet read
	// Segs is the list of read sizes (in bytes, rounded up to whole atoms); when exhausted,
	// DefaultSeg applies (0 = everything available, bounded by n).
	Segs       []int
	DefaultSeg int
	segIdx     int

	// StallAfter >= 0: after that many bytes have been delivered the device goes silent.
	StallAfter int
	// LoseAfter >= 0: after that many bytes delivered Read returns Loss.
	LoseAfter int
	Loss      LossKind
	// WriteErrAfter >= 0: the (k+1)th Write call fails.
	WriteErrAfter int
	// WriteErr: what a failing write returns (nil: ErrSimWrite)
	WriteErr error
	OnClose  CloseBehaviour

	Delivered int
	Writes    [][]byte
	closed    bool
	opened    bool
	waiting   int // readers parked inside Read (nothing to deliver)
	start     []byte
	CloseN    int
	// EmitDelay > 0: what the device emits in reaction to a write becomes readable only after this
	// delay (emissions keep their order).  Used to observe whether the client waits.
	EmitDelay time.Duration
	// DeliveredAtWrite[i] = bytes delivered to the client when the i-th Write happened.
	DeliveredAtWrite []int
	delayQ           chan delayedEmit
	// EmitDelayFn, when set, replaces EmitDelay for an emission, as a function of the emitted bytes
	EmitDelayFn func(emitted []byte) time.Duration
	// MsgBoundaries: empty atoms in the device output mark message boundaries that reads do not cross.
	MsgBoundaries bool
	// ReadLog records the size of each successful read (for evidence / replay).
	ReadLog []int
	// Hook, when set, is called (without the lock) after every Write with the total count.
	WriteHook func(n int, b []byte)
	// ReadGate, when set, is consulted before each read returns data; it may block.
	ReadGate func()
	unstall  bool

	// Events is the unified log (in mutex order) of reads, writes and markers: the schedule the
	// model replays.
	Events []Event
}

// Event is one entry of the transport log.
type Event struct {
	Kind byte   // 'R' read of N bytes, 'W' write, 'C' call boundary, 'D' deadline, 'E' EOF, 'I' io error
	N    int    // read size
	W    []byte // written bytes
	Emit []byte // device emission in reaction to the write
}

// Mark appends a marker event ('C' call boundary, 'D' deadline observed).
func (t *Transport) Mark(kind byte) {
	t.mu.Lock()
	defer t.mu.Unlock()
	t.Events = append(t.Events, Event{Kind: kind})
}

// LogString renders the event log in the model runner's format.
func (t *Transport) LogString() string {
	t.mu.Lock()
	defer t.mu.Unlock()
	var sb strings.Builder
	for i, e := range t.Events {
		if i > 0 {
			sb.WriteByte(',')
		}
		switch e.Kind {
		case 'R':
			sb.WriteString("R" + strconv.Itoa(e.N))
		case 'W':
			sb.WriteString("W" + hex.EncodeToString(e.W) + "/" + hex.EncodeToString(e.Emit))
		case 'J':
			sb.WriteString("J" + hex.EncodeToString(e.W))
		default:
			sb.WriteByte(e.Kind)
		}
	}
	if len(t.Events) == 0 {
		return "-"
	}
	return sb.String()
}

// NCLogString renders the log for the NETCONF session model: reads carry their bytes.
func (t *Transport) NCLogString() string {
	t.mu.Lock()
	defer t.mu.Unlock()
	var sb strings.Builder
	for i, e := range t.Events {
		if i > 0 {
			sb.WriteByte(',')
		}
		switch e.Kind {
		case 'R':
			sb.WriteString("R" + hex.EncodeToString(e.W))
		case 'W':
			sb.WriteString("W" + hex.EncodeToString(e.W))
		default:
			sb.WriteByte(e.Kind)
		}
	}
	if len(t.Events) == 0 {
		return "-"
	}
	return sb.String()
}

// DeliveredBytes returns every byte the reads have returned so far, in order.
func (t *Transport) DeliveredBytes() []byte {
	t.mu.Lock()
	defer t.mu.Unlock()
	var b []byte
	for _, e := range t.Events {
		if e.Kind == 'R' {
			b = append(b, e.W...)
		}
	}
	return b
}

// WriteEmissions returns, for each Write in order, the bytes written and the device's emission.
func (t *Transport) WriteEmissions() (ws [][]byte, ems [][]byte) {
	t.mu.Lock()
	defer t.mu.Unlock()
	for _, e := range t.Events {
		if e.Kind == 'W' {
			ws = append(ws, e.W)
			ems = append(ems, e.Emit)
		}
	}
	return
}

// StartBytes is what the device emitted when the connection came up.
func (t *Transport) StartBytes() []byte {
	t.mu.Lock()
	defer t.mu.Unlock()
	return t.start
}

func NewTransport(dev Device) *Transport {
	t := &Transport{Dev: dev, StallAfter: -1, LoseAfter: -1, WriteErrAfter: -1}
	t.cond = sync.NewCond(&t.mu)
	return t
}

var _ transport.Implementation = (*Transport)(nil)

func (t *Transport) Open(_ *transport.Args) error {
	t.mu.Lock()
	defer t.mu.Unlock()
	t.opened = true
	st := t.Dev.Start()
	t.start = Flatten(st)
	t.pending = append(t.pending, st...)
	t.cond.Broadcast()
	return nil
}

func (t *Transport) Close() error {
	t.mu.Lock()
	defer t.mu.Unlock()
	t.closed = true
	t.CloseN++
	if t.delayQ != nil {
		close(t.delayQ)
		t.delayQ = nil
	}
	t.cond.Broadcast()
	return nil
}

func (t *Transport) IsAlive() bool {
	t.mu.Lock()
	defer t.mu.Unlock()
	return t.opened && !t.closed
}

// Waiting reports whether a reader is parked inside Read with nothing to deliver.
func (t *Transport) Waiting() bool {
	t.mu.Lock()
	defer t.mu.Unlock()
	return t.waiting > 0
}

func (t *Transport) Closed() bool {
	t.mu.Lock()
	defer t.mu.Unlock()
	return t.closed
}

// SetStall: the device goes silent once that many bytes (total) have been delivered.
func (t *Transport) SetStall(total int) {
	t.mu.Lock()
	defer t.mu.Unlock()
	t.StallAfter = total
}

// SetLoss: once that many bytes (total) have been delivered the transport reports the loss.
func (t *Transport) SetLoss(total int, k LossKind) {
	t.mu.Lock()
	defer t.mu.Unlock()
	t.LoseAfter = total
	t.Loss = k
	t.cond.Broadcast()
}

// SetWriteErr: the write with that index (counting all writes) and every later one fail.
func (t *Transport) SetWriteErr(idx int) {
	t.mu.Lock()
	defer t.mu.Unlock()
	t.WriteErrAfter = idx
}

// Fail makes the transport report the given loss from now on.
func (t *Transport) Fail(k LossKind) {
	t.mu.Lock()
	defer t.mu.Unlock()
	t.Loss = k
	t.LoseAfter = t.Delivered
	t.cond.Broadcast()
}

// Unstall lets a stalled device resume (recovery clause of C05).
func (t *Transport) Unstall() {
	t.mu.Lock()
	defer t.mu.Unlock()
	t.StallAfter = -1
	t.cond.Broadcast()
}

// SegAllButLast as a read size: the read returns everything available except the last byte.
const SegAllButLast = -1

func (t *Transport) availLocked() int {
	n := 0
	for _, a := range t.pending {
		n += len(a)
	}
	return n
}

func (t *Transport) Read(n int) ([]byte, error) {
	if t.ReadGate != nil {
		t.ReadGate()
	}
	t.mu.Lock()
	defer t.mu.Unlock()
	for {
		if t.closed {
			switch t.OnClose {
			case CloseEOF:
				return nil, io.EOF
			case CloseErr:
				return nil, ErrSimIO
			case CloseStaysBlocked:
				t.waiting++
				t.cond.Wait()
				t.waiting--
				continue
			}
		}
		if t.LoseAfter >= 0 && t.Delivered >= t.LoseAfter {
			switch t.Loss {
			case LossEOF:
				t.Events = append(t.Events, Event{Kind: 'E'})
				return nil, io.EOF
			case LossErr:
				t.Events = append(t.Events, Event{Kind: 'I'})
				return nil, ErrSimIO
			case LossErrTimedOut:
				t.Events = append(t.Events, Event{Kind: 'I'})
				return nil, ErrSimTimedOut
			}
		}
		stalled := t.StallAfter >= 0 && t.Delivered >= t.StallAfter
		for len(t.pending) > 0 && len(t.pending[0]) == 0 {
			t.pending = t.pending[1:]
		}
		if !stalled && len(t.pending) > 0 {
			break
		}
		t.waiting++
		t.cond.Wait()
		t.waiting--
	}
	limit := n
	seg := t.DefaultSeg
	if t.segIdx < len(t.Segs) {
		seg = t.Segs[t.segIdx]
		t.segIdx++
	}
	if seg > 0 && seg < limit {
		limit = seg
	}
	if seg == SegAllButLast {
		// everything that is available except its last byte (which then arrives alone)
		if av := t.availLocked(); av > 1 && av-1 < limit {
			limit = av - 1
		}
	}
	if t.StallAfter >= 0 && t.StallAfter-t.Delivered < limit {
		limit = t.StallAfter - t.Delivered
	}
	if t.LoseAfter >= 0 && t.LoseAfter-t.Delivered < limit {
		limit = t.LoseAfter - t.Delivered
	}
	var out []byte
	for len(t.pending) > 0 {
		a := t.pending[0]
		if len(a) == 0 {
			// message boundary marker: a read never carries bytes of two messages
			t.pending = t.pending[1:]
			if len(out) > 0 {
				break
			}
			continue
		}
		if len(out) > 0 && len(out)+len(a) > limit {
			break
		}
		if len(out) == 0 && len(a) > limit && len(a) > 1 {
			// an escape atom longer than the limit: deliver it whole (cuts never fall inside an
			// escape sequence), unless a stall/loss point falls inside it: then split bytewise.
			if (t.StallAfter >= 0 && t.StallAfter-t.Delivered < len(a)) ||
				(t.LoseAfter >= 0 && t.LoseAfter-t.Delivered < len(a)) {
				out = append(out, a[:limit]...)
				t.pending[0] = a[limit:]
				break
			}
		}
		out = append(out, a...)
		t.pending = t.pending[1:]
		if len(out) >= limit {
			break
		}
	}
	t.Delivered += len(out)
	t.ReadLog = append(t.ReadLog, len(out))
	t.Events = append(t.Events, Event{Kind: 'R', N: len(out), W: append([]byte(nil), out...)})
	return out, nil
}

func (t *Transport) Write(b []byte) error {
	t.mu.Lock()
	if t.closed {
		t.mu.Unlock()
		return ErrSimWrite
	}
	if t.WriteErrAfter >= 0 && len(t.Writes) >= t.WriteErrAfter {
		e := t.WriteErr
		t.mu.Unlock()
		if e != nil {
			return e
		}
		return ErrSimWrite
	}
	cp := append([]byte(nil), b...)
	t.Writes = append(t.Writes, cp)
	em := t.Dev.Feed(cp)
	t.DeliveredAtWrite = append(t.DeliveredAtWrite, t.Delivered)
	delay := t.EmitDelay
	if t.EmitDelayFn != nil && len(em) > 0 {
		delay = t.EmitDelayFn(Flatten(em))
	}
	if (delay > 0 || t.delayQ != nil) && len(em) > 0 {
		if t.delayQ == nil {
			t.delayQ = make(chan delayedEmit, 1024)
			go func(q chan delayedEmit) {
				for e := range q {
					time.Sleep(e.d)
					t.inject(e.atoms, false)
				}
			}(t.delayQ)
		}
		t.delayQ <- delayedEmit{em, delay}
	} else {
		t.pending = append(t.pending, em...)
	}
	t.Events = append(t.Events, Event{Kind: 'W', W: cp, Emit: Flatten(em)})
	n := len(t.Writes)
	t.cond.Broadcast()
	hook := t.WriteHook
	t.mu.Unlock()
	if hook != nil {
		hook(n, cp)
	}
	return nil
}

// Snapshot returns copies of the write log and counters.
func (t *Transport) Snapshot() (writes [][]byte, delivered int, pending int) {
	t.mu.Lock()
	defer t.mu.Unlock()
	writes = append(writes, t.Writes...)
	return writes, t.Delivered, t.availLocked()
}

// Inject appends device-originated atoms (unsolicited output).
func (t *Transport) Inject(atoms [][]byte) { t.inject(atoms, true) }

// inject: logged = false for the delayed delivery of an emission that the write event already carries.
func (t *Transport) inject(atoms [][]byte, logged bool) {
	t.mu.Lock()
	defer t.mu.Unlock()
	t.pending = append(t.pending, atoms...)
	if logged {
		var all []byte
		for _, a := range atoms {
			all = append(all, a...)
		}
		t.Events = append(t.Events, Event{Kind: 'J', W: all})
	}
	t.cond.Broadcast()
}

// WithLock runs f while no Write (and so no device reaction) is in progress: for harness code that
// looks at the device model from another goroutine.
func (t *Transport) WithLock(f func()) {
	t.mu.Lock()
	defer t.mu.Unlock()
	f()
}
