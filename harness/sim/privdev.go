package sim

import "bytes"

// PrivLevel is one mode of the privilege-tree device.
type PrivLevel struct {
	Name, Prompt, Previous, Escalate, Deescalate string
	Auth                                         bool   // entering this level asks for the secret
	AuthPrompt                                   string // e.g. "Password: "
}

// PrivLine is one line the device received, with the mode it arrived in.
type PrivLine struct {
	Mode string
	Line string
	// Secret is true for a line typed at the password prompt (not a command line).
	Secret bool
}

// AuthBehaviour says what an authenticated edge does.
type AuthBehaviour int

const (
	AuthAsks    AuthBehaviour = iota // asks for the secret, grants if right
	AuthNoAsk                        // grants without asking
	AuthRejects                      // refuses without asking
)

// PrivDevice is a CLI device whose modes form a privilege tree.
type PrivDevice struct {
	Levels map[string]*PrivLevel
	Mode   string
	Secret string
	OnAuth AuthBehaviour
	Banner []byte
	Log    []PrivLine

	line     []byte
	awaiting string // target level while the password prompt is up
}

func (d *PrivDevice) prompt() []byte { return []byte(d.Levels[d.Mode].Prompt) }

func (d *PrivDevice) Start() [][]byte {
	return Atoms(append(append([]byte{}, d.Banner...), d.prompt()...))
}

func (d *PrivDevice) Feed(b []byte) [][]byte {
	var out []byte
	for _, c := range b {
		if c != '\n' {
			d.line = append(d.line, c)
			if d.awaiting == "" {
				out = append(out, c)
			}
			continue
		}
		ln := string(d.line)
		d.line = d.line[:0]
		out = append(out, '\r', '\n')
		if d.awaiting != "" {
			d.Log = append(d.Log, PrivLine{d.Mode, ln, true})
			if ln == d.Secret {
				d.Mode = d.awaiting
			} else {
				out = append(out, []byte("% Access denied\r\n")...)
			}
			d.awaiting = ""
			out = append(out, d.prompt()...)
			continue
		}
		d.Log = append(d.Log, PrivLine{d.Mode, ln, false})
		if ln == "" {
			out = append(out, d.prompt()...)
			continue
		}
		moved := false
		for _, l := range d.Levels {
			if l.Previous == d.Mode && l.Escalate == ln && l.Escalate != "" {
				moved = true
				if l.Auth {
					switch d.OnAuth {
					case AuthAsks:
						d.awaiting = l.Name
						out = append(out, []byte(l.AuthPrompt)...)
					case AuthNoAsk:
						d.Mode = l.Name
						out = append(out, d.prompt()...)
					case AuthRejects:
						out = append(out, []byte("% Not authorized\r\n")...)
						out = append(out, d.prompt()...)
					}
				} else {
					d.Mode = l.Name
					out = append(out, d.prompt()...)
				}
				break
			}
		}
		if moved {
			continue
		}
		cur := d.Levels[d.Mode]
		if cur.Deescalate == ln && cur.Previous != "" {
			d.Mode = cur.Previous
			out = append(out, d.prompt()...)
			continue
		}
		out = append(out, []byte("output of "+ln+"\r\n")...)
		out = append(out, d.prompt()...)
	}
	return Atoms(out)
}

// CommandLines returns the non-empty, non-secret lines.
func (d *PrivDevice) CommandLines() []PrivLine {
	var r []PrivLine
	for _, l := range d.Log {
		if l.Line != "" && !l.Secret {
			r = append(r, l)
		}
	}
	return r
}

var _ = bytes.Equal
