package sim

// ScriptDevice answers the k-th received line with the k-th scripted text (no echo): the
// device side of interactive / callback dialogues.  It logs every line with the index of the
// step it was in when the line arrived.
type ScriptDevice struct {
	Greeting []byte
	Steps    [][]byte
	line     []byte
	k        int
	Lines    [][]byte
	// EchoInput makes the device echo typed bytes (except while Hidden[k] is set for the step)
	EchoInput bool
	Hidden    map[int]bool
}

func (d *ScriptDevice) Start() [][]byte { return Atoms(d.Greeting) }

func (d *ScriptDevice) Feed(b []byte) [][]byte {
	var out [][]byte
	for _, c := range b {
		if c == '\n' {
			d.Lines = append(d.Lines, append([]byte(nil), d.line...))
			d.line = d.line[:0]
			if d.EchoInput {
				out = append(out, []byte{'\n'})
			}
			if d.k < len(d.Steps) {
				out = append(out, Atoms(d.Steps[d.k])...)
			}
			d.k++
			continue
		}
		d.line = append(d.line, c)
		if d.EchoInput && !d.Hidden[d.k] {
			out = append(out, []byte{c})
		}
	}
	return out
}

// Rescript starts a new script: the next line received gets steps[0].
func (d *ScriptDevice) Rescript(steps [][]byte) {
	d.Steps = steps
	d.k = 0
}
