package sim

import (
	"bytes"
	"fmt"
	"regexp"
	"strconv"
)

// Behaviour of the NETCONF server model for one request.
type Behaviour int

const (
	ReplyNow Behaviour = iota
	ReplyLate
	ReplyNever
)

// NCRequest is one client message as the server saw it.
type NCRequest struct {
	Framed  []byte // the bytes of the frame (without the trailing returns)
	Payload []byte // strictly decoded payload (nil if framing was not acceptable)
	Err     string // why strict decoding failed
	ID      string
}

// NCServer is a NETCONF server state machine behind the simulated transport.
type NCServer struct {
	Hello      []byte      // what the server says first (already framed)
	Echo       bool        // transport echoes client bytes back
	Behaviours []Behaviour // per request; default ReplyNow
	// Reply builds the reply payload for request idx with message id.
	Reply func(idx int, id string) []byte
	// Chunk partitions a 1.1 reply payload.
	Chunk func(idx int, payload []byte) [][]byte
	// AfterDelim is appended after each framed reply ("" or "\n").
	AfterDelim string

	Version     string // negotiated from the client hello: "1.0" / "1.1"
	ClientHello []byte
	HelloErr    string
	Requests    []NCRequest
	Late        map[int][]byte // framed replies held back, by request index
	buf         []byte
}

var capRe = regexp.MustCompile(`<capability>([^<]*)</capability>`)
var msgIDRe = regexp.MustCompile(`message-id="(\d+)"`)

func (s *NCServer) Start() [][]byte { return [][]byte{s.Hello} }

// FrameReply frames payload for the negotiated version.
func (s *NCServer) FrameReply(idx int, payload []byte) []byte {
	if s.Version == "1.1" {
		chunks := [][]byte{payload}
		if s.Chunk != nil {
			chunks = s.Chunk(idx, payload)
		}
		var b bytes.Buffer
		for _, c := range chunks {
			fmt.Fprintf(&b, "\n#%d\n", len(c))
			b.Write(c)
		}
		b.WriteString("\n##\n")
		return b.Bytes()
	}
	return append(append([]byte{}, payload...), []byte("]]>]]>"+s.AfterDelim)...)
}

func (s *NCServer) Feed(b []byte) [][]byte {
	var out [][]byte
	if s.Echo {
		out = append(out, append([]byte(nil), b...))
	}
	s.buf = append(s.buf, b...)
	for {
		if s.ClientHello == nil {
			i := bytes.Index(s.buf, []byte("]]>]]>"))
			if i < 0 {
				return out
			}
			s.ClientHello = append([]byte(nil), s.buf[:i]...)
			s.buf = s.buf[i+6:]
			caps := capRe.FindAllSubmatch(s.ClientHello, -1)
			s.Version = ""
			if len(caps) != 1 {
				s.HelloErr = fmt.Sprintf("client hello advertises %d capabilities", len(caps))
			}
			for _, c := range caps {
				switch string(c[1]) {
				case "urn:ietf:params:netconf:base:1.1":
					s.Version = "1.1"
				case "urn:ietf:params:netconf:base:1.0":
					if s.Version == "" {
						s.Version = "1.0"
					}
				}
			}
			continue
		}
		// one request
		var req NCRequest
		var consumed int
		if s.Version == "1.1" {
			// strict RFC 6242: LF '#' size LF data ... LF '#' '#' LF
			payload, n, err, complete := strictChunks(s.buf)
			if !complete {
				return out
			}
			consumed = n
			req.Framed = append([]byte(nil), s.buf[:n]...)
			if err != "" {
				req.Err = err
			} else {
				req.Payload = payload
			}
		} else {
			// 1.0: leading returns from previous messages are not part of the frame
			j := 0
			for j < len(s.buf) && s.buf[j] == '\n' {
				j++
			}
			i := bytes.Index(s.buf[j:], []byte("]]>]]>"))
			if i < 0 {
				return out
			}
			req.Payload = append([]byte(nil), s.buf[j:j+i]...)
			req.Framed = append([]byte(nil), s.buf[j:j+i+6]...)
			consumed = j + i + 6
		}
		s.buf = s.buf[consumed:]
		if m := msgIDRe.FindSubmatch(req.Payload); m != nil {
			req.ID = string(m[1])
		}
		idx := len(s.Requests)
		s.Requests = append(s.Requests, req)
		beh := ReplyNow
		if idx < len(s.Behaviours) {
			beh = s.Behaviours[idx]
		}
		var payload []byte
		if s.Reply != nil {
			payload = s.Reply(idx, req.ID)
		} else {
			payload = []byte(fmt.Sprintf("<rpc-reply xmlns=\"urn:ietf:params:xml:ns:netconf:base:1.0\" message-id=\"%s\"><ok/></rpc-reply>", req.ID))
		}
		framed := s.FrameReply(idx, payload)
		switch beh {
		case ReplyNow:
			out = append(out, framed)
		case ReplyLate:
			if s.Late == nil {
				s.Late = map[int][]byte{}
			}
			s.Late[idx] = framed
		}
	}
}

// strictChunks decodes one RFC 6242 chunked message at the start of b.  complete=false: need
// more bytes.  err != "": the frame is not acceptable (n = bytes to skip, best effort).
func strictChunks(b []byte) (payload []byte, n int, errStr string, complete bool) {
	i := 0
	for {
		if i+3 > len(b) {
			return nil, 0, "", false
		}
		if b[i] != '\n' || b[i+1] != '#' {
			// not a chunk header where one is due: resynchronise at the next "\n##\n"
			k := bytes.Index(b[i:], []byte("\n##\n"))
			if k < 0 {
				return nil, 0, "", false
			}
			return nil, i + k + 4, fmt.Sprintf("expected LF '#' at offset %d, got %q", i, b[i:min(i+8, len(b))]), true
		}
		if b[i+2] == '#' {
			if i+4 > len(b) {
				return nil, 0, "", false
			}
			if b[i+3] != '\n' {
				return nil, i + 4, "end-of-chunks not followed by LF", true
			}
			if len(payload) == 0 {
				return nil, i + 4, "message without chunks", true
			}
			return payload, i + 4, "", true
		}
		j := i + 2
		k := j
		for k < len(b) && k-j < 10 && b[k] >= '0' && b[k] <= '9' {
			k++
		}
		if k >= len(b) {
			return nil, 0, "", false
		}
		if k == j || b[j] == '0' || b[k] != '\n' {
			kk := bytes.Index(b[i+1:], []byte("\n##\n"))
			if kk < 0 {
				return nil, 0, "", false
			}
			return nil, i + 1 + kk + 4, fmt.Sprintf("bad chunk-size at offset %d: %q", j, b[j:min(j+12, len(b))]), true
		}
		size, _ := strconv.Atoi(string(b[j:k]))
		if k+1+size > len(b) {
			return nil, 0, "", false
		}
		payload = append(payload, b[k+1:k+1+size]...)
		i = k + 1 + size
	}
}

func min(a, b int) int {
	if a < b {
		return a
	}
	return b
}
