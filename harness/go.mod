module verif/harness

go 1.20

require (
	github.com/creack/pty v1.1.23
	github.com/scrapli/scrapligo v0.0.0
	golang.org/x/crypto v0.26.0
	gopkg.in/yaml.v3 v3.0.1
)

require github.com/sirikothe/gotextfsm v1.0.1-0.20200816110946-6aa2cfd355e4 // indirect

replace github.com/scrapli/scrapligo => /repo
