package main

import (
	"bytes"
	"encoding/json"
	"fmt"
	"strings"
	"sync"
	"time"

	"github.com/scrapli/scrapligo/driver/generic"
	"github.com/scrapli/scrapligo/driver/options"
	"github.com/scrapli/scrapligo/logging"
	"github.com/scrapli/scrapligo/transport"

	"verif/harness/sim"
)

func init() {
	for _, p := range []string{"C10", "C11"} {
		p := p
		props[p] = prop{Run: func(seed uint64, n int, tier string) { runC10(p, seed, n, tier) },
			Replay: func(id string, raw json.RawMessage) {
				var c c10Case
				if json.Unmarshal(raw, &c) == nil {
					runC10Case(id, &c)
				}
			}}
	}
}

type c10Case struct {
	Prop       string          `json:"prop"`
	Kind       string          `json:"kind"` // ssh | telnet | escalate
	Turns      []sim.LoginTurn `json:"turns,omitempty"`
	User       string          `json:"user"`
	Password   string          `json:"password"`
	Passphrase string          `json:"passphrase"`
	Secret     string          `json:"secret,omitempty"`
	OnAuth     int             `json:"on_auth,omitempty"`
	Segs       []int           `json:"segs"`
	DefSeg     int             `json:"default_seg"`
	LogLevel   string          `json:"log_level"`
	// C11 only: the write with this 1-based index (and every later one) fails at the transport --
	// the link dies just when a credential is being sent; only the log oracle applies then
	WriteErr int `json:"write_err,omitempty"`
	// C11 escalations only: the escalation runs inside the driver's on-open hook (as the stock
	// platforms do), and the link dies ("eof" | "ioerr" on every read) right AFTER the secret has
	// been written; whatever the library logs about the failed open must not contain the secret
	LossAfterSecret string `json:"loss_after_secret,omitempty"`
	// C11 escalations only: the device REFUSES the secret (its own differs) with a text that is one
	// of the driver's failed-when strings
	Refused bool `json:"refused,omitempty"`
}

var c10Secrets = []string{"p4ssw0rd", "s3cr3t!", "%s%d%v", "a.b*c+?", "redacted", "pa$$(w)[o]rd", "x y z", "päss", "^caret$", "100%!"}

func genC10(prop string, r *sim.Rng, i int) *c10Case {
	c := &c10Case{Prop: prop, User: r.Pick([]string{"admin", "netops", "u%s"}), LogLevel: r.Pick([]string{"debug", "debug", "info", "critical"})}
	c.Password = r.Pick(c10Secrets)
	c.Passphrase = r.Pick(c10Secrets) + "k"
	switch r.Intn(3) {
	case 0:
		c.DefSeg = 0
	case 1:
		c.DefSeg = 1 + r.Intn(6)
	default:
		m := r.Intn(25)
		for k := 0; k < m; k++ {
			c.Segs = append(c.Segs, 1+r.Intn(12))
		}
	}
	if prop == "C11" && r.Chance(1, 4) {
		c.WriteErr = 1 + r.Intn(5)
	}
	if prop == "C11" && i%11 == 9 {
		// a platform definition whose on-open sequence writes a redacted secret: as a YAML string (it is
		// written, redacted), or as something that does not decode as a string — an unquoted all-digit
		// secret — in which case the step is refused; whatever is logged must not hold the secret
		c.Kind = "platform-onopen"
		c.OnAuth = r.Intn(4) // 0,1: quoted string; 2: unquoted digits; 3: unquoted digits, generic driver
		c.Secret = fmt.Sprintf("%d", 1000000+r.Intn(899999999))
		return c
	}
	if prop == "C11" && i%11 == 10 {
		// the system transport itself: a login it refuses before ssh is started (key with a
		// passphrase), and one whose ssh exits at once; whatever it logs must not hold a credential
		c.Kind = "system"
		c.OnAuth = r.Intn(2) // 0: key + passphrase (refused), 1: password only, ssh binary exits at once
		return c
	}
	if prop == "C11" && i%3 == 2 {
		c.Kind = "escalate"
		c.Secret = r.Pick(c10Secrets)
		c.OnAuth = r.Intn(3)
		if c.WriteErr == 0 && r.Chance(1, 3) {
			c.OnAuth = 0 // the device asks for the secret
			c.LossAfterSecret = r.Pick([]string{"eof", "ioerr"})
		} else if c.WriteErr == 0 && r.Chance(1, 3) {
			c.OnAuth = 0
			c.Refused = true
		}
		return c
	}
	banners := [][]string{nil, {"Warning: Permanently added '1.2.3.4' (ED25519) to the list of known hosts."}, {"**** Authorised access only ****", ""},
		{"Unauthorized use prohibited", "Contact noc@example.com"}}
	pwTexts := []string{"Password: ", "password:", "admin@10.0.0.1's password: ", "PASSWORD: ", "(admin@r1) Password: "}
	userTexts := []string{"Username: ", "login: ", "r1 login: ", "USERNAME:"}
	ppTexts := []string{"Enter passphrase for key '/home/u/.ssh/id_ed25519': "}
	errTexts := []string{"Permission denied (publickey,password).", "ssh: connect to host 1.2.3.4 port 22: No route to host", "Host key verification failed.",
		"ssh: Could not resolve hostname r1: Name or service not known", "Unable to negotiate with 1.2.3.4 port 22: no matching key exchange method found. Their offer: diffie-hellman-group1-sha1",
		"kex_exchange_identification: Connection timed out", "/etc/ssh/ssh_config: line 3: Bad configuration option: foo"}
	shell := sim.LoginTurn{Kind: "shell", Banner: r0(banners, r), Text: "router#"}
	if r.Chance(1, 6) {
		// a message of the day longer than the prompt search depth: everything read during login must
		// still reach the first operation
		var motd []string
		nl := 21 + r.Intn(15)
		c.Segs, c.DefSeg = nil, []int{0, 97, 400}[r.Intn(3)] // coarse reads: the dialogue is long
		for k := 0; k < nl; k++ {
			motd = append(motd, fmt.Sprintf("motd %02d: maintenance window sunday 02:00-04:00 utc", k))
		}
		shell.Banner = motd
	}
	if i%2 == 0 {
		c.Kind = "ssh"
		nwrong := r.Intn(4) // 0..3 rejections
		if r.Chance(1, 5) {
			c.Turns = append(c.Turns, sim.LoginTurn{Kind: "passphrase", Banner: r0(banners, r), Text: r.Pick(ppTexts)})
			if r.Chance(1, 4) {
				c.Turns = append(c.Turns, sim.LoginTurn{Kind: "passphrase", Text: r.Pick(ppTexts)})
				if r.Chance(1, 2) {
					c.Turns = append(c.Turns, sim.LoginTurn{Kind: "passphrase", Text: r.Pick(ppTexts)})
				}
			}
		}
		for k := 0; k <= nwrong && k < 3; k++ {
			t := sim.LoginTurn{Kind: "pass", Text: r.Pick(pwTexts)}
			if k == 0 {
				t.Banner = r0(banners, r)
			} else {
				t.Banner = []string{"Permission denied, please try again."}
				if r.Bool() {
					t.Banner = []string{"Sorry, try again."}
				}
			}
			c.Turns = append(c.Turns, t)
		}
		switch r.Intn(8) {
		case 0:
			c.Turns = append(c.Turns, sim.LoginTurn{Kind: "error", Text: r.Pick(errTexts) + "\r\n"})
		case 1:
			c.Turns = append(c.Turns, sim.LoginTurn{Kind: "silence", Text: ""})
		default:
			c.Turns = append(c.Turns, shell)
		}
		if r.Chance(1, 10) {
			// no password at all (key auth): straight to the shell
			c.Turns = []sim.LoginTurn{shell}
		}
	} else {
		c.Kind = "telnet"
		rounds := 1 + r.Intn(3)
		if r.Chance(1, 3) {
			// irregular dialogues: the device re-asks for the password alone, or for the user name
			// between two password prompts (each credential is still bounded per OPEN, not per round)
			rounds = 0
			n := 2 + r.Intn(5)
			for k := 0; k < n; k++ {
				t := sim.LoginTurn{Kind: "pass", Text: r.Pick(pwTexts)}
				if k == 0 || r.Chance(1, 3) {
					t = sim.LoginTurn{Kind: "user", Text: r.Pick(userTexts)}
				}
				if k == 0 {
					t.Banner = r0(banners, r)
				}
				c.Turns = append(c.Turns, t)
			}
		}
		for k := 0; k < rounds; k++ {
			u := sim.LoginTurn{Kind: "user", Text: r.Pick(userTexts)}
			if k == 0 {
				u.Banner = r0(banners, r)
			} else {
				u.Banner = []string{"% Authentication failed", ""}
			}
			c.Turns = append(c.Turns, u, sim.LoginTurn{Kind: "pass", Text: r.Pick(pwTexts)})
		}
		if r.Chance(1, 8) {
			c.Turns = append(c.Turns, sim.LoginTurn{Kind: "silence"})
		} else {
			c.Turns = append(c.Turns, shell)
		}
	}
	return c
}

func r0(l [][]string, r *sim.Rng) []string { return l[r.Intn(len(l))] }

func runC10(prop string, seed uint64, n int, tier string) {
	rng := sim.NewRng(seed)
	cases := make([]*c10Case, n)
	for i := range cases {
		cases[i] = genC10(prop, rng.Fork(), i)
	}
	parallel(n, func(i int) { runC10Case(caseID(prop, seed, i), cases[i]) })
}

type logSink struct {
	mu    sync.Mutex
	lines []string
	chlog bytes.Buffer
}

func (s *logSink) log(a ...interface{}) {
	s.mu.Lock()
	defer s.mu.Unlock()
	s.lines = append(s.lines, fmt.Sprint(a...))
}
func (s *logSink) Write(b []byte) (int, error) {
	s.mu.Lock()
	defer s.mu.Unlock()
	return s.chlog.Write(b)
}
func (s *logSink) containsAny(secrets ...string) string {
	s.mu.Lock()
	defer s.mu.Unlock()
	for _, sec := range secrets {
		if sec == "" || sec == "redacted" {
			continue
		}
		for _, l := range s.lines {
			if strings.Contains(l, sec) {
				return fmt.Sprintf("log line %q contains the secret %q", l, sec)
			}
		}
		if strings.Contains(s.chlog.String(), sec) {
			return fmt.Sprintf("channel log contains the secret %q", sec)
		}
	}
	return ""
}

func runC10Case(id string, c *c10Case) {
	defer watchCase(id, c)()
	cs := &Case{ID: id, Kind: c.Prop + "/" + c.Kind, HypOK: true, Replay: c}
	sink := &logSink{}
	li, _ := logging.NewInstance(logging.WithLevel(c.LogLevel), logging.WithLogger(sink.log))
	if c.Kind == "escalate" {
		runC11Escalate(cs, c, sink, li)
		return
	}
	if c.Kind == "system" {
		runC11System(cs, c, sink, li)
		return
	}
	if c.Kind == "platform-onopen" {
		runC11Platform(id, cs, c, sink, li)
		return
	}
	dev := &sim.LoginDevice{Turns: c.Turns}
	tr := sim.NewTransport(dev)
	tr.Segs, tr.DefaultSeg = c.Segs, c.DefSeg
	if c.WriteErr > 0 {
		tr.SetWriteErr(c.WriteErr - 1)
		cs.Kind += "/write-error"
	}
	at := &sim.AuthTransport{Transport: tr, SSH: &transport.SSHArgs{PrivateKeyPassPhrase: c.Passphrase}}
	if c.Kind == "ssh" {
		at.Kind = transport.InChannelAuthSSH
	} else {
		at.Kind = transport.InChannelAuthTelnet
	}
	d, err := generic.NewDriver("sim", options.WithCustomTransport(at), options.WithReadDelay(20*time.Microsecond),
		options.WithTimeoutOps(150*time.Millisecond), options.WithAuthUsername(c.User), options.WithAuthPassword(c.Password),
		options.WithLogger(li), options.WithChannelLog(sink))
	if err != nil {
		cs.Oracle = "driver construction failed: " + err.Error()
		emit(cs)
		return
	}
	tr.Mark('C')
	t0 := time.Now()
	openErr := d.Open()
	if openErr != nil && errClass(openErr) == "timeout" {
		tr.Mark('D')
	}
	_ = t0
	first := []byte(nil)
	if openErr == nil {
		first, _ = d.Channel.Read()
	}
	closedAfterFail := tr.Closed()
	logStr := tr.LogString()
	writes, _, _ := tr.Snapshot()
	start := tr.StartBytes()
	if openErr == nil {
		_ = d.Close()
	}
	cs.Line = fmt.Sprintf("login 1000 prompt_pattern %s %s %s %s %s %s %s", hx([]byte("\n")), c.Kind, hx([]byte(c.User)), hx([]byte(c.Password)),
		hx([]byte(c.Passphrase)), hx(start), logStr)
	out := ""
	if openErr != nil {
		out = "err:" + errClass(openErr)
	}
	// which writes were credentials (= logged as redacted): everything but the return character
	var wl [][]byte
	for _, w := range writes {
		tag := "r"
		if string(w) == "\n" {
			tag = "p"
		}
		wl = append(wl, append([]byte(tag), w...))
	}
	// normalise the first read the way the reader does (CR dropped)
	firstN := bytes.ReplaceAll(first, []byte("\r"), nil)
	if openErr == nil {
		// the model's outcome carries the login buffer; the implementation does not return it: compare
		// through the first read instead
		out = "ok:" + hx(firstN)
	}
	cs.Obs = fmt.Sprintf("%s sync %s %s", out, hxList(wl), func() string {
		if openErr == nil {
			return hx(firstN)
		}
		return ""
	}())
	cs.Nontrivial = len(c.Turns) > 1
	// ---- oracle from the property text
	counts := map[string]int{}
	reachedShell, sawError, silent := false, false, false
	expect := "none"
	for _, t := range c.Turns {
		switch t.Kind {
		case "shell":
			reachedShell = true
		case "error":
			sawError = true
		case "silence":
			silent = true
		default:
			counts[t.Kind]++
			if counts[t.Kind] > 2 && expect == "none" {
				expect = "auth"
			}
		}
		if expect != "none" || reachedShell || sawError || silent {
			break
		}
	}
	// a recognised ssh client failure message anywhere in what the device printed before the
	// decisive turn makes it a connection error (that is what "Permission denied, please try
	// again." is)
	if c.Kind == "ssh" {
		seen := map[string]int{}
	scan:
		for _, t := range c.Turns {
			txt := strings.ToLower(strings.Join(t.Banner, "\n") + "\n" + t.Text)
			for _, m := range []string{"host key verification failed", "operation timed out", "connection timed out", "no route to host",
				"bad configuration", "unprotected private key file", "could not resolve hostname", "permission denied", "no matching"} {
				if strings.Contains(txt, m) {
					sawError = true
					expect = "none"
					break scan
				}
			}
			if t.Kind == "shell" || t.Kind == "silence" {
				break
			}
			seen[t.Kind]++
			if seen[t.Kind] > 2 {
				break
			}
		}
	}
	switch {
	case expect == "auth":
	case sawError:
		expect = "connection"
	case silent:
		expect = "timeout"
	case reachedShell:
		expect = "none"
	}
	if openErr == nil {
		// "the bytes read during login remain available to the first operation": everything the device
		// printed after the last credential was typed (banner, message of the day, prompt) -- or all of
		// its output when nothing was typed -- is what the first read returns (it may be preceded by
		// more of the login dialogue)
		_, ems := tr.WriteEmissions()
		tail := tr.StartBytes()
		if len(ems) > 0 {
			tail = ems[len(ems)-1]
		}
		tail = bytes.ReplaceAll(tail, []byte("\r"), nil)
		all := bytes.ReplaceAll(tr.DeliveredBytes(), []byte("\r"), nil)
		if !bytes.HasSuffix(firstN, tail) || !bytes.HasSuffix(all, firstN) {
			cs.Oracle = fmt.Sprintf("after the last credential the device printed %d bytes (%q...); the first read after login returned %d bytes (%q...)",
				len(tail), truncate(string(tail), 40), len(firstN), truncate(string(firstN), 40))
			cs.Sig = "C10:login-bytes-lost"
		}
	}
	if got := errClass(openErr); got != expect {
		cs.Oracle = fmt.Sprintf("open returned %s, want %s for the dialogue %v", got, expect, kinds(c.Turns))
		cs.Sig = "C10:outcome:" + got + "-vs-" + expect
	}
	for _, l := range dev.Log {
		want := map[string]string{"user": c.User, "pass": c.Password, "passphrase": c.Passphrase}[l.Kind]
		if l.Kind == "shell" || l.Kind == "after-script" {
			if l.Line != "" {
				cs.Oracle = fmt.Sprintf("a credential line %q was typed at the shell prompt", l.Line)
				cs.Sig = "C10:credential-at-shell"
			}
			continue
		}
		if l.Line != want {
			cs.Oracle = fmt.Sprintf("the %s prompt was answered with %q, want %q", l.Kind, l.Line, want)
			cs.Sig = "C10:wrong-credential"
		}
	}
	sent := map[string]int{}
	for _, l := range dev.Log {
		sent[l.Kind]++
	}
	for k, v := range sent {
		if (k == "user" || k == "pass" || k == "passphrase") && v > 2 {
			cs.Oracle = fmt.Sprintf("%s sent %d times", k, v)
			cs.Sig = "C10:too-many-attempts"
		}
	}
	if openErr != nil && !closedAfterFail {
		cs.Oracle = "open failed but the transport was not closed"
		cs.Sig = "C10:not-closed-on-failure"
	}
	if openErr == nil && cs.Oracle == "" {
		// bytes read during login stay available: the shell turn's text must be in the first read
		if !bytes.Contains(firstN, []byte("router#")) {
			cs.Oracle = fmt.Sprintf("first read after open is %q: the prompt read during login was lost", firstN)
			cs.Sig = "C10:login-bytes-lost"
		}
	}
	if c.WriteErr > 0 {
		// failing writes are outside the model (the operation language has no failing write) and outside
		// C10's dialogue oracle: only "no secret in any log" is decided on these cases
		cs.Line, cs.Oracle, cs.Sig = "", "", ""
	}
	// ---- C11: no credential in any log line or in the channel log
	if m := sink.containsAny(c.Password, c.Passphrase); m != "" && cs.Oracle == "" {
		cs.Oracle = m
		cs.Sig = "C11:secret-logged"
	}
	emit(cs)
}

func kinds(ts []sim.LoginTurn) []string {
	var k []string
	for _, t := range ts {
		k = append(k, t.Kind)
	}
	return k
}
