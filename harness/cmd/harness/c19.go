package main

// C19 — driver options land on their target regardless of order; user options win.
//
// Random subsets / permutations / duplicates of ALL `With*` constructors of driver/options with
// random valid and invalid values go through generic.NewDriver, network.NewDriver,
// netconf.NewDriver and platform.NewPlatform (generated YAML definition with an `options:` block
// plus user options).  No connection is opened: the constructors do not connect.  Observables:
// the public fields reachable from the constructed driver, in the model's canonical order.

import (
	"encoding/hex"
	"encoding/json"
	"errors"
	"fmt"
	"io"
	"os"
	"path/filepath"
	"reflect"
	"regexp"
	"sort"
	"strings"
	"sync"
	"time"

	"github.com/scrapli/scrapligo/channel"
	"github.com/scrapli/scrapligo/driver/generic"
	"github.com/scrapli/scrapligo/driver/netconf"
	"github.com/scrapli/scrapligo/driver/network"
	"github.com/scrapli/scrapligo/driver/options"
	"github.com/scrapli/scrapligo/logging"
	"github.com/scrapli/scrapligo/platform"
	"github.com/scrapli/scrapligo/transport"
	"github.com/scrapli/scrapligo/util"

	"verif/harness/sim"
)

func init() {
	props["C19"] = prop{Run: runC19, Replay: func(id string, raw json.RawMessage) {
		var w struct {
			CI *c19CustomImpl `json:"custom_impl"`
			SH *c19Shared     `json:"shared"`
		}
		if json.Unmarshal(raw, &w) == nil && w.CI != nil {
			runC19CustomImpl(id, w.CI)
			return
		}
		if w.SH != nil {
			runC19Shared(id, w.SH)
			return
		}
		var c c19Case
		if json.Unmarshal(raw, &c) == nil {
			runC19Case(id, &c)
		}
	}}
}

// ---------------------------------------------------------------- case description

type c19Opt struct {
	Name string   `json:"name"`
	N    uint64   `json:"n,omitempty"`
	S    string   `json:"s,omitempty"`
	S2   string   `json:"s2,omitempty"`
	L    []string `json:"l,omitempty"`
}

type c19YOpt struct {
	Name string   `json:"name"`
	Kind string   `json:"kind"` // i f s b q(sequence of strings) m(ixed sequence) n
	N    uint64   `json:"n,omitempty"`
	S    string   `json:"s,omitempty"`
	B    bool     `json:"b,omitempty"`
	L    []string `json:"l,omitempty"`
}

type c19Plat struct {
	FailedWhen []string  `json:"failed_when"`
	OnOpen     bool      `json:"on_open"`
	OnClose    bool      `json:"on_close"`
	Privs      []string  `json:"privs"` // patterns, sorted
	DefPriv    string    `json:"def_priv"`
	NetOnOpen  bool      `json:"net_on_open"`
	NetOnClose bool      `json:"net_on_close"`
	Options    []c19YOpt `json:"options"`
}

type c19Case struct {
	Kind  string   `json:"kind"` // g n c
	Class string   `json:"class"`
	Plat  *c19Plat `json:"plat,omitempty"`
	Opts  []c19Opt `json:"opts"`
}

// ---------------------------------------------------------------- tagged values

type c19TagErr struct{ n uint64 }

func (e c19TagErr) Error() string { return fmt.Sprintf("tag %d", e.n) }

//go:noinline
func c19GenericHook(n uint64) func(*generic.Driver) error {
	if n == 0 {
		return nil
	}
	return func(*generic.Driver) error { return c19TagErr{n} }
}

//go:noinline
func c19NetworkHook(n uint64) func(*network.Driver) error {
	if n == 0 {
		return nil
	}
	return func(*network.Driver) error { return c19TagErr{n} }
}

var (
	c19GenericHookPtr = reflect.ValueOf(c19GenericHook(1)).Pointer()
	c19NetworkHookPtr = reflect.ValueOf(c19NetworkHook(1)).Pointer()
)

const c19PlatformTag = 99

func c19GenericHookTag(f func(*generic.Driver) error) uint64 {
	if f == nil {
		return 0
	}
	if reflect.ValueOf(f).Pointer() != c19GenericHookPtr {
		return c19PlatformTag
	}
	var te c19TagErr
	if errors.As(f(nil), &te) {
		return te.n
	}
	return 98
}

func c19NetworkHookTag(f func(*network.Driver) error) uint64 {
	if f == nil {
		return 0
	}
	if reflect.ValueOf(f).Pointer() != c19NetworkHookPtr {
		return c19PlatformTag
	}
	var te c19TagErr
	if errors.As(f(nil), &te) {
		return te.n
	}
	return 98
}

// logger tag = number of loggers of the instance (0 = nil instance, 1 is what WithDefaultLogger makes)
func c19Logger(n uint64) *logging.Instance {
	if n == 0 {
		return nil
	}
	opts := []util.Option{logging.WithLevel("critical")}
	for i := uint64(0); i < n; i++ {
		opts = append(opts, logging.WithLogger(func(...interface{}) {}))
	}
	l, _ := logging.NewInstance(opts...)
	return l
}

type c19Writer struct{ n uint64 }

func (w *c19Writer) Write(b []byte) (int, error) { return len(b), nil }

type c19Impl struct{ n uint64 }

func (*c19Impl) Open(*transport.Args) error { return errors.New("c19: never opened") }
func (*c19Impl) Close() error               { return nil }
func (*c19Impl) IsAlive() bool              { return false }
func (*c19Impl) Read(int) ([]byte, error)   { return nil, io.EOF }
func (*c19Impl) Write([]byte) error         { return nil }

func c19PrivMap(patterns []string) map[string]*network.PrivilegeLevel {
	m := map[string]*network.PrivilegeLevel{}
	for i, p := range patterns {
		name := fmt.Sprintf("p%d", i)
		m[name] = &network.PrivilegeLevel{Name: name, Pattern: p}
	}
	return m
}

// ---------------------------------------------------------------- environment (ssh files)

var c19FilesOnce sync.Once

func c19File(i int) string { return filepath.Join(workDir(), fmt.Sprintf("c19-sshfile-%d", i)) }

const c19Missing = "/nonexistent-c19/ssh_config"

func c19EnsureFiles() {
	c19FilesOnce.Do(func() {
		for i := 1; i <= 2; i++ {
			_ = os.WriteFile(c19File(i), []byte("# c19\n"), 0o644)
		}
	})
}

func c19Exists(p string) bool { _, err := os.Stat(p); return err == nil }

// what the *System options should resolve to here: ~/.ssh/<a>, else /etc/ssh/<b>, else nothing
func c19SystemFile(home, etc string) (string, bool) {
	if h, err := os.UserHomeDir(); err == nil {
		p := h + "/.ssh/" + home
		if c19Exists(p) {
			return p, true
		}
	}
	if c19Exists("/etc/ssh/" + etc) {
		return "/etc/ssh/" + etc, true
	}
	return "", false
}

func c19Resolvable(name string) bool {
	switch name {
	case "WithSSHConfigFileSystem":
		_, ok := c19SystemFile("config", "ssh_config")
		return ok
	case "WithSSHKnownHostsFileSystem":
		_, ok := c19SystemFile("known_hosts", "ssh_known_hosts")
		return ok
	}
	return true
}

// ---------------------------------------------------------------- option table

// target objects
const (
	oGeneric  = "generic"
	oArgs     = "args"
	oSSH      = "sshargs"
	oSystem   = "system"
	oStandard = "standard"
	oFile     = "file"
	oChannel  = "channel"
	oNetwork  = "network"
	oNetconf  = "netconf"
)

type c19Eff struct {
	Field  string
	Val    string   // rendered value (overwrite)
	Append []string // additive
	IsApp  bool
}

// everything the harness knows about one option instance: the real closure, its model encoding,
// and — written from the option's documentation, independently of the model — what it names.
type c19Info struct {
	Opt     util.Option
	Enc     string
	Target  string
	Effects []c19Eff
	Invalid string // "" | "pre" (rejected wherever it lands) | "post" (rejected on its target)
}

func hxs(s string) string { return hx([]byte(s)) }
func dec(n uint64) string { return fmt.Sprintf("%d", n) }

func c19ValidTransport(s string) bool {
	return s == "system" || s == "standard" || s == "telnet" || s == "file"
}

func c19Describe(o c19Opt) c19Info {
	set := func(f, v string) []c19Eff { return []c19Eff{{Field: f, Val: v}} }
	str := func(target, field string, mk func(string) util.Option) c19Info {
		return c19Info{Opt: mk(o.S), Enc: o.Name + "=" + hxs(o.S), Target: target, Effects: set(field, hxs(o.S))}
	}
	num := func(target, field string, mk func(int) util.Option) c19Info {
		return c19Info{Opt: mk(int(o.N)), Enc: o.Name + "=" + dec(o.N), Target: target, Effects: set(field, dec(o.N))}
	}
	dur := func(target, field string, mk func(time.Duration) util.Option) c19Info {
		return c19Info{Opt: mk(time.Duration(o.N)), Enc: o.Name + "=" + dec(o.N), Target: target, Effects: set(field, dec(o.N))}
	}
	rx := func(field string, mk func(*regexp.Regexp) util.Option) c19Info {
		return c19Info{Opt: mk(regexp.MustCompile(o.S)), Enc: o.Name + "=" + hxs(o.S), Target: oChannel, Effects: set(field, hxs(o.S))}
	}
	lst := func(target, field string, mk func([]string) util.Option) c19Info {
		return c19Info{Opt: mk(o.L), Enc: o.Name + "=" + hxStrs(o.L), Target: target, Effects: set(field, hxStrs(o.L))}
	}
	flag := func(target, field, v string, mk func() util.Option) c19Info {
		return c19Info{Opt: mk(), Enc: o.Name, Target: target, Effects: set(field, v)}
	}
	switch o.Name {
	case "WithAuthUsername":
		return str(oArgs, "User", options.WithAuthUsername)
	case "WithAuthPassword":
		return str(oArgs, "Password", options.WithAuthPassword)
	case "WithAuthSecondary":
		return str(oNetwork, "AuthSecondary", options.WithAuthSecondary)
	case "WithAuthPassphrase":
		return str(oSSH, "PrivateKeyPassPhrase", options.WithAuthPassphrase)
	case "WithAuthBypass":
		return flag(oChannel, "AuthBypass", "1", options.WithAuthBypass)
	case "WithPromptSearchDepth":
		return num(oChannel, "PromptSearchDepth", options.WithPromptSearchDepth)
	case "WithPromptPattern":
		return rx("PromptPattern", options.WithPromptPattern)
	case "WithUsernamePattern":
		return rx("UsernamePattern", options.WithUsernamePattern)
	case "WithPasswordPattern":
		return rx("PasswordPattern", options.WithPasswordPattern)
	case "WithPassphrasePattern":
		return rx("PassphrasePattern", options.WithPassphrasePattern)
	case "WithReturnChar":
		return str(oChannel, "ReturnChar", options.WithReturnChar)
	case "WithTimeoutOps":
		return dur(oChannel, "TimeoutOps", options.WithTimeoutOps)
	case "WithReadDelay":
		return dur(oChannel, "ReadDelay", options.WithReadDelay)
	case "WithChannelLog":
		var w io.Writer
		if o.N != 0 {
			w = &c19Writer{o.N}
		}
		return c19Info{Opt: options.WithChannelLog(w), Enc: o.Name + "=" + dec(o.N), Target: oChannel, Effects: set("ChannelLog", dec(o.N))}
	case "WithTransportType":
		i := str(oGeneric, "TransportType", options.WithTransportType)
		if !c19ValidTransport(o.S) {
			i.Invalid = "post"
		}
		return i
	case "WithFailedWhenContains":
		return lst(oGeneric, "FailedWhenContains", options.WithFailedWhenContains)
	case "WithOnOpen":
		return c19Info{Opt: options.WithOnOpen(c19GenericHook(o.N)), Enc: o.Name + "=" + dec(o.N), Target: oGeneric, Effects: set("OnOpen", dec(o.N))}
	case "WithOnClose":
		return c19Info{Opt: options.WithOnClose(c19GenericHook(o.N)), Enc: o.Name + "=" + dec(o.N), Target: oGeneric, Effects: set("OnClose", dec(o.N))}
	case "WithLogger":
		return c19Info{Opt: options.WithLogger(c19Logger(o.N)), Enc: o.Name + "=" + dec(o.N), Target: oGeneric, Effects: set("Logger", dec(o.N))}
	case "WithDefaultLogger":
		return flag(oGeneric, "Logger", "1", options.WithDefaultLogger)
	case "WithNetconfPreferredVersion":
		i := str(oNetconf, "PreferredVersion", options.WithNetconfPreferredVersion)
		if o.S != "1.0" && o.S != "1.1" {
			i.Invalid = "pre"
		}
		return i
	case "WithNetconfForceSelfClosingTags":
		return flag(oNetconf, "ForceSelfClosingTags", "1", options.WithNetconfForceSelfClosingTags)
	case "WithNetconfExcludeHeader":
		return flag(oNetconf, "ExcludeHeader", "1", options.WithNetconfExcludeHeader)
	case "WithNetworkOnOpen":
		return c19Info{Opt: options.WithNetworkOnOpen(c19NetworkHook(o.N)), Enc: o.Name + "=" + dec(o.N), Target: oNetwork, Effects: set("NetworkOnOpen", dec(o.N))}
	case "WithNetworkOnClose":
		return c19Info{Opt: options.WithNetworkOnClose(c19NetworkHook(o.N)), Enc: o.Name + "=" + dec(o.N), Target: oNetwork, Effects: set("NetworkOnClose", dec(o.N))}
	case "WithPrivilegeLevels":
		return c19Info{Opt: options.WithPrivilegeLevels(c19PrivMap(o.L)), Enc: o.Name + "=" + hxStrs(o.L), Target: oNetwork, Effects: set("PrivilegeLevels", hxStrs(o.L))}
	case "WithDefaultDesiredPriv":
		return str(oNetwork, "DefaultDesiredPriv", options.WithDefaultDesiredPriv)
	case "WithCustomTransport":
		var impl transport.Implementation
		if o.N != 0 {
			impl = &c19Impl{o.N}
		}
		return c19Info{Opt: options.WithCustomTransport(impl), Enc: o.Name + "=" + dec(o.N), Target: oArgs, Effects: set("UserImplementation", dec(o.N))}
	case "WithTransportReadSize":
		return num(oArgs, "ReadSize", options.WithTransportReadSize)
	case "WithPort":
		return num(oArgs, "Port", options.WithPort)
	case "WithTermHeight":
		return num(oArgs, "TermHeight", options.WithTermHeight)
	case "WithTermWidth":
		return num(oArgs, "TermWidth", options.WithTermWidth)
	case "WithTimeoutSocket":
		return dur(oArgs, "TimeoutSocket", options.WithTimeoutSocket)
	case "WithFileTransportFile":
		return str(oFile, "File", options.WithFileTransportFile)
	case "WithAuthPrivateKey":
		return c19Info{Opt: options.WithAuthPrivateKey(o.S, o.S2), Enc: o.Name + "=" + hxs(o.S) + "/" + hxs(o.S2), Target: oSSH,
			Effects: []c19Eff{{Field: "PrivateKeyPath", Val: hxs(o.S)}, {Field: "PrivateKeyPassPhrase", Val: hxs(o.S2)}}}
	case "WithAuthNoStrictKey":
		return flag(oSSH, "StrictKey", "0", options.WithAuthNoStrictKey)
	case "WithSSHConfigFile", "WithSSHKnownHostsFile":
		field, mk := "ConfigFile", options.WithSSHConfigFile
		if o.Name == "WithSSHKnownHostsFile" {
			field, mk = "KnownHostsFile", options.WithSSHKnownHostsFile
		}
		found := c19Exists(o.S)
		i := c19Info{Opt: mk(o.S), Enc: o.Name + "=" + hxs(o.S) + "/" + b2i(found), Target: oSSH, Effects: set(field, hxs(o.S))}
		if !found {
			i.Invalid = "post"
		}
		return i
	case "WithSSHConfigFileSystem", "WithSSHKnownHostsFileSystem":
		field, mk := "ConfigFile", options.WithSSHConfigFileSystem
		p, ok := c19SystemFile("config", "ssh_config")
		if o.Name == "WithSSHKnownHostsFileSystem" {
			field, mk = "KnownHostsFile", options.WithSSHKnownHostsFileSystem
			p, ok = c19SystemFile("known_hosts", "ssh_known_hosts")
		}
		if !ok {
			return c19Info{Opt: mk(), Enc: o.Name + "=-", Target: oSSH, Invalid: "post"}
		}
		return c19Info{Opt: mk(), Enc: o.Name + "=" + hxs(p), Target: oSSH, Effects: set(field, hxs(p))}
	case "WithStandardTransportExtraCiphers":
		return lst(oStandard, "ExtraCiphers", options.WithStandardTransportExtraCiphers)
	case "WithStandardTransportExtraKexs":
		return lst(oStandard, "ExtraKexs", options.WithStandardTransportExtraKexs)
	case "WithSystemTransportOpenBin":
		return str(oSystem, "OpenBin", options.WithSystemTransportOpenBin)
	case "WithSystemTransportOpenArgs":
		return c19Info{Opt: options.WithSystemTransportOpenArgs(o.L), Enc: o.Name + "=" + hxStrs(o.L), Target: oSystem,
			Effects: []c19Eff{{Field: "ExtraArgs", Append: o.L, IsApp: true}}}
	case "WithSystemTransportOpenArgsOverride":
		return lst(oSystem, "OpenArgs", options.WithSystemTransportOpenArgsOverride)
	}
	panic("c19: unknown option " + o.Name)
}

var c19Names = []string{
	"WithAuthUsername", "WithAuthPassword", "WithAuthSecondary", "WithAuthPassphrase", "WithAuthBypass",
	"WithPromptSearchDepth", "WithPromptPattern", "WithUsernamePattern", "WithPasswordPattern",
	"WithPassphrasePattern", "WithReturnChar", "WithTimeoutOps", "WithReadDelay", "WithChannelLog",
	"WithTransportType", "WithFailedWhenContains", "WithOnOpen", "WithOnClose", "WithLogger",
	"WithDefaultLogger", "WithNetconfPreferredVersion", "WithNetconfForceSelfClosingTags",
	"WithNetconfExcludeHeader", "WithNetworkOnOpen", "WithNetworkOnClose", "WithPrivilegeLevels",
	"WithDefaultDesiredPriv", "WithCustomTransport", "WithTransportReadSize", "WithPort",
	"WithTermHeight", "WithTermWidth", "WithTimeoutSocket", "WithFileTransportFile",
	"WithAuthPrivateKey", "WithAuthNoStrictKey", "WithSSHConfigFile", "WithSSHConfigFileSystem",
	"WithSSHKnownHostsFile", "WithSSHKnownHostsFileSystem", "WithStandardTransportExtraCiphers",
	"WithStandardTransportExtraKexs", "WithSystemTransportOpenBin", "WithSystemTransportOpenArgs",
	"WithSystemTransportOpenArgsOverride",
}

// ---------------------------------------------------------------- generators

var (
	c19Strs     = []string{"", "admin", "s3cr3t", "user name", "p@ss/w:rd,=", "ünï", "x"}
	c19Ints     = []uint64{0, 1, 22, 23, 80, 255, 830, 2022, 8192, 65535, 100000}
	c19Durs     = []uint64{0, 250000, 1000000, 5000000000, 90000000000, 3600000000000}
	c19Patterns = []string{`(?im)^[a-z]{1,32}[#>]\s*$`, `^login:\s?$`, `(?i)password:`, `router\d+#`, `\$ $`, `(?im)^\S+\(config\)#$`}
	c19Returns  = []string{"\n", "\r\n", "\r", ""}
	c19TTypes   = []string{"system", "standard", "telnet", "file", "system", "standard"}
	c19BadTT    = []string{"ssh2", "", "SYSTEM", "netconf"}
	c19Vers     = []string{"1.0", "1.1"}
	c19BadVers  = []string{"1.2", "", "1"}
	c19Lists    = [][]string{nil, {"% Invalid"}, {"error:", "denied"}, {"-o", "Foo=bar"}, {"-v"}, {"aes128-cbc", "3des-cbc"}, {"-F", "/dev/null", "-4"}}
	c19Bins     = []string{"ssh", "/usr/bin/ssh", "docker", ""}
	c19PrivPats = []string{`(?im)^\S+>$`, `(?im)^\S+#$`, `(?im)^\S+\(config\)#$`, `^shell\$ $`}
)

func c19PickList(r *sim.Rng) []string {
	return append([]string(nil), c19Lists[r.Intn(len(c19Lists))]...)
}

func c19GenPrivs(r *sim.Rng, allowEmpty bool) []string {
	n := 1 + r.Intn(3)
	if allowEmpty && r.Chance(1, 8) {
		n = 0
	}
	perm := []int{0, 1, 2, 3}
	for i := 3; i > 0; i-- {
		j := r.Intn(i + 1)
		perm[i], perm[j] = perm[j], perm[i]
	}
	var l []string
	for i := 0; i < n; i++ {
		l = append(l, c19PrivPats[perm[i]])
	}
	sort.Strings(l)
	return l
}

// one option with a random value; badRate = "1 in badRate" values is invalid where the option
// validates (0 = never)
func c19GenOpt(r *sim.Rng, name string, badRate int) c19Opt {
	bad := badRate > 0 && r.Chance(1, badRate)
	o := c19Opt{Name: name}
	switch name {
	case "WithAuthUsername", "WithAuthPassword", "WithAuthSecondary", "WithAuthPassphrase", "WithFileTransportFile":
		o.S = r.Pick(c19Strs)
	case "WithDefaultDesiredPriv":
		o.S = r.Pick([]string{"p0", "p1", "exec", "p0", ""})
	case "WithPromptSearchDepth", "WithTransportReadSize", "WithPort", "WithTermHeight", "WithTermWidth":
		o.N = c19Ints[r.Intn(len(c19Ints))]
	case "WithPromptPattern", "WithUsernamePattern", "WithPasswordPattern", "WithPassphrasePattern":
		o.S = r.Pick(c19Patterns)
	case "WithReturnChar":
		o.S = r.Pick(c19Returns)
	case "WithTimeoutOps", "WithReadDelay", "WithTimeoutSocket":
		o.N = c19Durs[r.Intn(len(c19Durs))]
	case "WithChannelLog", "WithOnOpen", "WithOnClose", "WithNetworkOnOpen", "WithNetworkOnClose":
		o.N = uint64(r.Intn(5))
	case "WithCustomTransport":
		o.N = uint64(r.Intn(4))
	case "WithLogger":
		o.N = []uint64{0, 2, 3, 4, 5}[r.Intn(5)]
	case "WithTransportType":
		if bad {
			o.S = r.Pick(c19BadTT)
		} else {
			o.S = r.Pick(c19TTypes)
		}
	case "WithNetconfPreferredVersion":
		if bad {
			o.S = r.Pick(c19BadVers)
		} else {
			o.S = r.Pick(c19Vers)
		}
	case "WithFailedWhenContains", "WithStandardTransportExtraCiphers", "WithStandardTransportExtraKexs",
		"WithSystemTransportOpenArgs", "WithSystemTransportOpenArgsOverride":
		o.L = c19PickList(r)
	case "WithPrivilegeLevels":
		o.L = c19GenPrivs(r, true)
	case "WithAuthPrivateKey":
		o.S, o.S2 = r.Pick(c19Strs), r.Pick(c19Strs)
	case "WithSSHConfigFile", "WithSSHKnownHostsFile":
		if bad {
			o.S = c19Missing
		} else {
			o.S = c19File(1 + r.Intn(2))
		}
	case "WithSystemTransportOpenBin":
		o.S = r.Pick(c19Bins)
	}
	return o
}

func c19GenOpts(r *sim.Rng, kind string, badRate int) []c19Opt {
	n := r.Intn(14)
	var l []c19Opt
	for i := 0; i < n; i++ {
		name := c19Names[r.Intn(len(c19Names))]
		if len(l) > 0 && r.Chance(1, 5) { // duplicates: the same setting named again
			name = l[r.Intn(len(l))].Name
		}
		if badRate == 0 && !c19Resolvable(name) {
			continue // a *System file option that cannot succeed on this machine
		}
		l = append(l, c19GenOpt(r, name, badRate))
	}
	if kind == "n" && r.Chance(7, 8) { // a network driver needs these two to be constructible at all
		pl := c19Opt{Name: "WithPrivilegeLevels", L: c19GenPrivs(r, false)}
		dp := c19Opt{Name: "WithDefaultDesiredPriv", S: "p0"}
		l = c19Insert(r, c19Insert(r, l, pl), dp)
	}
	return l
}

func c19Insert(r *sim.Rng, l []c19Opt, o c19Opt) []c19Opt {
	at := r.Intn(len(l) + 1)
	l = append(l, c19Opt{})
	copy(l[at+1:], l[at:])
	l[at] = o
	return l
}

var c19YNames = []string{"port", "auth-bypass", "auth-strict-key", "prompt-pattern", "username-pattern",
	"password-pattern", "passphrase-pattern", "return-char", "read-delay", "timeout-ops",
	"transport-type", "read-size", "transport-pty-height", "transport-pty-width", "transport-system-open-args"}

func c19GenYOpt(r *sim.Rng, name string) c19YOpt {
	y := c19YOpt{Name: name}
	switch name {
	case "port", "read-size", "transport-pty-height", "transport-pty-width":
		y.Kind, y.N = "i", c19Ints[r.Intn(len(c19Ints))]
	case "auth-bypass", "auth-strict-key":
		y.Kind, y.B = "b", r.Bool()
	case "prompt-pattern", "username-pattern", "password-pattern", "passphrase-pattern":
		y.Kind, y.S = "s", r.Pick(c19Patterns)
	case "return-char":
		y.Kind, y.S = "s", r.Pick(c19Returns)
	case "transport-type":
		y.Kind, y.S = "s", r.Pick(c19TTypes)
	case "read-delay", "timeout-ops":
		y.Kind, y.N = "f", uint64(r.Intn(40)) // quarters of a second
	case "transport-system-open-args":
		y.Kind, y.L = "q", c19PickList(r)
	}
	return y
}

// the user option that names the same setting as a platform option
var c19YUser = map[string]string{
	"port": "WithPort", "auth-bypass": "WithAuthBypass", "auth-strict-key": "WithAuthNoStrictKey",
	"prompt-pattern": "WithPromptPattern", "username-pattern": "WithUsernamePattern",
	"password-pattern": "WithPasswordPattern", "passphrase-pattern": "WithPassphrasePattern",
	"return-char": "WithReturnChar", "read-delay": "WithReadDelay", "timeout-ops": "WithTimeoutOps",
	"transport-type": "WithTransportType", "read-size": "WithTransportReadSize",
	"transport-pty-height": "WithTermHeight", "transport-pty-width": "WithTermWidth",
	"transport-system-open-args": "WithSystemTransportOpenArgs",
}

func c19GenPlat(r *sim.Rng, kind, class string) (*c19Plat, []c19Opt) {
	p := &c19Plat{Privs: c19GenPrivs(r, false), DefPriv: "p0"}
	if r.Bool() {
		p.FailedWhen = c19PickList(r)
	}
	p.OnOpen, p.OnClose, p.NetOnOpen, p.NetOnClose = r.Bool(), r.Bool(), r.Bool(), r.Bool()
	var user []c19Opt
	switch class {
	case "platform-all": // every recognised name, documented type
		for _, n := range c19YNames {
			p.Options = append(p.Options, c19GenYOpt(r, n))
		}
	case "platform-illtyped": // outside the quantifier: one value of another YAML type
		n := c19YNames[r.Intn(len(c19YNames))]
		y := c19GenYOpt(r, n)
		switch y.Kind {
		case "q":
			if r.Bool() {
				y.Kind = "m" // a sequence with a non-string element
			} else {
				y.Kind, y.S = "s", "-v"
			}
		case "i":
			y.Kind, y.S = "s", "22"
		case "f":
			y.Kind = "i"
		case "s":
			y.Kind, y.N = "i", 5
		case "b":
			y.Kind = "n" // accepted: the value is not looked at
		}
		p.Options = append(p.Options, y)
	default: // random subset, duplicates allowed
		n := r.Intn(10)
		for i := 0; i < n; i++ {
			p.Options = append(p.Options, c19GenYOpt(r, c19YNames[r.Intn(len(c19YNames))]))
		}
	}
	// user options: the same settings as the platform's (to see who wins) plus random others
	for _, y := range p.Options {
		if r.Chance(1, 2) {
			user = append(user, c19GenOpt(r, c19YUser[y.Name], 0))
		}
	}
	if r.Chance(1, 2) {
		user = append(user, c19GenOpt(r, r.Pick([]string{"WithFailedWhenContains", "WithOnOpen", "WithOnClose",
			"WithNetworkOnOpen", "WithDefaultDesiredPriv", "WithPrivilegeLevels", "WithAuthUsername", "WithLogger"}), 0))
	}
	for i := len(user) - 1; i > 0; i-- {
		j := r.Intn(i + 1)
		user[i], user[j] = user[j], user[i]
	}
	return p, user
}

func genC19(r *sim.Rng, i int) *c19Case {
	c := &c19Case{}
	switch i % 10 {
	case 0, 1:
		c.Kind, c.Class = "g", "direct-valid"
	case 2, 3:
		c.Kind, c.Class = "n", "direct-valid"
	case 4, 5:
		c.Kind, c.Class = "c", "direct-valid"
	case 6:
		c.Kind, c.Class = r.Pick([]string{"g", "n", "c"}), "direct-invalid"
	case 7:
		c.Kind, c.Class = r.Pick([]string{"g", "n"}), "platform"
	case 8:
		c.Kind, c.Class = r.Pick([]string{"g", "n"}), "platform"
		if r.Chance(1, 4) {
			c.Class = "platform-illtyped"
		}
	case 9:
		c.Kind, c.Class = r.Pick([]string{"g", "n"}), "platform-all"
	}
	switch c.Class {
	case "direct-valid":
		c.Opts = c19GenOpts(r, c.Kind, 0)
	case "direct-invalid":
		c.Opts = c19GenOpts(r, c.Kind, 2)
	default:
		c.Plat, c.Opts = c19GenPlat(r, c.Kind, c.Class)
	}
	return c
}

func runC19(seed uint64, n int, tier string) {
	c19EnsureFiles()
	rng := sim.NewRng(seed)
	cases := make([]*c19Case, n)
	for i := range cases {
		cases[i] = genC19(rng.Fork(), i)
	}
	if tier == "thorough" { // plus every constructor alone, valid and invalid, through every kind
		for _, k := range []string{"g", "n", "c"} {
			for _, name := range c19Names {
				for _, bad := range []int{0, 1} {
					r := rng.Fork()
					c := &c19Case{Kind: k, Class: "single", Opts: []c19Opt{c19GenOpt(r, name, bad)}}
					if k == "n" {
						c.Opts = append(c.Opts, c19Opt{Name: "WithPrivilegeLevels", L: c19GenPrivs(r, false)},
							c19Opt{Name: "WithDefaultDesiredPriv", S: "p0"})
					}
					cases = append(cases, c)
				}
			}
		}
		n = len(cases)
	}
	// the user's own implementation is one of the library's transports: the options that name its
	// settings take effect on it, through every constructor and at every position
	var cis []*c19CustomImpl
	for _, k := range []string{"g", "n", "c"} {
		for _, impl := range []string{"file", "system"} {
			for pos := 0; pos < 3; pos++ {
				cis = append(cis, &c19CustomImpl{Kind: k, Impl: impl, Pos: pos})
			}
		}
	}
	// one option VALUE used for several drivers (common options once, per-host options on top): it
	// takes effect on each driver's own setting and on nothing else -- not on the other driver, not
	// on the caller's slice
	var shs []*c19Shared
	for _, k := range []string{"g", "n", "c"} {
		for _, spare := range []int{0, 6} {
			for _, first := range []bool{true, false} {
				shs = append(shs, &c19Shared{Kind: k, Spare: spare, First: first})
			}
		}
	}
	parallel(n+len(cis)+len(shs), func(i int) {
		switch {
		case i < n:
			runC19Case(caseID("C19", seed, i), cases[i])
		case i < n+len(cis):
			runC19CustomImpl(caseID("C19", seed, i), cis[i-n])
		default:
			runC19Shared(caseID("C19", seed, i), shs[i-n-len(cis)])
		}
	})
}

// c19Shared: the additive extra-args option built ONCE from a caller's slice (with or without spare
// capacity) and given to two drivers, each with a further extra-args option of its own.
type c19Shared struct {
	Kind  string `json:"kind"`  // g | n | c
	Spare int    `json:"spare"` // spare capacity of the caller's slice
	First bool   `json:"first"` // the shared option is the first extra-args option each driver gets
}

func runC19Shared(id string, c *c19Shared) {
	defer watchCase(id, map[string]interface{}{"shared": c})()
	cs := &Case{ID: id, Kind: "shared/" + c.Kind, HypOK: true, Nontrivial: true, Replay: map[string]interface{}{"shared": c}}
	common := make([]string, 0, 2+c.Spare)
	common = append(common, "-o", "ServerAliveInterval=5")
	shared := options.WithSystemTransportOpenArgs(common)
	build := func(sy *transport.System, own []string) error {
		opts := []util.Option{options.WithCustomTransport(sy)}
		if c.First {
			opts = append(opts, shared, options.WithSystemTransportOpenArgs(own))
		} else {
			opts = append(opts, options.WithSystemTransportOpenArgs(own), shared)
		}
		opts = append(opts, options.WithPort(2022))
		var err error
		switch c.Kind {
		case "g":
			_, err = generic.NewDriver("sim", opts...)
		case "n":
			opts = append(opts, options.WithPrivilegeLevels(c19PrivMap([]string{"^a#$"})), options.WithDefaultDesiredPriv("p0"))
			_, err = network.NewDriver("sim", opts...)
		default:
			_, err = netconf.NewDriver("sim", opts...)
		}
		return err
	}
	sy1, sy2 := &transport.System{}, &transport.System{}
	own1, own2 := []string{"-J", "jump-one"}, []string{"-J", "jump-two"}
	if err := build(sy1, own1); err != nil {
		cs.Oracle, cs.Sig = "constructor failed: "+err.Error(), "C19:shared-error"
		emit(cs)
		return
	}
	if err := build(sy2, own2); err != nil {
		cs.Oracle, cs.Sig = "constructor failed: "+err.Error(), "C19:shared-error"
		emit(cs)
		return
	}
	want := func(own []string) []string {
		if c.First {
			return append([]string{"-o", "ServerAliveInterval=5"}, own...)
		}
		return append(append([]string{}, own...), "-o", "ServerAliveInterval=5")
	}
	eq := func(a, b []string) bool {
		return strings.Join(a, "\x00") == strings.Join(b, "\x00") && len(a) == len(b)
	}
	cs.Obs = fmt.Sprintf("d1=%v d2=%v", sy1.ExtraArgs, sy2.ExtraArgs)
	switch {
	case !eq(sy1.ExtraArgs, want(own1)):
		cs.Oracle = fmt.Sprintf("after a second driver was built with the same option value, the first driver's extra arguments are %v, want %v", sy1.ExtraArgs, want(own1))
		cs.Sig = "C19:shared-option-crosstalk"
	case !eq(sy2.ExtraArgs, want(own2)):
		cs.Oracle = fmt.Sprintf("the second driver's extra arguments are %v, want %v", sy2.ExtraArgs, want(own2))
		cs.Sig = "C19:shared-option-crosstalk"
	case !eq(common[:cap(common)], append([]string{"-o", "ServerAliveInterval=5"}, make([]string, c.Spare)...)):
		cs.Oracle = fmt.Sprintf("the caller's slice was written to: %q", common[:cap(common)])
		cs.Sig = "C19:caller-slice-written"
	}
	if cs.Oracle == "" {
		// the caller edits its slice afterwards: an already-built driver keeps what it was given
		common[1] = "ServerAliveInterval=999"
		if !eq(sy1.ExtraArgs, want(own1)) {
			cs.Oracle = fmt.Sprintf("editing the caller's slice after the driver was built changed the driver's extra arguments to %v", sy1.ExtraArgs)
			cs.Sig = "C19:caller-slice-aliased"
		}
	}
	emit(cs)
}

// c19CustomImpl: WithCustomTransport(impl) where impl is a *transport.File / *transport.System the
// user built, together with the options that name that object's settings (oracle only: the model's
// user implementation is an opaque object).
type c19CustomImpl struct {
	Kind string `json:"kind"` // g | n | c
	Impl string `json:"impl"` // file | system
	Pos  int    `json:"pos"`  // 0: the setting's option first, 1: right after WithCustomTransport, 2: last
}

func runC19CustomImpl(id string, c *c19CustomImpl) {
	defer watchCase(id, map[string]interface{}{"custom_impl": c})()
	cs := &Case{ID: id, Kind: "custom-impl/" + c.Kind + "/" + c.Impl, HypOK: true, Nontrivial: true, Replay: map[string]interface{}{"custom_impl": c}}
	var impl transport.Implementation
	var own []util.Option
	f := &transport.File{}
	sy := &transport.System{}
	if c.Impl == "file" {
		impl = f
		own = []util.Option{options.WithFileTransportFile("/nonexistent/c19-session")}
	} else {
		impl = sy
		own = []util.Option{options.WithSystemTransportOpenBin("/opt/c19/ssh"), options.WithSystemTransportOpenArgs([]string{"-v", "-4"})}
	}
	others := []util.Option{options.WithPort(2022), options.WithAuthUsername("c19"), options.WithTimeoutOps(3 * time.Second)}
	custom := options.WithCustomTransport(impl)
	var opts []util.Option
	switch c.Pos {
	case 0:
		opts = append(append(append(opts, own...), custom), others...)
	case 1:
		opts = append(append(append(opts, custom), own...), others...)
	default:
		opts = append(append(append(opts, others...), custom), own...)
	}
	var err error
	switch c.Kind {
	case "g":
		_, err = generic.NewDriver("sim", opts...)
	case "n":
		opts = append(opts, options.WithPrivilegeLevels(c19PrivMap([]string{"^a#$"})), options.WithDefaultDesiredPriv("p0"))
		_, err = network.NewDriver("sim", opts...)
	default:
		_, err = netconf.NewDriver("sim", opts...)
	}
	if err != nil {
		cs.Obs = "error " + errClass(err)
		cs.Oracle = "constructor failed: " + err.Error()
		cs.Sig = "C19:custom-impl-error"
		emit(cs)
		return
	}
	if c.Impl == "file" {
		cs.Obs = "F=" + f.F
		if f.F != "/nonexistent/c19-session" {
			cs.Oracle = fmt.Sprintf("WithFileTransportFile given next to WithCustomTransport(*transport.File): the file transport's F is %q", f.F)
			cs.Sig = "C19:custom-impl-option-lost"
		}
	} else {
		cs.Obs = fmt.Sprintf("OpenBin=%s ExtraArgs=%v", sy.OpenBin, sy.ExtraArgs)
		if sy.OpenBin != "/opt/c19/ssh" || len(sy.ExtraArgs) != 2 || sy.ExtraArgs[0] != "-v" || sy.ExtraArgs[1] != "-4" {
			cs.Oracle = fmt.Sprintf("WithSystemTransportOpenBin/OpenArgs given next to WithCustomTransport(*transport.System): OpenBin %q ExtraArgs %v", sy.OpenBin, sy.ExtraArgs)
			cs.Sig = "C19:custom-impl-option-lost"
		}
	}
	emit(cs)
}

// ---------------------------------------------------------------- platform YAML

func yq(s string) string {
	var sb strings.Builder
	sb.WriteByte('"')
	for _, c := range []byte(s) {
		switch {
		case c == '"' || c == '\\':
			sb.WriteByte('\\')
			sb.WriteByte(c)
		case c == '\n':
			sb.WriteString(`\n`)
		case c == '\r':
			sb.WriteString(`\r`)
		case c == '\t':
			sb.WriteString(`\t`)
		case c < 0x20:
			fmt.Fprintf(&sb, `\x%02x`, c)
		default:
			sb.WriteByte(c)
		}
	}
	sb.WriteByte('"')
	return sb.String()
}

func c19YAML(kind string, p *c19Plat) string {
	var sb strings.Builder
	sb.WriteString("---\nplatform-type: 'verif_c19'\ndefault:\n")
	if kind == "n" {
		sb.WriteString("  driver-type: 'network'\n")
	} else {
		sb.WriteString("  driver-type: 'generic'\n")
	}
	if len(p.Privs) > 0 {
		sb.WriteString("  privilege-levels:\n")
		for i, pat := range p.Privs {
			fmt.Fprintf(&sb, "    p%d:\n      name: 'p%d'\n      pattern: %s\n      previous-priv:\n      escalate-auth: false\n", i, i, yq(pat))
		}
	}
	fmt.Fprintf(&sb, "  default-desired-privilege-level: %s\n", yq(p.DefPriv))
	if len(p.FailedWhen) > 0 {
		sb.WriteString("  failed-when-contains:\n")
		for _, s := range p.FailedWhen {
			fmt.Fprintf(&sb, "    - %s\n", yq(s))
		}
	}
	onx := func(key string, on bool) {
		if on {
			fmt.Fprintf(&sb, "  %s:\n    - operation: 'channel.return'\n", key)
		}
	}
	onx("on-open", p.OnOpen)
	onx("on-close", p.OnClose)
	onx("network-on-open", p.NetOnOpen)
	onx("network-on-close", p.NetOnClose)
	if len(p.Options) > 0 {
		sb.WriteString("  options:\n")
		for _, y := range p.Options {
			fmt.Fprintf(&sb, "    - option: %s\n", y.Name)
			switch y.Kind {
			case "i":
				fmt.Fprintf(&sb, "      value: %d\n", y.N)
			case "f":
				fmt.Fprintf(&sb, "      value: %d.%02d\n", y.N/4, (y.N%4)*25)
			case "s":
				fmt.Fprintf(&sb, "      value: %s\n", yq(y.S))
			case "b":
				fmt.Fprintf(&sb, "      value: %v\n", y.B)
			case "q":
				if len(y.L) == 0 {
					sb.WriteString("      value: []\n")
				} else {
					sb.WriteString("      value:\n")
					for _, s := range y.L {
						fmt.Fprintf(&sb, "        - %s\n", yq(s))
					}
				}
			case "m":
				sb.WriteString("      value:\n        - 1\n        - \"-v\"\n")
			default:
				sb.WriteString("      value:\n")
			}
		}
	}
	return sb.String()
}

func c19EncYOpt(y c19YOpt) string {
	switch y.Kind {
	case "i", "f":
		return y.Name + "=" + y.Kind + dec(y.N)
	case "s":
		return y.Name + "=s" + hxs(y.S)
	case "b":
		return y.Name + "=b" + b2i(y.B)
	case "q":
		return y.Name + "=q" + hxStrs(y.L)
	case "m":
		return y.Name + "=m"
	}
	return y.Name + "=n"
}

// the options a platform definition stands for, per its documentation (every recognised option
// with a value of the documented type takes effect); ok=false: a value of another type
func c19PlatOpts(p *c19Plat) (l []c19Opt, typed bool) {
	typed = true
	if len(p.FailedWhen) > 0 {
		l = append(l, c19Opt{Name: "WithFailedWhenContains", L: p.FailedWhen})
	}
	if p.OnOpen {
		l = append(l, c19Opt{Name: "WithOnOpen", N: c19PlatformTag})
	}
	if p.OnClose {
		l = append(l, c19Opt{Name: "WithOnClose", N: c19PlatformTag})
	}
	l = append(l, c19Opt{Name: "WithPrivilegeLevels", L: p.Privs}, c19Opt{Name: "WithDefaultDesiredPriv", S: p.DefPriv})
	if p.NetOnOpen {
		l = append(l, c19Opt{Name: "WithNetworkOnOpen", N: c19PlatformTag})
	}
	if p.NetOnClose {
		l = append(l, c19Opt{Name: "WithNetworkOnClose", N: c19PlatformTag})
	}
	want := map[string]string{"port": "i", "read-size": "i", "transport-pty-height": "i", "transport-pty-width": "i",
		"auth-bypass": "b", "auth-strict-key": "b", "prompt-pattern": "s", "username-pattern": "s",
		"password-pattern": "s", "passphrase-pattern": "s", "return-char": "s", "transport-type": "s",
		"read-delay": "f", "timeout-ops": "f", "transport-system-open-args": "q"}
	for _, y := range p.Options {
		if want[y.Name] != y.Kind {
			if want[y.Name] != "b" { // the two flag options do not look at their value
				typed = false
			}
		}
		o := c19Opt{Name: c19YUser[y.Name]}
		switch want[y.Name] {
		case "i":
			o.N = y.N
		case "f":
			o.N = y.N * 250000000
		case "s":
			o.S = y.S
		case "q":
			o.L = y.L
		}
		l = append(l, o)
	}
	return l, typed
}

// ---------------------------------------------------------------- observation

var c19Fields = []string{"Logger", "TransportType", "FailedWhenContains", "OnOpen", "OnClose",
	"Port", "User", "Password", "TimeoutSocket", "ReadSize", "TermHeight", "TermWidth", "UserImplementation",
	"StrictKey", "PrivateKeyPath", "PrivateKeyPassPhrase", "ConfigFile", "KnownHostsFile", "NetconfConnection",
	"OpenBin", "OpenArgs", "ExtraArgs", "ExtraCiphers", "ExtraKexs", "File",
	"TimeoutOps", "ReadDelay", "AuthBypass", "UsernamePattern", "PasswordPattern", "PassphrasePattern",
	"PromptSearchDepth", "PromptPattern", "ReturnChar", "ChannelLog",
	"AuthSecondary", "PrivilegeLevels", "DefaultDesiredPriv", "NetworkOnOpen", "NetworkOnClose",
	"PreferredVersion", "ForceSelfClosingTags", "ExcludeHeader"}

type c19View struct {
	kind   string
	logger *logging.Instance
	ttype  string
	gd     *generic.Driver // nil under netconf (the generic driver is not kept)
	tr     *transport.Transport
	ch     *channel.Channel
	nd     *network.Driver
	nc     *netconf.Driver
}

func c19Dump(v *c19View) map[string]string {
	m := map[string]string{}
	for _, f := range c19Fields {
		m[f] = "-"
	}
	m["Logger"] = dec(uint64(len(v.logger.Loggers)))
	m["TransportType"] = hxs(v.ttype)
	if v.gd != nil {
		m["FailedWhenContains"] = hxStrs(v.gd.FailedWhenContains)
		m["OnOpen"] = dec(c19GenericHookTag(v.gd.OnOpen))
		m["OnClose"] = dec(c19GenericHookTag(v.gd.OnClose))
	}
	a := v.tr.Args
	m["Port"], m["User"], m["Password"] = dec(uint64(a.Port)), hxs(a.User), hxs(a.Password)
	m["TimeoutSocket"], m["ReadSize"] = dec(uint64(a.TimeoutSocket)), dec(uint64(a.ReadSize))
	m["TermHeight"], m["TermWidth"] = dec(uint64(a.TermHeight)), dec(uint64(a.TermWidth))
	m["UserImplementation"] = "0"
	if ui, ok := a.UserImplementation.(*c19Impl); ok && ui != nil {
		m["UserImplementation"] = dec(ui.n)
	} else if a.UserImplementation != nil {
		m["UserImplementation"] = "98"
	}
	var ssh *transport.SSHArgs
	switch t := v.tr.Impl.(type) {
	case *transport.System:
		ssh = t.SSHArgs
		m["OpenBin"], m["OpenArgs"], m["ExtraArgs"] = hxs(t.OpenBin), hxStrs(t.OpenArgs), hxStrs(t.ExtraArgs)
	case *transport.Standard:
		ssh = t.SSHArgs
		m["ExtraCiphers"], m["ExtraKexs"] = hxStrs(t.ExtraCiphers), hxStrs(t.ExtraKexs)
	case *transport.File:
		m["File"] = hxs(t.F)
	}
	if ssh != nil {
		m["StrictKey"], m["NetconfConnection"] = b2i(ssh.StrictKey), b2i(ssh.NetconfConnection)
		m["PrivateKeyPath"], m["PrivateKeyPassPhrase"] = hxs(ssh.PrivateKeyPath), hxs(ssh.PrivateKeyPassPhrase)
		m["ConfigFile"], m["KnownHostsFile"] = hxs(ssh.ConfigFile), hxs(ssh.KnownHostsFile)
	}
	c := v.ch
	m["TimeoutOps"], m["ReadDelay"], m["AuthBypass"] = dec(uint64(c.TimeoutOps)), dec(uint64(c.ReadDelay)), b2i(c.AuthBypass)
	m["UsernamePattern"], m["PasswordPattern"] = hxs(c.UsernamePattern.String()), hxs(c.PasswordPattern.String())
	m["PassphrasePattern"] = hxs(c.PassphrasePattern.String())
	m["PromptSearchDepth"] = dec(uint64(c.PromptSearchDepth))
	pp := c.PromptPattern.String()
	if v.kind == "n" { // joined from a Go map: the order of the alternatives is random, sort them
		parts := strings.Split(pp, "|")
		sort.Strings(parts)
		pp = strings.Join(parts, "|")
	}
	m["PromptPattern"] = hxs(pp)
	m["ReturnChar"] = hx(c.ReturnChar)
	m["ChannelLog"] = "0"
	if w, ok := c.ChannelLog.(*c19Writer); ok && w != nil {
		m["ChannelLog"] = dec(w.n)
	} else if c.ChannelLog != nil {
		m["ChannelLog"] = "98"
	}
	if v.nd != nil {
		m["AuthSecondary"], m["DefaultDesiredPriv"] = hxs(v.nd.AuthSecondary), hxs(v.nd.DefaultDesiredPriv)
		var pats []string
		for _, pl := range v.nd.PrivilegeLevels {
			pats = append(pats, pl.Pattern)
		}
		sort.Strings(pats)
		m["PrivilegeLevels"] = hxStrs(pats)
		m["NetworkOnOpen"], m["NetworkOnClose"] = dec(c19NetworkHookTag(v.nd.OnOpen)), dec(c19NetworkHookTag(v.nd.OnClose))
	}
	if v.nc != nil {
		m["PreferredVersion"] = hxs(v.nc.PreferredVersion)
		m["ForceSelfClosingTags"], m["ExcludeHeader"] = b2i(v.nc.ForceSelfClosingTags), b2i(v.nc.ExcludeHeader)
	}
	return m
}

func c19Render(m map[string]string) string {
	parts := []string{"ok"}
	for _, f := range c19Fields {
		parts = append(parts, f+"="+m[f])
	}
	return strings.Join(parts, " ")
}

func c19ErrClass(err error) string {
	switch {
	case errors.Is(err, util.ErrBadOption):
		return "badoption"
	case errors.Is(err, util.ErrFileNotFoundError):
		return "notfound"
	}
	return "error:" + errClass(err)
}

// c19Construct runs one of the four constructors; result: dump map, or error class, or "panic"
func c19Construct(kind string, yaml string, opts []util.Option) (m map[string]string, status string) {
	defer func() {
		if p := recover(); p != nil {
			m, status = nil, "panic"
		}
	}()
	view := func(gd *generic.Driver, nd *network.Driver) *c19View {
		return &c19View{kind: kind, logger: gd.Logger, ttype: gd.TransportType, gd: gd, tr: gd.Transport, ch: gd.Channel, nd: nd}
	}
	if yaml != "" {
		p, err := platform.NewPlatform([]byte(yaml), "c19-host", opts...)
		if err != nil {
			return nil, c19ErrClass(err)
		}
		if kind == "n" {
			nd, err := p.GetNetworkDriver()
			if err != nil {
				return nil, c19ErrClass(err)
			}
			return c19Dump(view(nd.Driver, nd)), "ok"
		}
		gd, err := p.GetGenericDriver()
		if err != nil {
			return nil, c19ErrClass(err)
		}
		return c19Dump(view(gd, nil)), "ok"
	}
	switch kind {
	case "n":
		nd, err := network.NewDriver("c19-host", opts...)
		if err != nil {
			return nil, c19ErrClass(err)
		}
		return c19Dump(view(nd.Driver, nd)), "ok"
	case "c":
		nc, err := netconf.NewDriver("c19-host", opts...)
		if err != nil {
			return nil, c19ErrClass(err)
		}
		return c19Dump(&c19View{kind: kind, logger: nc.Logger, ttype: nc.TransportType, tr: nc.Transport, ch: nc.Channel, nc: nc}), "ok"
	}
	gd, err := generic.NewDriver("c19-host", opts...)
	if err != nil {
		return nil, c19ErrClass(err)
	}
	return c19Dump(view(gd, nil)), "ok"
}

// ---------------------------------------------------------------- defaults (built with no options)

var (
	c19DefOnce sync.Once
	c19Def     map[string]string
)

// every field's default, read off drivers constructed without naming that field
func c19Defaults() map[string]string {
	c19DefOnce.Do(func() {
		c19Def = map[string]string{}
		take := func(m map[string]string, fields ...string) {
			for _, f := range fields {
				c19Def[f] = m[f]
			}
		}
		g, _ := c19Construct("g", "", nil)
		for _, f := range c19Fields {
			if g[f] != "-" {
				c19Def[f] = g[f]
			}
		}
		s, _ := c19Construct("g", "", []util.Option{options.WithTransportType("standard")})
		take(s, "ExtraCiphers", "ExtraKexs")
		fl, _ := c19Construct("g", "", []util.Option{options.WithTransportType("file")})
		take(fl, "File")
		nc, _ := c19Construct("c", "", nil)
		take(nc, "PreferredVersion", "ForceSelfClosingTags", "ExcludeHeader")
		nd, _ := c19Construct("n", "", []util.Option{options.WithPrivilegeLevels(c19PrivMap([]string{"x"})), options.WithDefaultDesiredPriv("p0")})
		take(nd, "AuthSecondary", "NetworkOnOpen", "NetworkOnClose")
		// a network driver cannot be built without these two; their zero values
		c19Def["PrivilegeLevels"], c19Def["DefaultDesiredPriv"] = "L", ""
	})
	return c19Def
}

var c19FieldObj = map[string]string{"Logger": oGeneric, "TransportType": oGeneric, "FailedWhenContains": oGeneric,
	"OnOpen": oGeneric, "OnClose": oGeneric, "Port": oArgs, "User": oArgs, "Password": oArgs, "TimeoutSocket": oArgs,
	"ReadSize": oArgs, "TermHeight": oArgs, "TermWidth": oArgs, "UserImplementation": oArgs, "StrictKey": oSSH,
	"PrivateKeyPath": oSSH, "PrivateKeyPassPhrase": oSSH, "ConfigFile": oSSH, "KnownHostsFile": oSSH,
	"NetconfConnection": oSSH, "OpenBin": oSystem, "OpenArgs": oSystem, "ExtraArgs": oSystem,
	"ExtraCiphers": oStandard, "ExtraKexs": oStandard, "File": oFile, "TimeoutOps": oChannel, "ReadDelay": oChannel,
	"AuthBypass": oChannel, "UsernamePattern": oChannel, "PasswordPattern": oChannel, "PassphrasePattern": oChannel,
	"PromptSearchDepth": oChannel, "PromptPattern": oChannel, "ReturnChar": oChannel, "ChannelLog": oChannel,
	"AuthSecondary": oNetwork, "PrivilegeLevels": oNetwork, "DefaultDesiredPriv": oNetwork, "NetworkOnOpen": oNetwork,
	"NetworkOnClose": oNetwork, "PreferredVersion": oNetconf, "ForceSelfClosingTags": oNetconf, "ExcludeHeader": oNetconf}

// ---------------------------------------------------------------- one case

func runC19Case(id string, c *c19Case) {
	defer watchCase(id, c)()
	c19EnsureFiles()
	cs := &Case{ID: id, Kind: c.Kind + "/" + c.Class, HypOK: true, Replay: c}

	// ---- the real options, and the model line
	var real []util.Option
	var enc []string
	for _, o := range c.Opts {
		i := c19Describe(o)
		real = append(real, i.Opt)
		enc = append(enc, i.Enc)
	}
	encOpts := "-"
	if len(enc) > 0 {
		encOpts = strings.Join(enc, ",")
	}
	yaml := ""
	all := c.Opts // what the constructor receives, platform's first
	typed := true
	if c.Plat != nil {
		p := c.Plat
		yaml = c19YAML(c.Kind, p)
		var ys []string
		for _, y := range p.Options {
			ys = append(ys, c19EncYOpt(y))
		}
		encY := "-"
		if len(ys) > 0 {
			encY = strings.Join(ys, ",")
		}
		cs.Line = fmt.Sprintf("c19 %s p %s;%s;%s;%s;%s;%s;%s %s %s", c.Kind, hxStrs(p.FailedWhen), b2i(p.OnOpen),
			b2i(p.OnClose), hxStrs(p.Privs), hxs(p.DefPriv), b2i(p.NetOnOpen), b2i(p.NetOnClose), encY, encOpts)
		var po []c19Opt
		po, typed = c19PlatOpts(p)
		all = append(po, c.Opts...)
	} else {
		cs.Line = fmt.Sprintf("c19 %s d %s", c.Kind, encOpts)
	}
	cs.HypOK = typed
	cs.Nontrivial = len(all) >= 2

	// ---- run the library
	m, status := c19Construct(c.Kind, yaml, real)
	if status == "ok" {
		cs.Obs = c19Render(m)
	} else {
		cs.Obs = status
	}

	// ---- direct oracle: the property text evaluated on the option list
	if !typed {
		emit(cs) // a YAML value of another type than documented: outside the property's quantifier
		return
	}
	infos := make([]c19Info, len(all))
	for i, o := range all {
		infos[i] = c19Describe(o)
	}
	// which objects this construction creates
	ttype, custom := "system", false
	for i, o := range all {
		if o.Name == "WithTransportType" && infos[i].Invalid == "" {
			ttype = o.S
		}
		if o.Name == "WithCustomTransport" {
			custom = o.N != 0
		}
	}
	exists := map[string]bool{oGeneric: true, oArgs: true, oChannel: true,
		oSSH: !custom && (ttype == "system" || ttype == "standard"), oSystem: !custom && ttype == "system",
		oStandard: !custom && ttype == "standard", oFile: !custom && ttype == "file",
		oNetwork: c.Kind == "n", oNetconf: c.Kind == "c"}
	def := c19Defaults()
	want := map[string]string{}
	named := map[string]bool{}
	for f, v := range def {
		want[f] = v
	}
	extra := []string{}
	invalid := ""
	for i, inf := range infos {
		if inf.Invalid == "pre" || (inf.Invalid == "post" && exists[inf.Target]) {
			invalid = all[i].Name
			break
		}
		if !exists[inf.Target] {
			continue // does not apply to this construction: ignored without error
		}
		for _, e := range inf.Effects {
			named[e.Field] = true
			if e.IsApp {
				extra = append(extra, e.Append...)
				want[e.Field] = hxStrs(extra)
			} else {
				want[e.Field] = e.Val
			}
		}
	}
	if status == "panic" {
		cs.Oracle, cs.Sig = "constructor panicked", "C19:panic"
		emit(cs)
		return
	}
	if invalid == "" && c.Kind == "n" && (want["DefaultDesiredPriv"] == "" || want["PrivilegeLevels"] == "L") {
		invalid = "(network driver without privilege levels / default desired privilege)"
	}
	if invalid != "" {
		switch status {
		case "badoption":
		case "ok":
			cs.Oracle, cs.Sig = "invalid value of "+invalid+" accepted", "C19:invalid-accepted"
		default:
			cs.Oracle = "invalid value of " + invalid + " rejected with '" + status + "', not a bad-option error"
			cs.Sig = "C19:invalid-not-badoption:" + status
		}
		emit(cs)
		return
	}
	if status != "ok" {
		cs.Oracle, cs.Sig = "valid option list rejected: "+status, "C19:valid-rejected:"+status
		emit(cs)
		return
	}
	// derived settings, as documented by the constructors
	switch c.Kind {
	case "n":
		want["PromptPattern"] = hxs(strings.Join(c19ListOf(want["PrivilegeLevels"]), "|"))
	case "c":
		want["PromptPattern"] = hxs("]]>]]>")
		want["NetconfConnection"] = "1"
	}
	for _, f := range c19Fields {
		w := want[f]
		if !exists[c19FieldObj[f]] || (c.Kind == "c" && (f == "FailedWhenContains" || f == "OnOpen" || f == "OnClose")) {
			w = "-" // no such object in this construction / not reachable from a netconf driver
		}
		if m[f] != w {
			how := "keeps its default"
			if named[f] {
				how = "is the last value given (additive: all values in order)"
			}
			cs.Oracle = fmt.Sprintf("%s = %s, want %s (%s)", f, m[f], w, how)
			cs.Sig = "C19:field:" + f
			break
		}
	}
	emit(cs)
}

func c19ListOf(enc string) []string {
	var l []string
	for i, p := range strings.Split(enc, ":") {
		if i == 0 {
			continue
		}
		b, _ := hex.DecodeString(p)
		l = append(l, string(b))
	}
	return l
}
