package main

// Loopback peers of the C16 check: a TCP server (telnet), an in-process crypto/ssh server
// (standard transport, and the real /usr/bin/ssh spawned by the system transport), and a stand-in
// program on the pty (system transport without ssh).  Each peer records what it receives and sends
// what the case tells it to; a peer may be wired to a device state machine (sim.Device) for the
// end-to-end sessions.

import (
	"crypto/ed25519"
	"crypto/rand"
	"encoding/binary"
	"errors"
	"fmt"
	"io"
	"net"
	"os"
	"path/filepath"
	"sync"
	"time"

	"golang.org/x/crypto/ssh"

	"github.com/scrapli/scrapligo/driver/options"
	"github.com/scrapli/scrapligo/logging"
	"github.com/scrapli/scrapligo/transport"
	"github.com/scrapli/scrapligo/util"

	"verif/harness/sim"
)

// c16Peer is the far end of a transport.
type c16Peer interface {
	Port() int
	Send(b []byte) error // peer -> client
	Received() []byte    // everything the peer got from the client so far
	Hangup()             // the peer goes away (connection closed from the far side)
	Freeze()             // the peer stops reacting (hung device, dead path): nothing is read or answered any more
	Stop()               // release everything
}

// recvLog is the shared "what arrived" buffer; with a device attached every arriving slice is fed
// to it and the reaction is sent back.
type recvLog struct {
	mu   sync.Mutex
	recv []byte
	dev  sim.Device
}

func (r *recvLog) add(b []byte) []byte {
	r.mu.Lock()
	defer r.mu.Unlock()
	r.recv = append(r.recv, b...)
	if r.dev != nil {
		return sim.Flatten(r.dev.Feed(append([]byte(nil), b...)))
	}
	return nil
}

func (r *recvLog) Received() []byte {
	r.mu.Lock()
	defer r.mu.Unlock()
	return append([]byte(nil), r.recv...)
}

func (r *recvLog) start() []byte {
	r.mu.Lock()
	defer r.mu.Unlock()
	if r.dev != nil {
		return sim.Flatten(r.dev.Start())
	}
	return nil
}

// ---------------------------------------------------------------- TCP (telnet)

type c16TCPPeer struct {
	recvLog
	ln      net.Listener
	connMu  sync.Mutex
	conn    net.Conn
	ready   chan struct{}
	wmu     sync.Mutex
	stopped chan struct{}
}

// newC16TCPPeer listens on loopback; on accept it writes opening at once (so that it arrives while
// the client's Open is still in its option-negotiation phase), then records what arrives.
func newC16TCPPeer(opening []byte, dev sim.Device) (*c16TCPPeer, error) {
	ln, err := net.Listen("tcp", "127.0.0.1:0")
	if err != nil {
		return nil, err
	}
	p := &c16TCPPeer{ln: ln, ready: make(chan struct{}), stopped: make(chan struct{})}
	p.dev = dev
	go func() {
		defer close(p.stopped)
		conn, err := ln.Accept()
		if err != nil {
			return
		}
		if tc, ok := conn.(*net.TCPConn); ok {
			_ = tc.SetNoDelay(true)
		}
		p.connMu.Lock()
		p.conn = conn
		p.connMu.Unlock()
		first := append(append([]byte(nil), opening...), p.start()...)
		if len(first) > 0 {
			p.wmu.Lock()
			_, _ = conn.Write(first)
			p.wmu.Unlock()
		}
		close(p.ready)
		buf := make([]byte, 32768)
		for {
			n, err := conn.Read(buf)
			if n > 0 {
				if out := p.add(buf[:n]); len(out) > 0 {
					p.wmu.Lock()
					_, _ = conn.Write(out)
					p.wmu.Unlock()
				}
			}
			if err != nil {
				return
			}
		}
	}()
	return p, nil
}

func (p *c16TCPPeer) Port() int { return p.ln.Addr().(*net.TCPAddr).Port }

func (p *c16TCPPeer) Send(b []byte) error {
	select {
	case <-p.ready:
	case <-time.After(2 * time.Second):
		return errors.New("peer: no connection")
	}
	p.wmu.Lock()
	defer p.wmu.Unlock()
	_, err := p.conn.Write(b)
	return err
}

func (p *c16TCPPeer) Hangup() {
	p.connMu.Lock()
	defer p.connMu.Unlock()
	if p.conn != nil {
		_ = p.conn.Close()
	}
}

func (p *c16TCPPeer) Freeze() {}

func (p *c16TCPPeer) Stop() {
	_ = p.ln.Close()
	p.Hangup()
	select {
	case <-p.stopped:
	case <-time.After(time.Second):
	}
}

// ---------------------------------------------------------------- SSH server

var (
	c16HostKeyOnce sync.Once
	c16HostKey     ssh.Signer
)

func c16Signer() ssh.Signer {
	c16HostKeyOnce.Do(func() {
		_, priv, err := ed25519.GenerateKey(rand.Reader)
		if err != nil {
			panic(err)
		}
		c16HostKey, err = ssh.NewSignerFromKey(priv)
		if err != nil {
			panic(err)
		}
	})
	return c16HostKey
}

// gatedConn lets the ssh server stop reading from its socket: a frozen peer answers nothing, not
// even the channel-close message.
type gatedConn struct {
	net.Conn
	mu     sync.Mutex
	frozen chan struct{}
}

func (g *gatedConn) Read(b []byte) (int, error) {
	g.mu.Lock()
	f := g.frozen
	g.mu.Unlock()
	if f != nil {
		<-f
	}
	n, err := g.Conn.Read(b)
	g.mu.Lock()
	f = g.frozen
	g.mu.Unlock()
	if f != nil && err == nil {
		// froze while this read was pending: hold the bytes back for good
		<-f
		return 0, io.EOF
	}
	return n, err
}

func (g *gatedConn) freeze() {
	g.mu.Lock()
	if g.frozen == nil {
		g.frozen = make(chan struct{})
	}
	g.mu.Unlock()
}

func (g *gatedConn) release() {
	g.mu.Lock()
	if g.frozen != nil {
		select {
		case <-g.frozen:
		default:
			close(g.frozen)
		}
	}
	g.mu.Unlock()
}

type c16SSHPeer struct {
	gate *gatedConn
	recvLog
	ln      net.Listener
	mu2     sync.Mutex
	nconn   net.Conn
	ch      ssh.Channel
	reqs    []string // session requests seen, in order ("pty-req", "shell", "subsystem:netconf")
	authed  string   // "none" | "password"
	ready   chan struct{}
	wmu     sync.Mutex
	marker  []byte // sent as soon as the shell/subsystem is up
	stopped chan struct{}
}

const c16User, c16Pass = "verif", "s3cret-pw"

// newC16SSHPeer starts an ssh server for one connection.  auth: "none" (NoClientAuth) or
// "password".  The session channel is a plain byte pipe: pty-req, shell and the netconf subsystem
// are accepted, nothing is echoed.
func newC16SSHPeer(auth string, marker []byte, dev sim.Device) (*c16SSHPeer, error) {
	ln, err := net.Listen("tcp", "127.0.0.1:0")
	if err != nil {
		return nil, err
	}
	p := &c16SSHPeer{ln: ln, ready: make(chan struct{}), stopped: make(chan struct{}), marker: marker}
	p.dev = dev
	cfg := &ssh.ServerConfig{}
	if auth == "none" {
		cfg.NoClientAuth = true
	}
	cfg.PasswordCallback = func(c ssh.ConnMetadata, pw []byte) (*ssh.Permissions, error) {
		if c.User() == c16User && string(pw) == c16Pass {
			p.mu2.Lock()
			p.authed = "password"
			p.mu2.Unlock()
			return nil, nil
		}
		return nil, errors.New("denied")
	}
	cfg.AddHostKey(c16Signer())
	go func() {
		defer close(p.stopped)
		nconn, err := ln.Accept()
		if err != nil {
			return
		}
		gc := &gatedConn{Conn: nconn}
		nconn = gc
		p.mu2.Lock()
		p.nconn = nconn
		p.gate = gc
		p.mu2.Unlock()
		sconn, chans, greqs, err := ssh.NewServerConn(nconn, cfg)
		if err != nil {
			_ = nconn.Close()
			return
		}
		defer sconn.Close()
		go ssh.DiscardRequests(greqs)
		for nc := range chans {
			if nc.ChannelType() != "session" {
				_ = nc.Reject(ssh.UnknownChannelType, "only sessions")
				continue
			}
			ch, reqs, err := nc.Accept()
			if err != nil {
				continue
			}
			p.mu2.Lock()
			first := p.ch == nil
			if first {
				p.ch = ch
			}
			p.mu2.Unlock()
			if !first {
				_ = ch.Close()
				continue
			}
			go p.serveRequests(reqs)
			go func() {
				// a device answers input only once its shell (or subsystem) is up and has printed
				// what it prints first: the client may write right after the reply to its shell
				// request, which serveRequests sends BEFORE it writes the opening bytes.  Without
				// this wait the answer to that input could overtake the opening bytes (seen under
				// load: "\r\nrouter#" + "router#", which no prompt pattern matches).
				select {
				case <-p.ready:
				case <-p.stopped:
					return
				}
				buf := make([]byte, 32768)
				for {
					n, err := ch.Read(buf)
					if n > 0 {
						if out := p.add(buf[:n]); len(out) > 0 {
							p.wmu.Lock()
							_, _ = ch.Write(out)
							p.wmu.Unlock()
						}
					}
					if err != nil {
						return
					}
				}
			}()
		}
	}()
	return p, nil
}

func (p *c16SSHPeer) serveRequests(reqs <-chan *ssh.Request) {
	up := false
	for req := range reqs {
		ok := false
		name := req.Type
		switch req.Type {
		case "pty-req", "env", "window-change":
			ok = true
		case "shell":
			ok = !up
		case "subsystem":
			if len(req.Payload) >= 4 {
				l := int(binary.BigEndian.Uint32(req.Payload))
				if 4+l <= len(req.Payload) {
					name = "subsystem:" + string(req.Payload[4:4+l])
				}
			}
			ok = !up && name == "subsystem:netconf"
		}
		p.mu2.Lock()
		p.reqs = append(p.reqs, name)
		p.mu2.Unlock()
		if req.WantReply {
			_ = req.Reply(ok, nil)
		}
		if ok && !up && (req.Type == "shell" || req.Type == "subsystem") {
			up = true
			first := append(append([]byte(nil), p.marker...), p.start()...)
			if len(first) > 0 {
				p.wmu.Lock()
				_, _ = p.ch.Write(first)
				p.wmu.Unlock()
			}
			close(p.ready)
		}
	}
}

func (p *c16SSHPeer) Port() int { return p.ln.Addr().(*net.TCPAddr).Port }

func (p *c16SSHPeer) Requests() []string {
	p.mu2.Lock()
	defer p.mu2.Unlock()
	return append([]string(nil), p.reqs...)
}

func (p *c16SSHPeer) Send(b []byte) error {
	select {
	case <-p.ready:
	case <-time.After(3 * time.Second):
		return errors.New("peer: no session")
	}
	p.wmu.Lock()
	defer p.wmu.Unlock()
	_, err := p.ch.Write(b)
	return err
}

func (p *c16SSHPeer) Hangup() {
	p.mu2.Lock()
	ch, nconn := p.ch, p.nconn
	p.mu2.Unlock()
	if ch != nil {
		_ = ch.Close()
	}
	if nconn != nil {
		_ = nconn.Close()
	}
}

// EndSession: the server ends the session channel (the shell exited) and keeps the connection.
func (p *c16SSHPeer) EndSession() {
	p.mu2.Lock()
	ch := p.ch
	p.mu2.Unlock()
	if ch != nil {
		_, _ = ch.SendRequest("exit-status", false, []byte{0, 0, 0, 0})
		_ = ch.Close()
	}
}

func (p *c16SSHPeer) Freeze() {
	p.mu2.Lock()
	g := p.gate
	p.mu2.Unlock()
	if g != nil {
		g.freeze()
	}
}

func (p *c16SSHPeer) Stop() {
	_ = p.ln.Close()
	p.mu2.Lock()
	g := p.gate
	p.mu2.Unlock()
	if g != nil {
		g.release()
	}
	p.Hangup()
	select {
	case <-p.stopped:
	case <-time.After(time.Second):
	}
}

// ---------------------------------------------------------------- stand-in program on the pty

// The system transport spawns OpenBin on a pty.  The stand-in makes the pty a transparent loop
// first (the line discipline of a fresh pty echoes and translates), announces that with "RDY",
// emits the contents of a file (peer -> client payload), then copies everything it receives both
// back to the client and into a file (what the peer received).  With a byte count as 4th argument
// it exits after that many bytes: the peer going away.
const c16Script = `#!/bin/sh
stty raw -echo
printf 'RDY'
cat "$1"
case "$3" in
  ''|*[!0-9]*) exec tee "$2" ;;   # (the netconf flavour of the transport appends "-s netconf")
  *) head -c "$3" | tee "$2" ;;
esac
`

var c16ScriptOnce sync.Once
var c16ScriptPath string

func c16ScriptFile() string {
	c16ScriptOnce.Do(func() {
		c16ScriptPath = filepath.Join(workDir(), fmt.Sprintf("c16-standin-%d.sh", os.Getpid()))
		_ = os.WriteFile(c16ScriptPath, []byte(c16Script), 0o755)
	})
	return c16ScriptPath
}

type c16PtyPeer struct {
	in, out string
}

func newC16PtyPeer(id string, payload []byte) (*c16PtyPeer, error) {
	base := filepath.Join(workDir(), fmt.Sprintf("c16-%d-%s", os.Getpid(), id))
	p := &c16PtyPeer{in: base + ".in", out: base + ".out"}
	if err := os.WriteFile(p.in, payload, 0o644); err != nil {
		return nil, err
	}
	_ = os.Remove(p.out)
	return p, nil
}

func (p *c16PtyPeer) Port() int { return 0 }
func (p *c16PtyPeer) Send(b []byte) error {
	return errors.New("the stand-in program only sends its payload file and echoes")
}
func (p *c16PtyPeer) Received() []byte {
	b, _ := os.ReadFile(p.out)
	return b
}
func (p *c16PtyPeer) Hangup() {}
func (p *c16PtyPeer) Freeze() {}
func (p *c16PtyPeer) Stop() {
	_ = os.Remove(p.in)
	_ = os.Remove(p.out)
}

// ---------------------------------------------------------------- the client side

// c16Client is the real transport under test, reached either directly (the Implementation) or
// through transport.Transport (read lock, forced close).
type c16Client struct {
	T       *transport.Transport
	via     string
	kind    string
	openDur time.Duration
}

// c16TelnetTimeout is the socket timeout of the telnet cases.  Telnet.Open waits a quarter of it for
// the first byte of the opening and then half of it after every byte: an opening that the peer
// writes at accept time is inside the window, and Open takes at least c16TelnetTimeout/2; an Open
// that returned after only a quarter saw nothing.
const c16TelnetTimeout = 400 * time.Millisecond

func withNetconfSubsystem() util.Option {
	return func(o interface{}) error {
		a, ok := o.(*transport.SSHArgs)
		if !ok {
			return util.ErrIgnoredOption
		}
		a.NetconfConnection = true
		return nil
	}
}

// c16TransportOptions are the options that select the peer, shared by the raw-transport cases and
// the driver sessions.
func c16TransportOptions(kind, sub, auth string, port int, pty *c16PtyPeer, hangAfter int) (string, []util.Option) {
	opts := []util.Option{options.WithPort(port)}
	ttype := kind
	switch kind {
	case "telnet":
		opts = append(opts, options.WithTimeoutSocket(c16TelnetTimeout))
	case "standard":
		opts = append(opts, options.WithTimeoutSocket(3*time.Second), options.WithAuthNoStrictKey(), options.WithAuthUsername(c16User))
		if auth == "password" {
			opts = append(opts, options.WithAuthPassword(c16Pass))
		}
	case "system":
		args := []string{c16ScriptFile(), pty.in, pty.out}
		if hangAfter >= 0 {
			args = append(args, fmt.Sprint(hangAfter))
		}
		opts = append(opts, options.WithSystemTransportOpenBin("/bin/sh"), options.WithSystemTransportOpenArgsOverride(args))
	case "system-ssh":
		ttype = "system"
		opts = append(opts, options.WithTimeoutSocket(5*time.Second), options.WithAuthNoStrictKey(), options.WithAuthUsername(c16User))
	}
	if sub == "netconf" {
		opts = append(opts, withNetconfSubsystem())
	}
	return ttype, opts
}

func openC16Client(kind, via, sub, auth string, port int, pty *c16PtyPeer, hangAfter int) (*c16Client, error) {
	l, _ := logging.NewInstance()
	ttype, opts := c16TransportOptions(kind, sub, auth, port, pty, hangAfter)
	t, err := transport.NewTransport(l, "127.0.0.1", ttype, opts...)
	if err != nil {
		return nil, err
	}
	c := &c16Client{T: t, via: via, kind: kind}
	done := make(chan error, 1)
	t0 := time.Now()
	go func() {
		if via == "transport" {
			done <- t.Open()
		} else {
			done <- t.Impl.Open(t.Args)
		}
	}()
	select {
	case err = <-done:
	case <-time.After(8 * time.Second):
		err = errors.New("open did not return within 8 s")
	}
	if err != nil {
		return nil, err
	}
	c.openDur = time.Since(t0)
	return c, nil
}

func (c *c16Client) Read(n int) ([]byte, error) {
	if c.via == "transport" {
		return c.T.ReadN(n)
	}
	return c.T.Impl.Read(n)
}

func (c *c16Client) Write(b []byte) error {
	if c.via == "transport" {
		return c.T.Write(b)
	}
	return c.T.Impl.Write(b)
}

// Close closes the way Channel.Close does when a read is in flight: forced (no read lock).
func (c *c16Client) Close() error {
	if c.via == "transport" {
		return c.T.Close(true)
	}
	return c.T.Impl.Close()
}
