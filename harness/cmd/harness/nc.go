package main

import (
	"bytes"
	"encoding/json"
	"encoding/xml"
	"fmt"
	"regexp"
	"strings"
	"sync"
	"time"

	"github.com/scrapli/scrapligo/driver/netconf"
	"github.com/scrapli/scrapligo/driver/opoptions"
	"github.com/scrapli/scrapligo/driver/options"
	"github.com/scrapli/scrapligo/response"
	"github.com/scrapli/scrapligo/util"

	"verif/harness/sim"
)

// NETCONF sessions against the server model: shared by C03 (request framing/content),
// C08 (reply matching), C09 (open / version negotiation) and C02's end-to-end part.

func init() {
	for _, p := range []string{"C03", "C08", "C09"} {
		p := p
		props[p] = prop{
			Run: func(seed uint64, n int, tier string) { runNC(p, seed, n, tier) },
			Replay: func(id string, raw json.RawMessage) {
				var c ncCase
				if json.Unmarshal(raw, &c) == nil {
					runNCCase(id, &c)
				}
			},
		}
	}
}

type ncOp struct {
	Kind string   `json:"kind"`
	Args []string `json:"args,omitempty"`
	// server behaviour for this request
	Beh int `json:"beh,omitempty"` // 0 now, 1 late (after the client's timeout), 2 never
	// reply payload body (inside rpc-reply); "" = <ok/>
	Body string `json:"body,omitempty"`
}

type ncCase struct {
	Prop       string   `json:"prop"`
	Caps       []string `json:"caps"`
	Prefix     string   `json:"prefix"`
	Layout     int      `json:"layout"`
	SessionID  string   `json:"session_id"`
	HelloKind  string   `json:"hello_kind"` // ok | nohello | truncated
	Pref       string   `json:"pref"`       // "" | 1.0 | 1.1
	Force      bool     `json:"force"`
	XH         bool     `json:"exclude_header"`
	Echo       bool     `json:"echo"`
	Ops        []ncOp   `json:"ops"`
	Segs       []int    `json:"segs"`
	DefSeg     int      `json:"default_seg"`
	ChunkMode  int      `json:"chunk_mode"`
	AfterDelim string   `json:"after_delim"`
	TimeoutMS  int      `json:"timeout_ms"`
	Coalesce   int      `json:"coalesce,omitempty"` // see ncDevState
	// LossAfter > 0: after that many operations the transport reports Loss on every read ("eof" |
	// "ioerr") while writes still succeed (a half-open connection); every later operation must fail
	// promptly with a connection / transport error (C06)
	LossAfter int    `json:"loss_after,omitempty"`
	Loss      string `json:"loss,omitempty"`
}

var midRe = regexp.MustCompile(`message-id="(\d+)"`)

const base10 = "urn:ietf:params:netconf:base:1.0"
const base11 = "urn:ietf:params:netconf:base:1.1"

var ncExtraCaps = []string{"urn:ietf:params:netconf:capability:candidate:1.0", "urn:ietf:params:netconf:capability:validate:1.1",
	"http://cisco.com/ns/yang/Cisco-IOS-XE-native?module=Cisco-IOS-XE-native&revision=2019-11-01", "urn:ietf:params:xml:ns:yang:ietf-interfaces",
	"urn:ietf:params:netconf:base:1.10", "urn:ietf:params:netconf:base:1.0x", "URN:IETF:PARAMS:NETCONF:BASE:1.1"}

func buildHello(c *ncCase) []byte {
	if c.HelloKind == "nohello" {
		return []byte("<garbage>no greeting here</garbage>]]>]]>")
	}
	p := c.Prefix
	nl, ind := "\n", "  "
	if c.Layout == 1 {
		nl, ind = "", ""
	}
	var sb strings.Builder
	if c.Layout == 2 {
		sb.WriteString("<?xml version=\"1.0\" encoding=\"UTF-8\"?>" + nl)
	}
	sb.WriteString("<" + p + "hello xmlns")
	if p != "" {
		sb.WriteString(":" + strings.TrimSuffix(p, ":"))
	}
	sb.WriteString("=\"urn:ietf:params:xml:ns:netconf:base:1.0\">" + nl)
	sb.WriteString(ind + "<" + p + "capabilities>" + nl)
	for _, cp := range c.Caps {
		sb.WriteString(ind + ind + "<" + p + "capability>" + cp + "</" + p + "capability>" + nl)
	}
	sb.WriteString(ind + "</" + p + "capabilities>" + nl)
	if c.SessionID != "" {
		// the session-id pattern of the library has no prefix support: keep it unprefixed
		sb.WriteString(ind + "<session-id>" + c.SessionID + "</session-id>" + nl)
	}
	sb.WriteString("</" + p + "hello>")
	if c.HelloKind == "truncated" {
		return []byte(sb.String())
	}
	sb.WriteString("]]>]]>")
	return []byte(sb.String())
}

var ncArgPool = []string{"running", "candidate", "startup", "<interfaces xmlns=\"urn:x\"><interface><name>Gi0/0</name></interface></interfaces>",
	"<a b=\"c\" xmlns:d=\"urn:d\"><d:e/></a>", "<cfg><empty></empty><ws>  </ws><t>é日本</t></cfg>", "/if:interfaces/if:interface[if:name='eth0']",
	"<x><y attr=\"v\"> </y><z></z></x>", "<target><candidate xyz/></target>", "<!-- c --><q>1 &lt; 2 &amp; 3</q>", "label-1", "a<b", "",
	"<description>alarm at 95% of 10G</description>", "<path>net%20ops/%%/100%</path>", "/if:interface[load>90%d]"}

// genXML: a random element tree for configuration payloads and subtree filters.  Names come from a
// small set in which some names are prefixes of others (vlan / vlan-name, interface / interface-ref,
// a / ab); children are empty pairs, whitespace-only pairs, self-closed elements with and without
// attributes, text and nested elements -- the shapes the self-closing rewrite has to tell apart.
var xmlNames = []string{"a", "ab", "a-b", "vlan", "vlan-name", "interface", "interface-ref", "config", "config-version", "x", "nc:y"}

func genXML(r *sim.Rng, depth int) string {
	n := r.Pick(xmlNames)
	attrs := ""
	if r.Chance(1, 3) {
		attrs = " " + r.Pick([]string{"k=\"v\"", "nc:operation=\"delete\"", "xmlns:nc=\"urn:n\"", "a=\"1\" b=\"2\""})
	}
	switch r.Intn(7) {
	case 0:
		return "<" + n + attrs + "></" + n + ">"
	case 1:
		return "<" + n + attrs + ">" + r.Pick([]string{" ", "\n  ", "\t"}) + "</" + n + ">"
	case 2:
		return "<" + n + attrs + "/>"
	case 3:
		return "<" + n + attrs + ">" + r.Pick([]string{"text", "1", "é", "a b", "95% o", "%s%d", "100%"}) + "</" + n + ">"
	}
	if depth <= 0 {
		return "<" + n + attrs + "/>"
	}
	var sb strings.Builder
	sb.WriteString("<" + n + attrs + ">")
	k := 1 + r.Intn(3)
	for i := 0; i < k; i++ {
		// a child whose name extends the parent's name, self-closed with an attribute, in last position:
		// over-represented on purpose
		if i == k-1 && r.Chance(1, 3) {
			sb.WriteString("<" + n + r.Pick([]string{"-name", "-ref", "b", "-version"}) + " " + r.Pick([]string{"k=\"v\"", "nc:operation=\"delete\""}) + "/>")
			continue
		}
		sb.WriteString(genXML(r, depth-1))
	}
	sb.WriteString("</" + n + ">")
	return sb.String()
}

func genNCOps(r *sim.Rng, n int, allowBad bool) []ncOp {
	var ops []ncOp
	for i := 0; i < n; i++ {
		a := func() string {
			if r.Chance(1, 3) {
				return genXML(r, 2)
			}
			return r.Pick(ncArgPool)
		}
		ds := func() string { return r.Pick([]string{"running", "candidate", "startup"}) }
		// a sixth of the filter types / defaults modes are not ones the library knows (wrong case, a
		// trailing blank, another word): the operation must be refused and nothing transmitted
		ft := func() string {
			if allowBad && r.Chance(1, 6) {
				return r.Pick([]string{"XPath", "Subtree", "xpath ", "regex"})
			}
			return r.Pick([]string{"subtree", "xpath", "subtree"})
		}
		dt := func() string {
			if allowBad && r.Chance(1, 8) {
				return r.Pick([]string{"Report-All", "all", "trim "})
			}
			return r.Pick([]string{"", "report-all", "trim", "explicit", "report-all-tagged"})
		}
		var o ncOp
		switch r.Intn(12) {
		case 0:
			o = ncOp{Kind: "get", Args: []string{a(), ft()}}
		case 1:
			o = ncOp{Kind: "getconfig", Args: []string{ds(), a(), ft(), dt()}}
		case 2:
			o = ncOp{Kind: "edit", Args: []string{ds(), "<config>" + a() + "</config>"}}
		case 3:
			o = ncOp{Kind: "copy", Args: []string{ds(), ds()}}
		case 4:
			o = ncOp{Kind: "delete", Args: []string{ds()}}
		case 5:
			o = ncOp{Kind: "lock", Args: []string{ds()}}
		case 6:
			o = ncOp{Kind: "unlock", Args: []string{ds()}}
		case 7:
			o = ncOp{Kind: "validate", Args: []string{ds()}}
		case 8:
			o = ncOp{Kind: "commit", Args: []string{b2i(r.Bool()), fmt.Sprint(r.Intn(3) * 60), r.Pick([]string{"", "label-1", "a<b"}), r.Pick([]string{"", "", "id7"})}}
		case 9:
			o = ncOp{Kind: "discard"}
		case 10:
			o = ncOp{Kind: "raw", Args: []string{"<get-schema xmlns=\"urn:s\"><identifier>" + r.Pick([]string{"ietf-interfaces", "é", "x"}) + "</identifier></get-schema>"}}
		default:
			o = ncOp{Kind: "edit", Args: []string{ds(), "<config>" + strings.Repeat("<i>"+a()+"</i>", 1+r.Intn(40)) + "</config>"}}
		}
		if allowBad && r.Chance(1, 25) {
			o = ncOp{Kind: "get", Args: []string{"<f/>", "bogus-type"}}
		}
		ops = append(ops, o)
	}
	return ops
}

func genNC(prop string, r *sim.Rng) *ncCase {
	c := &ncCase{Prop: prop, HelloKind: "ok", TimeoutMS: 250}
	// capabilities
	switch prop {
	case "C09":
		sub := r.Intn(4)
		if sub&1 != 0 {
			c.Caps = append(c.Caps, base10)
		}
		if sub&2 != 0 {
			c.Caps = append(c.Caps, base11)
		}
		k := r.Intn(4)
		for i := 0; i < k; i++ {
			c.Caps = append(c.Caps, r.Pick(ncExtraCaps))
		}
		// shuffle
		for i := len(c.Caps) - 1; i > 0; i-- {
			j := r.Intn(i + 1)
			c.Caps[i], c.Caps[j] = c.Caps[j], c.Caps[i]
		}
		c.Pref = r.Pick([]string{"", "", "1.0", "1.1"})
		c.Prefix = r.Pick([]string{"", "", "nc:"})
		c.Layout = r.Intn(3)
		c.SessionID = r.Pick([]string{"", "1", "4242", "4294967295", "9223372036854775807", "9223372036854775808", "18446744073709551615", "007"})
		switch r.Intn(12) {
		case 0:
			c.HelloKind = "nohello"
		case 1:
			c.HelloKind = "truncated"
			c.TimeoutMS = 60
		}
		c.Ops = genNCOps(r, 1, false)
	default:
		c.Caps = [][]string{{base10}, {base11}, {base10, base11}, {base11, base10, ncExtraCaps[0]}}[r.Intn(4)]
		c.Pref = r.Pick([]string{"", "", "", "1.0", "1.1"})
		if c.Pref == "1.0" && len(c.Caps) == 1 && c.Caps[0] == base11 {
			c.Pref = ""
		}
		if c.Pref == "1.1" && len(c.Caps) == 1 && c.Caps[0] == base10 {
			c.Pref = ""
		}
		c.SessionID = "77"
	}
	c.Echo = r.Chance(1, 3)
	if prop == "C02" {
		c.Coalesce = []int{0, 1, 3, 3}[r.Intn(4)]
	}
	if prop == "C08" || prop == "C03" || prop == "C02" {
		if prop != "C02" {
			c.Coalesce = []int{0, 0, 1, 1, 2, 3}[r.Intn(6)]
		}
		if c.Coalesce == 3 {
			// the whole exchange in ONE read: echo of the request, the reply, the echo of the returns -- and
			// then nothing (a slow reader behind an echoing transport and a fast server).  Replies on time only.
			c.Echo = true
			for i := range c.Ops {
				c.Ops[i].Beh = 0
			}
			c.Segs, c.DefSeg = nil, 0
		}
		if c.Coalesce == 2 {
			// two-replies-in-one-read is about late replies; with an echoing transport on top, the echo of
			// the client's hello can share a buffer with later messages as well (same root cause as F26,
			// not generated separately)
			c.Echo = false
		}
	}
	c.Force = r.Chance(1, 3)
	c.XH = r.Chance(1, 3)
	c.ChunkMode = []int{0, 0, 2, 2, 4, 4, 4, 1, 3}[r.Intn(9)]
	c.AfterDelim = r.Pick([]string{"", "\n"})
	switch prop {
	case "C03":
		c.Ops = genNCOps(r, 1+r.Intn(12), true)
	case "C02":
		c.Ops = genNCOps(r, 1+r.Intn(6), false)
		for i := range c.Ops {
			if r.Chance(1, 3) {
				c.Ops[i].Body = "<data>" + r.Pick(ncArgPool) + "</data>"
			}
			if r.Chance(1, 6) {
				c.Ops[i].Body = "<rpc-error><error-severity>error</error-severity><error-message>no</error-message></rpc-error>"
			}
		}
	case "C08":
		n := 1 + r.Intn(25)
		c.Ops = genNCOps(r, n, false)
		c.TimeoutMS = 60
		for i := range c.Ops {
			switch r.Intn(6) {
			case 0:
				c.Ops[i].Beh = 1
			case 1:
				c.Ops[i].Beh = 2
			}
			if r.Chance(1, 4) {
				c.Ops[i].Body = "<data>" + r.Pick(ncArgPool) + "</data>"
			}
			if r.Chance(1, 10) {
				c.Ops[i].Body = "<rpc-error><error-severity>error</error-severity><error-message>no</error-message></rpc-error>"
			}
		}
	}
	// one session in eight (C08): a LATE reply that is large (more than 64 KiB, arriving in several
	// reads) with the reply to the current request directly behind it
	bigLate := false
	if prop == "C08" && len(c.Ops) >= 2 && r.Chance(1, 8) {
		i := r.Intn(len(c.Ops) - 1)
		c.Ops[i].Beh = 1
		c.Ops[i+1].Beh = 0
		c.Ops[i].Body = "<data>" + strings.Repeat("<interface>GigabitEthernet0/0/1</interface>", 1700+r.Intn(600)) + "</data>"
		bigLate = true
	}
	// read segmentation: server messages are emitted as single atoms, so one read never carries
	// bytes of two messages; cuts inside a message are arbitrary
	switch r.Intn(4) {
	case 0:
		c.DefSeg = 0
	case 1:
		c.DefSeg = 1 + r.Intn(5)
	default:
		k := r.Intn(40)
		for i := 0; i < k; i++ {
			c.Segs = append(c.Segs, []int{1, 2, 5, 17, 64, 300, 8192}[r.Intn(7)])
		}
		c.DefSeg = []int{0, 3, 50}[r.Intn(3)]
	}
	if bigLate {
		c.Segs, c.DefSeg = nil, []int{8192, 8192, 4096}[r.Intn(3)]
		c.ChunkMode = []int{0, 2}[r.Intn(2)]
	}
	// the timeout must leave room for the volume of data at this read granularity (a per-read
	// delay plus scheduling cost, generously 0.4 ms per read) -- otherwise a "timeout" would only
	// say the harness was slow
	maxBytes := 0
	for _, o := range c.Ops {
		n := 400
		for _, a := range o.Args {
			n += len(a)
		}
		if c.Echo {
			n *= 2
		}
		n += len(o.Body) * 2
		if n > maxBytes {
			maxBytes = n
		}
	}
	seg := c.DefSeg
	if seg == 0 || seg > 64 {
		seg = 64
	}
	need := 150 + maxBytes*2/seg*4/10
	if c.HelloKind != "truncated" && need > c.TimeoutMS {
		c.TimeoutMS = need
	}
	if prop != "C08" {
		// the message-id-split chunkings are C08's subject
		c.ChunkMode = []int{0, 2, 4}[c.ChunkMode%3]
	}
	if c.Coalesce == 3 {
		for i := range c.Ops {
			c.Ops[i].Beh = 0
		}
	}
	return c
}

func runNC(prop string, seed uint64, n int, tier string) {
	rng := sim.NewRng(seed)
	cases := make([]*ncCase, 0, n+12)
	if prop == "C09" {
		// the exhaustive 4 x 3 table first
		for sub := 0; sub < 4; sub++ {
			for _, pref := range []string{"", "1.0", "1.1"} {
				c := &ncCase{Prop: prop, HelloKind: "ok", TimeoutMS: 2000, Pref: pref, SessionID: "5", Ops: []ncOp{{Kind: "get", Args: []string{"", "subtree"}}}}
				if sub&1 != 0 {
					c.Caps = append(c.Caps, base10)
				}
				if sub&2 != 0 {
					c.Caps = append(c.Caps, base11)
				}
				cases = append(cases, c)
			}
		}
	}
	for i := 0; i < n; i++ {
		cases = append(cases, genNC(prop, rng.Fork()))
	}
	parallel(len(cases), func(i int) { runNCCase(caseID(prop, seed, i), cases[i]) })
}

// splitAtoms makes the server's message a list of transport atoms of the given maximal size so
// that reads may cut inside a message but never merge two messages.
type ncDev struct {
	*sim.NCServer
	st *ncDevState
}

// ncDevState: how server messages may share a transport read.  coalesce 0: never (a boundary
// marker follows every message); 1: the echo of a request and the reply to it may arrive in one
// read; 2: no boundaries at all, and late replies of timed-out requests are sent immediately
// before the next reply (two complete replies in one read).
type ncDevState struct {
	coalesce    int
	pendingLate [][]byte
	lateJoined  map[int]bool // index of the request whose reply was preceded by a late reply
}

func (d ncDev) Start() [][]byte { return sim.Atoms(d.NCServer.Hello) }
func (d ncDev) Feed(b []byte) [][]byte {
	var out [][]byte
	co := 0
	if d.st != nil {
		co = d.st.coalesce
	}
	msgs := d.NCServer.Feed(b)
	for i, m := range msgs {
		isEcho := d.NCServer.Echo && i == 0
		if !isEcho && d.st != nil && len(d.st.pendingLate) > 0 {
			for _, l := range d.st.pendingLate {
				out = append(out, sim.Atoms(l)...)
			}
			d.st.pendingLate = nil
			d.st.lateJoined[len(d.NCServer.Requests)-1] = true
		}
		out = append(out, sim.Atoms(m)...)
		if co == 2 || co == 3 || (co == 1 && isEcho && len(msgs) > 1) {
			continue
		}
		out = append(out, nil) // message boundary marker (see msgBoundaryTransport)
	}
	return out
}

func ncOpSpec(o ncOp) string {
	parts := []string{o.Kind}
	for i, a := range o.Args {
		if o.Kind == "commit" && i < 2 {
			parts = append(parts, a)
		} else {
			parts = append(parts, hx([]byte(a)))
		}
	}
	return strings.Join(parts, "|")
}

func callNC(d *netconf.Driver, o ncOp) (*response.NetconfResponse, error) {
	a := func(i int) string {
		if i < len(o.Args) {
			return o.Args[i]
		}
		return ""
	}
	switch o.Kind {
	case "get":
		return d.Get(a(0), opoptions.WithFilterType(a(1)))
	case "getconfig":
		var oo []util.Option
		if a(1) != "" {
			oo = append(oo, opoptions.WithFilter(a(1)))
		}
		oo = append(oo, opoptions.WithFilterType(a(2)))
		if a(3) != "" {
			oo = append(oo, opoptions.WithDefaultType(a(3)))
		}
		return d.GetConfig(a(0), oo...)
	case "edit":
		return d.EditConfig(a(0), a(1))
	case "copy":
		return d.CopyConfig(a(0), a(1))
	case "delete":
		return d.DeleteConfig(a(0))
	case "lock":
		return d.Lock(a(0))
	case "unlock":
		return d.Unlock(a(0))
	case "validate":
		return d.Validate(a(0))
	case "commit":
		var oo []util.Option
		if a(0) == "1" {
			oo = append(oo, opoptions.WithCommitConfirmed())
		}
		var t uint
		fmt.Sscanf(a(1), "%d", &t)
		if t > 0 {
			oo = append(oo, opoptions.WithCommitConfirmTimeout(t))
		}
		if a(2) != "" {
			oo = append(oo, opoptions.WithCommitConfirmedPersist(a(2)))
		}
		if a(3) != "" {
			oo = append(oo, opoptions.WithCommitConfirmedPersistID(a(3)))
		}
		return d.Commit(oo...)
	case "discard":
		return d.Discard()
	default:
		return d.RPC(opoptions.WithFilter(a(0)))
	}
}

func wellFormedXML(b []byte) error {
	dec := xml.NewDecoder(bytes.NewReader(b))
	for {
		_, err := dec.Token()
		if err != nil {
			if err.Error() == "EOF" {
				return nil
			}
			return err
		}
	}
}

func runNCCase(id string, c *ncCase) {
	// a session may wait out its timeout once per operation (and the timeout grows with the volume
	// of data at one byte per read): that is the case's configuration, not a hang
	extra := time.Duration(len(c.Ops)+2) * time.Duration(c.TimeoutMS) * time.Millisecond * 3
	if extra > maxCaseExtra {
		extra = maxCaseExtra
	}
	defer watchCaseExtra(id, c, extra)()
	srv := &sim.NCServer{Hello: buildHello(c), Echo: c.Echo, AfterDelim: c.AfterDelim}
	for _, o := range c.Ops {
		srv.Behaviours = append(srv.Behaviours, sim.Behaviour(o.Beh))
	}
	srv.Reply = func(idx int, mid string) []byte {
		body := "<ok/>"
		if idx < len(c.Ops) && c.Ops[idx].Body != "" {
			body = c.Ops[idx].Body
		}
		return []byte(fmt.Sprintf("<rpc-reply xmlns=\"urn:ietf:params:xml:ns:netconf:base:1.0\" message-id=\"%s\">%s</rpc-reply>", mid, body))
	}
	cm := c.ChunkMode
	srv.Chunk = func(idx int, p []byte) [][]byte {
		switch cm {
		case 0:
			return [][]byte{p}
		case 1:
			var out [][]byte
			for len(p) > 0 {
				k := 7
				if k > len(p) {
					k = len(p)
				}
				out = append(out, p[:k])
				p = p[k:]
			}
			return out
		case 2:
			if len(p) > 3 {
				return [][]byte{p[:3], p[3:]}
			}
			return [][]byte{p}
		case 4:
			// keep the opening tag (with its message-id) in one chunk, then small chunks
			k := bytes.IndexByte(p, '>') + 1
			out := [][]byte{p[:k]}
			p = p[k:]
			for len(p) > 0 {
				n := 5
				if n > len(p) {
					n = len(p)
				}
				out = append(out, p[:n])
				p = p[n:]
			}
			return out
		default:
			var out [][]byte
			for i := range p {
				out = append(out, p[i:i+1])
			}
			return out
		}
	}
	devSt := &ncDevState{coalesce: c.Coalesce, lateJoined: map[int]bool{}}
	tr := sim.NewTransport(ncDev{srv, devSt})
	tr.Segs = c.Segs
	tr.DefaultSeg = c.DefSeg
	tr.MsgBoundaries = true
	cs := &Case{ID: id, Kind: fmt.Sprintf("%s/%s/pref=%s/echo=%v", c.Prop, c.HelloKind, c.Pref, c.Echo), HypOK: true, Replay: c}
	opts := []util.Option{
		options.WithCustomTransport(tr),
		options.WithReadDelay(20 * time.Microsecond),
		options.WithTimeoutOps(time.Duration(c.TimeoutMS) * time.Millisecond),
	}
	if c.Pref != "" {
		opts = append(opts, options.WithNetconfPreferredVersion(c.Pref))
	}
	if c.Force {
		opts = append(opts, options.WithNetconfForceSelfClosingTags())
	}
	if c.XH {
		opts = append(opts, options.WithNetconfExcludeHeader())
	}
	d, err := netconf.NewDriver("sim", opts...)
	if err != nil {
		cs.Oracle = "driver construction failed: " + err.Error()
		emit(cs)
		return
	}
	prefTag := "none"
	switch c.Pref {
	case "1.0":
		prefTag = "10"
	case "1.1":
		prefTag = "11"
	}
	var specs []string
	for _, o := range c.Ops {
		specs = append(specs, ncOpSpec(o))
	}
	mkLine := func() string {
		return fmt.Sprintf("nc %s %s %s %s %s", prefTag, b2i(c.Force), b2i(c.XH), hxStrs(specs), tr.NCLogString())
	}
	openErr := d.Open()
	has10, has11 := false, false
	for _, cp := range c.Caps {
		if cp == base10 {
			has10 = true
		}
		if cp == base11 {
			has11 = true
		}
	}
	// expected open outcome straight from the property text
	wantVer := ""
	if c.HelloKind == "ok" {
		switch {
		case c.Pref == "1.0" && has10:
			wantVer = "1.0"
		case c.Pref == "1.1" && has11:
			wantVer = "1.1"
		case c.Pref == "" && has11:
			wantVer = "1.1"
		case c.Pref == "" && has10:
			wantVer = "1.0"
		}
	}
	sidOK := true
	if c.SessionID != "" {
		var z int64
		if _, e := fmt.Sscan(c.SessionID, &z); e != nil {
			sidOK = false // does not fit the library's integer: documented outcome is a NETCONF error
		}
	}
	if openErr != nil {
		cls := errClass(openErr)
		switch {
		case c.HelloKind == "truncated":
			cs.Obs = "open:nohello"
			if cls != "timeout" {
				cs.Oracle = "truncated hello: open failed with " + cls + ", want timeout"
				cs.Sig = "C09:truncated-class"
			}
		default:
			cs.Obs = "open:" + cls
			if wantVer != "" && sidOK {
				cs.Oracle = fmt.Sprintf("open failed (%v) although the server offers what is needed (want %s)", openErr, wantVer)
				cs.Sig = "C09:open-failed"
			} else if cls != "netconf" {
				cs.Oracle = "open failed with " + cls + ", want a NETCONF error"
				cs.Sig = "C09:error-class"
			}
		}
		if !tr.Closed() {
			cs.Oracle = "open failed but the transport was left open"
			cs.Sig = "C09:not-closed-on-failure"
		}
		cs.Line = mkLine()
		cs.Nontrivial = true
		emit(cs)
		return
	}
	if wantVer == "" || !sidOK {
		cs.Oracle = fmt.Sprintf("open succeeded with version %s although it must fail (caps %v, pref %q, hello %s, session-id %q)", d.SelectedVersion, c.Caps, c.Pref, c.HelloKind, c.SessionID)
		cs.Sig = "C09:open-should-fail"
	} else if d.SelectedVersion != wantVer {
		cs.Oracle = fmt.Sprintf("selected version %s, want %s", d.SelectedVersion, wantVer)
		cs.Sig = "C09:version"
	}
	var outs []string
	var late []int
	firstOracle, firstSig := "", ""
	// coalesce 3: reads are held from the start of each call until its writes are through
	var holdMu sync.Mutex
	holding := false
	if c.Coalesce == 3 {
		tr.ReadGate = func() {
			for {
				holdMu.Lock()
				h := holding
				holdMu.Unlock()
				if !h {
					return
				}
				time.Sleep(100 * time.Microsecond)
			}
		}
	}
	for i, o := range c.Ops {
		tr.Mark('C')
		if c.Coalesce == 3 {
			time.Sleep(2 * time.Millisecond) // the reader is back in (or in front of) its gate
			holdMu.Lock()
			holding = true
			holdMu.Unlock()
			w0, _, _ := tr.Snapshot()
			go func() {
				// release once the frame and its return(s) have been written (or after 20 ms)
				dl := time.Now().Add(20 * time.Millisecond)
				for time.Now().Before(dl) {
					if w, _, _ := tr.Snapshot(); len(w) >= len(w0)+2 {
						break
					}
					time.Sleep(100 * time.Microsecond)
				}
				time.Sleep(time.Millisecond)
				holdMu.Lock()
				holding = false
				holdMu.Unlock()
			}()
		}
		lost := c.LossAfter > 0 && i >= c.LossAfter
		if c.LossAfter > 0 && i == c.LossAfter {
			if c.Loss == "eof" {
				tr.Fail(sim.LossEOF)
			} else {
				tr.Fail(sim.LossErr)
			}
			time.Sleep(3 * time.Millisecond) // the read loops meet the loss while nothing is in flight
		}
		tCall := time.Now()
		// watchdog: "every RPC returns within its configured timeout ... it never hangs"
		type ncRes struct {
			r   *response.NetconfResponse
			err error
		}
		resCh := make(chan ncRes, 1)
		go func() {
			defer func() {
				if p := recover(); p != nil {
					resCh <- ncRes{nil, fmt.Errorf("panic: %v", p)}
				}
			}()
			rr, ee := callNC(d, o)
			resCh <- ncRes{rr, ee}
		}()
		var r *response.NetconfResponse
		var err error
		select {
		case x := <-resCh:
			r, err = x.r, x.err
		case <-time.After(time.Duration(c.TimeoutMS)*time.Millisecond*4 + 3*time.Second):
			cs.Oracle = fmt.Sprintf("request %d (%s): the call was still blocked %v after it was made (configured timeout %d ms)", i, o.Kind, time.Since(tCall).Round(time.Millisecond), c.TimeoutMS)
			cs.Sig = "C05:nc-hang"
			cs.Obs = "hang"
			_ = tr.Close() // let the blocked call go
			emit(cs)
			return
		}
		if lost {
			// after the loss: an error of connection / transport class, promptly, for EVERY later operation
			el := time.Since(tCall)
			cls := errClass(err)
			switch {
			case err == nil:
				cs.Oracle = fmt.Sprintf("request %d after the %s: success", i, c.Loss)
				cs.Sig = "C06:nc-success-after-loss"
			case cls == "timeout" || el > time.Duration(c.TimeoutMS)*time.Millisecond*6/10:
				cs.Oracle = fmt.Sprintf("request %d (the %s after the %s): %v after %v (timeout %d ms): the loss is not reported promptly", i, ordinal(i-c.LossAfter+1), c.Loss, err, el.Round(time.Millisecond), c.TimeoutMS)
				cs.Sig = "C06:nc-slow-after-loss"
			case cls != "connection" && cls != "io":
				cs.Oracle = fmt.Sprintf("request %d after the %s: error class %s (%v)", i, c.Loss, cls, err)
				cs.Sig = "C06:nc-error-class"
			}
			if err != nil && errClass(err) == "timeout" {
				tr.Mark('D')
				outs = append(outs, "timeout")
			} else if err != nil {
				tr.Mark('X')
				outs = append(outs, "error")
			} else {
				outs = append(outs, "ok-after-loss")
			}
			if cs.Oracle != "" && firstOracle == "" {
				firstOracle, firstSig = cs.Oracle, cs.Sig
			}
			continue
		}
		switch {
		case err != nil && errClass(err) == "timeout":
			tr.Mark('D')
			outs = append(outs, "timeout")
			if o.Beh == 0 {
				cs.Oracle = fmt.Sprintf("request %d (%s): reply was sent in full but the call timed out", i, o.Kind)
				cs.Sig = "C08:reply-lost"
				if devSt.lateJoined[len(srv.Requests)-1] {
					cs.Oracle += " (the late reply to an earlier, timed-out request arrived in the same read, in front of it)"
					cs.Sig = "C08:reply-lost:two-replies-in-one-read"
				}
				// diagnose: is the message-id attribute contiguous in the framed reply?
				if ri := len(srv.Requests) - 1; ri >= 0 {
					fr := srv.FrameReply(ri, srv.Reply(ri, srv.Requests[ri].ID))
					if !bytes.Contains(fr, []byte("message-id=\""+srv.Requests[ri].ID+"\"")) {
						cs.Oracle += " (a chunk boundary falls inside the message-id attribute of the reply)"
						cs.Sig = "C08:reply-lost:message-id-split-across-chunks"
					}
				}
			}
			if o.Beh == 1 {
				late = append(late, i)
			}
		case err != nil && errClass(err) == "netconf":
			outs = append(outs, "builderr")
		case err != nil:
			tr.Mark('X')
			outs = append(outs, "error")
			cs.Oracle = fmt.Sprintf("request %d: unexpected error %v", i, err)
			cs.Sig = "C08:error"
		default:
			if why := ncMustRefuse(o); why != "" && cs.Oracle == "" {
				cs.Oracle = fmt.Sprintf("request %d (%s) was sent and answered although %s: the operation must be refused, not sent without what the caller asked for", i, o.Kind, why)
				cs.Sig = "C03:not-refused"
			}
			rpcErr, parseErr := false, false
			if oe, ok := r.Failed.(*response.OperationError); ok && oe != nil {
				if strings.HasPrefix(oe.ErrorString, "unable to parse netconf 1.1 response") {
					parseErr = true
				} else {
					rpcErr = true
				}
			}
			mid := ""
			if m := midRe.FindSubmatch(r.Input); m != nil {
				mid = string(m[1])
			}
			outs = append(outs, fmt.Sprintf("ok:%s:%s:%s:%s:%s:%s", mid, hx(r.Input), hx(r.FramedInput), hx([]byte(r.Result)), b2i(rpcErr), b2i(parseErr)))
			// own reply?
			if rm := midRe.FindSubmatch([]byte(r.Result)); rm == nil || string(rm[1]) != mid {
				cs.Oracle = fmt.Sprintf("request %d has message-id %s but the returned reply is %q", i, mid, truncate(r.Result, 120))
				cs.Sig = "C08:wrong-reply"
			}
			if parseErr {
				cs.Oracle = fmt.Sprintf("request %d: well-formed reply marked as parse error", i)
				cs.Sig = "C02:e2e-parse-error"
			}
			body := "<ok/>"
			if o.Body != "" {
				body = o.Body
			}
			if !strings.Contains(r.Result, body) {
				cs.Oracle = fmt.Sprintf("request %d: result %q does not carry the reply body %q", i, truncate(r.Result, 200), truncate(body, 100))
				cs.Sig = "C02:e2e-result"
			}
			if rpcErr != strings.Contains(body, "<rpc-error>") {
				cs.Oracle = fmt.Sprintf("request %d: failed=%v but reply-carries-rpc-error=%v", i, rpcErr, strings.Contains(body, "<rpc-error>"))
				cs.Sig = "C02:e2e-classification"
			}
		}
		if cs.Oracle != "" && firstOracle == "" {
			// the FIRST failure of a session is the one reported (later ones are usually its consequences)
			if len(srv.Requests) > 0 && devSt.lateJoined[len(srv.Requests)-1] {
				// whatever went wrong with this request, a late reply sat in front of its reply in one read
				cs.Oracle += " (the late reply to an earlier, timed-out request arrived in the same read, in front of this reply)"
				cs.Sig = "C08:reply-lost:two-replies-in-one-read"
			}
			firstOracle, firstSig = cs.Oracle, cs.Sig
		}
		// late replies of earlier timed-out requests arrive now
		for _, li := range late {
			if fr, ok := srv.Late[li]; ok {
				if c.Coalesce == 2 {
					devSt.pendingLate = append(devSt.pendingLate, fr)
				} else {
					atoms := append(sim.Atoms(fr), nil)
					tr.Inject(atoms)
				}
				delete(srv.Late, li)
			}
		}
		late = nil
		if len(outs) > 0 && strings.HasPrefix(outs[len(outs)-1], "timeout") && o.Beh == 1 {
			// give the read loop time to file the late reply before the next request, so that the
			// event order in the log is the order the implementation saw
			time.Sleep(3 * time.Millisecond)
		}
	}
	if firstOracle != "" {
		cs.Oracle, cs.Sig = firstOracle, firstSig
	}
	time.Sleep(2 * time.Millisecond)
	cs.Line = mkLine()
	writes, _, _ := tr.Snapshot()
	var caps [][]byte
	for _, cp := range d.ServerCapabilities() {
		caps = append(caps, []byte(cp))
	}
	cs.Obs = fmt.Sprintf("open:ok:%s:%s:%d %s %s", d.SelectedVersion, hxList(caps), int64(d.SessionID()), strings.Join(outs, ","), hxList(writes))
	cs.Nontrivial = len(c.Ops) > 1 || c.Prop == "C09"
	// ---- C09 oracle: capabilities / session id / one hello in EOM framing advertising the version
	if cs.Oracle == "" {
		if len(caps) != len(c.Caps) {
			cs.Oracle = fmt.Sprintf("reported %d capabilities, server sent %d", len(caps), len(c.Caps))
			cs.Sig = "C09:caps"
		} else {
			for i := range caps {
				if string(caps[i]) != c.Caps[i] {
					cs.Oracle = fmt.Sprintf("capability %d reported as %q, server sent %q", i, caps[i], c.Caps[i])
					cs.Sig = "C09:caps"
				}
			}
		}
		if c.SessionID != "" {
			var z uint64
			fmt.Sscan(c.SessionID, &z)
			if d.SessionID() != z {
				cs.Oracle = fmt.Sprintf("session id %d, server sent %s", d.SessionID(), c.SessionID)
				cs.Sig = "C09:session-id"
			}
		}
		if srv.HelloErr != "" {
			cs.Oracle = "client hello: " + srv.HelloErr
			cs.Sig = "C09:client-hello"
		} else if srv.Version != wantVer {
			cs.Oracle = fmt.Sprintf("client hello advertises %q, selected version is %q", srv.Version, wantVer)
			cs.Sig = "C09:client-hello"
		}
	}
	// ---- C03 oracle: every request the server saw decodes strictly and carries the caller's content
	if cs.Oracle == "" {
		ri := 0
		for i, o := range c.Ops {
			if strings.HasPrefix(outs[i], "builderr") {
				continue
			}
			if ri >= len(srv.Requests) {
				cs.Oracle = fmt.Sprintf("request %d (%s) never reached the server as a complete frame", i, o.Kind)
				cs.Sig = "C03:frame-incomplete"
				break
			}
			rq := srv.Requests[ri]
			ri++
			if rq.Err != "" {
				cs.Oracle = fmt.Sprintf("request %d: strict %s decoder rejects the frame: %s", i, wantVer, rq.Err)
				cs.Sig = "C03:framing"
				break
			}
			if strings.HasPrefix(outs[i], "ok:") {
				f := strings.Split(outs[i], ":")
				if hx(rq.Payload) != f[2] {
					cs.Oracle = fmt.Sprintf("request %d: strictly decoded wire payload differs from Response.Input", i)
					cs.Sig = "C03:input-vs-wire"
					break
				}
			}
			if err := wellFormedXML(rq.Payload); err != nil && argsWellFormed(o) {
				cs.Oracle = fmt.Sprintf("request %d: payload is not well-formed XML: %v", i, err)
				cs.Sig = "C03:xml"
				break
			}
			want := fmt.Sprint(101 + ri - 1)
			if rq.ID != want {
				cs.Oracle = fmt.Sprintf("request %d carries message-id %q, want %s", i, rq.ID, want)
				cs.Sig = "C08:ids"
				break
			}
			if msg := contentMissing(o, rq.Payload, c.Force); msg != "" {
				cs.Oracle = fmt.Sprintf("request %d (%s): %s", i, o.Kind, msg)
				cs.Sig = "C03:content"
				break
			}
		}
	}
	_ = closeNC(d)
	emit(cs)
}

// closeNC closes the driver with a watchdog (a hanging Close is C07's subject, not ours).
func closeNC(d *netconf.Driver) error {
	done := make(chan error, 1)
	go func() { done <- d.Close() }()
	select {
	case e := <-done:
		return e
	case <-time.After(300 * time.Millisecond):
		return fmt.Errorf("close did not return")
	}
}

func truncate(s string, n int) string {
	if len(s) > n {
		return s[:n] + "..."
	}
	return s
}

func argsWellFormed(o ncOp) bool {
	for _, a := range o.Args {
		if strings.Contains(a, "<") && wellFormedXML([]byte("<r>"+a+"</r>")) != nil {
			return false
		}
	}
	// datastore names are used as element names
	return true
}

// contentMissing checks that the request names the operation and carries the caller's arguments
// unaltered ("" = fine).  With forced self-closing tags an argument may legitimately be rewritten.
func contentMissing(o ncOp, payload []byte, force bool) string {
	p := string(payload)
	a := func(i int) string {
		if i < len(o.Args) {
			return o.Args[i]
		}
		return ""
	}
	has := func(s string) bool { return force || strings.Contains(p, s) }
	if !strings.Contains(p, "xmlns=\"urn:ietf:params:xml:ns:netconf:base:1.0\"") {
		return "base namespace missing"
	}
	switch o.Kind {
	case "get":
		if !strings.Contains(p, "<get>") && !strings.Contains(p, "<get/>") {
			return "no <get> element"
		}
		if a(0) != "" && a(1) == "subtree" && !has(a(0)) {
			return "subtree filter altered"
		}
	case "getconfig":
		if !strings.Contains(p, "<get-config>") {
			return "no <get-config> element"
		}
		if !strings.Contains(p, "<source><"+a(0)) {
			return "source datastore " + a(0) + " not named"
		}
		if a(1) != "" && a(2) == "subtree" && !has(a(1)) {
			return "subtree filter altered"
		}
		if a(3) != "" && !strings.Contains(p, ">"+a(3)+"</with-defaults>") {
			return "defaults mode " + a(3) + " missing"
		}
	case "edit":
		if !strings.Contains(p, "<target><"+a(0)) {
			return "target datastore " + a(0) + " not named"
		}
		if !has(a(1)) {
			return "configuration payload altered"
		}
	case "copy":
		if !strings.Contains(p, "<target><"+a(1)) || !strings.Contains(p, "<source><"+a(0)) {
			return "copy-config source/target not as requested"
		}
	case "delete", "lock", "unlock":
		if !strings.Contains(p, "<target><"+a(0)) {
			return "target datastore " + a(0) + " not named"
		}
	case "validate":
		if !strings.Contains(p, "<source><"+a(0)) {
			return "source datastore " + a(0) + " not named"
		}
	case "commit":
		if !strings.Contains(p, "<commit") {
			return "no <commit> element"
		}
		if (a(0) == "1") != strings.Contains(p, "<confirmed") {
			return "confirmed flag not as requested"
		}
		// every commit parameter the caller gave is in the request, and none that he did not give
		var t uint
		fmt.Sscanf(a(1), "%d", &t)
		if (t > 0) != strings.Contains(p, "<confirm-timeout>") || (t > 0 && !strings.Contains(p, fmt.Sprintf("<confirm-timeout>%d</confirm-timeout>", t))) {
			return "confirm-timeout not as requested"
		}
		esc := func(x string) string {
			var b bytes.Buffer
			_ = xml.EscapeText(&b, []byte(x))
			return b.String()
		}
		if (a(2) != "") != strings.Contains(p, "<persist>") || (a(2) != "" && !strings.Contains(p, "<persist>"+esc(a(2))+"</persist>")) {
			return "persist token not as requested"
		}
		if (a(3) != "") != strings.Contains(p, "<persist-id>") || (a(3) != "" && !strings.Contains(p, "<persist-id>"+esc(a(3))+"</persist-id>")) {
			return "persist-id not as requested"
		}
	case "discard":
		if !strings.Contains(p, "<discard-changes") {
			return "no <discard-changes> element"
		}
	case "raw":
		if !has(a(0)) {
			return "raw payload altered"
		}
	}
	return ""
}

func ordinal(n int) string {
	switch n {
	case 1:
		return "1st"
	case 2:
		return "2nd"
	case 3:
		return "3rd"
	}
	return fmt.Sprintf("%dth", n)
}

// ncMustRefuse: the operation names a filter type / defaults mode the library does not know ("" = no).
func ncMustRefuse(o ncOp) string {
	a := func(i int) string {
		if i < len(o.Args) {
			return o.Args[i]
		}
		return ""
	}
	badType := func(f, t string) bool { return f != "" && t != "" && t != "subtree" && t != "xpath" }
	switch o.Kind {
	case "get":
		if badType(a(0), a(1)) {
			return fmt.Sprintf("its filter type %q is unknown", a(1))
		}
	case "getconfig":
		if badType(a(1), a(2)) {
			return fmt.Sprintf("its filter type %q is unknown", a(2))
		}
		switch a(3) {
		case "", "report-all", "trim", "explicit", "report-all-tagged":
		default:
			return fmt.Sprintf("its defaults mode %q is unknown", a(3))
		}
	}
	return ""
}
