// Command harness runs the real scrapligo library (built from /repo's working tree with
// -tags verif) against in-process peers and prints one JSON case per line: the model input
// line, the implementation's projected observables in the model's output format, and the verdict
// of the direct (model-free) oracle.
package main

import (
	"bufio"
	"encoding/hex"
	"encoding/json"
	"flag"
	"fmt"
	"os"
	"strings"
	"sync"
)

// Case is one line of harness output.
type Case struct {
	ID         string      `json:"id"`
	Line       string      `json:"line"`             // model input (empty: oracle-only case)
	Obs        string      `json:"obs"`              // implementation observables, model output format
	Oracle     string      `json:"oracle,omitempty"` // "" = property held on this case
	Sig        string      `json:"sig,omitempty"`    // signature of the failure class
	Nontrivial bool        `json:"nontrivial"`
	Kind       string      `json:"kind,omitempty"`     // generator class (for the distribution)
	HypOK      bool        `json:"hyp_ok"`             // case meets the theorem's hypotheses
	HypLine    string      `json:"hyp_line,omitempty"` // model line that evaluates the theorem's hypotheses on this case (prints 1/0)
	Replay     interface{} `json:"replay,omitempty"`
	Trace      []string    `json:"trace,omitempty"` // yield-point labels passed (C07)
}

var (
	outMu sync.Mutex
	outW  *bufio.Writer
)

func emit(c *Case) {
	outMu.Lock()
	defer outMu.Unlock()
	b, _ := json.Marshal(c)
	outW.Write(b)
	outW.WriteByte('\n')
	// a case that reports a failure is written out at once: a later case that hangs the process
	// (the driver kills it after its time limit) must not take the failing input with it
	if c.Oracle != "" {
		outW.Flush()
	}
}

func hx(b []byte) string { return hex.EncodeToString(b) }

func hxList(l [][]byte) string {
	var sb strings.Builder
	sb.WriteString("L")
	for _, x := range l {
		sb.WriteString(":")
		sb.WriteString(hx(x))
	}
	return sb.String()
}

func hxStrs(l []string) string {
	bl := make([][]byte, len(l))
	for i, s := range l {
		bl[i] = []byte(s)
	}
	return hxList(bl)
}

func b2i(b bool) string {
	if b {
		return "1"
	}
	return "0"
}

// prop is one property's case generator/runner plus the replay entry point.
type prop struct {
	Run    func(seed uint64, n int, tier string)
	Replay func(id string, raw json.RawMessage)
}

var props = map[string]prop{}

func main() {
	seed := flag.Uint64("seed", 1, "PRNG seed")
	n := flag.Int("n", 100, "number of generated cases")
	tier := flag.String("tier", "quick", "quick|thorough")
	replay := flag.String("replay", "", "replay file (a Case as JSON)")
	flag.Parse()
	outW = bufio.NewWriterSize(os.Stdout, 1<<20)
	defer outW.Flush()
	if flag.NArg() < 1 {
		fmt.Fprintln(os.Stderr, "usage: harness [-seed N] [-n N] [-tier T] <property>")
		os.Exit(2)
	}
	p := flag.Arg(0)
	r, ok := props[p]
	if !ok {
		fmt.Fprintf(os.Stderr, "unknown property %s\n", p)
		os.Exit(2)
	}
	if *replay != "" {
		raw, err := os.ReadFile(*replay)
		if err != nil {
			fmt.Fprintln(os.Stderr, err)
			os.Exit(2)
		}
		var c struct {
			ID     string          `json:"id"`
			Replay json.RawMessage `json:"replay"`
		}
		if err := json.Unmarshal(raw, &c); err != nil || c.Replay == nil {
			fmt.Fprintln(os.Stderr, "replay file has no replay object")
			os.Exit(2)
		}
		r.Replay(c.ID, c.Replay)
		return
	}
	r.Run(*seed, *n, *tier)
}
