package main

// C16, end-to-end clause: a CLI session (generic driver) and a NETCONF session (netconf driver) run
// over the REAL transport against a loopback peer that is wired to a device state machine, and the
// same session run over the simulated ideal pipe (sim.Transport) with an identical device, must
// give the same results.  Oracle-only cases (no model line): the session-level models are C01/C03's.

import (
	"bytes"
	"fmt"
	"strings"
	"time"

	"github.com/scrapli/scrapligo/driver/generic"
	"github.com/scrapli/scrapligo/driver/netconf"
	"github.com/scrapli/scrapligo/driver/opoptions"
	"github.com/scrapli/scrapligo/driver/options"
	"github.com/scrapli/scrapligo/util"

	"verif/harness/sim"
)

type c16Sess struct {
	Proto string   `json:"proto"` // cli | netconf
	CLI   *c01Case `json:"cli,omitempty"`
	Ver   string   `json:"ver,omitempty"` // netconf: what the server offers: 1.0 | 1.1 | both
	Ops   []ncOp   `json:"ops,omitempty"`
	// TimeoutMS: operation timeout of the session (0 = 5 s)
	TimeoutMS int `json:"timeout_ms,omitempty"`
}

func genC16Sess(r *sim.Rng, c *c16Case) *c16Sess {
	if c.Kind == "system" {
		c.Kind = "system-ssh" // a device needs a peer that talks: the real ssh client on the pty
	}
	s := &c16Sess{Proto: "cli"}
	if c.Kind == "system-ssh" {
		c.Sub = r.Pick([]string{"shell", "shell", "netconf"})
		c.Auth = r.Pick([]string{"none", "password"})
	}
	if c.Sub == "netconf" {
		s.Proto = "netconf"
		s.Ver = r.Pick([]string{"1.0", "1.1", "both"})
		s.Ops = genNCOps(r, 1+r.Intn(5), false)
		for i := range s.Ops {
			s.Ops[i].Beh = 0
			if r.Chance(1, 2) {
				s.Ops[i].Body = "<data>" + strings.Repeat("<item n=\""+fmt.Sprint(i)+"\">v</item>\n", 1+r.Intn(60)) + "</data>"
			}
		}
		return s
	}
	cc := genC01(r)
	// the login phase of telnet / system needs to see a prompt: always greet
	cc.Banner = "Welcome to the device" + cc.EOL + cc.EOL + cc.Prompt + cc.Trail
	cc.Segs, cc.DefSeg = nil, 0
	// C01's hypothesis "a read never ends inside an escape sequence" is the simulated transport's
	// doing; a real transport cuts anywhere (and the channel strips escapes per read), so the device
	// of these sessions emits none
	for i, o := range cc.Outs {
		var keep []string
		for _, a := range o {
			if !strings.HasPrefix(a, "\x1b") {
				keep = append(keep, a)
			}
		}
		cc.Outs[i] = keep
	}
	s.CLI = cc
	return s
}

func c16NewCLIDev(c *c01Case) *sim.CLIDevice {
	dev := &sim.CLIDevice{Prompt: []byte(c.Prompt), Trail: []byte(c.Trail), EOL: []byte(c.EOL),
		Echo: sim.EchoStyle(c.Echo), WrapEvery: c.WrapEvery}
	dev.Banner = sim.Atoms([]byte(c.Banner))
	for _, o := range c.Outs {
		dev.Outputs = append(dev.Outputs, atomsOf(o))
	}
	return dev
}

// c16CLIOps runs the commands of c on an opened driver.
func c16CLIOps(d *generic.Driver, c *c01Case) ([]string, error) {
	var oo []util.Option
	if c.NoStrip {
		oo = append(oo, opoptions.WithNoStripPrompt())
	}
	if c.Exact {
		oo = append(oo, opoptions.WithExactMatchInput())
	}
	var results []string
	if c.Variant == "commands" {
		m, e := d.SendCommands(c.Cmds, oo...)
		if m != nil {
			for _, r := range m.Responses {
				results = append(results, r.Result)
			}
		}
		return results, e
	}
	for _, cmd := range c.Cmds {
		r, e := d.SendCommand(cmd, oo...)
		if e != nil {
			return results, e
		}
		results = append(results, r.Result)
	}
	return results, nil
}

func c16CLIOpts(c *c01Case) []util.Option {
	opts := []util.Option{options.WithReadDelay(20 * time.Microsecond), options.WithTimeoutOps(5 * time.Second),
		options.WithTransportReadSize(c.ReadSize)}
	if c.Depth != 0 {
		opts = append(opts, options.WithPromptSearchDepth(c.Depth))
	}
	return opts
}

func c16CloseGeneric(d *generic.Driver) {
	done := make(chan struct{})
	go func() { _ = d.Close(); close(done) }()
	select {
	case <-done:
	case <-time.After(2 * time.Second):
	}
}

func c16NCServer(s *c16Sess) *sim.NCServer {
	caps := []string{base10}
	switch s.Ver {
	case "1.1":
		caps = []string{base11}
	case "both":
		caps = []string{base10, base11}
	}
	srv := &sim.NCServer{Hello: buildHello(&ncCase{Caps: caps, SessionID: "42", HelloKind: "ok"})}
	ops := s.Ops
	srv.Reply = func(idx int, mid string) []byte {
		body := "<ok/>"
		if idx < len(ops) && ops[idx].Body != "" {
			body = ops[idx].Body
		}
		return []byte(fmt.Sprintf("<rpc-reply xmlns=\"urn:ietf:params:xml:ns:netconf:base:1.0\" message-id=\"%s\">%s</rpc-reply>", mid, body))
	}
	return srv
}

type c16NCOut struct {
	res    string
	failed bool
	err    string
}

func c16NCOps(d *netconf.Driver, ops []ncOp) []c16NCOut {
	var outs []c16NCOut
	for _, o := range ops {
		r, err := callNC(d, o)
		out := c16NCOut{err: errClass(err)}
		if r != nil {
			out.res = r.Result
			out.failed = r.Failed != nil
		}
		outs = append(outs, out)
		if err != nil {
			break
		}
	}
	return outs
}

func runC16Session(id string, c *c16Case) {
	s := c.Sess
	cs := &Case{ID: id, Kind: fmt.Sprintf("%s/%s/session-%s", c.Kind, c.Sub, s.Proto), HypOK: true, Replay: c, Nontrivial: true}
	fail := func(sig, format string, a ...interface{}) {
		if cs.Oracle == "" {
			cs.Oracle = fmt.Sprintf(format, a...)
			cs.Sig = "C16:" + sig
		}
	}
	defer func() { emit(cs) }()
	// ---- the device behind the real transport
	var devReal, devSim sim.Device
	var cliReal, cliSim *sim.CLIDevice
	var ncReal, ncSim *sim.NCServer
	if s.Proto == "cli" {
		cliReal, cliSim = c16NewCLIDev(s.CLI), c16NewCLIDev(s.CLI)
		devReal, devSim = cliReal, cliSim
	} else {
		ncReal, ncSim = c16NCServer(s), c16NCServer(s)
		devReal, devSim = ncReal, ncDev{ncSim, nil}
	}
	var peer c16Peer
	var err error
	switch c.Kind {
	case "telnet":
		peer, err = newC16TCPPeer(nil, devReal)
	case "standard", "system-ssh":
		peer, err = newC16SSHPeer(c.Auth, nil, devReal)
	default:
		err = fmt.Errorf("no session peer for %q", c.Kind)
	}
	if err != nil {
		fail("harness-setup", "peer setup failed: %v", err)
		return
	}
	defer peer.Stop()
	ttype, topts := c16TransportOptions(c.Kind, c.Sub, c.Auth, peer.Port(), nil, -1)
	if c.Kind == "system-ssh" && c.Auth == "password" {
		// the system transport authenticates in the channel: ssh asks on the pty
		topts = append(topts, options.WithAuthPassword(c16Pass))
	}
	topts = append(topts, options.WithTransportType(ttype))

	if s.Proto == "cli" {
		// real
		d, err := generic.NewDriver("127.0.0.1", append(topts, c16CLIOpts(s.CLI)...)...)
		if err != nil {
			fail("harness-setup", "driver construction failed: %v", err)
			return
		}
		if err = d.Open(); err != nil {
			fail("session-open", "CLI session over %s did not open: %v", c.Kind, err)
			return
		}
		realRes, realErr := c16CLIOps(d, s.CLI)
		c16CloseGeneric(d)
		peer.Stop()
		// ideal pipe
		tr := sim.NewTransport(devSim)
		d2, err := newGeneric(tr, c16CLIOpts(s.CLI)...)
		if err != nil {
			fail("harness-setup", "driver construction failed: %v", err)
			return
		}
		if err = d2.Open(); err != nil {
			fail("harness-setup", "ideal-pipe session did not open: %v", err)
			return
		}
		simRes, simErr := c16CLIOps(d2, s.CLI)
		c16CloseGeneric(d2)
		cs.Obs = fmt.Sprintf("results=%d/%d err=%s/%s", len(realRes), len(simRes), errClass(realErr), errClass(simErr))
		if errClass(realErr) != errClass(simErr) {
			fail("session-cli-error", "CLI session over %s ended with %v, over the ideal pipe with %v", c.Kind, realErr, simErr)
			return
		}
		if len(realRes) != len(simRes) {
			fail("session-cli-count", "%d results over %s, %d over the ideal pipe", len(realRes), c.Kind, len(simRes))
			return
		}
		for i := range realRes {
			if realRes[i] != simRes[i] {
				fail("session-cli-result", "command %d (%q): result over %s %q, over the ideal pipe %q", i, s.CLI.Cmds[i], c.Kind, realRes[i], simRes[i])
				return
			}
		}
		a, b := cliReal.NonEmptyLines(), cliSim.NonEmptyLines()
		if len(a) != len(b) {
			fail("session-cli-lines", "the device behind %s received %d lines, behind the ideal pipe %d", c.Kind, len(a), len(b))
			return
		}
		for i := range a {
			if !bytes.Equal(a[i], b[i]) {
				fail("session-cli-lines", "line %d received over %s %q, over the ideal pipe %q", i, c.Kind, a[i], b[i])
				return
			}
		}
		return
	}
	// ---- NETCONF
	tmo := 5 * time.Second
	if s.TimeoutMS > 0 {
		tmo = time.Duration(s.TimeoutMS) * time.Millisecond
	}
	ncopts := []util.Option{options.WithReadDelay(20 * time.Microsecond), options.WithTimeoutOps(tmo)}
	d, err := netconf.NewDriver("127.0.0.1", append(topts, ncopts...)...)
	if err != nil {
		fail("harness-setup", "driver construction failed: %v", err)
		return
	}
	if err = d.Open(); err != nil {
		fail("session-open", "NETCONF session over %s did not open: %v", c.Kind, err)
		return
	}
	realVer := d.SelectedVersion
	realOuts := c16NCOps(d, s.Ops)
	_ = closeNC(d)
	peer.Stop()
	tr := sim.NewTransport(devSim)
	tr.MsgBoundaries = true
	d2, err := netconf.NewDriver("sim", append([]util.Option{options.WithCustomTransport(tr)}, ncopts...)...)
	if err != nil {
		fail("harness-setup", "driver construction failed: %v", err)
		return
	}
	if err = d2.Open(); err != nil {
		fail("harness-setup", "ideal-pipe NETCONF session did not open: %v", err)
		return
	}
	simVer := d2.SelectedVersion
	simOuts := c16NCOps(d2, s.Ops)
	_ = closeNC(d2)
	cs.Obs = fmt.Sprintf("version=%s/%s replies=%d/%d", realVer, simVer, len(realOuts), len(simOuts))
	if c.Kind == "system-ssh" {
		// the pty the system transport gives ssh stays in canonical mode for a subsystem session:
		// an input line is cut at 4095 bytes by the line discipline
		for _, rq := range ncSim.Requests {
			for _, ln := range bytes.Split(rq.Framed, []byte("\n")) {
				if len(ln) > 4095 {
					defer func() {
						if cs.Oracle != "" {
							cs.Sig = "C16:system-netconf-line-limit"
						}
					}()
				}
			}
		}
	}
	if realVer != simVer {
		fail("session-nc-version", "selected version %s over %s, %s over the ideal pipe", realVer, c.Kind, simVer)
		return
	}
	if len(realOuts) != len(simOuts) {
		fail("session-nc-count", "%d replies over %s, %d over the ideal pipe", len(realOuts), c.Kind, len(simOuts))
		return
	}
	for i := range realOuts {
		if realOuts[i] != simOuts[i] {
			fail("session-nc-result", "operation %d (%s): over %s {%s failed=%v %q}, over the ideal pipe {%s failed=%v %q}", i, s.Ops[i].Kind,
				c.Kind, realOuts[i].err, realOuts[i].failed, truncate(realOuts[i].res, 160), simOuts[i].err, simOuts[i].failed, truncate(simOuts[i].res, 160))
			return
		}
	}
	if len(ncReal.Requests) != len(ncSim.Requests) {
		fail("session-nc-requests", "the server behind %s saw %d requests, behind the ideal pipe %d", c.Kind, len(ncReal.Requests), len(ncSim.Requests))
		return
	}
	for i := range ncReal.Requests {
		if !bytes.Equal(ncReal.Requests[i].Payload, ncSim.Requests[i].Payload) {
			fail("session-nc-requests", "request %d over %s %q, over the ideal pipe %q", i, c.Kind, truncate(string(ncReal.Requests[i].Payload), 200), truncate(string(ncSim.Requests[i].Payload), 200))
			return
		}
	}
}
