package main

import (
	"encoding/json"
	"fmt"
	"os"
	"path/filepath"
	"regexp"
	"regexp/syntax"
	"strings"
	"unicode"
	"unicode/utf8"

	"verif/harness/sim"
)

// RX: the Coq regex engine applied to the generated ASTs must agree with Go's regexp on the same
// pattern source.  Inputs are sampled from each pattern's own language and then mutated.

func init() {
	props["RX"] = prop{Run: runRX, Replay: func(id string, raw json.RawMessage) {
		var c rxCase
		if json.Unmarshal(raw, &c) == nil {
			runRXCase(id, &c, nil)
		}
	}}
}

type rxEntry struct {
	Name string `json:"name"`
	Src  string `json:"src"`
}

type rxCase struct {
	Name  string `json:"name"`
	Src   string `json:"src"`
	Op    string `json:"op"`
	Input []byte `json:"input"`
}

func loadInventory() map[string]json.RawMessage {
	dir := os.Getenv("VERIF_DIR")
	if dir == "" {
		dir = "/verif"
	}
	raw, err := os.ReadFile(filepath.Join(dir, ".work", "inventory.json"))
	if err != nil {
		fmt.Fprintln(os.Stderr, "inventory:", err)
		os.Exit(2)
	}
	var m map[string]json.RawMessage
	_ = json.Unmarshal(raw, &m)
	return m
}

func loadRegexes() []rxEntry {
	var l []rxEntry
	_ = json.Unmarshal(loadInventory()["regexes"], &l)
	return l
}

// sample draws a string from the language of r (bounded repeats kept small).
func sampleRe(r *syntax.Regexp, rng *sim.Rng, sb *strings.Builder, depth int) {
	switch r.Op {
	case syntax.OpLiteral:
		for _, c := range r.Rune {
			if r.Flags&syntax.FoldCase != 0 && rng.Bool() {
				c = unicode.SimpleFold(c)
			}
			sb.WriteRune(c)
		}
	case syntax.OpCharClass:
		if len(r.Rune) == 0 {
			return
		}
		// prefer ASCII members
		for try := 0; try < 8; try++ {
			i := rng.Intn(len(r.Rune)/2) * 2
			lo, hi := r.Rune[i], r.Rune[i+1]
			if lo > 0x7e && try < 7 {
				continue
			}
			if hi > lo+200 {
				hi = lo + 200
			}
			c := lo + rune(rng.Intn(int(hi-lo)+1))
			if c >= 0xD800 && c <= 0xDFFF {
				c = 'x'
			}
			sb.WriteRune(c)
			return
		}
	case syntax.OpAnyCharNotNL, syntax.OpAnyChar:
		sb.WriteString(rng.Pick([]string{"a", "Z", "9", " ", "-", "é", "x", ":", "@", ">", "#", "<", "/"}))
	case syntax.OpCapture:
		sampleRe(r.Sub[0], rng, sb, depth)
	case syntax.OpStar, syntax.OpPlus, syntax.OpQuest, syntax.OpRepeat:
		mn, mx := 0, 3
		switch r.Op {
		case syntax.OpPlus:
			mn = 1
		case syntax.OpQuest:
			mx = 1
		case syntax.OpRepeat:
			mn = r.Min
			mx = r.Max
			if mx < 0 || mx > mn+4 {
				mx = mn + 4
			}
			if rng.Chance(1, 6) && r.Max > 0 {
				mx = r.Max
				mn = r.Max
			}
		}
		n := mn + rng.Intn(mx-mn+1)
		for i := 0; i < n; i++ {
			sampleRe(r.Sub[0], rng, sb, depth+1)
		}
	case syntax.OpConcat:
		for _, s := range r.Sub {
			sampleRe(s, rng, sb, depth)
		}
	case syntax.OpAlternate:
		sampleRe(r.Sub[rng.Intn(len(r.Sub))], rng, sb, depth)
	}
}

var rxNoise = []string{"\n", " ", "#", ">", "$", "a", "Z", "0", "-", ":", "\t", "password:", "login: ", "router#",
	"]]>]]>", "##", "\n##\n", "<a></a>", "<b x=\"1\"> </b>", "message-id=\"12\"", "\x1b[0m", "\x1b[1;32m", "é", "ſ", "K",
	"<rpc-error>", "</rpc-error>", "\r", "(config)#", "@", "~", "%", "<capability>x</capability>"}

func mutate(s string, rng *sim.Rng) string {
	b := []byte(s)
	n := rng.Intn(4)
	for i := 0; i < n; i++ {
		switch rng.Intn(4) {
		case 0:
			if len(b) > 0 {
				k := rng.Intn(len(b))
				b = append(b[:k], b[k+1:]...)
			}
		case 1:
			k := rng.Intn(len(b) + 1)
			ins := rng.Pick(rxNoise)
			b = append(b[:k], append([]byte(ins), b[k:]...)...)
		case 2:
			if len(b) > 0 {
				k := rng.Intn(len(b))
				if b[k] < 0x80 {
					b[k] = byte(32 + rng.Intn(95))
				}
			}
		case 3:
			b = append([]byte(rng.Pick(rxNoise)), b...)
		}
	}
	if !utf8.Valid(b) {
		return s
	}
	return string(b)
}

func runRX(seed uint64, n int, tier string) {
	rng := sim.NewRng(seed)
	res := loadRegexes()
	if len(res) == 0 {
		fmt.Fprintln(os.Stderr, "no regexes in inventory")
		os.Exit(2)
	}
	per := n/len(res) + 1
	var cases []*rxCase
	ops := []string{"match", "find", "group1", "remove", "after", "findall"}
	for _, e := range res {
		parsed, err := syntax.Parse(e.Src, syntax.Perl)
		if err != nil {
			continue
		}
		for i := 0; i < per; i++ {
			r := rng.Fork()
			var sb strings.Builder
			k := 1 + r.Intn(3)
			for j := 0; j < k; j++ {
				if j > 0 || r.Chance(1, 3) {
					sb.WriteString(r.Pick([]string{"\n", "some text\n", "", " ", "x"}))
				}
				sampleRe(parsed, r, &sb, 0)
			}
			in := sb.String()
			if r.Chance(2, 3) {
				in = mutate(in, r)
			}
			if len(in) > 400 {
				in = in[:400]
				for !utf8.ValidString(in) {
					in = in[:len(in)-1]
				}
			}
			cases = append(cases, &rxCase{Name: e.Name, Src: e.Src, Op: ops[r.Intn(len(ops))], Input: []byte(in)})
		}
	}
	compiled := map[string]*regexp.Regexp{}
	for _, e := range res {
		if c, err := regexp.Compile(e.Src); err == nil {
			compiled[e.Name] = c
		}
	}
	parallel(len(cases), func(i int) { runRXCase(caseID("RX", seed, i), cases[i], compiled[cases[i].Name]) })
}

func optS(b []byte) string {
	if b == nil {
		return "N"
	}
	return "S" + hx(b)
}

func runRXCase(id string, c *rxCase, re *regexp.Regexp) {
	if re == nil {
		var err error
		re, err = regexp.Compile(c.Src)
		if err != nil {
			return
		}
	}
	cs := &Case{ID: id, Kind: c.Op, HypOK: true, Replay: c}
	cs.Line = fmt.Sprintf("rx %s %s %s", c.Name, c.Op, hx(c.Input))
	switch c.Op {
	case "match":
		cs.Obs = b2i(re.Match(c.Input))
		cs.Nontrivial = re.Match(c.Input)
	case "find":
		cs.Obs = optS(re.Find(c.Input))
		cs.Nontrivial = re.Match(c.Input)
	case "group1":
		sm := re.FindSubmatch(c.Input)
		if len(sm) >= 2 && sm[1] != nil {
			cs.Obs = "S" + hx(sm[1])
			cs.Nontrivial = true
		} else {
			cs.Obs = "N"
		}
	case "remove":
		out := re.ReplaceAll(c.Input, nil)
		cs.Obs = hx(out)
		cs.Nontrivial = len(out) != len(c.Input)
	case "after":
		ss := re.Split(string(c.Input), 2)
		if len(ss) == 2 {
			cs.Obs = "S" + hx([]byte(ss[1]))
			cs.Nontrivial = true
		} else if loc := re.FindIndex(c.Input); loc != nil {
			// Split drops a leading empty-match field; the model reports the tail after the first match
			cs.Obs = "S" + hx(c.Input[loc[1]:])
		} else {
			cs.Obs = "N"
		}
	case "findall":
		all := re.FindAll(c.Input, -1)
		cs.Obs = hxList(all)
		cs.Nontrivial = len(all) > 1
	}
	emit(cs)
}
