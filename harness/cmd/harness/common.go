package main

import (
	"errors"
	"fmt"
	"os"
	"path/filepath"
	"runtime"
	"runtime/debug"
	"strings"
	"sync"
	"time"

	"github.com/scrapli/scrapligo/driver/generic"
	"github.com/scrapli/scrapligo/driver/network"
	"github.com/scrapli/scrapligo/driver/options"
	"github.com/scrapli/scrapligo/util"

	"verif/harness/sim"
)

// errClass maps an error to the small enum used on both sides of the comparison.
func errClass(err error) string {
	switch {
	case err == nil:
		return "none"
	case errors.Is(err, util.ErrTimeoutError):
		return "timeout"
	case errors.Is(err, util.ErrPrivilegeError):
		return "privilege"
	case errors.Is(err, util.ErrAuthError):
		return "auth"
	case errors.Is(err, util.ErrConnectionError):
		return "connection"
	case errors.Is(err, util.ErrNetconfError):
		return "netconf"
	case errors.Is(err, util.ErrBadOption):
		return "badoption"
	case errors.Is(err, util.ErrNoOp):
		return "noop"
	case errors.Is(err, util.ErrOperationError):
		return "operation"
	case errors.Is(err, sim.ErrSimIO):
		return "io"
	case errors.Is(err, sim.ErrSimWrite):
		return "write"
	default:
		return "other"
	}
}

func newGeneric(tr *sim.Transport, extra ...util.Option) (*generic.Driver, error) {
	opts := []util.Option{
		options.WithCustomTransport(tr),
		options.WithReadDelay(20 * time.Microsecond),
		options.WithTimeoutOps(5 * time.Second),
	}
	opts = append(opts, extra...)
	return generic.NewDriver("sim", opts...)
}

// parallel runs f(i) for i in [0,n) on all cores.
func parallel(n int, f func(i int)) {
	workers := runtime.NumCPU()
	if workers > n {
		workers = n
	}
	var wg sync.WaitGroup
	ch := make(chan int)
	for w := 0; w < workers; w++ {
		wg.Add(1)
		go func() {
			defer wg.Done()
			for i := range ch {
				f(i)
			}
		}()
	}
	for i := 0; i < n; i++ {
		ch <- i
	}
	close(ch)
	wg.Wait()
}

func workDir() string {
	d := os.Getenv("VERIF_WORK")
	if d == "" {
		d = filepath.Join(os.TempDir(), "verif-work")
	}
	_ = os.MkdirAll(d, 0o755)
	return d
}

func caseID(p string, seed uint64, i int) string { return fmt.Sprintf("%s-%d-%d", p, seed, i) }

func strsToBytes(l []string) [][]byte {
	r := make([][]byte, len(l))
	for i, s := range l {
		r[i] = []byte(s)
	}
	return r
}

func timeAfter(seconds int) <-chan time.Time { return time.After(time.Duration(seconds) * time.Second) }

// newNetworkSimple: a two-level network driver over the simulated transport (prompt "router#").
func newNetworkSimple(tr *sim.Transport, delay time.Duration, extra ...util.Option) (*network.Driver, error) {
	pl := map[string]*network.PrivilegeLevel{
		"exec": {Name: "exec", Pattern: `(?im)^[a-z0-9.\-@/:]{1,32}>$`},
		"privilege-exec": {Name: "privilege-exec", Pattern: `(?im)^[a-z0-9.\-@/:]{1,32}#$`, PreviousPriv: "exec",
			Escalate: "enable", Deescalate: "disable"},
	}
	opts := []util.Option{options.WithCustomTransport(tr), options.WithReadDelay(delay),
		options.WithTimeoutOps(2 * time.Second), options.WithPrivilegeLevels(pl), options.WithDefaultDesiredPriv("privilege-exec")}
	return network.NewDriver("sim", append(opts, extra...)...)
}

// recoverCase turns a panic that escapes into the caller's goroutine while a case runs into a
// reported failure of that case (the property texts say "never panics"); the replay is the case.
func recoverCase(id string, replay interface{}) {
	if r := recover(); r != nil {
		prop := id
		if i := strings.IndexByte(id, '-'); i > 0 {
			prop = id[:i]
		}
		st := string(debug.Stack())
		where := ""
		for _, ln := range strings.Split(st, "\n") {
			if strings.Contains(ln, "/repo/") {
				where = strings.TrimSpace(ln)
				break
			}
		}
		emit(&Case{ID: id, Kind: "panic", Oracle: fmt.Sprintf("panic in the caller's goroutine: %v at %s", r, where),
			Sig: prop + ":panic", Replay: replay})
	}
}
