package main

import (
	"errors"
	"fmt"
	"io"
	"os"
	"path/filepath"
	"runtime"
	"runtime/debug"
	"strings"
	"sync"
	"sync/atomic"
	"syscall"
	"time"

	"github.com/scrapli/scrapligo/driver/generic"
	"github.com/scrapli/scrapligo/driver/network"
	"github.com/scrapli/scrapligo/driver/options"
	"github.com/scrapli/scrapligo/util"

	"verif/harness/sim"
)

// errClass maps an error to the small enum used on both sides of the comparison.
func errClass(err error) string {
	switch {
	case err == nil:
		return "none"
	case errors.Is(err, util.ErrTimeoutError):
		return "timeout"
	case errors.Is(err, util.ErrPrivilegeError):
		return "privilege"
	case errors.Is(err, util.ErrAuthError):
		return "auth"
	case errors.Is(err, util.ErrConnectionError):
		return "connection"
	case errors.Is(err, util.ErrNetconfError):
		return "netconf"
	case errors.Is(err, util.ErrBadOption):
		return "badoption"
	case errors.Is(err, util.ErrNoOp):
		return "noop"
	case errors.Is(err, util.ErrOperationError):
		return "operation"
	case errors.Is(err, sim.ErrSimIO), errors.Is(err, syscall.ETIMEDOUT):
		return "io"
	case errors.Is(err, sim.ErrSimWrite), errors.Is(err, io.EOF), errors.Is(err, syscall.EPIPE):
		// (a bare end-of-stream or broken pipe reaches a caller from a failing WRITE only: a read that
		// ends the stream stops the read loop and surfaces as a connection error)
		return "write"
	default:
		return "other"
	}
}

func newGeneric(tr *sim.Transport, extra ...util.Option) (*generic.Driver, error) {
	opts := []util.Option{
		options.WithCustomTransport(tr),
		options.WithReadDelay(20 * time.Microsecond),
		options.WithTimeoutOps(5 * time.Second),
	}
	opts = append(opts, extra...)
	return generic.NewDriver("sim", opts...)
}

// parallel runs f(i) for i in [0,n) on all cores.
func parallel(n int, f func(i int)) {
	workers := runtime.NumCPU()
	if workers > n {
		workers = n
	}
	var wg sync.WaitGroup
	ch := make(chan int)
	for w := 0; w < workers; w++ {
		wg.Add(1)
		go func() {
			defer wg.Done()
			for i := range ch {
				// a case that never finishes (a call into the library that never returns) is reported by
				// the monitor of watchCase; the worker moves on
				done := make(chan struct{})
				go func(i int) {
					defer close(done)
					f(i)
				}(i)
				select {
				case <-done:
				case <-time.After(curCaseLimit() + maxCaseExtra + 3*time.Second):
				}
			}
		}()
	}
	for i := 0; i < n; i++ {
		ch <- i
	}
	close(ch)
	wg.Wait()
}

func workDir() string {
	d := os.Getenv("VERIF_WORK")
	if d == "" {
		d = filepath.Join(os.TempDir(), "verif-work")
	}
	_ = os.MkdirAll(d, 0o755)
	return d
}

func caseID(p string, seed uint64, i int) string { return fmt.Sprintf("%s-%d-%d", p, seed, i) }

func strsToBytes(l []string) [][]byte {
	r := make([][]byte, len(l))
	for i, s := range l {
		r[i] = []byte(s)
	}
	return r
}

func timeAfter(seconds int) <-chan time.Time { return time.After(time.Duration(seconds) * time.Second) }

// newNetworkSimple: a two-level network driver over the simulated transport (prompt "router#").
func newNetworkSimple(tr *sim.Transport, delay time.Duration, extra ...util.Option) (*network.Driver, error) {
	pl := map[string]*network.PrivilegeLevel{
		"exec": {Name: "exec", Pattern: `(?im)^[a-z0-9.\-@/:]{1,32}>$`},
		"privilege-exec": {Name: "privilege-exec", Pattern: `(?im)^[a-z0-9.\-@/:]{1,32}#$`, PreviousPriv: "exec",
			Escalate: "enable", Deescalate: "disable"},
	}
	opts := []util.Option{options.WithCustomTransport(tr), options.WithReadDelay(delay),
		options.WithTimeoutOps(2 * time.Second), options.WithPrivilegeLevels(pl), options.WithDefaultDesiredPriv("privilege-exec")}
	return network.NewDriver("sim", append(opts, extra...)...)
}

// recoverCase turns a panic that escapes into the caller's goroutine while a case runs into a
// reported failure of that case (the property texts say "never panics"); the replay is the case.
// caseLimit: how long one case may take before it is reported as hanging (the longest legitimate
// cases — real ssh sessions, child processes with their own watchdogs — take a few tens of seconds)
const caseLimit = 100 * time.Second

var hangsReported atomic.Int64

// maxCaseExtra bounds what watchCaseExtra may add
const maxCaseExtra = 300 * time.Second

// once several cases have hung the defect is established: later cases get a short limit, so that a
// run in which every case hangs still ends within the driver's time limit
func curCaseLimit() time.Duration {
	if hangsReported.Load() >= 8 {
		return 20 * time.Second
	}
	return caseLimit
}

type inflightCase struct {
	start    time.Time
	replay   interface{}
	reported bool
	extra    time.Duration // added to the limit: cases that legitimately wait out many timeouts
}

var (
	inflightMu   sync.Mutex
	inflight     = map[string]*inflightCase{}
	inflightOnce sync.Once
)

// watchCase registers a running case and returns the function to defer: it reports a panic in the
// caller's goroutine as a failing case (recoverCase) and unregisters the case.  A monitor reports
// every case still running after caseLimit, with its replay.
func watchCase(id string, replay interface{}) func() { return watchCaseExtra(id, replay, 0) }

// watchCaseExtra: as watchCase, for a case whose own configuration makes it wait (so many
// operations that each run into their timeout): extra is added to the monitor's limit.
func watchCaseExtra(id string, replay interface{}, extra time.Duration) func() {
	inflightOnce.Do(func() {
		go func() {
			for {
				time.Sleep(500 * time.Millisecond)
				inflightMu.Lock()
				for cid, e := range inflight {
					if !e.reported && time.Since(e.start) > curCaseLimit()+e.extra {
						e.reported = true
						hangsReported.Add(1)
						prop := cid
						if i := strings.IndexByte(cid, '-'); i > 0 {
							prop = cid[:i]
						}
						emit(&Case{ID: cid, Kind: "hang", Oracle: fmt.Sprintf("the case had not finished %v after it started: a call into the library never returned", time.Since(e.start).Round(time.Second)),
							Sig: prop + ":case-hang", Replay: e.replay})
					}
				}
				inflightMu.Unlock()
			}
		}()
	})
	inflightMu.Lock()
	inflight[id] = &inflightCase{start: time.Now(), replay: replay, extra: extra}
	inflightMu.Unlock()
	return func() {
		inflightMu.Lock()
		delete(inflight, id)
		inflightMu.Unlock()
		if r := recover(); r != nil {
			reportPanic(id, replay, r)
		}
	}
}

func recoverCase(id string, replay interface{}) {
	if r := recover(); r != nil {
		reportPanic(id, replay, r)
	}
}

func reportPanic(id string, replay interface{}, r interface{}) {
	{
		prop := id
		if i := strings.IndexByte(id, '-'); i > 0 {
			prop = id[:i]
		}
		st := string(debug.Stack())
		where := ""
		for _, ln := range strings.Split(st, "\n") {
			if strings.Contains(ln, "/repo/") {
				where = strings.TrimSpace(ln)
				break
			}
		}
		emit(&Case{ID: id, Kind: "panic", Oracle: fmt.Sprintf("panic in the caller's goroutine: %v at %s", r, where),
			Sig: prop + ":panic", Replay: replay})
	}
}
