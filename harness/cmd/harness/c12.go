package main

import (
	"bytes"
	"encoding/json"
	"fmt"
	"regexp"
	"strings"
	"time"

	"github.com/scrapli/scrapligo/channel"
	"github.com/scrapli/scrapligo/driver/network"
	"github.com/scrapli/scrapligo/driver/opoptions"
	"github.com/scrapli/scrapligo/driver/options"
	"github.com/scrapli/scrapligo/util"

	"verif/harness/sim"
)

func init() {
	props["C12"] = prop{Run: runC12, Replay: func(id string, raw json.RawMessage) {
		var c c12Case
		if json.Unmarshal(raw, &c) == nil {
			runC12Case(id, &c)
		}
	}}
}

type c12Event struct {
	Input    string `json:"input"`
	Response string `json:"response"` // name of a generated regex, "" = none (wait for the prompt)
	Hidden   bool   `json:"hidden"`
	Step     string `json:"step"` // what the device says after receiving this event's line
}

type c12Case struct {
	Kind     string     `json:"kind"` // interactive | input | escalate
	Events   []c12Event `json:"events,omitempty"`
	Complete []string   `json:"complete,omitempty"` // names of completion patterns
	Eager    bool       `json:"eager,omitempty"`
	Exact    bool       `json:"exact,omitempty"` // input / interactive: exact (not fuzzy) matching of the echo
	Cmd      string     `json:"cmd,omitempty"`
	OnAuth   int        `json:"on_auth,omitempty"`
	Secret   string     `json:"secret,omitempty"`
	Segs     []int      `json:"segs"`
	DefSeg   int        `json:"default_seg"`
	DelayUS  int        `json:"emit_delay_us"`
	// Mute: 1 + the index of a NON-FINAL event after whose input the device says something that is
	// neither the expected response nor a prompt, and then nothing (0: none): the send must fail
	// with a timeout and no later event's input may be transmitted
	Mute int `json:"mute,omitempty"`
}

// texts whose END matches the named pattern (and which match no other pattern in the pool before their end)
var c12Resp = map[string]string{
	"password_pattern":                         "Enter the enable password: ",
	"username_pattern":                         "please log in\nUsername: ",
	"pfesc_cisco_iosxe_default_privilege_exec": "\nPassword: ",
	"prompt_pattern":                           "\nrouter#",
}

func genC12(r *sim.Rng, i int) *c12Case {
	c := &c12Case{DelayUS: []int{0, 300, 1500}[r.Intn(3)]}
	switch r.Intn(3) {
	case 0:
		c.DefSeg = 0
	case 1:
		c.DefSeg = 1 + r.Intn(5)
	default:
		m := r.Intn(20)
		for k := 0; k < m; k++ {
			c.Segs = append(c.Segs, 1+r.Intn(9))
		}
	}
	switch i % 3 {
	case 0:
		c.Kind = "interactive"
		n := 1 + r.Intn(5)
		names := []string{"password_pattern", "username_pattern", "pfesc_cisco_iosxe_default_privilege_exec"}
		for k := 0; k < n; k++ {
			e := c12Event{Input: r.Pick([]string{"clear logging", "y", "admin", "s3cret", "copy run start", ""})}
			if k == n-1 || r.Chance(1, 4) {
				e.Response = ""
				e.Step = "done " + fmt.Sprint(k) + c12Resp["prompt_pattern"]
			} else {
				e.Response = r.Pick(names)
				e.Step = fmt.Sprintf("step %d text", k) + c12Resp[e.Response]
			}
			e.Hidden = r.Chance(1, 3)
			c.Events = append(c.Events, e)
		}
		if r.Chance(1, 5) {
			// one answer longer than the prompt search depth (a listing before the question): the
			// result still holds the whole dialogue
			k := r.Intn(len(c.Events))
			var sb strings.Builder
			nl := 25 + r.Intn(40)
			for l := 0; l < nl; l++ {
				fmt.Fprintf(&sb, "  interface GigabitEthernet%d/%d of event %d is affected\n", l/8, l%8, k)
			}
			c.Events[k].Step = sb.String() + c.Events[k].Step
			c.Segs, c.DefSeg = nil, []int{0, 64, 700}[r.Intn(3)]
			if c.DelayUS > 300 {
				c.DelayUS = 300
			}
		}
		if r.Chance(1, 3) {
			c.Complete = []string{"prompt_pattern"}
		} else if r.Chance(1, 2) {
			// a device that redisplays something prompt-looking BEFORE the text an event waits for
			// (a log line followed by the prompt, then the question): the event's expected response
			// -- not the prompt -- is what releases the next input
			for k := range c.Events {
				if c.Events[k].Response != "" {
					c.Events[k].Step = fmt.Sprintf("%%LOG-%d: notice\nrouter#\nstep %d text", k, k) + c12Resp[c.Events[k].Response]
				}
			}
		}
		c.Exact = r.Chance(1, 3)
		if len(c.Events) >= 2 && r.Chance(1, 6) {
			m := r.Intn(len(c.Events) - 1)
			c.Mute = m + 1
			c.Complete = nil // (a completion pattern seen earlier would end the dialogue before the silent event)
			c.Events[m].Step = "% working on it"
			if c.DelayUS > 300 {
				c.DelayUS = 300
			}
		}
	case 1:
		c.Kind = "input"
		c.Exact = r.Chance(1, 3)
		c.Cmd = r.Pick([]string{"show version", "show ip interface brief | include up", "x", "terminal width 511", "set cli pager off", "show vlan all"})
		if r.Chance(1, 3) {
			c.Segs, c.DefSeg = nil, sim.SegAllButLast // the last byte of every burst arrives alone
		}
		c.Eager = r.Chance(1, 3)
		if c.DelayUS == 0 {
			c.DelayUS = 300
		}
	default:
		c.Kind = "escalate"
		c.OnAuth = r.Intn(3)
		c.Secret = r.Pick([]string{"s3cr3t", "en4ble", "p%s.w*"})
	}
	return c
}

func runC12(seed uint64, n int, tier string) {
	rng := sim.NewRng(seed)
	var cases []*c12Case
	for i := 0; i < n; i++ {
		cases = append(cases, genC12(rng.Fork(), i))
	}
	parallel(len(cases), func(i int) { runC12Case(caseID("C12", seed, i), cases[i]) })
}

func runC12Case(id string, c *c12Case) {
	defer watchCase(id, c)()
	rx := map[string]string{}
	for _, e := range loadRegexes() {
		rx[e.Name] = e.Src
	}
	cs := &Case{ID: id, Kind: c.Kind, HypOK: true, Replay: c}
	switch c.Kind {
	case "interactive":
		var steps [][]byte
		hidden := map[int]bool{}
		for k, e := range c.Events {
			steps = append(steps, []byte(e.Step))
			if e.Hidden {
				hidden[k] = true
			}
		}
		dev := &sim.ScriptDevice{Steps: steps, EchoInput: true, Hidden: hidden}
		tr := sim.NewTransport(dev)
		tr.Segs, tr.DefaultSeg = c.Segs, c.DefSeg
		tr.EmitDelay = time.Duration(c.DelayUS) * time.Microsecond
		d, err := newGeneric(tr, options.WithTimeoutOps(600*time.Millisecond))
		if err != nil || d.Open() != nil {
			cs.Oracle = "setup failed"
			emit(cs)
			return
		}
		var evs []*channel.SendInteractiveEvent
		var especs []string
		for _, e := range c.Events {
			ev := &channel.SendInteractiveEvent{ChannelInput: e.Input, HideInput: e.Hidden}
			rn := "-"
			if e.Response != "" {
				ev.ChannelResponse = rx[e.Response]
				rn = e.Response
			}
			evs = append(evs, ev)
			h := "v"
			if e.Hidden {
				h = "h"
			}
			especs = append(especs, fmt.Sprintf("%s/%s/%s", hx([]byte(e.Input)), rn, h))
		}
		var oo []util.Option
		iaFlags := ""
		if c.Exact {
			oo = append(oo, opoptions.WithExactMatchInput())
			iaFlags = "x"
		}
		if len(c.Complete) > 0 {
			var ps []*regexp.Regexp
			for _, n := range c.Complete {
				ps = append(ps, regexp.MustCompile(rx[n]))
			}
			oo = append(oo, opoptions.WithCompletePatterns(ps))
		}
		tr.Mark('C')
		r, e := d.SendInteractive(evs, oo...)
		if e != nil && errClass(e) == "timeout" {
			tr.Mark('D')
		}
		time.Sleep(time.Duration(c.DelayUS)*time.Microsecond + time.Millisecond)
		logStr := tr.LogString()
		writes, _, _ := tr.Snapshot()
		daw := append([]int(nil), tr.DeliveredAtWrite...)
		start := tr.StartBytes()
		_ = d.Close()
		call := fmt.Sprintf("ia|%s|%s|%s", iaFlags, strings.Join(c.Complete, ","), strings.Join(especs, ";"))
		cs.Line = fmt.Sprintf("chan 1000 prompt_pattern %s %s %s %s", hx([]byte("\n")), hx(start), hxStrs([]string{call}), logStr)
		out := ""
		if e != nil {
			out = "err:" + errClass(e)
		} else {
			out = "ok:" + hx([]byte(r.Result))
		}
		var wl [][]byte
		wi := 0
		for _, w := range writes {
			tag := "p"
			// hidden inputs are written redacted: the k-th event input is write 2k
			if wi%2 == 0 && wi/2 < len(c.Events) && c.Events[wi/2].Hidden {
				tag = "r"
			}
			wl = append(wl, append([]byte(tag), w...))
			wi++
		}
		cs.Obs = fmt.Sprintf("%s sync %s L", out, hxList(wl))
		cs.Nontrivial = len(c.Events) > 1
		// ---- oracle: pacing.  Event k's input (write 2k) may only be transmitted once everything
		// the device said after event k-1 (which ends with the expected response) was delivered.
		emitted := len(start)
		lines := 0
		for k := 0; k < len(c.Events) && 2*k < len(writes); k++ {
			if k > 0 {
				if daw[2*k] < emitted-1 { // (the patterns allow one optional trailing blank)
					cs.Oracle = fmt.Sprintf("event %d's input was transmitted when only %d of the %d bytes the device had sent (ending with event %d's expected response) were delivered", k, daw[2*k], emitted, k-1)
					cs.Sig = "C12:typed-ahead"
					break
				}
			}
			// echo (visible only) + newline echo + step text
			if !c.Events[k].Hidden {
				emitted += len(c.Events[k].Input)
			}
			emitted += 1 + len(c.Events[k].Step)
			lines++
		}
		if cs.Oracle == "" && e == nil {
			// whole dialogue: every line of every step text the device sent appears in the result, in order
			pos := 0
		whole:
			for k := 0; k < lines; k++ {
				for _, ln := range strings.Split(c.Events[k].Step, "\n") {
					t := strings.TrimSpace(ln)
					if t == "" {
						continue
					}
					at := strings.Index(r.Result[pos:], t)
					if at < 0 {
						cs.Oracle = fmt.Sprintf("result (%d bytes) lacks the device's line %q of event %d (or has it out of order)", len(r.Result), t, k)
						cs.Sig = "C12:result-not-whole"
						break whole
					}
					pos += at + len(t)
				}
			}
		}
		if c.Mute > 0 {
			cs.Kind = "interactive-mute"
			switch {
			case len(writes) > 2*c.Mute:
				cs.Oracle = fmt.Sprintf("event %d's input was transmitted although event %d's expected response never arrived (%d writes reached the device, the send returned %v)", c.Mute, c.Mute-1, len(writes), e)
				cs.Sig = "C12:typed-ahead"
			case e == nil && len(c.Complete) == 0:
				cs.Oracle = fmt.Sprintf("the send succeeded although the device never gave event %d's expected response", c.Mute-1)
				cs.Sig = "C12:no-error"
			case e != nil && errClass(e) != "timeout":
				cs.Oracle = "unexpected error " + e.Error()
				cs.Sig = "C12:error:" + errClass(e)
			}
			emit(cs)
			return
		}
		if cs.Oracle == "" && e != nil {
			cs.Oracle = "unexpected error " + e.Error()
			cs.Sig = "C12:error:" + errClass(e)
		}
		emit(cs)
	case "input":
		dev := &sim.CLIDevice{Prompt: []byte("router#"), Banner: sim.Atoms([]byte("router#")), Outputs: [][][]byte{sim.Atoms([]byte("some output"))}}
		tr := sim.NewTransport(dev)
		tr.Segs, tr.DefaultSeg = c.Segs, c.DefSeg
		tr.EmitDelay = time.Duration(c.DelayUS) * time.Microsecond
		d, err := newGeneric(tr, options.WithTimeoutOps(600*time.Millisecond))
		if err != nil || d.Open() != nil {
			cs.Oracle = "setup failed"
			emit(cs)
			return
		}
		var oo []util.Option
		flags := ""
		if c.Eager {
			oo = append(oo, opoptions.WithEager())
			flags = "e"
		}
		if c.Exact {
			oo = append(oo, opoptions.WithExactMatchInput())
			flags += "x"
		}
		tr.Mark('C')
		b, e := d.Channel.SendInput(c.Cmd, oo...)
		time.Sleep(time.Duration(c.DelayUS)*time.Microsecond + time.Millisecond)
		logStr := tr.LogString()
		writes, _, _ := tr.Snapshot()
		daw := append([]int(nil), tr.DeliveredAtWrite...)
		start := tr.StartBytes()
		_ = d.Close()
		cs.Line = fmt.Sprintf("chan 1000 prompt_pattern %s %s %s %s", hx([]byte("\n")), hx(start), hxStrs([]string{fmt.Sprintf("in|%s|%s|", hx([]byte(c.Cmd)), flags)}), logStr)
		out := "ok:" + hx(b)
		if e != nil {
			out = "err:" + errClass(e)
		}
		var wl [][]byte
		for _, w := range writes {
			wl = append(wl, append([]byte("p"), w...))
		}
		cs.Obs = fmt.Sprintf("%s sync %s L", out, hxList(wl))
		cs.Nontrivial = true
		if len(writes) >= 2 && !c.Eager {
			if daw[1] < len(start)+len(c.Cmd) {
				cs.Oracle = fmt.Sprintf("return was sent when only %d bytes were delivered; the echo of the command ends at byte %d", daw[1], len(start)+len(c.Cmd))
				cs.Sig = "C12:return-before-echo"
			}
		}
		if len(writes) != 2 || !bytes.Equal(writes[0], []byte(c.Cmd)) || !bytes.Equal(writes[1], []byte("\n")) {
			cs.Oracle = fmt.Sprintf("writes %q, want the command and one return", writes)
			cs.Sig = "C12:writes"
		}
		emit(cs)
	case "escalate":
		dev := &sim.PrivDevice{Levels: map[string]*sim.PrivLevel{
			"exec":           {Name: "exec", Prompt: "host(l0)#"},
			"privilege-exec": {Name: "privilege-exec", Prompt: "host(l1)#", Previous: "exec", Escalate: "enable", Deescalate: "disable", Auth: true, AuthPrompt: "Password: "},
		}, Mode: "exec", Secret: c.Secret, OnAuth: sim.AuthBehaviour(c.OnAuth)}
		tr := sim.NewTransport(dev)
		tr.Segs, tr.DefaultSeg = c.Segs, c.DefSeg
		tr.EmitDelay = time.Duration(c.DelayUS) * time.Microsecond
		pl := map[string]*network.PrivilegeLevel{
			"exec":           {Name: "exec", Pattern: rx["verif_lvl_0"]},
			"privilege-exec": {Name: "privilege-exec", Pattern: rx["verif_lvl_1"], PreviousPriv: "exec", Escalate: "enable", Deescalate: "disable", EscalateAuth: true, EscalatePrompt: rx[c04AuthPromptRx]},
		}
		d, err := network.NewDriver("sim", options.WithCustomTransport(tr), options.WithReadDelay(20*time.Microsecond), options.WithTimeoutOps(500*time.Millisecond),
			options.WithPrivilegeLevels(pl), options.WithDefaultDesiredPriv("privilege-exec"), options.WithAuthSecondary(c.Secret))
		if err != nil || d.Open() != nil {
			cs.Oracle = "setup failed"
			emit(cs)
			return
		}
		tr.Mark('C')
		t0 := time.Now()
		e := d.AcquirePriv("privilege-exec")
		if e != nil && (errClass(e) == "timeout" || time.Since(t0) > 480*time.Millisecond) {
			tr.Mark('D')
		}
		time.Sleep(time.Duration(c.DelayUS)*time.Microsecond + time.Millisecond)
		logStr := tr.LogString()
		writes, _, _ := tr.Snapshot()
		start := tr.StartBytes()
		cached := d.CurrentPriv
		_ = d.Close()
		specs := []string{
			fmt.Sprintf("%s|verif_lvl_0||||||", hx([]byte("exec"))),
			fmt.Sprintf("%s|verif_lvl_1||%s|%s|%s|1|%s", hx([]byte("privilege-exec")), hx([]byte("exec")), hx([]byte("disable")), hx([]byte("enable")), c04AuthPromptRx),
		}
		cs.Line = fmt.Sprintf("net 1000 %s %s %s %s %s %s %s", hx([]byte("\n")), hx(start), hx([]byte("privilege-exec")), hx([]byte(c.Secret)),
			hxStrs(specs), hxStrs([]string{"acq|" + hx([]byte("privilege-exec"))}), logStr)
		out := "ok:"
		if e != nil {
			out = "err:" + errClass(e)
		}
		var wl [][]byte
		for _, w := range writes {
			tag := "p"
			if string(w) == c.Secret {
				tag = "r"
			}
			wl = append(wl, append([]byte(tag), w...))
		}
		cs.Obs = fmt.Sprintf("%s sync %s %s", out, hxList(wl), hx([]byte(cached)))
		cs.Nontrivial = true
		// ---- oracle: the secret reaches the device only at the password prompt
		for _, l := range dev.Log {
			if l.Line == c.Secret && !l.Secret {
				cs.Oracle = fmt.Sprintf("the secondary secret was typed at the command prompt of mode %s (device behaviour %d)", l.Mode, c.OnAuth)
				cs.Sig = "C12:secret-at-command-prompt"
			}
		}
		switch c.OnAuth {
		case 0, 1:
			if e != nil || dev.Mode != "privilege-exec" {
				cs.Oracle = fmt.Sprintf("escalation failed (%v), device in %s", e, dev.Mode)
				cs.Sig = "C12:escalation-failed"
			}
		}
		emit(cs)
	}
}
