package main

import (
	"bytes"
	"encoding/json"
	"fmt"
	"regexp"
	"strings"
	"sync"
	"time"

	"github.com/scrapli/scrapligo/driver/generic"
	"github.com/scrapli/scrapligo/driver/opoptions"
	"github.com/scrapli/scrapligo/driver/options"
	"github.com/scrapli/scrapligo/util"

	"verif/harness/sim"
)

func init() {
	props["C18"] = prop{Run: runC18, Replay: func(id string, raw json.RawMessage) {
		var w struct {
			TO *c18TO `json:"timeouts"`
		}
		if json.Unmarshal(raw, &w) == nil && w.TO != nil {
			runC18TO(id, w.TO)
			return
		}
		var c c18Case
		if json.Unmarshal(raw, &c) == nil {
			runC18Case(id, &c)
		}
	}}
}

type c18Cb struct {
	Contains    string  `json:"contains,omitempty"`
	NotContains string  `json:"not_contains,omitempty"`
	Re          string  `json:"re,omitempty"` // name of a generated regex
	Sensitive   bool    `json:"case_sensitive,omitempty"`
	NoReset     bool    `json:"no_reset_requested"` // ResetOutput defaults to true and the option can only set it to true
	Once        bool    `json:"once,omitempty"`
	Complete    bool    `json:"complete,omitempty"`
	NextTimeout bool    `json:"next_timeout,omitempty"`
	Answer      *string `json:"answer,omitempty"`
}

type c18Case struct {
	Input  string   `json:"input"`
	Cbs    []c18Cb  `json:"callbacks"`
	Steps  []string `json:"steps"`
	Segs   []int    `json:"segs"`
	DefSeg int      `json:"default_seg"`
}

var c18Texts = []string{"Are you sure? [y/n]: ", "Proceed with reload? [confirm]", "Destination filename [startup-config]? ", "Password: ",
	"% Invalid input\n", "Copy complete\nrouter#", "router(config)#", "Building configuration...\n[OK]\nrouter#", "--More--", "PASSWORD: ", "password required\n"}

var c18Needles = []string{"[y/n]", "[confirm]", "filename", "password", "Password", "router#", "more", "[OK]", "invalid", "complete", "config"}

func genC18(r *sim.Rng, rx map[string]string) *c18Case {
	c := &c18Case{Input: r.Pick([]string{"reload", "copy run start", "clear logging", ""})}
	n := 1 + r.Intn(5)
	for i := 0; i < n; i++ {
		cb := c18Cb{}
		switch r.Intn(5) {
		case 0:
			cb.Re = r.Pick([]string{"password_pattern", "prompt_pattern", "username_pattern"})
		case 1:
			// a text AND a pattern: the trigger holds when EITHER is there
			cb.Re = r.Pick([]string{"password_pattern", "prompt_pattern", "username_pattern"})
			cb.Contains = r.Pick(c18Needles)
		default:
			cb.Contains = r.Pick(c18Needles)
		}
		if r.Chance(1, 3) {
			cb.NotContains = r.Pick(c18Needles)
		}
		cb.Sensitive = r.Chance(1, 3)
		cb.Once = r.Chance(1, 4)
		cb.Complete = r.Chance(1, 4)
		cb.NextTimeout = r.Chance(1, 5)
		if cb.Once && !cb.Complete && r.Chance(1, 2) {
			// ResetOutput false (only reachable by setting the exported field): the accumulated output is
			// kept, the trigger keeps holding, the once-callback is due again at the next evaluation --
			// with or without new bytes from the device
			cb.NoReset = true
		}
		if r.Chance(2, 3) && !cb.NoReset {
			// (a no-reset callback that also answers would race the device's reaction against the
			// re-evaluation of its own trigger: both orders are legal, so it is not generated)
			a := r.Pick([]string{"y", "", "secret", "n"})
			cb.Answer = &a
		}
		c.Cbs = append(c.Cbs, cb)
	}
	// make completion likely: last callback completes on the prompt
	if r.Chance(3, 4) {
		c.Cbs = append(c.Cbs, c18Cb{Contains: "router#", Complete: true})
	}
	k := 1 + r.Intn(4)
	for i := 0; i < k; i++ {
		c.Steps = append(c.Steps, r.Pick(c18Texts))
	}
	switch r.Intn(3) {
	case 0:
		c.DefSeg = 0
	case 1:
		c.DefSeg = 1 + r.Intn(4)
	default:
		m := r.Intn(20)
		for i := 0; i < m; i++ {
			c.Segs = append(c.Segs, 1+r.Intn(9))
		}
	}
	return c
}

func runC18(seed uint64, n int, tier string) {
	rng := sim.NewRng(seed)
	rx := map[string]string{}
	for _, e := range loadRegexes() {
		rx[e.Name] = e.Src
	}
	cases := make([]*c18Case, n)
	for i := range cases {
		cases[i] = genC18(rng.Fork(), rx)
	}
	c18rx = rx
	nto := 12
	tos := make([]*c18TO, nto)
	for i := range tos {
		tos[i] = genC18TO(rng.Fork())
	}
	parallel(n+nto, func(i int) {
		if i < n {
			runC18Case(caseID("C18", seed, i), cases[i])
		} else {
			runC18TO(caseID("C18", seed, i), tos[i-n])
		}
	})
}

var c18rx map[string]string

// specTrigger is the property's trigger: contains (case-insensitively unless disabled) or regex
// match, and not containing the not-contains text.
func specTrigger(cb *c18Cb, re *regexp.Regexp, b []byte) bool {
	x := b
	lo := func(s string) []byte {
		if cb.Sensitive {
			return []byte(s)
		}
		return bytes.ToLower([]byte(s))
	}
	if !cb.Sensitive {
		x = bytes.ToLower(b)
	}
	hit := (cb.Contains != "" && bytes.Contains(x, lo(cb.Contains))) || (re != nil && re.Match(x))
	if !hit {
		return false
	}
	if cb.NotContains != "" && bytes.Contains(x, lo(cb.NotContains)) {
		return false
	}
	return true
}

func runC18Case(id string, c *c18Case) {
	defer watchCase(id, c)()
	if c18rx == nil {
		c18rx = map[string]string{}
		for _, e := range loadRegexes() {
			c18rx[e.Name] = e.Src
		}
	}
	var steps [][]byte
	for _, s := range c.Steps {
		steps = append(steps, []byte(s))
	}
	dev := &sim.ScriptDevice{Steps: steps}
	tr := sim.NewTransport(dev)
	tr.Segs = c.Segs
	tr.DefaultSeg = c.DefSeg
	cs := &Case{ID: id, Kind: fmt.Sprintf("cbs=%d", len(c.Cbs)), HypOK: true, Replay: c}
	d, err := newGeneric(tr, options.WithReadDelay(20*time.Microsecond))
	if err != nil || d.Open() != nil {
		cs.Oracle = "driver setup failed"
		emit(cs)
		return
	}
	type inv struct {
		i   int
		arg string
	}
	var mu sync.Mutex
	var trace []inv
	var cbs []*generic.Callback
	var res []*regexp.Regexp
	var specs []string
	for i := range c.Cbs {
		i := i
		cb := &c.Cbs[i]
		var oo []util.Option
		var re *regexp.Regexp
		reName := "-"
		if cb.Contains != "" {
			oo = append(oo, opoptions.WithCallbackContains(cb.Contains))
		}
		if cb.Re != "" {
			re = regexp.MustCompile(c18rx[cb.Re])
			oo = append(oo, opoptions.WithCallbackContainsRe(re))
			reName = cb.Re
		}
		res = append(res, re)
		if cb.NotContains != "" {
			oo = append(oo, opoptions.WithCallbackNotContains(cb.NotContains))
		}
		if cb.Sensitive {
			oo = append(oo, opoptions.WithCallbackInsensitive(false))
		}
		if cb.Once {
			oo = append(oo, opoptions.WithCallbackOnce())
		}
		if cb.Complete {
			oo = append(oo, opoptions.WithCallbackComplete())
		}
		if cb.NextTimeout {
			oo = append(oo, opoptions.WithCallbackNextTimeout(120*time.Millisecond))
		}
		fn := func(dd *generic.Driver, s string) error {
			mu.Lock()
			trace = append(trace, inv{i, s})
			mu.Unlock()
			if cb.Answer != nil {
				return dd.Channel.WriteAndReturn([]byte(*cb.Answer), false)
			}
			return nil
		}
		gcb, e := generic.NewCallback(fn, oo...)
		if e != nil {
			cs.Oracle = "NewCallback: " + e.Error()
			emit(cs)
			return
		}
		if cb.NoReset {
			gcb.ResetOutput = false
		}
		cbs = append(cbs, gcb)
		flags := "r" // ResetOutput defaults to true
		if cb.NoReset {
			flags = ""
		}
		if !cb.Sensitive {
			flags += "i"
		}
		if cb.Once {
			flags += "o"
		}
		if cb.Complete {
			flags += "c"
		}
		if cb.NextTimeout {
			flags += "t"
		}
		ans := "-"
		if cb.Answer != nil {
			ans = hx([]byte(*cb.Answer))
			if ans == "" {
				ans = "00x" // placeholder replaced below: empty answer must stay distinguishable from none
			}
		}
		specs = append(specs, fmt.Sprintf("%s/%s/%s/%s/%s", hx([]byte(cb.Contains)), hx([]byte(cb.NotContains)), reName, flags, ans))
	}
	tr.Mark('C')
	r, err := d.SendWithCallbacks(c.Input, cbs, 120*time.Millisecond)
	if err != nil && errClass(err) == "timeout" {
		tr.Mark('D')
	}
	time.Sleep(2 * time.Millisecond)
	logStr := tr.LogString()
	writes, _, _ := tr.Snapshot()
	_ = d.Close()
	for i := range specs {
		specs[i] = strings.Replace(specs[i], "/00x", "/", 1)
	}
	call := fmt.Sprintf("cb|%s|%s", hx([]byte(c.Input)), strings.Join(specs, ";"))
	cs.Line = fmt.Sprintf("chan 1000 prompt_pattern %s %s %s %s", hx([]byte("\n")), hx(nil), hxStrs([]string{call}), logStr)
	out := ""
	if err != nil {
		out = "err:" + errClass(err)
	} else {
		out = "ok:" + hx([]byte(r.Result))
	}
	var wl, tl [][]byte
	for _, w := range writes {
		wl = append(wl, append([]byte("p"), w...))
	}
	mu.Lock()
	for _, t := range trace {
		tl = append(tl, []byte(fmt.Sprintf("%d:%s", t.i, t.arg)))
	}
	mu.Unlock()
	cs.Obs = fmt.Sprintf("%s sync %s %s", out, hxList(wl), hxList(tl))
	cs.Nontrivial = len(trace) > 0
	// ---- oracle from the property text
	seenOnce := map[int]bool{}
	for k, t := range trace {
		if !specTrigger(&c.Cbs[t.i], res[t.i], []byte(t.arg)) {
			cs.Oracle = fmt.Sprintf("invocation %d: callback %d ran on %q although its trigger does not hold", k, t.i, t.arg)
			cs.Sig = "C18:spurious"
			if c.Cbs[t.i].NotContains != "" {
				cs.Sig = "C18:not-contains-inverted"
			}
			break
		}
		for j := 0; j < t.i; j++ {
			if specTrigger(&c.Cbs[j], res[j], []byte(t.arg)) {
				cs.Oracle = fmt.Sprintf("invocation %d: callback %d ran on %q although callback %d (earlier in the list) also triggers", k, t.i, t.arg, j)
				cs.Sig = "C18:not-first"
				if c.Cbs[j].NotContains != "" {
					cs.Sig = "C18:not-contains-inverted"
				}
				break
			}
		}
		if c.Cbs[t.i].Once {
			if seenOnce[t.i] {
				cs.Oracle = fmt.Sprintf("once-callback %d ran twice", t.i)
				cs.Sig = "C18:once"
			}
			seenOnce[t.i] = true
		}
	}
	if cs.Oracle == "" && err != nil && errClass(err) != "timeout" && errClass(err) != "operation" {
		cs.Oracle = "unexpected error " + err.Error()
		cs.Sig = "C18:error"
	}
	if cs.Oracle == "" && err != nil && errClass(err) == "timeout" {
		// a timeout is only right if, at the end, no trigger held on what had accumulated: check
		// that no callback would have fired on any prefix state we can reconstruct -- the model
		// comparison covers this; the oracle checks the weaker "nothing completed".
		for _, t := range trace {
			if c.Cbs[t.i].Complete {
				cs.Oracle = "a complete-callback ran but the operation timed out"
				cs.Sig = "C18:complete"
			}
		}
		// the last callback that ran kept the output (no reset) and does not answer: its trigger still
		// holds on the same output, it is the first such callback, so it is due again at once -- it is
		// marked once, so the operation must end with the once error, not with a timeout
		if n := len(trace); n > 0 && cs.Oracle == "" {
			last := c.Cbs[trace[n-1].i]
			if last.NoReset && last.Once && !last.Complete && last.Answer == nil {
				cs.Oracle = fmt.Sprintf("callback %d (once, output not reset) ran and its trigger still held on the unchanged output, yet the operation timed out instead of returning the once error", trace[n-1].i)
				cs.Sig = "C18:trigger-not-reevaluated"
			}
		}
	}
	emit(cs)
}

// ---- timeouts in force (next-timeout, histories): designed dialogues with a slow device.
// Three callbacks with disjoint triggers — A answers "[confirm]", B answers "filename", C completes
// on the prompt — against a device that asks the two questions and then shows the prompt, pausing
// PauseMS before one of its reactions.  The dialogue completes under the property, so the send
// must return it whenever every pause is shorter than the timeout in force:
//
//	reuse: no callback has a next-timeout; a first send (timeout OpMS, no pause) is followed by a
//	       second send of THE SAME callback objects with timeout SecondMS > PauseMS;
//	next:  one send with timeout OpMS; B announces NextMS > PauseMS and the device pauses right
//	       after B's answer ("the next read after this callback").
type c18TO struct {
	Variant string `json:"variant"`
	OpMS    int    `json:"op_ms"`
	Second  int    `json:"second_ms,omitempty"`
	NextMS  int    `json:"next_ms,omitempty"`
	PauseMS int    `json:"pause_ms"`
	PauseAt string `json:"pause_at"` // text whose emission is delayed
	Order   []int  `json:"order"`    // permutation of A, B, C in the list
}

func genC18TO(r *sim.Rng) *c18TO {
	c := &c18TO{OpMS: 150, PauseMS: 320 + r.Intn(100)}
	c.Order = [][]int{{0, 1, 2}, {2, 1, 0}, {1, 0, 2}, {1, 2, 0}, {0, 2, 1}, {2, 0, 1}}[r.Intn(6)]
	if r.Bool() {
		c.Variant = "reuse"
		c.Second = 1500
		c.PauseAt = r.Pick([]string{"filename", "router#"})
	} else {
		c.Variant = "next"
		c.NextMS = 1500
		c.PauseAt = "router#" // the reaction to B's answer
	}
	return c
}

func runC18TO(id string, c *c18TO) {
	defer watchCase(id, c)()
	cs := &Case{ID: id, Kind: "timeouts-" + c.Variant, HypOK: true, Replay: map[string]interface{}{"timeouts": c}, Nontrivial: true}
	steps := func() [][]byte {
		return [][]byte{[]byte("Proceed with reload? [confirm]"), []byte("Destination filename [startup-config]? "), []byte("Copy complete\nrouter#")}
	}
	dev := &sim.ScriptDevice{Steps: steps()}
	tr := sim.NewTransport(dev)
	d, err := newGeneric(tr, options.WithReadDelay(20*time.Microsecond))
	if err != nil || d.Open() != nil {
		cs.Oracle = "driver setup failed"
		emit(cs)
		return
	}
	defer d.Close()
	var mu sync.Mutex
	var ran []int
	mk := func(i int, needle, answer string, extra ...util.Option) *generic.Callback {
		oo := append([]util.Option{opoptions.WithCallbackContains(needle)}, extra...)
		cb, _ := generic.NewCallback(func(dd *generic.Driver, s string) error {
			mu.Lock()
			ran = append(ran, i)
			mu.Unlock()
			if i == 2 {
				return nil
			}
			return dd.Channel.WriteAndReturn([]byte(answer), false)
		}, oo...)
		return cb
	}
	var bOpts []util.Option
	if c.Variant == "next" {
		bOpts = append(bOpts, opoptions.WithCallbackNextTimeout(time.Duration(c.NextMS)*time.Millisecond))
	}
	three := []*generic.Callback{mk(0, "[confirm]", "y"), mk(1, "filename", "", bOpts...), mk(2, "router#", "", opoptions.WithCallbackComplete())}
	var cbs []*generic.Callback
	for _, k := range c.Order {
		cbs = append(cbs, three[k])
	}
	pause := func(em []byte) time.Duration {
		if bytes.Contains(em, []byte(c.PauseAt)) {
			return time.Duration(c.PauseMS) * time.Millisecond
		}
		return 0
	}
	want := "Copy complete"
	switch c.Variant {
	case "reuse":
		r1, e1 := d.SendWithCallbacks("reload", cbs, time.Duration(c.OpMS)*time.Millisecond)
		if e1 != nil || !strings.Contains(r1.Result, want) {
			cs.Oracle = fmt.Sprintf("first send (no pause, timeout %d ms) did not return the dialogue: %v", c.OpMS, e1)
			cs.Sig = "C18:timeouts-first-send"
			emit(cs)
			return
		}
		dev.Rescript(steps())
		tr.EmitDelayFn = pause
		mu.Lock()
		ran = nil
		mu.Unlock()
		t0 := time.Now()
		r2, e2 := d.SendWithCallbacks("reload", cbs, time.Duration(c.Second)*time.Millisecond)
		el := time.Since(t0)
		cs.Obs = fmt.Sprintf("second send: err=%v after %d ms, callbacks run %v", e2, el.Milliseconds(), ran)
		if e2 != nil {
			cs.Oracle = fmt.Sprintf("the same callbacks sent again with timeout %d ms: the device paused %d ms before %q and the send ended after %d ms with %v (callbacks run: %v) — no callback has a next-timeout, the timeout in force is the send's", c.Second, c.PauseMS, c.PauseAt, el.Milliseconds(), e2, ran)
			cs.Sig = "C18:stale-timeout"
		} else if !strings.Contains(r2.Result, want) {
			cs.Oracle = fmt.Sprintf("second send returned %q, not the whole dialogue", r2.Result)
			cs.Sig = "C18:timeouts-result"
		}
	case "next":
		tr.EmitDelayFn = pause
		t0 := time.Now()
		r1, e1 := d.SendWithCallbacks("reload", cbs, time.Duration(c.OpMS)*time.Millisecond)
		el := time.Since(t0)
		cs.Obs = fmt.Sprintf("send: err=%v after %d ms, callbacks run %v", e1, el.Milliseconds(), ran)
		if e1 != nil {
			cs.Oracle = fmt.Sprintf("callback B announced a next-timeout of %d ms, the device paused %d ms right after B's answer and the send ended after %d ms with %v (callbacks run: %v)", c.NextMS, c.PauseMS, el.Milliseconds(), e1, ran)
			cs.Sig = "C18:next-timeout-ignored"
		} else if !strings.Contains(r1.Result, want) {
			cs.Oracle = fmt.Sprintf("send returned %q, not the whole dialogue", r1.Result)
			cs.Sig = "C18:timeouts-result"
		}
	}
	emit(cs)
}
