package main

import (
	"bufio"
	"bytes"
	"encoding/json"
	"fmt"
	"os"
	"os/exec"
	"runtime"
	"strings"
	"sync"
	"time"

	"github.com/scrapli/scrapligo/channel"
	"github.com/scrapli/scrapligo/driver/generic"
	"github.com/scrapli/scrapligo/driver/netconf"
	"github.com/scrapli/scrapligo/driver/network"
	"github.com/scrapli/scrapligo/driver/options"
	"github.com/scrapli/scrapligo/logging"
	"github.com/scrapli/scrapligo/util"

	"verif/harness/sim"
)

// C07: every scenario runs in a CHILD process (this binary re-executed with VERIF_C07_CHILD set),
// because the failures looked for — a panic in a library goroutine, a deadlocked Close — would
// take the whole harness down.  The child prints one JSON line with what it observed.

func init() {
	props["C07"] = prop{Run: runC07, Replay: func(id string, raw json.RawMessage) {
		var c c07Case
		if json.Unmarshal(raw, &c) == nil {
			runC07Case(id, &c)
		}
	}}
	if os.Getenv("VERIF_C07_CHILD") != "" {
		c07Child()
		os.Exit(0)
	}
}

type c07Case struct {
	Driver   string `json:"driver"`   // generic | network | netconf
	State    string `json:"state"`    // idle | blocked | eof | ioerr | data-arriving | error-arriving | second-close | after-op
	OnClose  int    `json:"on_close"` // what a blocked transport read does on Close: 0 EOF, 1 error, 2 stays blocked
	DelayUS  int    `json:"read_delay_us"`
	JitterUS int    `json:"jitter_us"` // delay between arming the state and calling Close
	// Force, when set, is a pair of yield labels and the order to release them in (needs the verif hooks)
	Force []string `json:"force,omitempty"`
}

type c07Obs struct {
	Panicked     string   `json:"panicked,omitempty"`
	CloseErr     string   `json:"close_err,omitempty"`
	Returned     bool     `json:"returned"`
	CloseMS      float64  `json:"close_ms"`
	Closed       bool     `json:"transport_closed"`
	Goroutines0  int      `json:"goroutines_before"`
	Goroutines1  int      `json:"goroutines_after"`
	Second       string   `json:"second_close,omitempty"`
	SecondReturn bool     `json:"second_returned"`
	Trace        []string `json:"trace,omitempty"`
	Infeasible   bool     `json:"infeasible,omitempty"`
	SetupFailed  string   `json:"setup_failed,omitempty"`
}

func genC07(r *sim.Rng) *c07Case {
	c := &c07Case{}
	c.Driver = r.Pick([]string{"generic", "generic", "network", "network-hook", "netconf", "netconf"})
	c.State = r.Pick([]string{"idle", "blocked", "eof", "ioerr", "data-arriving", "error-arriving", "second-close", "after-op"})
	c.OnClose = r.Intn(3)
	if c.Driver == "netconf" && r.Intn(6) == 0 {
		c.State = "reply-stored-late"
	}
	c.DelayUS = []int{1, 20, 250, 1000}[r.Intn(4)] // grace = delay*(delay/1000): 1 ms -> 1 s
	c.JitterUS = []int{0, 0, 50, 300, 1500, 5000}[r.Intn(6)]
	if r.Intn(10) == 0 {
		c.Driver, c.OnClose = r.Pick([]string{"generic-standard", "generic-telnet"}), 0
		c.State = r.Pick([]string{"idle", "peer-gone", "inflight", "inflight"})
		if c.Driver == "generic-standard" && r.Intn(3) == 0 {
			c.State = "session-ended"
		}
	}
	return c
}

func runC07(seed uint64, n int, tier string) {
	rng := sim.NewRng(seed)
	var cases []*c07Case
	// the scenario table first (every driver x state x close behaviour at the default delay)
	for _, d := range []string{"generic", "network", "network-hook", "netconf"} {
		for _, s := range []string{"idle", "blocked", "eof", "ioerr", "data-arriving", "error-arriving", "second-close", "after-op"} {
			for oc := 0; oc < 3; oc++ {
				cases = append(cases, &c07Case{Driver: d, State: s, OnClose: oc, DelayUS: 250})
			}
		}
	}
	// the built-in crypto/ssh transport against an in-process server: a live session, a session the
	// server ended while keeping the connection (the device's shell exited), a dropped connection
	for _, s := range []string{"idle", "session-ended", "peer-gone", "inflight", "inflight"} {
		for _, dl := range []int{20, 250} {
			cases = append(cases, &c07Case{Driver: "generic-standard", State: s, DelayUS: dl})
			if s != "session-ended" {
				cases = append(cases, &c07Case{Driver: "generic-telnet", State: s, DelayUS: dl, JitterUS: 300 * (dl % 3)})
			}
		}
	}
	// forced orders: every pair (reader-side label, closer-side label) in both orders, per driver
	// and state (labels that the state never reaches are reported as infeasible and not counted)
	readerLabels := []string{"read:top", "read:before-transport-read", "read:after-read-error", "read:before-error-handoff", "read:before-enqueue"}
	for _, d := range []string{"generic", "netconf"} {
		closeLabels := []string{"close:start", "close:after-done"}
		rl := readerLabels
		if d == "netconf" {
			closeLabels = append(closeLabels, "ncclose:start", "ncclose:after-done")
			rl = append(append([]string{}, readerLabels...), "ncread:top", "ncread:before-error-handoff", "Read:start")
		}
		for _, st := range []string{"idle", "ioerr", "data-arriving", "eof"} {
			for _, a := range rl {
				for _, b := range closeLabels {
					for _, ord := range []string{"ab", "ba"} {
						cases = append(cases, &c07Case{Driver: d, State: st, OnClose: 0, DelayUS: 250, Force: []string{a, b, ord}})
					}
				}
			}
		}
	}
	// NETCONF: a complete reply arrives while Close runs; the read loop is held (by a user logger
	// that blocks on the library's own debug message) between "message recognised" and "message
	// stored" until Close has returned -- the store must still be usable
	for oc := 0; oc < 3; oc++ {
		for _, dl := range []int{20, 250} {
			cases = append(cases, &c07Case{Driver: "netconf", State: "reply-stored-late", OnClose: oc, DelayUS: dl})
		}
	}
	for i := 0; i < n; i++ {
		cases = append(cases, genC07(rng.Fork()))
	}
	parallel(len(cases), func(i int) { runC07Case(caseID("C07", seed, i), cases[i]) })
}

func runC07Case(id string, c *c07Case) {
	cs := &Case{ID: id, Kind: c.Driver + "/" + c.State, HypOK: true, Replay: c, Nontrivial: true}
	raw, _ := json.Marshal(c)
	cmd := exec.Command(os.Args[0])
	cmd.Env = append(os.Environ(), "VERIF_C07_CHILD="+string(raw), "GORACE=halt_on_error=0 exitcode=66")
	var out, errb bytes.Buffer
	cmd.Stdout, cmd.Stderr = &out, &errb
	done := make(chan error, 1)
	_ = cmd.Start()
	go func() { done <- cmd.Wait() }()
	var werr error
	killed := false
	select {
	case werr = <-done:
	case <-time.After(8 * time.Second):
		_ = cmd.Process.Kill()
		<-done
		killed = true
	}
	var o c07Obs
	got := false
	sc := bufio.NewScanner(&out)
	sc.Buffer(make([]byte, 1<<20), 1<<20)
	for sc.Scan() {
		if strings.HasPrefix(sc.Text(), "{") && json.Unmarshal(sc.Bytes(), &o) == nil {
			got = true
		}
	}
	stderr := errb.String()
	race := strings.Contains(stderr, "WARNING: DATA RACE")
	switch {
	case killed:
		cs.Oracle = "child did not finish within 8 s (Close or a follow-up blocked forever)"
		cs.Sig = "C07:hang:" + c.Driver + ":" + c.State
	case got && o.SetupFailed != "":
		// the connection of the scenario could not be set up: Close was never called, nothing was
		// observed about the property (which speaks of a successfully opened connection).  The
		// checker replays such a case alone; one that still cannot be set up is reported as a
		// broken correspondence (the scenario is no longer exercised), never as a failing input.
		cs.Oracle = "harness: " + o.SetupFailed
		cs.Sig = "C07:setup-failed"
		cs.HypOK = false
		cs.Nontrivial = false
	case !got:
		msg := lastLines(stderr, 6)
		cs.Oracle = "process died: " + msg
		cs.Sig = "C07:crash:" + crashKind(stderr)
		_ = werr
	case o.Panicked != "":
		cs.Oracle = "panic during Close: " + o.Panicked
		cs.Sig = "C07:panic:" + crashKind(o.Panicked)
	case !o.Returned:
		cs.Oracle = fmt.Sprintf("Close did not return within 3 s (driver %s, state %s)", c.Driver, c.State)
		cs.Sig = "C07:close-blocked:" + c.Driver + ":" + c.State
	case !o.Closed:
		cs.Oracle = "Close returned but the transport was not closed"
		cs.Sig = "C07:transport-open"
	case c.State == "second-close" && !o.SecondReturn:
		cs.Oracle = "second Close did not return"
		cs.Sig = "C07:second-close-blocked:" + c.Driver
	case c.OnClose != 2 && o.Goroutines1 > o.Goroutines0:
		cs.Oracle = fmt.Sprintf("%d goroutine(s) outlive Close (before open %d, after close %d)", o.Goroutines1-o.Goroutines0, o.Goroutines0, o.Goroutines1)
		cs.Sig = "C07:leak:" + c.Driver + ":" + c.State
	case c.OnClose == 2 && o.Goroutines1 > o.Goroutines0+1:
		// a transport whose blocked read stays blocked after Close keeps ONE goroutine (the channel
		// reader parked inside that read, which nothing can unblock); any further one is a leak
		cs.Oracle = fmt.Sprintf("%d goroutine(s) outlive Close besides the reader parked in the transport's read that stays blocked (before open %d, after close %d)", o.Goroutines1-o.Goroutines0-1, o.Goroutines0, o.Goroutines1)
		cs.Sig = "C07:leak:" + c.Driver + ":" + c.State
	case race:
		cs.Oracle = "data race reported: " + raceSummary(stderr)
		cs.Sig = "C07:race:" + raceSite(stderr)
	}
	if len(c.Force) == 3 {
		cs.Kind = "forced/" + cs.Kind
		if o.Infeasible {
			cs.Kind = "forced-infeasible"
			cs.Nontrivial = false
		}
	}
	cs.Trace = o.Trace
	// model side (CloseRun.run_c07): the observed final outcome must be one of the outcomes of the
	// model's quiescent states, and the record of yield points passed since the scenario's initial
	// state must be a possible record of a run of the model
	mdriver, mstate, tstate, second, user := c07ModelScenario(c)
	if c.Driver == "generic-standard" || c.Driver == "generic-telnet" {
		// a real transport: the direct oracle only (the protocol model is about the channel and the
		// drivers over a transport whose Close closes it)
		emit(cs)
		return
	}
	if got && o.SetupFailed != "" {
		emit(cs)
		return
	}
	if got && !killed && o.Panicked == "" {
		leak := o.Goroutines1 - o.Goroutines0
		if leak < 0 {
			leak = 0
		}
		ret := o.Returned && (c.State != "second-close" || o.SecondReturn)
		cs.Line = fmt.Sprintf("c07 %s %s %d %d %d", mdriver, mstate, c.OnClose, second, user)
		cs.Obs = fmt.Sprintf("returned=%v closed=%v leak=%d", ret, o.Closed, leak)
	} else if o.Panicked != "" || (!got && !killed) {
		cs.Line = fmt.Sprintf("c07 %s %s %d %d %d", mdriver, mstate, c.OnClose, second, user)
		cs.Obs = "panic=" + crashKind(o.Panicked+stderr)
	}
	emit(cs)
	if got && !killed && len(o.Trace) > 0 && len(o.Trace) < 120 {
		ts := &Case{ID: id + "/trace", Kind: "trace/" + c.Driver + "/" + c.State, HypOK: true, Replay: c, Nontrivial: true}
		ts.Line = fmt.Sprintf("c07hooks %s %s %d %d %d %s", mdriver, tstate, c.OnClose, second, user, strings.Join(o.Trace, ","))
		ts.Obs = "accept"
		emit(ts)
	}
}

// c07ModelScenario maps a harness case to the scenario of the protocol model (Close.v).  The
// simulated transport's Read blocks while nothing is available, so an idle connection is the
// model's state "reader parked in the transport read" (the child waits until the transport reports
// a parked reader, and for the yield points that show an EOF / error has been handed on).  The
// network driver's on-close hook runs channel operations during Close: outcomes are compared with
// the model's most general state `any`, the record with `parked-any`.
func c07ModelScenario(c *c07Case) (driver, state, tstate string, second, user int) {
	driver = "cli"
	if c.Driver == "netconf" {
		driver = "netconf"
	}
	state = c.State
	switch c.State {
	case "idle", "after-op", "blocked":
		state = "blocked"
	case "second-close":
		state = "blocked"
		second = 1
	case "reply-stored-late":
		state = "data-arriving"
	}
	tstate = state
	if c.Driver == "network-hook" {
		// outcomes: the most general verified scenario; record: the reader starts parked in the
		// read and the connection may then do anything (the hook's own exchanges)
		user = 1
		state, tstate = "any", "parked-any"
	}
	return
}

func lastLines(s string, n int) string {
	l := strings.Split(strings.TrimSpace(s), "\n")
	if len(l) > n {
		l = l[:n]
	}
	return strings.Join(l, " | ")
}

func crashKind(s string) string {
	switch {
	case strings.Contains(s, "send on closed channel"):
		return "send-on-closed-channel"
	case strings.Contains(s, "close of closed channel"):
		return "close-of-closed-channel"
	case strings.Contains(s, "nil pointer"):
		return "nil-pointer"
	case strings.Contains(s, "all goroutines are asleep"):
		return "deadlock"
	}
	return "other"
}

func raceSummary(s string) string {
	i := strings.Index(s, "WARNING: DATA RACE")
	e := i + 900
	if e > len(s) {
		e = len(s)
	}
	return strings.Join(strings.Fields(s[i:e]), " ")
}

func raceSite(s string) string {
	for _, site := range []string{"readLoopExited", "channel.(*Channel).read", "channel.(*Channel).Close", "netconf.(*Driver)"} {
		if strings.Contains(s, site) {
			return site
		}
	}
	// the racing access is named by function in the report
	if strings.Contains(s, "channel/read.go") || strings.Contains(s, "channel/channel.go") {
		return "channel"
	}
	return "other"
}

// ------------------------------------------------------------------------------------------------
// child

type idleDev struct{ hello []byte }

func (d *idleDev) Start() [][]byte { return sim.Atoms(d.hello) }
func (d *idleDev) Feed(b []byte) [][]byte {
	// answers a bare return with the prompt; NETCONF messages with nothing
	if len(b) == 1 && b[0] == '\n' && len(d.hello) < 20 {
		return sim.Atoms([]byte("\r\nrouter#"))
	}
	return nil
}

// yieldCtl records the labels the instrumented code passes (verif build tag) and can park the
// goroutines that reach two chosen labels, releasing them in a chosen order.
type yieldCtl struct {
	mu      sync.Mutex
	trace   []string
	park    map[string]chan struct{} // label -> gate (closed = released)
	arrived map[string]chan struct{}
	armed   bool
}

func (y *yieldCtl) yield(label string) {
	y.mu.Lock()
	if len(y.trace) < 400 {
		y.trace = append(y.trace, label)
	}
	var gate chan struct{}
	if y.armed {
		if g, ok := y.park[label]; ok {
			select {
			case <-y.arrived[label]:
				// already used once
			default:
				close(y.arrived[label])
				gate = g
			}
		}
	}
	y.mu.Unlock()
	if gate != nil {
		select {
		case <-gate:
		case <-time.After(2 * time.Second):
		}
	}
}

// gate holds the goroutine that calls hold() (once armed) until release().
type gate struct {
	mu       sync.Mutex
	armed    bool
	held     chan struct{}
	released chan struct{}
}

var logGate = &gate{held: make(chan struct{}), released: make(chan struct{})}

func (g *gate) arm() { g.mu.Lock(); g.armed = true; g.mu.Unlock() }
func (g *gate) hold() {
	g.mu.Lock()
	a := g.armed
	g.armed = false
	g.mu.Unlock()
	if !a {
		return
	}
	close(g.held)
	select {
	case <-g.released:
	case <-time.After(5 * time.Second):
	}
}
func (g *gate) waitHeld(d time.Duration) bool {
	select {
	case <-g.held:
		return true
	case <-time.After(d):
		return false
	}
}
func (g *gate) release() {
	g.mu.Lock()
	defer g.mu.Unlock()
	select {
	case <-g.released:
	default:
		close(g.released)
	}
}

// c07SetupFailed: the connection the scenario needs could not be set up (the property is about Close
// after a successful open; nothing was closed).  The stage and the error are reported for the log.
func c07SetupFailed(stage string, err error) {
	msg := "setup failed at " + stage
	if err != nil {
		msg += ": " + err.Error()
	}
	b, _ := json.Marshal(c07Obs{SetupFailed: msg})
	fmt.Println(string(b))
}

func c07Child() {
	var c c07Case
	if json.Unmarshal([]byte(os.Getenv("VERIF_C07_CHILD")), &c) != nil {
		return
	}
	if c.Driver == "generic-standard" || c.Driver == "generic-telnet" {
		c07ChildStandard(&c)
		return
	}
	o := c07Obs{}
	ctl := &yieldCtl{park: map[string]chan struct{}{}, arrived: map[string]chan struct{}{}}
	channel.VerifYield = ctl.yield
	netconf.VerifYield = ctl.yield
	if len(c.Force) == 3 {
		for _, l := range c.Force[:2] {
			ctl.park[l] = make(chan struct{})
			ctl.arrived[l] = make(chan struct{})
		}
	}
	g0 := runtime.NumGoroutine()
	o.Goroutines0 = g0
	hello := []byte("router#")
	if c.Driver == "netconf" {
		hello = []byte("<hello xmlns=\"urn:ietf:params:xml:ns:netconf:base:1.0\"><capabilities><capability>urn:ietf:params:netconf:base:1.1</capability></capabilities><session-id>1</session-id></hello>]]>]]>")
	}
	dev := &idleDev{hello: hello}
	tr := sim.NewTransport(dev)
	tr.OnClose = sim.CloseBehaviour(c.OnClose)
	delay := time.Duration(c.DelayUS) * time.Microsecond
	var closer func() error
	switch c.Driver {
	case "netconf":
		ncOpts := []util.Option{options.WithCustomTransport(tr), options.WithReadDelay(delay), options.WithTimeoutOps(2 * time.Second)}
		if c.State == "reply-stored-late" {
			li, _ := logging.NewInstance(logging.WithLevel("debug"), logging.WithLogger(func(a ...interface{}) {
				if strings.Contains(fmt.Sprint(a...), "storing") {
					logGate.hold()
				}
			}))
			ncOpts = append(ncOpts, options.WithLogger(li))
		}
		d, err := netconf.NewDriver("sim", ncOpts...)
		if err == nil {
			err = d.Open()
		}
		if err != nil {
			c07SetupFailed("open", err)
			return
		}
		closer = d.Close
	case "network-hook":
		// a network driver with the usual on-close hook of the platform definitions: get to the
		// default level, say "exit".  On a dead connection the hook fails; Close must still close.
		d, err := newNetworkSimple(tr, delay, options.WithTimeoutOps(300*time.Millisecond), options.WithNetworkOnClose(func(nd *network.Driver) error {
			if err := nd.AcquirePriv(nd.DefaultDesiredPriv); err != nil {
				return err
			}
			return nd.Channel.WriteAndReturn([]byte("exit"), false)
		}))
		if err == nil {
			err = d.Open()
		}
		if err != nil {
			c07SetupFailed("open", err)
			return
		}
		closer = d.Close
	case "network":
		d, err := newNetworkSimple(tr, delay)
		if err == nil {
			err = d.Open()
		}
		if err != nil {
			c07SetupFailed("open", err)
			return
		}
		closer = d.Close
	default:
		d, err := newGeneric(tr, options.WithReadDelay(delay), options.WithTimeoutOps(2*time.Second))
		if err == nil {
			err = d.Open()
		}
		if err != nil {
			c07SetupFailed("open", err)
			return
		}
		closer = d.Close
		if c.State == "after-op" {
			_, _ = d.GetPrompt()
		}
	}
	// let the reader settle into its blocking read (observed on the transport, not assumed)
	waitUntil := func(what func() bool) {
		dl := time.Now().Add(500 * time.Millisecond)
		for !what() && time.Now().Before(dl) {
			time.Sleep(200 * time.Microsecond)
		}
	}
	seenAfter := func(from int, labels ...string) func() bool {
		// the labels occur in this order in the record after position `from`
		return func() bool {
			ctl.mu.Lock()
			defer ctl.mu.Unlock()
			i := 0
			if from > len(ctl.trace) {
				from = len(ctl.trace)
			}
			for _, l := range ctl.trace[from:] {
				if i < len(labels) && l == labels[i] {
					i++
				}
			}
			return i == len(labels)
		}
	}
	traceLen := func() int {
		ctl.mu.Lock()
		defer ctl.mu.Unlock()
		return len(ctl.trace)
	}
	time.Sleep(time.Millisecond)
	waitUntil(tr.Waiting)
	// the record compared with the model starts when the connection is in the scenario's initial
	// state: after the static states are armed, before a concurrent arrival is started
	resetTrace := func() {
		ctl.mu.Lock()
		ctl.trace = nil
		ctl.mu.Unlock()
	}
	switch c.State {
	case "eof":
		// the reader sees EOF and returns; under NETCONF Driver.read then parks on its hand-off
		from := traceLen()
		tr.Fail(sim.LossEOF)
		if c.Driver == "netconf" {
			waitUntil(seenAfter(from, "read:after-read-error", "ncread:before-error-handoff"))
		} else {
			waitUntil(seenAfter(from, "read:after-read-error"))
		}
		time.Sleep(2 * time.Millisecond)
		resetTrace()
	case "ioerr":
		// the reader parks on its hand-off; under NETCONF Driver.read takes the first error and
		// parks on ITS hand-off, the reader comes round again and parks
		from := traceLen()
		tr.Fail(sim.LossErr)
		if c.Driver == "netconf" {
			waitUntil(seenAfter(from, "read:before-error-handoff", "ncread:before-error-handoff", "read:before-error-handoff"))
		} else {
			waitUntil(seenAfter(from, "read:before-error-handoff"))
		}
		time.Sleep(2 * time.Millisecond)
		resetTrace()
	case "reply-stored-late":
		resetTrace()
		logGate.arm()
		msg := `<rpc-reply xmlns="urn:ietf:params:xml:ns:netconf:base:1.0" message-id="4711"><ok/></rpc-reply>`
		tr.Inject(sim.Atoms([]byte(fmt.Sprintf("\n#%d\n%s\n##\n", len(msg), msg))))
		logGate.waitHeld(300 * time.Millisecond) // the read loop stands right before storeMessage
	case "data-arriving":
		resetTrace()
		go func() { tr.Inject(sim.Atoms([]byte("unsolicited output\r\nrouter#"))) }()
	case "error-arriving":
		resetTrace()
		go func() { tr.Fail(sim.LossErr) }()
	default:
		resetTrace()
	}
	if c.JitterUS > 0 {
		time.Sleep(time.Duration(c.JitterUS) * time.Microsecond)
	}
	if len(c.Force) == 3 {
		ctl.mu.Lock()
		ctl.armed = true
		ctl.mu.Unlock()
		// release the two parked goroutines in the requested order once both have arrived
		go func() {
			a, b := c.Force[0], c.Force[1]
			if c.Force[2] == "ba" {
				a, b = b, a
			}
			both := true
			for _, l := range []string{a, b} {
				select {
				case <-ctl.arrived[l]:
				case <-time.After(250 * time.Millisecond):
					both = false
				}
			}
			if !both {
				o.Infeasible = true
			}
			close(ctl.park[a])
			time.Sleep(2 * time.Millisecond)
			close(ctl.park[b])
		}()
	}
	res := make(chan string, 1)
	t0 := time.Now()
	go func() {
		defer func() {
			if p := recover(); p != nil {
				res <- "panic: " + fmt.Sprint(p)
			}
		}()
		if err := closer(); err != nil {
			res <- "err: " + err.Error()
			return
		}
		res <- "ok"
	}()
	select {
	case r := <-res:
		o.Returned = true
		if strings.HasPrefix(r, "panic: ") {
			o.Panicked = r
		} else if r != "ok" {
			o.CloseErr = r
		}
	case <-time.After(3 * time.Second):
	}
	o.CloseMS = float64(time.Since(t0).Microseconds()) / 1000
	o.Closed = tr.Closed()
	if c.State == "reply-stored-late" {
		logGate.release() // only now does the read loop go on to store the message
		time.Sleep(20 * time.Millisecond)
	}
	if c.State == "second-close" && o.Returned && o.Panicked == "" {
		res2 := make(chan string, 1)
		go func() {
			defer func() {
				if p := recover(); p != nil {
					res2 <- "panic: " + fmt.Sprint(p)
				}
			}()
			_ = closer()
			res2 <- "ok"
		}()
		select {
		case r := <-res2:
			o.SecondReturn = true
			o.Second = r
			if strings.HasPrefix(r, "panic: ") {
				o.Panicked = "second Close: " + r
			}
		case <-time.After(2 * time.Second):
		}
	}
	// let goroutines wind down, then count
	deadline := time.Now().Add(400 * time.Millisecond)
	for time.Now().Before(deadline) {
		if runtime.NumGoroutine() <= g0 {
			break
		}
		time.Sleep(5 * time.Millisecond)
	}
	// +1: the goroutine that ran closer() has returned by now; nothing of the harness remains
	o.Goroutines1 = runtime.NumGoroutine()
	ctl.mu.Lock()
	o.Trace = append([]string(nil), ctl.trace...)
	ctl.mu.Unlock()
	if o.Goroutines1 > g0 && os.Getenv("VERIF_C07_STACKS") != "" {
		buf := make([]byte, 1<<16)
		n := runtime.Stack(buf, true)
		fmt.Fprintln(os.Stderr, string(buf[:n]))
	}
	b, _ := json.Marshal(o)
	fmt.Println(string(b))
}

// c07ChildStandard: the generic driver over the built-in crypto/ssh transport against an in-process
// ssh server (one connection).  States: idle (Close on a live session), session-ended (the server
// ended the session channel — the device's shell exited — and kept the connection up; the reader
// has seen the end of the stream), peer-gone (the server dropped the connection).  "The transport
// is closed" is observed at the server: its side of the connection ends.
func c07ChildStandard(c *c07Case) {
	o := c07Obs{}
	g0 := runtime.NumGoroutine()
	o.Goroutines0 = g0
	delay := time.Duration(c.DelayUS) * time.Microsecond
	var d *generic.Driver
	var err error
	var dbg []util.Option
	var dbgMu sync.Mutex
	var dbgLog []string
	if os.Getenv("VERIF_C07_DEBUG") != "" {
		t00 := time.Now()
		li, _ := logging.NewInstance(logging.WithLevel("debug"), logging.WithLogger(func(a ...interface{}) {
			dbgMu.Lock()
			if len(dbgLog) < 3000 {
				dbgLog = append(dbgLog, fmt.Sprintf("%8.3f %s", time.Since(t00).Seconds()*1000, fmt.Sprint(a...)))
			}
			dbgMu.Unlock()
		}))
		dbg = append(dbg, options.WithLogger(li))
	}
	var sp *c16SSHPeer
	var tp *c16TCPPeer
	var peerStopped chan struct{}
	if c.Driver == "generic-telnet" {
		tp, err = newC16TCPPeer(nil, &idleDev{hello: []byte("router#")})
		if err != nil {
			c07SetupFailed("peer", err)
			return
		}
		peerStopped = tp.stopped
		d, err = generic.NewDriver("127.0.0.1", append(dbg, options.WithPort(tp.Port()), options.WithTransportType("telnet"),
			options.WithAuthBypass(), options.WithTimeoutSocket(400*time.Millisecond),
			options.WithReadDelay(delay), options.WithTimeoutOps(2*time.Second))...)
	} else {
		sp, err = newC16SSHPeer("none", nil, &idleDev{hello: []byte("router#")})
		if err != nil {
			c07SetupFailed("peer", err)
			return
		}
		peerStopped = sp.stopped
		d, err = generic.NewDriver("127.0.0.1", append(dbg, options.WithPort(sp.Port()), options.WithTransportType("standard"),
			options.WithAuthNoStrictKey(), options.WithAuthUsername(c16User), options.WithTimeoutSocket(3*time.Second),
			options.WithReadDelay(delay), options.WithTimeoutOps(2*time.Second))...)
	}
	if err == nil {
		err = d.Open()
	}
	if err != nil {
		c07SetupFailed("open", err)
		return
	}
	// one connection only: the accept loop is over
	if sp != nil {
		_ = sp.ln.Close()
	} else {
		_ = tp.ln.Close()
	}
	if _, err := d.GetPrompt(); err != nil {
		if os.Getenv("VERIF_C07_DEBUG") != "" {
			buf := make([]byte, 1<<16)
			fmt.Fprintln(os.Stderr, string(buf[:runtime.Stack(buf, true)]))
			dbgMu.Lock()
			fmt.Fprintln(os.Stderr, strings.Join(dbgLog, "\n"))
			dbgMu.Unlock()
			if sp != nil {
				fmt.Fprintf(os.Stderr, "server received %q requests %v\n", sp.Received(), sp.Requests())
			}
		}
		c07SetupFailed("prompt", err)
		return
	}
	inflight := make(chan string, 1)
	switch c.State {
	case "session-ended":
		sp.EndSession()
		time.Sleep(30 * time.Millisecond) // the reader sees the end of the stream
	case "peer-gone":
		if sp != nil {
			sp.Hangup()
		} else {
			tp.Hangup()
		}
		time.Sleep(30 * time.Millisecond)
	case "inflight":
		// an operation of the caller's is in flight when Close is called: writes until three in a
		// row are refused (the connection is closed by then)
		go func() {
			defer func() {
				if pn := recover(); pn != nil {
					inflight <- "panic in the in-flight operation: " + fmt.Sprint(pn)
				}
			}()
			refused := 0
			dl := time.Now().Add(1500 * time.Millisecond)
			for refused < 3 && time.Now().Before(dl) {
				if err := d.Channel.WriteAndReturn([]byte("show clock"), false); err != nil {
					refused++
				} else {
					refused = 0
				}
			}
			inflight <- ""
		}()
		time.Sleep(2 * time.Millisecond)
	}
	if c.JitterUS > 0 {
		time.Sleep(time.Duration(c.JitterUS) * time.Microsecond)
	}
	res := make(chan string, 1)
	t0 := time.Now()
	go func() {
		defer func() {
			if pn := recover(); pn != nil {
				res <- "panic: " + fmt.Sprint(pn)
			}
		}()
		if err := d.Close(); err != nil {
			res <- "err: " + err.Error()
			return
		}
		res <- "ok"
	}()
	select {
	case r := <-res:
		o.Returned = true
		if strings.HasPrefix(r, "panic: ") {
			o.Panicked = r
		} else if r != "ok" {
			o.CloseErr = r
		}
	case <-time.After(3 * time.Second):
	}
	o.CloseMS = float64(time.Since(t0).Microseconds()) / 1000
	select {
	case <-peerStopped:
		o.Closed = true
	case <-time.After(time.Second):
	}
	if c.State == "inflight" {
		select {
		case r := <-inflight:
			if r != "" && o.Panicked == "" {
				o.Panicked = r
			}
		case <-time.After(2 * time.Second):
			if o.Panicked == "" {
				o.Panicked = "the in-flight operation never returned after Close"
			}
		}
	}
	deadline := time.Now().Add(400 * time.Millisecond)
	for time.Now().Before(deadline) {
		if runtime.NumGoroutine() <= g0 {
			break
		}
		time.Sleep(5 * time.Millisecond)
	}
	o.Goroutines1 = runtime.NumGoroutine()
	if o.Goroutines1 > g0 && os.Getenv("VERIF_C07_STACKS") != "" {
		buf := make([]byte, 1<<16)
		n := runtime.Stack(buf, true)
		fmt.Fprintln(os.Stderr, string(buf[:n]))
	}
	b, _ := json.Marshal(o)
	fmt.Println(string(b))
}
