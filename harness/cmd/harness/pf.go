package main

import (
	"bytes"
	"encoding/json"
	"fmt"
	"regexp"
	"strings"

	"github.com/scrapli/scrapligo/channel"
	"github.com/scrapli/scrapligo/driver/options"
	"github.com/scrapli/scrapligo/util"

	"verif/harness/sim"
)

// PF: the pure functions of the channel layer (fuzzy echo matcher, read-buffer windowing, output
// post-processing, per-read normalisation) against their Coq transcriptions, on generated inputs
// biased to the corners the functions branch on (repeated bytes, inputs as long as the buffer,
// LF at index 0 / inside the window, prompts inside the output, escape sequences).

func init() {
	props["PF"] = prop{Run: runPF, Replay: func(id string, raw json.RawMessage) {
		var c pfCase
		if json.Unmarshal(raw, &c) == nil {
			runPFCase(id, &c)
		}
	}}
}

type pfCase struct {
	Op     string `json:"op"`
	A      []byte `json:"a"`
	B      []byte `json:"b"`
	Depth  int    `json:"depth"`
	InLen  int    `json:"input_len"`
	Strip  bool   `json:"strip"`
	Prompt string `json:"prompt_pattern"`
	Ret    string `json:"ret"`
}

func pfWord(r *sim.Rng, al string, n int) []byte {
	var b []byte
	for i := 0; i < n; i++ {
		b = append(b, al[r.Intn(len(al))])
	}
	return b
}

func genPF(r *sim.Rng) *pfCase {
	c := &pfCase{}
	switch r.Intn(8) {
	case 0, 1, 2, 3:
		c.Op = "roughly"
		al := r.Pick([]string{"ab", "abc", "al ", "show vlan", "01/"})
		in := pfWord(r, al, 1+r.Intn(8))
		if r.Chance(1, 2) { // end in a run of one byte
			in = append(in, bytes.Repeat(in[len(in)-1:], 1+r.Intn(2))...)
		}
		c.A = in
		// output: the input with bytes inserted / dropped / the tail missing / a stale prefix
		var out []byte
		if r.Chance(1, 2) {
			out = append(out, pfWord(r, al+" \n", r.Intn(3))...)
		}
		for i, ch := range in {
			if r.Chance(1, 10) {
				continue
			}
			if r.Chance(1, 6) {
				out = append(out, pfWord(r, al+"\r\n.", 1+r.Intn(2))...)
			}
			out = append(out, ch)
			if i >= len(in)-3 && r.Chance(1, 4) {
				break
			}
		}
		if r.Chance(1, 4) {
			out = append(out, pfWord(r, al, r.Intn(3))...)
		}
		c.B = out
	case 4, 5:
		c.Op = "readbuf"
		c.Depth = []int{0, 1, 5, 10, 40, 1000}[r.Intn(6)]
		c.InLen = []int{0, 0, 1, 3, 10, 30}[r.Intn(6)]
		n := r.Intn(80)
		c.A = pfWord(r, "abc #>\n\n", n)
	case 6:
		c.Op = "procout"
		c.Prompt = r.Pick([]string{"prompt_pattern", "pfjoin_cisco_iosxe_default"})
		c.Ret = r.Pick([]string{"\n", "\r\n", "\n", "\r"})
		c.Strip = r.Bool()
		var sb strings.Builder
		k := r.Intn(6)
		for i := 0; i < k; i++ {
			sb.WriteString(r.Pick([]string{"line one", "  indented  ", "", "router#", "router# ", "r1(config)#", "x y z   ", "\r", "router>", "--"}))
			sb.WriteString(r.Pick([]string{"\n", "\n", "\n\n", " \n", ""}))
		}
		c.A = []byte(sb.String())
	default:
		c.Op = "norm"
		var sb strings.Builder
		k := r.Intn(8)
		for i := 0; i < k; i++ {
			sb.WriteString(r.Pick([]string{"text", "\r\n", "\r", "\x1b[0m", "\x1b[1;32m", "\x1b[K", "\x1b", "\x1b[", "[0m", "\x1b[?25h", "é", "\x1b]0;title\x07", "\n"}))
		}
		c.A = []byte(sb.String())
	}
	return c
}

func runPF(seed uint64, n int, tier string) {
	rng := sim.NewRng(seed)
	cases := make([]*pfCase, n)
	for i := range cases {
		cases[i] = genPF(rng.Fork())
	}
	parallel(n, func(i int) { runPFCase(caseID("PF", seed, i), cases[i]) })
}

func runPFCase(id string, c *pfCase) {
	defer watchCase(id, c)()
	cs := &Case{ID: id, Kind: c.Op, HypOK: true, Replay: c}
	switch c.Op {
	case "roughly":
		cs.Line = fmt.Sprintf("pf roughly %s %s", hx(c.A), hx(c.B))
		got := util.BytesRoughlyContains(c.A, c.B)
		cs.Obs = b2i(got)
		cs.Nontrivial = got && !bytes.Contains(c.B, c.A)
		// the function's own contract: true iff input is a subsequence of output (for
		// len(output) >= len(input)) or a substring
		want := bytes.Contains(c.B, c.A) || (len(c.B) >= len(c.A) && pfSubseq(c.A, c.B))
		if got != want {
			cs.Oracle = fmt.Sprintf("BytesRoughlyContains(%q, %q) = %v, input is a subsequence of output: %v", c.A, c.B, got, want)
			cs.Sig = "PF:roughly"
		}
	case "readbuf":
		cs.Line = fmt.Sprintf("pf readbuf %d %d %s", c.Depth, c.InLen, hx(c.A))
		sd := channel.VerifSearchDepth(c.Depth, c.InLen)
		out := channel.VerifProcessReadBuf(append([]byte(nil), c.A...), sd)
		cs.Obs = fmt.Sprintf("%d %s", sd, hx(out))
		cs.Nontrivial = len(out) != len(c.A)
		if !bytes.HasSuffix(c.A, out) {
			cs.Oracle = "processReadBuf result is not a suffix of the buffer"
			cs.Sig = "PF:readbuf"
		}
	case "procout":
		rxs := map[string]string{}
		for _, e := range loadRegexes() {
			rxs[e.Name] = e.Src
		}
		src, ok := rxs[c.Prompt]
		if !ok {
			return
		}
		tr := sim.NewTransport(&sim.CLIDevice{Prompt: []byte("router#")})
		d, err := newGeneric(tr, options.WithPromptPattern(regexp.MustCompile(src)), options.WithReturnChar(c.Ret))
		if err != nil {
			return
		}
		out := d.Channel.VerifProcessOut(append([]byte(nil), c.A...), c.Strip)
		cs.Line = fmt.Sprintf("pf procout %s %s %s %s", b2i(c.Strip), c.Prompt, hx([]byte(c.Ret)), hx(c.A))
		cs.Obs = hx(out)
		cs.Nontrivial = !bytes.Equal(out, c.A)
	case "norm":
		cs.Line = fmt.Sprintf("pf norm %s", hx(c.A))
		b := bytes.ReplaceAll(c.A, []byte("\r"), []byte(""))
		if bytes.Contains(b, []byte("\x1b")) {
			b = util.StripANSI(b)
		}
		cs.Obs = hx(b)
		cs.Nontrivial = !bytes.Equal(b, c.A)
	}
	emit(cs)
}

func pfSubseq(a, b []byte) bool {
	i := 0
	for _, ch := range b {
		if i < len(a) && a[i] == ch {
			i++
		}
	}
	return i == len(a)
}
