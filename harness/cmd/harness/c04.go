package main

import (
	"encoding/json"
	"fmt"
	"regexp"
	"strings"
	"time"

	"github.com/scrapli/scrapligo/driver/network"
	"github.com/scrapli/scrapligo/driver/opoptions"
	"github.com/scrapli/scrapligo/driver/options"
	"github.com/scrapli/scrapligo/util"

	"verif/harness/sim"
)

func init() {
	props["C04"] = prop{Run: runC04, Replay: func(id string, raw json.RawMessage) {
		var c c04Case
		if json.Unmarshal(raw, &c) == nil {
			runC04Case(id, &c)
		}
	}}
}

type c04Level struct {
	Name     string `json:"name"`
	Pat      int    `json:"pat"` // index of the synthetic prompt pattern verif_lvl_<k>
	Previous string `json:"previous"`
	Esc      string `json:"escalate"`
	Deesc    string `json:"deescalate"`
	Auth     bool   `json:"auth"`
	// Broad: the level's pattern matches EVERY level's prompt; NotContains (the other levels'
	// markers) is what tells it apart
	Broad       bool     `json:"broad,omitempty"`
	NotContains []string `json:"not_contains,omitempty"`
}

type c04Op struct {
	Kind   string   `json:"kind"` // cmd | cmds | cfgs | acq
	Args   []string `json:"args"`
	Target string   `json:"target,omitempty"`
	// Leaves: the last line of the operation is the de-escalate command of the level it runs at, so
	// the device leaves that level behind the driver's back
	Leaves bool `json:"leaves,omitempty"`
}

type c04Case struct {
	Levels    []c04Level `json:"levels"`
	Default   string     `json:"default"`
	Secondary string     `json:"secondary"`
	StartMode string     `json:"start_mode"`
	Ops       []c04Op    `json:"ops"`
	Segs      []int      `json:"segs"`
	DefSeg    int        `json:"default_seg"`
	OnAuth    int        `json:"on_auth"`
	Twins     []string   `json:"twins,omitempty"`
	// Reused: the level definitions were used for another driver before, with that host's patterns
	// (one definition map, patterns re-pointed per host): this driver must go by the current ones
	Reused bool `json:"reused,omitempty"`
}

const c04AuthPromptRx = "pfesc_cisco_iosxe_default_privilege_exec"

func genTree(r *sim.Rng, n int) []c04Level {
	names := []string{"exec", "privilege-exec", "configuration", "tclsh", "shell", "special"}
	// shuffle names so that "configuration" lands at random places
	for i := len(names) - 1; i > 0; i-- {
		j := r.Intn(i + 1)
		names[i], names[j] = names[j], names[i]
	}
	pats := []int{0, 1, 2, 3, 4, 5, 6, 7, 8}
	for i := len(pats) - 1; i > 0; i-- {
		j := r.Intn(i + 1)
		pats[i], pats[j] = pats[j], pats[i]
	}
	var ls []c04Level
	for i := 0; i < n; i++ {
		l := c04Level{Name: names[i], Pat: pats[i]}
		if i > 0 {
			l.Previous = names[r.Intn(i)]
			l.Esc = fmt.Sprintf("enter %s", names[i])
			l.Deesc = fmt.Sprintf("leave %s", names[i])
			l.Auth = r.Chance(1, 4)
		}
		ls = append(ls, l)
	}
	if n >= 2 && r.Chance(1, 3) {
		b := r.Intn(n)
		ls[b].Broad = true
		for i := range ls {
			if i != b {
				ls[b].NotContains = append(ls[b].NotContains, fmt.Sprintf("(l%d)", ls[i].Pat))
			}
		}
	}
	return ls
}

func genC04(r *sim.Rng) *c04Case {
	n := 1 + r.Intn(6)
	c := &c04Case{Levels: genTree(r, n)}
	// twin leaves: two sibling leaf levels whose prompts are the same (as configuration and
	// configuration-exclusive on IOS-XR): only the cached current level tells them apart. The
	// session never starts in one of them (nothing could identify it then).
	twin := ""
	if n >= 2 && n <= 5 && r.Chance(1, 3) {
		isLeaf := func(nm string) bool {
			for _, l := range c.Levels {
				if l.Previous == nm {
					return false
				}
			}
			return true
		}
		var leaves []int
		for i := 1; i < n; i++ {
			if isLeaf(c.Levels[i].Name) {
				leaves = append(leaves, i)
			}
		}
		li := leaves[r.Intn(len(leaves))]
		used := map[string]bool{}
		for _, l := range c.Levels {
			used[l.Name] = true
		}
		for _, nm := range []string{"exec", "privilege-exec", "configuration", "tclsh", "shell", "special"} {
			if !used[nm] {
				twin = nm
				break
			}
		}
		c.Levels[li].Auth = false
		c.Levels = append(c.Levels, c04Level{Name: twin, Pat: c.Levels[li].Pat, Previous: c.Levels[li].Previous,
			Esc: "enter " + twin, Deesc: "leave " + twin})
		c.Twins = []string{c.Levels[li].Name, twin}
		n++
	}
	c.Default = c.Levels[r.Intn(n)].Name
	for {
		c.StartMode = c.Levels[r.Intn(n)].Name
		if len(c.Twins) == 0 || (c.StartMode != c.Twins[0] && c.StartMode != c.Twins[1]) {
			break
		}
	}
	if r.Chance(2, 3) {
		c.Secondary = r.Pick([]string{"s3cr3t", "enable%s", "p.w*"})
		if r.Chance(1, 3) {
			c.OnAuth = int(sim.AuthNoAsk) // authenticated edges that grant the level without asking for the secret
		}
	}
	hasCfg := false
	for _, l := range c.Levels {
		if l.Name == "configuration" {
			hasCfg = true
		}
	}
	k := 1 + r.Intn(6)
	for i := 0; i < k; i++ {
		switch r.Intn(6) {
		case 0, 1:
			c.Ops = append(c.Ops, c04Op{Kind: "cmd", Args: []string{fmt.Sprintf("show thing%d", i)}})
		case 2:
			c.Ops = append(c.Ops, c04Op{Kind: "cmds", Args: []string{fmt.Sprintf("show a%d", i), fmt.Sprintf("show b%d", i)}})
		case 3:
			if hasCfg {
				c.Ops = append(c.Ops, c04Op{Kind: "cfgs", Args: []string{fmt.Sprintf("set x %d", i), "set y"}})
			} else {
				c.Ops = append(c.Ops, c04Op{Kind: "cfgs", Target: c.Levels[r.Intn(n)].Name, Args: []string{fmt.Sprintf("set z %d", i)}})
			}
		default:
			t := c.Levels[r.Intn(n)].Name
			if len(c.Twins) == 2 && r.Chance(1, 2) {
				t = c.Twins[r.Intn(2)]
			}
			if r.Chance(1, 8) {
				t = "no-such-level"
			}
			c.Ops = append(c.Ops, c04Op{Kind: "acq", Target: t})
		}
	}
	// user lines that change the device's mode ("end", "exit" as the last configuration line; the
	// default level's de-escalate command sent as a command)
	for i := range c.Ops {
		o := &c.Ops[i]
		switch o.Kind {
		case "cfgs":
			t := o.Target
			if t == "" {
				t = "configuration"
			}
			if l := levelByName(c.Levels, t); l != nil && l.Previous != "" && r.Chance(1, 3) {
				o.Args = append(o.Args, l.Deesc)
				o.Leaves = true
			}
		case "cmd":
			if l := levelByName(c.Levels, c.Default); l != nil && l.Previous != "" && r.Chance(1, 8) {
				o.Args = []string{l.Deesc}
				o.Leaves = true
			}
		}
	}
	switch r.Intn(3) {
	case 0:
		c.DefSeg = 0
	case 1:
		c.DefSeg = 1 + r.Intn(6)
	default:
		m := r.Intn(30)
		for i := 0; i < m; i++ {
			c.Segs = append(c.Segs, []int{1, 2, 3, 7, 64}[r.Intn(5)])
		}
	}
	c.Reused = r.Chance(1, 4)
	return c
}

func runC04(seed uint64, n int, tier string) {
	rng := sim.NewRng(seed)
	var cases []*c04Case
	for i := 0; i < n; i++ {
		cases = append(cases, genC04(rng.Fork()))
	}
	parallel(len(cases), func(i int) { runC04Case(caseID("C04", seed, i), cases[i]) })
}

// treePath: the unique path between two levels (BFS over the undirected tree).
func treePath(ls []c04Level, a, b string) []string {
	adj := map[string][]string{}
	for _, l := range ls {
		if l.Previous != "" {
			adj[l.Name] = append(adj[l.Name], l.Previous)
			adj[l.Previous] = append(adj[l.Previous], l.Name)
		}
	}
	prev := map[string]string{a: ""}
	q := []string{a}
	for len(q) > 0 {
		x := q[0]
		q = q[1:]
		if x == b {
			break
		}
		for _, y := range adj[x] {
			if _, ok := prev[y]; !ok {
				prev[y] = x
				q = append(q, y)
			}
		}
	}
	if _, ok := prev[b]; !ok {
		return nil
	}
	var p []string
	for x := b; x != ""; x = prev[x] {
		p = append([]string{x}, p...)
		if x == a {
			break
		}
	}
	return p
}

func levelByName(ls []c04Level, n string) *c04Level {
	for i := range ls {
		if ls[i].Name == n {
			return &ls[i]
		}
	}
	return nil
}

func runC04Case(id string, c *c04Case) {
	defer watchCase(id, c)()
	rx := map[string]string{}
	for _, e := range loadRegexes() {
		rx[e.Name] = e.Src
	}
	dev := &sim.PrivDevice{Levels: map[string]*sim.PrivLevel{}, Mode: c.StartMode, Secret: c.Secondary, OnAuth: sim.AuthBehaviour(c.OnAuth)}
	pl := map[string]*network.PrivilegeLevel{}
	var specs []string
	for _, l := range c.Levels {
		patName := fmt.Sprintf("verif_lvl_%d", l.Pat)
		if l.Broad {
			patName = "verif_lvl_any"
		}
		dev.Levels[l.Name] = &sim.PrivLevel{Name: l.Name, Prompt: fmt.Sprintf("host(l%d)#", l.Pat), Previous: l.Previous, Escalate: l.Esc,
			Deescalate: l.Deesc, Auth: l.Auth, AuthPrompt: "Password: "}
		p := &network.PrivilegeLevel{Name: l.Name, Pattern: rx[patName], PreviousPriv: l.Previous, Escalate: l.Esc, Deescalate: l.Deesc,
			EscalateAuth: l.Auth, NotContains: l.NotContains}
		var ncs []string
		for _, x := range l.NotContains {
			ncs = append(ncs, hx([]byte(x)))
		}
		ep := ""
		if l.Auth {
			p.EscalatePrompt = rx[c04AuthPromptRx]
			ep = c04AuthPromptRx
		}
		pl[l.Name] = p
		specs = append(specs, fmt.Sprintf("%s|%s|%s|%s|%s|%s|%s|%s", hx([]byte(l.Name)), patName, strings.Join(ncs, ","), hx([]byte(l.Previous)), hx([]byte(l.Deesc)),
			hx([]byte(l.Esc)), b2i(l.Auth), ep))
	}
	tr := sim.NewTransport(dev)
	tr.Segs = c.Segs
	tr.DefaultSeg = c.DefSeg
	cs := &Case{ID: id, Kind: fmt.Sprintf("levels=%d", len(c.Levels)), HypOK: true, Replay: c}
	if len(c.Twins) == 2 {
		cs.Kind += "+twins"
	}
	opts := []util.Option{options.WithCustomTransport(tr), options.WithReadDelay(20 * time.Microsecond), options.WithTimeoutOps(400 * time.Millisecond),
		options.WithPrivilegeLevels(pl), options.WithDefaultDesiredPriv(c.Default)}
	if c.Secondary != "" {
		opts = append(opts, options.WithAuthSecondary(c.Secondary))
	}
	if c.Reused {
		real := map[string]string{}
		for n, p := range pl {
			real[n] = p.Pattern
			p.Pattern = `(?im)^other-host\(` + regexp.QuoteMeta(n) + `\)[#>]$`
		}
		if _, derr := network.NewDriver("other-host", options.WithCustomTransport(sim.NewTransport(&sim.PrivDevice{Levels: map[string]*sim.PrivLevel{}})),
			options.WithPrivilegeLevels(pl), options.WithDefaultDesiredPriv(c.Default)); derr != nil {
			cs.Oracle = "driver construction (first host) failed: " + derr.Error()
			emit(cs)
			return
		}
		for n, p := range pl {
			p.Pattern = real[n]
		}
		cs.Kind += "+reused"
	}
	d, err := network.NewDriver("sim", opts...)
	if err != nil {
		cs.Oracle = "driver construction failed: " + err.Error()
		emit(cs)
		return
	}
	if err = d.Open(); err != nil {
		cs.Oracle = "open failed: " + err.Error()
		emit(cs)
		return
	}
	var outs, calls []string
	expectMode := c.StartMode // device mode the oracle expects after each op
	for i, o := range c.Ops {
		tr.Mark('C')
		t0 := time.Now()
		modeBefore := dev.Mode
		cachedBefore := d.CurrentPriv
		nlines := len(dev.CommandLines())
		wBefore, _, _ := tr.Snapshot()
		var e error
		var res []string
		target := ""
		switch o.Kind {
		case "cmd":
			r, er := d.SendCommand(o.Args[0])
			e = er
			if r != nil {
				res = []string{r.Result}
			}
			calls = append(calls, fmt.Sprintf("cmd|%s|", hx([]byte(o.Args[0]))))
			target = c.Default
		case "cmds":
			m, er := d.SendCommands(o.Args)
			e = er
			if m != nil {
				for _, r := range m.Responses {
					res = append(res, r.Result)
				}
			}
			var hs []string
			for _, a := range o.Args {
				hs = append(hs, hx([]byte(a)))
			}
			calls = append(calls, fmt.Sprintf("cmds|%s|", strings.Join(hs, ",")))
			target = c.Default
		case "cfgs":
			var oo []util.Option
			target = "configuration"
			if o.Target != "" {
				oo = append(oo, opoptions.WithPrivilegeLevel(o.Target))
				target = o.Target
			}
			m, er := d.SendConfigs(o.Args, oo...)
			e = er
			if m != nil {
				for _, r := range m.Responses {
					res = append(res, r.Result)
				}
			}
			var hs []string
			for _, a := range o.Args {
				hs = append(hs, hx([]byte(a)))
			}
			calls = append(calls, fmt.Sprintf("cfgs|%s|%s", hx([]byte(o.Target)), strings.Join(hs, ",")))
		case "acq":
			e = d.AcquirePriv(o.Target)
			calls = append(calls, fmt.Sprintf("acq|%s", hx([]byte(o.Target))))
			target = o.Target
		}
		// a timeout inside an implicit privilege change is reported as a privilege error: the
		// deadline is recognised by the time it took
		if e != nil && (errClass(e) == "timeout" || time.Since(t0) >= 380*time.Millisecond) {
			tr.Mark('D')
		}
		if e != nil {
			outs = append(outs, "err:"+errClass(e))
		} else if o.Kind == "acq" {
			outs = append(outs, "ok:")
		} else {
			outs = append(outs, "ok:"+hx([]byte(strings.Join(res, "\x1f"))))
		}
		// ---- oracle for this op (only while everything so far went as specified)
		if cs.Oracle != "" || !cs.HypOK {
			continue
		}
		tl := levelByName(c.Levels, target)
		newLines := dev.CommandLines()[nlines:]
		if tl == nil {
			if e == nil || errClass(e) != "privilege" {
				cs.Oracle = fmt.Sprintf("op %d: unknown target %q not refused with a privilege error (%v)", i, target, e)
				cs.Sig = "C04:unknown-target"
			} else if wAfter, _, _ := tr.Snapshot(); len(wAfter) > len(wBefore) {
				// "refused ... before anything is sent": not even a bare return
				cs.Oracle = fmt.Sprintf("op %d: unknown target %q refused, but %d write(s) reached the device first: %q", i, target, len(wAfter)-len(wBefore), wAfter[len(wBefore):])
				cs.Sig = "C04:unknown-target-sent"
			}
			continue
		}
		// the path needs the secret on authenticated edges: without it (or with a device that
		// refuses) the escalation cannot succeed; those cases are C12's subject, skip the oracle
		path := treePath(c.Levels, modeBefore, target)
		needsAuth := false
		for k := 1; k < len(path); k++ {
			if l := levelByName(c.Levels, path[k]); l.Previous == path[k-1] && l.Auth {
				needsAuth = true
			}
		}
		if needsAuth && (c.Secondary == "" || c.OnAuth == int(sim.AuthRejects)) {
			cs.HypOK = false
			expectMode = dev.Mode
			continue
		}
		if e != nil {
			cs.Oracle = fmt.Sprintf("op %d (%s -> %s from %s): error %v", i, o.Kind, target, modeBefore, e)
			cs.Sig = "C04:error:" + errClass(e)
			continue
		}
		var want []sim.PrivLine
		for k := 1; k < len(path); k++ {
			l := levelByName(c.Levels, path[k])
			if l.Previous == path[k-1] {
				want = append(want, sim.PrivLine{Mode: path[k-1], Line: l.Esc})
			} else {
				want = append(want, sim.PrivLine{Mode: path[k-1], Line: levelByName(c.Levels, path[k-1]).Deesc})
			}
		}
		if o.Kind != "acq" {
			for _, a := range o.Args {
				want = append(want, sim.PrivLine{Mode: target, Line: a})
			}
		}
		ok := len(want) == len(newLines)
		for k := 0; ok && k < len(want); k++ {
			if want[k].Mode != newLines[k].Mode || want[k].Line != newLines[k].Line {
				ok = false
			}
		}
		finalWant := target
		if o.Leaves {
			finalWant = tl.Previous
		}
		if !ok {
			cs.Oracle = fmt.Sprintf("op %d (%s -> %s from %s): device received %v, want %v", i, o.Kind, target, modeBefore, newLines, want)
			cs.Sig = "C04:lines"
			if (o.Kind == "cmd" || o.Kind == "cmds") && cachedBefore == c.Default && modeBefore != c.Default {
				// known finding: SendCommand(s) trusts the cached level; a user line that changed the
				// device's mode since (here: the de-escalate command sent as a command) goes unnoticed
				cs.Sig = "C04:command-at-stale-cached-level"
			}
		} else if dev.Mode != finalWant {
			cs.Oracle = fmt.Sprintf("op %d: device ended in %s, want %s", i, dev.Mode, finalWant)
			cs.Sig = "C04:final-mode"
		} else if false && dev.Mode != target {
			cs.Oracle = fmt.Sprintf("op %d: device ended in %s, want %s", i, dev.Mode, target)
			cs.Sig = "C04:final-mode"
		}
		expectMode = dev.Mode
	}
	_ = expectMode
	time.Sleep(time.Millisecond)
	logStr := tr.LogString()
	writes, _, _ := tr.Snapshot()
	start := tr.StartBytes()
	cached := d.CurrentPriv
	_ = d.Close()
	cs.Line = fmt.Sprintf("net 1000 %s %s %s %s %s %s %s", hx([]byte("\n")), hx(start), hx([]byte(c.Default)), hx([]byte(c.Secondary)),
		hxStrs(specs), hxStrs(calls), logStr)
	var wl [][]byte
	for _, w := range writes {
		tag := "p"
		if c.Secondary != "" && string(w) == c.Secondary {
			tag = "r"
		}
		wl = append(wl, append([]byte(tag), w...))
	}
	cs.Obs = fmt.Sprintf("%s sync %s %s", strings.Join(outs, ","), hxList(wl), hx([]byte(cached)))
	cs.Nontrivial = len(c.Levels) > 1
	emit(cs)
	// ---- the same history on the exchange-level model (NetworkHistory.run_aop: what the C04 history
	// theorems are about): the device's own log of (mode, line), its final mode and the driver's
	// cached level must be what that model computes.  Left out: authenticated edges whose dialogue
	// cannot succeed (no secret configured / a device that refuses): those are C12's subject.
	absOK := cs.HypOK
	for _, l := range c.Levels {
		if l.Auth && (c.Secondary == "" || c.OnAuth == int(sim.AuthRejects)) {
			absOK = false
		}
	}
	if absOK {
		var prompts, devlog [][]byte
		for _, l := range c.Levels {
			prompts = append(prompts, []byte(dev.Levels[l.Name].Prompt))
		}
		for _, pl := range dev.CommandLines() {
			devlog = append(devlog, []byte(pl.Mode+"|"+pl.Line))
		}
		var flags strings.Builder
		for _, o := range outs {
			if strings.HasPrefix(o, "err:") {
				flags.WriteByte('E')
			} else {
				flags.WriteByte('k')
			}
		}
		as := &Case{ID: id + "/abs", Kind: "abs/" + cs.Kind, HypOK: true, Replay: c, Nontrivial: cs.Nontrivial}
		as.Line = fmt.Sprintf("netabs %s %s %s %s %s", hx([]byte(c.Default)), hxStrs(specs), hxStrs(calls), hx([]byte(c.StartMode)), hxList(prompts))
		as.Obs = fmt.Sprintf("%s %s %s %s", flags.String(), hxList(devlog), hx([]byte(dev.Mode)), hx([]byte(cached)))
		emit(as)
	}
}
