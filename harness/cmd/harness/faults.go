package main

import (
	"bytes"
	"encoding/json"
	"fmt"
	"github.com/scrapli/scrapligo/driver/generic"
	"io"
	"net"
	"os"
	"regexp"
	"strings"
	"sync"
	"sync/atomic"
	"syscall"
	"time"

	"github.com/scrapli/scrapligo/channel"
	"github.com/scrapli/scrapligo/driver/netconf"
	"github.com/scrapli/scrapligo/driver/network"
	"github.com/scrapli/scrapligo/driver/opoptions"
	"github.com/scrapli/scrapligo/driver/options"
	"github.com/scrapli/scrapligo/response"
	"github.com/scrapli/scrapligo/util"

	"verif/harness/sim"
)

// C05 (stalls -> timeouts, recovery) and C06 (connection loss) on the CLI side: the same sessions
// as C01/C04/C12 with a fault injected after byte k of the operation's exchange, for k over the
// whole exchange.  A dry run of the same case measures the exchange (bytes delivered before and
// after the operation) and gives the reference results.

func init() {
	for _, p := range []string{"C05", "C06"} {
		p := p
		props[p] = prop{Run: func(seed uint64, n int, tier string) { runFaults(p, seed, n, tier) },
			Replay: func(id string, raw json.RawMessage) {
				if bytes.Contains(raw, []byte(`"nc_per_op"`)) {
					var w struct {
						C *ncPerOp `json:"nc_per_op"`
					}
					if json.Unmarshal(raw, &w) == nil && w.C != nil {
						runNCPerOp(id, w.C)
					}
					return
				}
				if bytes.Contains(raw, []byte(`"hello_kind"`)) {
					var nc ncCase
					if json.Unmarshal(raw, &nc) == nil {
						runNCCase(id, &nc)
					}
					return
				}
				var c faultCase
				if json.Unmarshal(raw, &c) == nil {
					runFaultCase(id, &c)
				}
			}}
	}
}

type faultCase struct {
	Prop    string `json:"prop"`
	Op      string `json:"op"`       // cmd | getprompt | interactive | netcmd | acquire
	Fault   string `json:"fault"`    // stall | eof | ioerr | writeerr
	K       int    `json:"k"`        // fault point: bytes of the operation's exchange delivered before it (or write index)
	KFrac   int    `json:"k_permil"` // used by the generator: k = L * permil / 1000 (resolved at run time when K < 0)
	Timeout string `json:"timeout"`  // conn | perop | (zero handled separately)
	Segs    []int  `json:"segs"`
	DefSeg  int    `json:"default_seg"`
	Cmd     string `json:"cmd"`
	Next    string `json:"next"` // the follow-up command of the recovery clause
	Out     string `json:"out"`
	// idle loss: the first operation completes, the device then prints Unsolicited (a log line and
	// a fresh prompt), the reader takes it, the connection is lost while idle, and NextOp
	// (cmd | getprompt) follows: it must fail although a complete prompt sits in the queue
	Interim     bool   `json:"interim,omitempty"` // cmd only: the operation carries an interim prompt pattern
	Exact       bool   `json:"exact,omitempty"`   // cmd only: exact (not fuzzy) matching of the input echo
	Idle        bool   `json:"idle,omitempty"`
	Unsolicited string `json:"unsolicited,omitempty"`
	NextOp      string `json:"next_op,omitempty"`
	// TimedOut (fault ioerr): the persistent read error is "connection timed out" (an error whose
	// Timeout() is true) instead of EIO
	TimedOut bool `json:"timed_out,omitempty"`
	// WriteKind (fault writeerr): what the failing write returns: "" the simulator's error, "eof"
	// io.EOF (a half-closed session reports the end of the stream on the write), "eof-wrapped", "epipe"
	WriteKind string `json:"write_kind,omitempty"`
}

func genFault(prop string, r *sim.Rng, i int) *faultCase {
	c := &faultCase{Prop: prop, K: -1, KFrac: r.Intn(1001)}
	c.Op = []string{"cmd", "cmd", "getprompt", "interactive", "netcmd", "acquire", "callbacks", "cmds", "deacquire"}[r.Intn(9)]
	if prop == "C05" {
		c.Fault = "stall"
		c.Timeout = r.Pick([]string{"conn", "conn", "perop"})
		if c.Op == "getprompt" || c.Op == "acquire" || c.Op == "netcmd" || c.Op == "cmds" || c.Op == "deacquire" {
			c.Timeout = "conn"
		}
	} else {
		c.Fault = r.Pick([]string{"eof", "ioerr", "ioerr", "writeerr"})
		c.Timeout = "conn"
		c.TimedOut = c.Fault == "ioerr" && r.Chance(1, 3)
		if c.Fault == "writeerr" {
			c.WriteKind = r.Pick([]string{"", "eof", "eof-wrapped", "epipe"})
		}
	}
	switch r.Intn(3) {
	case 0:
		c.DefSeg = 0
	case 1:
		c.DefSeg = 1 + r.Intn(5)
	default:
		m := r.Intn(20)
		for k := 0; k < m; k++ {
			c.Segs = append(c.Segs, 1+r.Intn(11))
		}
	}
	if prop == "C06" && c.Fault != "writeerr" && (c.Op == "cmd" || c.Op == "getprompt" || c.Op == "netcmd") && r.Chance(1, 3) {
		c.Idle = true
		c.NextOp = r.Pick([]string{"getprompt", "getprompt", "cmd"})
		pr := "router# "
		if c.Op == "netcmd" {
			pr = "host(l1)#"
		}
		c.Unsolicited = r.Pick([]string{"\r\n%LINK-3-UPDOWN: Interface Gi0/1, changed state to down\r\n" + pr, "\r\n" + pr, "", "*Mar  1 00:00:01: %SYS-5-CONFIG_I\r\n" + pr + "\r\n" + pr})
	}
	if c.Op == "cmd" && r.Chance(1, 3) {
		c.Interim = true
	}
	if c.Op == "cmd" && r.Chance(1, 3) {
		c.Exact = true
	}
	c.Cmd = fmt.Sprintf("show q%d", r.Intn(90)+10)
	c.Next = fmt.Sprintf("display z%d", r.Intn(9))
	c.Out = strings.TrimRight(strings.Repeat(fmt.Sprintf("line %d of output\r\n", r.Intn(10)), 1+r.Intn(4)), "\r\n")
	return c
}

func runFaults(prop string, seed uint64, n int, tier string) {
	rng := sim.NewRng(seed)
	var cases []*faultCase
	for i := 0; i < n; i++ {
		cases = append(cases, genFault(prop, rng.Fork(), i))
	}
	// every stall / loss point of one small exchange, exhaustively (the property's "for every k")
	base := &faultCase{Prop: prop, Op: "cmd", Cmd: "show q11", Next: "display z1", Out: "one\r\ntwo", DefSeg: 0, Timeout: "conn"}
	for k := 0; k <= 34; k++ {
		b := *base
		b.K = k
		if prop == "C05" {
			b.Fault = "stall"
		} else {
			b.Fault = []string{"eof", "ioerr"}[k%2]
		}
		cases = append(cases, &b)
	}
	// NETCONF RPCs whose reply comes after the client's timeout (or never), followed by RPCs that
	// are answered on time: the timed-out RPC fails with a timeout, the late reply is not handed to
	// a later RPC (recovery clause for NETCONF)
	var ncs []*ncCase
	if prop == "C06" {
		// NETCONF: the stream ends (or fails) between two RPCs while writes still succeed (half-open):
		// every later RPC -- not only the first -- must report the loss promptly
		for i := 0; i < n/4; i++ {
			r := rng.Fork()
			c := genNC("C03", r)
			c.Prop = "C06"
			c.Ops = genNCOps(r, 3+r.Intn(4), false)
			c.Coalesce = 0
			c.TimeoutMS = 400
			c.LossAfter = 1 + r.Intn(len(c.Ops)-2)
			c.Loss = r.Pick([]string{"eof", "eof", "ioerr"})
			ncs = append(ncs, c)
		}
	}
	if prop == "C05" {
		for i := 0; i < n/3; i++ {
			r := rng.Fork()
			c := genNC("C08", r)
			c.Prop = "C05"
			c.ChunkMode = []int{0, 2, 4}[c.ChunkMode%3]
			for j := range c.Ops {
				if len(c.Ops[j].Body) > 60000 {
					// (a large late reply stays in large chunks: five-byte chunks of 80 kB are beyond the model runner)
					c.ChunkMode = []int{0, 2}[c.ChunkMode%2]
				}
			}
			late := false
			for j := range c.Ops {
				if c.Ops[j].Beh != 0 {
					late = true
				}
			}
			if !late {
				c.Ops[r.Intn(len(c.Ops))].Beh = 1 + r.Intn(2)
				c.Ops = append(c.Ops, genNCOps(r, 1+r.Intn(3), false)...)
			}
			ncs = append(ncs, c)
		}
	}
	// C05: a per-operation timeout on a NETCONF RPC takes precedence over the connection-wide one
	// (zero = the maximum): every (operation, per-operation setting, server delay) combination
	var pos []*ncPerOp
	if prop == "C05" {
		for _, op := range []string{"getconfig", "commit", "get", "raw"} {
			for _, per := range []string{"none", "zero", "long", "short"} {
				for _, slow := range []bool{false, true} {
					for _, ver := range []string{"1.0", "1.1"} {
						pos = append(pos, &ncPerOp{Op: op, PerOp: per, Slow: slow, Version: ver})
					}
				}
			}
		}
	}
	nf := len(cases)
	parallel(nf+len(ncs)+len(pos), func(i int) {
		switch {
		case i < nf:
			runFaultCase(caseID(prop, seed, i), cases[i])
		case i < nf+len(ncs):
			runNCCase(caseID(prop, seed, i), ncs[i-nf])
		default:
			runNCPerOp(caseID(prop, seed, i), pos[i-nf-len(ncs)])
		}
	})
}

// ncPerOp: one NETCONF RPC with a per-operation timeout against a server that answers at once or
// only after twice the connection-wide timeout (300 ms).  none: the connection-wide timeout
// applies; zero: the maximum; long: 3 s; short: 30 ms.
type ncPerOp struct {
	Op      string `json:"op"`
	PerOp   string `json:"per_op"`
	Slow    bool   `json:"slow"`
	Version string `json:"version"`
}

func runNCPerOp(id string, c *ncPerOp) {
	replay := map[string]interface{}{"nc_per_op": c}
	defer watchCase(id, replay)()
	cs := &Case{ID: id, Kind: "nc-per-op/" + c.PerOp, HypOK: true, Nontrivial: true, Replay: replay}
	const conn = 300 * time.Millisecond
	nc := &ncCase{Prop: "C05", HelloKind: "ok", Pref: c.Version, Caps: []string{base10, base11}, SessionID: "9"}
	srv := &sim.NCServer{Hello: buildHello(nc)}
	if c.Slow {
		srv.Behaviours = []sim.Behaviour{sim.ReplyLate}
	}
	tr := sim.NewTransport(ncDev{srv, &ncDevState{lateJoined: map[int]bool{}}})
	tr.MsgBoundaries = true
	d, err := netconf.NewDriver("sim", options.WithCustomTransport(tr), options.WithReadDelay(20*time.Microsecond),
		options.WithTimeoutOps(conn), options.WithNetconfPreferredVersion(c.Version))
	if err != nil || d.Open() != nil {
		cs.Oracle = "setup failed"
		emit(cs)
		return
	}
	defer d.Close()
	const delay = 2 * conn
	stop := make(chan struct{})
	defer close(stop)
	if c.Slow {
		go func() {
			t0 := time.Now()
			for time.Since(t0) < 3*time.Second {
				select {
				case <-stop:
					return
				default:
				}
				var fr []byte
				ok := false
				tr.WithLock(func() { fr, ok = srv.Late[0] })
				if ok && time.Since(t0) >= delay {
					tr.Inject(append(sim.Atoms(fr), nil))
					return
				}
				time.Sleep(time.Millisecond)
			}
		}()
	}
	var oo []util.Option
	limit := conn
	switch c.PerOp {
	case "zero":
		oo = append(oo, opoptions.WithTimeoutOps(0))
		limit = 24 * time.Hour
	case "long":
		oo = append(oo, opoptions.WithTimeoutOps(3*time.Second))
		limit = 3 * time.Second
	case "short":
		oo = append(oo, opoptions.WithTimeoutOps(30*time.Millisecond))
		limit = 30 * time.Millisecond
	}
	t0 := time.Now()
	var r *response.NetconfResponse
	switch c.Op {
	case "getconfig":
		r, err = d.GetConfig("running", oo...)
	case "commit":
		r, err = d.Commit(oo...)
	case "get":
		r, err = d.Get("", oo...)
	default:
		r, err = d.RPC(append(oo, opoptions.WithFilter("<get-schema xmlns=\"urn:s\"><identifier>x</identifier></get-schema>"))...)
	}
	el := time.Since(t0)
	cs.Obs = fmt.Sprintf("%s after %v", errClass(err), el.Round(time.Millisecond))
	wantOK := !c.Slow || limit > delay
	switch {
	case wantOK && err != nil:
		cs.Oracle = fmt.Sprintf("%s with per-operation timeout %q (effective %v, connection-wide %v): the server answered after %v but the call returned %v after %v",
			c.Op, c.PerOp, limit, conn, map[bool]time.Duration{false: 0, true: delay}[c.Slow], err, el.Round(time.Millisecond))
		cs.Sig = "C05:per-op-timeout-ignored"
	case wantOK && (r == nil || !strings.Contains(r.Result, "<ok/>")):
		cs.Oracle = "the call succeeded without the reply"
		cs.Sig = "C05:per-op-no-reply"
	case !wantOK && (err == nil || errClass(err) != "timeout"):
		cs.Oracle = fmt.Sprintf("%s with per-operation timeout %q (effective %v): the server answers only after %v, the call returned %v after %v instead of a timeout", c.Op, c.PerOp, limit, delay, err, el.Round(time.Millisecond))
		cs.Sig = "C05:per-op-no-timeout"
	case !wantOK && (el < limit*8/10 || el > limit+200*time.Millisecond):
		cs.Oracle = fmt.Sprintf("%s with per-operation timeout %q: timed out after %v, effective timeout %v", c.Op, c.PerOp, el.Round(time.Millisecond), limit)
		cs.Sig = "C05:per-op-timeout-at-wrong-time"
	}
	emit(cs)
}

type faultRun struct {
	tr       *sim.Transport
	outs     []string
	errs     []error
	results  []string
	d0, d1   int // delivered before / after the first operation
	elapsed  time.Duration
	line     string
	writes   [][]byte
	w0       int // number of writes before the first operation
	w1       int // ... and after it
	crashed  string
	hang     bool
	privLog  func() []sim.PrivLine
	preOut   string
	cbFired  int // callbacks that had run when the first operation returned
	closed   bool
	cached   string
	devLines []string
}

const faultConnTimeout = 60 * time.Millisecond
const faultOpTimeout = 35 * time.Millisecond

// execFault runs the case; fault == false is the dry run.
var faultHangs atomic.Int64

func execFault(c *faultCase, fault bool, k int) *faultRun {
	fr := &faultRun{}
	rx := map[string]string{}
	for _, e := range loadRegexes() {
		rx[e.Name] = e.Src
	}
	connTimeout := faultConnTimeout
	if c.Prop == "C06" {
		connTimeout = 1500 * time.Millisecond
	}
	if c.Timeout == "perop" {
		connTimeout = 2 * time.Second
	}
	var oo []util.Option
	if c.Timeout == "perop" && fault {
		oo = append(oo, opoptions.WithTimeoutOps(faultOpTimeout))
	}
	if !fault {
		connTimeout = 3 * time.Second // the dry run only measures the exchange
	}
	network_ := c.Op == "netcmd" || c.Op == "acquire" || c.Op == "deacquire"
	var tr *sim.Transport
	var sendCmd func(cmd string) (string, error)
	var first func() (string, error)
	var closer func() error
	var calls []string
	var specs []string
	var getCached func() string
	var getPrompt func() (string, error)
	var cbMu sync.Mutex
	var cbTrace [][]byte
	if network_ {
		dev := &sim.PrivDevice{Levels: map[string]*sim.PrivLevel{
			"exec":           {Name: "exec", Prompt: "host(l0)#"},
			"privilege-exec": {Name: "privilege-exec", Prompt: "host(l1)#", Previous: "exec", Escalate: "enable", Deescalate: "disable"},
		}, Mode: "exec"}
		tr = sim.NewTransport(dev)
		pl := map[string]*network.PrivilegeLevel{
			"exec":           {Name: "exec", Pattern: rx["verif_lvl_0"]},
			"privilege-exec": {Name: "privilege-exec", Pattern: rx["verif_lvl_1"], PreviousPriv: "exec", Escalate: "enable", Deescalate: "disable"},
		}
		d, err := network.NewDriver("sim", options.WithCustomTransport(tr), options.WithReadDelay(20*time.Microsecond), options.WithTimeoutOps(connTimeout),
			options.WithPrivilegeLevels(pl), options.WithDefaultDesiredPriv("privilege-exec"))
		if err != nil {
			fr.crashed = err.Error()
			return fr
		}
		tr.Segs, tr.DefaultSeg = c.Segs, c.DefSeg
		if err := d.Open(); err != nil {
			fr.crashed = "open: " + err.Error()
			return fr
		}
		closer = d.Close
		getCached = func() string { return d.CurrentPriv }
		getPrompt = d.GetPrompt
		sendCmd = func(cmd string) (string, error) {
			r, e := d.SendCommand(cmd)
			if e != nil {
				return "", e
			}
			return r.Result, nil
		}
		fr.privLog = func() []sim.PrivLine { return append([]sim.PrivLine(nil), dev.Log...) }
		if c.Op == "netcmd" {
			first = func() (string, error) { return sendCmd(c.Cmd) }
			calls = []string{fmt.Sprintf("cmd|%s|", hx([]byte(c.Cmd)))}
		} else if c.Op == "deacquire" {
			// an earlier command succeeded (the cached level is the default desired level and the device
			// is there); the operation under fault then LEAVES that level
			tr.Mark('C')
			pre, e := sendCmd("show pre")
			if e != nil {
				fr.crashed = "pre-command: " + e.Error()
				return fr
			}
			fr.preOut = "ok:" + hx([]byte(pre))
			first = func() (string, error) { return "", d.AcquirePriv("exec") }
			calls = []string{fmt.Sprintf("cmd|%s|", hx([]byte("show pre"))), "acq|" + hx([]byte("exec"))}
		} else {
			first = func() (string, error) { return "", d.AcquirePriv("privilege-exec") }
			calls = []string{"acq|" + hx([]byte("privilege-exec"))}
		}
		calls = append(calls, fmt.Sprintf("cmd|%s|", hx([]byte(c.Next))))
		specs = []string{
			fmt.Sprintf("%s|verif_lvl_0||||||", hx([]byte("exec"))),
			fmt.Sprintf("%s|verif_lvl_1||%s|%s|%s|0|", hx([]byte("privilege-exec")), hx([]byte("exec")), hx([]byte("disable")), hx([]byte("enable"))),
		}
	} else {
		var dev sim.Device
		switch c.Op {
		case "callbacks":
			dev = &sim.ScriptDevice{Steps: [][]byte{[]byte("Proceed with reload? [y/n] "), []byte("Password: "), []byte("reloading\r\nrouter#"), []byte("\r\nnext output\r\nrouter#")},
				EchoInput: true, Hidden: map[int]bool{2: true}}
		case "interactive":
			dev = &sim.ScriptDevice{Steps: [][]byte{[]byte("Proceed? [y/n] Password: "), []byte("done\r\nrouter#"), []byte("\r\nnext output\r\nrouter#")}, EchoInput: true}
		default:
			outs := [][][]byte{sim.Atoms([]byte(c.Out)), sim.Atoms([]byte("second output"))}
			if c.Op == "cmds" {
				outs = [][][]byte{sim.Atoms([]byte(c.Out)), sim.Atoms([]byte("detail output")), sim.Atoms([]byte("last output")), sim.Atoms([]byte("second output"))}
			}
			dev = &sim.CLIDevice{Prompt: []byte("router#"), Trail: []byte(" "), Outputs: outs}
		}
		tr = sim.NewTransport(dev)
		d, err := newGeneric(tr, options.WithReadDelay(20*time.Microsecond), options.WithTimeoutOps(connTimeout))
		if err != nil {
			fr.crashed = err.Error()
			return fr
		}
		tr.Segs, tr.DefaultSeg = c.Segs, c.DefSeg
		if err := d.Open(); err != nil {
			fr.crashed = "open: " + err.Error()
			return fr
		}
		closer = d.Close
		getCached = func() string { return "" }
		getPrompt = d.GetPrompt
		flags := ""
		interim := ""
		if c.Interim {
			oo = append(oo, opoptions.WithInterimPromptPattern([]*regexp.Regexp{regexp.MustCompile(rx["password_pattern"])}))
			interim = "password_pattern"
		}
		if c.Exact {
			oo = append(oo, opoptions.WithExactMatchInput())
			flags = "x"
		}
		sendCmd = func(cmd string) (string, error) {
			r, e := d.SendCommand(cmd, oo...)
			if e != nil {
				return "", e
			}
			return r.Result, nil
		}
		switch c.Op {
		case "cmds":
			// a plural send: the fault may hit any of its commands (oracle only: the operation language
			// of the model has the plural send at the network level only)
			first = func() (string, error) {
				m, e := d.SendCommands([]string{c.Cmd, c.Cmd + " detail", "show last"}, oo...)
				if e != nil {
					return "", e
				}
				return m.JoinedResult(), nil
			}
			calls = []string{"cmds"}
		case "cmd":
			first = func() (string, error) { return sendCmd(c.Cmd) }
			calls = []string{fmt.Sprintf("in|%s|%s|%s", hx([]byte(c.Cmd)), flags, interim)}
		case "getprompt":
			first = func() (string, error) { return d.GetPrompt() }
			calls = []string{"gp"}
		case "callbacks":
			mk := func(idx int, answer string, oo ...util.Option) *generic.Callback {
				cb, _ := generic.NewCallback(func(dd *generic.Driver, arg string) error {
					cbMu.Lock()
					cbTrace = append(cbTrace, []byte(fmt.Sprintf("%d:%s", idx, arg)))
					cbMu.Unlock()
					if answer == "" {
						return nil
					}
					return dd.Channel.WriteAndReturn([]byte(answer), false)
				}, oo...)
				return cb
			}
			// "perop" for a callback send: the operation timeout is long (2 s) and the answering
			// callbacks carry a short next-timeout, which is the one in force once a callback has run
			var nt []util.Option
			cbFlags := "ri"
			if c.Timeout == "perop" && fault {
				nt = []util.Option{opoptions.WithCallbackNextTimeout(faultOpTimeout)}
				cbFlags = "rit"
			}
			cbs := []*generic.Callback{
				mk(0, "y", append([]util.Option{opoptions.WithCallbackContains("[y/n]")}, nt...)...),
				mk(1, "s3cret", append([]util.Option{opoptions.WithCallbackContains("password:")}, nt...)...),
				mk(2, "", opoptions.WithCallbackContains("router#"), opoptions.WithCallbackComplete()),
			}
			first = func() (string, error) {
				r, e := d.SendWithCallbacks("reload", cbs, connTimeout)
				if e != nil {
					return "", e
				}
				return r.Result, nil
			}
			calls = []string{fmt.Sprintf("cb|%s|%s/%s/-/%s/%s;%s/%s/-/%s/%s;%s/%s/-/ric/-", hx([]byte("reload")),
				hx([]byte("[y/n]")), "", cbFlags, hx([]byte("y")), hx([]byte("password:")), "", cbFlags, hx([]byte("s3cret")), hx([]byte("router#")), "")}
		case "interactive":
			evs := []*channel.SendInteractiveEvent{{ChannelInput: "reload", ChannelResponse: rx["password_pattern"]}, {ChannelInput: "yes", ChannelResponse: ""}}
			first = func() (string, error) {
				r, e := d.SendInteractive(evs, oo...)
				if e != nil {
					return "", e
				}
				return r.Result, nil
			}
			calls = []string{fmt.Sprintf("ia|||%s/password_pattern/v;%s/-/v", hx([]byte("reload")), hx([]byte("yes")))}
		}
		calls = append(calls, fmt.Sprintf("in|%s|%s|%s", hx([]byte(c.Next)), flags, interim))
	}
	fr.tr = tr
	time.Sleep(2 * time.Millisecond)
	_, fr.d0, _ = tr.Snapshot()
	ws, _, _ := tr.Snapshot()
	fr.w0 = len(ws)
	if fault && !c.Idle {
		switch c.Fault {
		case "stall":
			tr.SetStall(fr.d0 + k)
		case "eof":
			tr.SetLoss(fr.d0+k, sim.LossEOF)
		case "ioerr":
			if c.TimedOut {
				tr.SetLoss(fr.d0+k, sim.LossErrTimedOut)
			} else {
				tr.SetLoss(fr.d0+k, sim.LossErr)
			}
		case "writeerr":
			switch c.WriteKind {
			case "eof":
				tr.WriteErr = io.EOF
			case "eof-wrapped":
				tr.WriteErr = fmt.Errorf("write to session: %w", io.EOF)
			case "epipe":
				tr.WriteErr = &net.OpError{Op: "write", Net: "tcp", Err: os.NewSyscallError("write", syscall.EPIPE)}
			}
			tr.SetWriteErr(fr.w0 + k)
		}
	}
	tr.Mark('C')
	t0 := time.Now()
	// the operation runs under a watchdog: one that never returns is a failing input (the property
	// is "returns within its timeout"), not a stuck harness
	type opRes struct {
		res string
		err error
	}
	limit := 8 * time.Second
	if faultHangs.Load() >= 6 {
		limit = connTimeout + 1500*time.Millisecond // the defect is established: further replays need not wait long
	}
	och := make(chan opRes, 1)
	go func() {
		defer func() {
			if p := recover(); p != nil {
				och <- opRes{"", fmt.Errorf("PANIC in the caller's goroutine: %v", p)}
			}
		}()
		r, e := first()
		och <- opRes{r, e}
	}()
	var res string
	var err error
	select {
	case x := <-och:
		res, err = x.res, x.err
	case <-time.After(limit):
		faultHangs.Add(1)
		fr.hang = true
		fr.crashed = fmt.Sprintf("the operation had not returned %v after it started (timeout in force: %v)", limit, connTimeout)
		go func() { _ = closer() }()
		return fr
	}
	fr.elapsed = time.Since(t0)
	timedOut := err != nil && (errClass(err) == "timeout" || (errClass(err) == "privilege" && fr.elapsed >= connTimeout*9/10))
	if timedOut {
		tr.Mark('D')
	}
	fr.errs = append(fr.errs, err)
	fr.results = append(fr.results, res)
	cbMu.Lock()
	fr.cbFired = len(cbTrace)
	cbMu.Unlock()
	var wsAfter [][]byte
	wsAfter, fr.d1, _ = tr.Snapshot()
	fr.w1 = len(wsAfter)
	// follow-up operation: recovery after a stall (device resumes), or "every later operation
	// also fails" after a loss
	if fault && c.Fault == "stall" {
		tr.Unstall()
		time.Sleep(8 * time.Millisecond) // the device catches up
	}
	if fault && c.Idle {
		if c.Unsolicited != "" {
			tr.Inject(sim.Atoms([]byte(c.Unsolicited)))
		}
		for i := 0; i < 200; i++ { // the reader takes what the device printed
			if _, _, pend := tr.Snapshot(); pend == 0 {
				break
			}
			time.Sleep(200 * time.Microsecond)
		}
		_, dl, _ := tr.Snapshot()
		if c.Fault == "eof" {
			tr.SetLoss(dl, sim.LossEOF)
		} else if c.TimedOut {
			tr.SetLoss(dl, sim.LossErrTimedOut)
		} else {
			tr.SetLoss(dl, sim.LossErr)
		}
		time.Sleep(3 * time.Millisecond) // the reader meets the loss while nothing is in flight
	}
	tr.Mark('C')
	t1 := time.Now()
	var res2 string
	var err2 error
	if c.Idle && c.NextOp == "getprompt" {
		res2, err2 = getPrompt()
		calls[len(calls)-1] = "gp"
	} else {
		res2, err2 = sendCmd(c.Next)
	}
	if err2 != nil && (errClass(err2) == "timeout" || (errClass(err2) == "privilege" && time.Since(t1) >= connTimeout*9/10)) {
		tr.Mark('D')
	}
	fr.errs = append(fr.errs, err2)
	fr.results = append(fr.results, res2)
	time.Sleep(time.Millisecond)
	for i := range fr.errs {
		if fr.errs[i] != nil {
			fr.outs = append(fr.outs, "err:"+errClass(fr.errs[i]))
		} else if (c.Op == "acquire" || c.Op == "deacquire") && i == 0 {
			fr.outs = append(fr.outs, "ok:")
		} else {
			fr.outs = append(fr.outs, "ok:"+hx([]byte(fr.results[i])))
		}
	}
	if fr.preOut != "" {
		fr.outs = append([]string{fr.preOut}, fr.outs...)
	}
	logStr := tr.LogString()
	fr.writes, _, _ = tr.Snapshot()
	start := tr.StartBytes()
	fr.cached = getCached()
	done := make(chan struct{})
	go func() { _ = closer(); close(done) }()
	select {
	case <-done:
	case <-time.After(2 * time.Second):
		fr.crashed = "Close did not return"
	}
	fr.closed = tr.Closed()
	var wl [][]byte
	for _, w := range fr.writes {
		wl = append(wl, append([]byte("p"), w...))
	}
	if network_ {
		fr.line = fmt.Sprintf("netalt 1000 %s %s %s %s %s %s %s", hx([]byte("\n")), hx(start), hx([]byte("privilege-exec")), hx(nil),
			hxStrs(specs), hxStrs(calls), logStr)
		fr.outs = []string{strings.Join(fr.outs, ","), "sync", hxList(wl), hx([]byte(fr.cached))}
	} else {
		fr.line = fmt.Sprintf("chanalt 1000 prompt_pattern %s %s %s %s", hx([]byte("\n")), hx(start), hxStrs(calls), logStr)
		cbMu.Lock()
		fr.outs = []string{strings.Join(fr.outs, ","), "sync", hxList(wl), hxList(cbTrace)}
		cbMu.Unlock()
	}
	return fr
}

func runFaultCase(id string, c *faultCase) {
	defer watchCase(id, c)()
	cs := &Case{ID: id, Kind: fmt.Sprintf("%s/%s/%s", c.Op, c.Fault, c.Timeout), HypOK: true, Replay: c, Nontrivial: true}
	dry := execFault(c, false, 0)
	if dry.crashed != "" || dry.errs[0] != nil || dry.errs[1] != nil {
		cs.Oracle = fmt.Sprintf("dry run failed: %s %v", dry.crashed, dry.errs)
		cs.Sig = c.Prop + ":dry-run"
		emit(cs)
		return
	}
	L := dry.d1 - dry.d0
	k := c.K
	if c.Fault == "writeerr" {
		nw := len(dry.writes) - dry.w0
		k = c.KFrac * nw / 1000
	} else if k < 0 {
		k = c.KFrac * (L + 1) / 1000
	}
	if c.Idle {
		k = L
		cs.Kind += "/idle-" + c.NextOp
	}
	c.K = k
	fr := execFault(c, true, k)
	cs.Line = fr.line
	if c.Fault == "writeerr" || c.Op == "cmds" {
		cs.Line = "" // write failures / the generic plural send are outside the model's operation language: oracle only
	}
	cs.Obs = strings.Join(fr.outs, " ")
	if fr.crashed != "" {
		cs.Oracle = fr.crashed
		cs.Sig = c.Prop + ":crash"
		if fr.hang {
			cs.Sig = c.Prop + ":hang"
		}
		emit(cs)
		return
	}
	e0, e1 := fr.errs[0], fr.errs[1]
	for i, e := range []error{e0, e1} {
		if e != nil && strings.HasPrefix(e.Error(), "PANIC") {
			cs.Oracle = fmt.Sprintf("%s after byte %d of %d: operation %d: %v", c.Fault, k, L, i, e)
			cs.Sig = c.Prop + ":panic"
			emit(cs)
			return
		}
	}
	connTimeout := faultConnTimeout
	if c.Timeout == "perop" {
		connTimeout = faultOpTimeout
		if c.Op == "callbacks" && fr.cbFired == 0 {
			connTimeout = 2 * time.Second // no callback has run yet: the operation's own timeout is in force
		}
	}
	switch c.Prop {
	case "C05":
		wantClass := "timeout"
		if c.Op == "netcmd" {
			wantClass = "privilege" // a failed implicit privilege change is reported as a privilege error
		}
		switch {
		case e0 == nil && strings.TrimRight(fr.results[0], " ") != strings.TrimRight(dry.results[0], " "):
			cs.Oracle = fmt.Sprintf("stall after byte %d of %d: success with %q, the full result is %q", k, L, fr.results[0], dry.results[0])
			cs.Sig = "C05:partial-success"
		case e0 != nil && errClass(e0) != wantClass && !(c.Op == "netcmd" && errClass(e0) == "timeout"):
			cs.Oracle = fmt.Sprintf("stall after byte %d of %d: error class %s, want %s", k, L, errClass(e0), wantClass)
			cs.Sig = "C05:error-class:" + errClass(e0)
		case e0 != nil && (fr.elapsed < connTimeout*9/10 || fr.elapsed > connTimeout*time.Duration(multiplier(c))+250*time.Millisecond):
			cs.Oracle = fmt.Sprintf("stall after byte %d of %d: returned after %v, configured timeout %v", k, L, fr.elapsed, connTimeout)
			cs.Sig = "C05:timing"
		}
		// recovery clause for a privilege change: the de-escalate command's return was sent (get-prompt's
		// return, the command, its return), the device acted on it and went silent; once it has caught up
		// the next command must still run at the default desired level
		if cs.Oracle == "" && e0 != nil && c.Op == "deacquire" && fr.w1-fr.w0 >= 3 && fr.privLog != nil {
			if e1 != nil {
				cs.Oracle = fmt.Sprintf("after the timed-out privilege change (stall at %d of %d) the next command failed: %v", k, L, e1)
				cs.Sig = "C05:recovery-error"
			} else {
				for _, l := range fr.privLog() {
					if l.Line == c.Next && l.Mode != "privilege-exec" {
						cs.Oracle = fmt.Sprintf("after the timed-out privilege change (stall at %d of %d) the next command %q was executed at level %s, not at the default desired level", k, L, c.Next, l.Mode)
						cs.Sig = "C05:recovery-wrong-level"
					}
				}
			}
		}
		// recovery clause: stalls that begin after the command's return was sent
		returnSent := fr.w1-fr.w0 >= 2 && (c.Op == "cmd")
		if cs.Oracle == "" && e0 != nil && returnSent {
			if e1 != nil {
				cs.Oracle = fmt.Sprintf("after the timed-out exchange (stall at %d of %d) the next command failed: %v", k, L, e1)
				cs.Sig = "C05:recovery-error"
			} else if fr.results[1] != dry.results[1] {
				cs.Oracle = fmt.Sprintf("after the timed-out exchange (stall at %d of %d) the next command returned %q, want %q", k, L, fr.results[1], dry.results[1])
				cs.Sig = "C05:recovery-result"
			}
		}
	case "C06":
		isConn := func(e error) bool {
			cl := errClass(e)
			return cl == "connection" || cl == "io" || cl == "write" || cl == "privilege"
		}
		switch {
		case e0 == nil && strings.TrimRight(fr.results[0], " ") != strings.TrimRight(dry.results[0], " "):
			cs.Oracle = fmt.Sprintf("%s after byte %d of %d: success with truncated output %q (full: %q)", c.Fault, k, L, fr.results[0], dry.results[0])
			cs.Sig = "C06:truncated-success"
		case e0 != nil && !isConn(e0):
			cs.Oracle = fmt.Sprintf("%s after byte %d of %d: error class %s (%v)", c.Fault, k, L, errClass(e0), e0)
			cs.Sig = "C06:error-class:" + errClass(e0)
		case e0 != nil && fr.elapsed > 600*time.Millisecond:
			cs.Oracle = fmt.Sprintf("%s after byte %d of %d: the operation waited %v (timeout is 1.5 s) instead of failing promptly", c.Fault, k, L, fr.elapsed)
			cs.Sig = "C06:not-prompt"
		case c.Idle && e0 != nil:
			cs.Oracle = fmt.Sprintf("idle-loss case: the first operation (no fault yet) failed: %v", e0)
			cs.Sig = "C06:idle-first-failed"
		case e1 == nil && c.Fault != "writeerr" && k <= L:
			// the loss happened during (or before the end of) the first exchange: every later operation fails
			cs.Oracle = fmt.Sprintf("%s after byte %d of %d: a later operation succeeded (%q)", c.Fault, k, L, fr.results[1])
			cs.Sig = "C06:later-success"
		}
	}
	emit(cs)
}

func multiplier(c *faultCase) int {
	// an operation made of several exchanges each with its own deadline (acquire: get-prompt +
	// escalate + get-prompt) may take up to that many timeouts only if each exchange ALMOST
	// finishes; a stall point stops the first unfinished one, so one timeout is the bound
	return 1
}

var _ = bytes.Equal
