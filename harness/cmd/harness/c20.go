package main

import (
	"bytes"
	"encoding/json"
	"fmt"
	"runtime"
	"strings"
	"sync"
	"sync/atomic"
	"time"

	"github.com/scrapli/scrapligo/driver/generic"
	"github.com/scrapli/scrapligo/driver/options"
	"github.com/scrapli/scrapligo/transport"
	"github.com/scrapli/scrapligo/util"

	"verif/harness/sim"
)

func init() {
	props["C20"] = prop{Run: runC20, Replay: func(id string, raw json.RawMessage) {
		var c c20Case
		if json.Unmarshal(raw, &c) == nil {
			runC20Case(id, &c)
		}
	}}
}

type c20Case struct {
	Kind string `json:"kind"` // sequential | concurrent | open
	// open: the library's own use of the put-back: Channel.Open returns to the queue what the
	// in-channel authentication consumed, while the device keeps talking behind the prompt; Banner =
	// lines in front of the prompt, After = lines behind it, Seg = bytes per transport read
	Banner  int      `json:"banner,omitempty"`
	After   int      `json:"after,omitempty"`
	Seg     int      `json:"seg,omitempty"`
	History []string `json:"history,omitempty"`
	// concurrent: producer enqueues N chunks; consumer runs Ops cyclically until it has everything
	N     int      `json:"n,omitempty"`
	Ops   []string `json:"ops,omitempty"`
	Procs int      `json:"procs,omitempty"`
	// Window > 0: the producer stays at most Window chunks ahead of the consumer, so the queue is
	// emptied over and over while an Enqueue is in flight
	Window int `json:"window,omitempty"`
}

func genC20(r *sim.Rng, i int, tier string) *c20Case {
	if i%3 == 2 {
		c := &c20Case{Kind: "concurrent", N: 200 + r.Intn(2000), Procs: []int{1, 2, 4, 16}[r.Intn(4)]}
		if r.Chance(1, 2) {
			c.Window = 1 + r.Intn(3)
			c.N = 20000 + r.Intn(40000)
			if c.Procs == 1 {
				c.Procs = 2
			}
		}
		// the consumer's operation mix: a cyclic pattern in which every put-back is followed by at
		// least two takes, so the run makes progress
		k := 1 + r.Intn(4)
		for j := 0; j < k; j++ {
			switch r.Intn(5) {
			case 0:
				c.Ops = append(c.Ops, "R", "D", "D")
			case 1:
				c.Ops = append(c.Ops, "A")
			case 2:
				c.Ops = append(c.Ops, "G", "D")
			case 3:
				c.Ops = append(c.Ops, "R", "A", "D")
			default:
				c.Ops = append(c.Ops, "D")
			}
		}
		return c
	}
	c := &c20Case{Kind: "sequential"}
	n := r.Intn(14)
	next := 1
	for j := 0; j < n; j++ {
		switch r.Intn(7) {
		case 0, 1, 2:
			c.History = append(c.History, fmt.Sprintf("E%02x", next))
			next++
		case 3:
			c.History = append(c.History, "D")
		case 4:
			c.History = append(c.History, "A")
		case 5:
			c.History = append(c.History, "R")
		case 6:
			c.History = append(c.History, "G")
		}
	}
	return c
}

// allHistories enumerates every sequential history over {E,D,A,R,G} of the given length.
func allHistories(n int) [][]string {
	if n == 0 {
		return [][]string{nil}
	}
	var out [][]string
	for _, h := range allHistories(n - 1) {
		for _, o := range []string{"E", "D", "A", "R", "G"} {
			nh := append(append([]string{}, h...), o)
			out = append(out, nh)
		}
	}
	return out
}

var c20Deadlocks atomic.Int64

func runC20(seed uint64, n int, tier string) {
	rng := sim.NewRng(seed)
	var cases []*c20Case
	// exhaustive sequential histories up to a bound (quick: 5, thorough: 7)
	bound := 5
	if tier == "thorough" {
		bound = 7
	}
	for l := 0; l <= bound; l++ {
		for _, h := range allHistories(l) {
			next := 1
			hh := make([]string, len(h))
			for i, o := range h {
				if o == "E" {
					hh[i] = fmt.Sprintf("E%02x", next)
					next++
				} else {
					hh[i] = o
				}
			}
			cases = append(cases, &c20Case{Kind: "sequential", History: hh})
		}
	}
	for i := 0; i < n; i++ {
		cases = append(cases, genC20(rng.Fork(), i, tier))
	}
	for _, banner := range []int{1, 40, 400} {
		for _, seg := range []int{16, 700} {
			cases = append(cases, &c20Case{Kind: "open", Banner: banner, After: 300, Seg: seg})
		}
	}
	for _, banner := range []int{2000, 8000, 8000, 8000} {
		cases = append(cases, &c20Case{Kind: "open", Banner: banner, After: 20, Seg: 0})
	}
	// concurrent cases change GOMAXPROCS: run them one at a time; sequential ones in parallel
	var seq, conc []int
	for i, c := range cases {
		if c.Kind == "concurrent" {
			conc = append(conc, i)
		} else {
			seq = append(seq, i)
		}
	}
	parallel(len(seq), func(k int) { runC20Case(caseID("C20", seed, seq[k]), cases[seq[k]]) })
	for _, i := range conc {
		if c20Deadlocks.Load() >= 3 {
			// every stress run so far ended in the watchdog: three replays are enough, and each
			// further one would cost another 20 s
			break
		}
		runC20Case(caseID("C20", seed, i), cases[i])
	}
}

// c20Banner is what the device of an "open" case says, in order: the banner, the prompt, and more
// lines right behind it.
type c20Banner struct{ all []byte }

func (d *c20Banner) Start() [][]byte        { return [][]byte{d.all} }
func (d *c20Banner) Feed(b []byte) [][]byte { return nil }

func runC20Open(id string, c *c20Case) {
	defer watchCase(id, c)()
	cs := &Case{ID: id, Kind: "open", HypOK: true, Nontrivial: true, Replay: c}
	var sb strings.Builder
	for i := 0; i < c.Banner; i++ {
		fmt.Fprintf(&sb, "banner line %04d: authorised access only\n", i)
	}
	sb.WriteString("router1#")
	for i := 0; i < c.After; i++ {
		fmt.Fprintf(&sb, "\n%%LOG-%04d: interface state changed", i)
	}
	tail := ""
	if c.Seg == 0 {
		// the banner arrives in one read; the lines behind the prompt are released the moment the
		// authentication has taken the banner off the queue (it is still looking through it then)
		full := sb.String()
		k := strings.Index(full, "router1#") + len("router1#")
		sb.Reset()
		sb.WriteString(full[:k])
		tail = full[k:]
	}
	produced := sb.String() + tail
	tr := sim.NewTransport(&c20Banner{all: []byte(sb.String())})
	tr.DefaultSeg = c.Seg
	at := &sim.AuthTransport{Transport: tr, SSH: &transport.SSHArgs{}, Kind: transport.InChannelAuthSSH}
	d, err := generic.NewDriver("sim", options.WithCustomTransport(at), options.WithReadDelay(time.Microsecond),
		options.WithTimeoutOps(2*time.Second), options.WithAuthUsername("u"), options.WithAuthPassword("p"))
	if err != nil {
		cs.Oracle = "driver construction failed: " + err.Error()
		emit(cs)
		return
	}
	if tail != "" {
		go func() {
			seen := false
			dl := time.Now().Add(2 * time.Second)
			for time.Now().Before(dl) {
				n := d.Channel.Q.GetDepth()
				if n > 0 {
					seen = true
				} else if seen {
					break
				}
			}
			tr.Inject(append(sim.Atoms([]byte(tail)), nil))
		}()
	}
	if err := d.Open(); err != nil {
		cs.Oracle = "open failed: " + err.Error()
		cs.Sig = "C20:open-failed"
		emit(cs)
		return
	}
	defer d.Close()
	var got []byte
	dl := time.Now().Add(3 * time.Second)
	for len(got) < len(produced) && time.Now().Before(dl) {
		b, rerr := d.Channel.ReadAll()
		if rerr != nil {
			break
		}
		got = append(got, b...)
		if b == nil {
			time.Sleep(200 * time.Microsecond)
		}
	}
	cs.Obs = fmt.Sprintf("%d of %d bytes", len(got), len(produced))
	if string(got) != produced {
		i := 0
		for i < len(got) && i < len(produced) && got[i] == produced[i] {
			i++
		}
		end := i + 60
		if end > len(got) {
			end = len(got)
		}
		cs.Oracle = fmt.Sprintf("after Open the channel yields something else than what the device sent, in order: %d of %d bytes, first difference at byte %d: got %q", len(got), len(produced), i, got[i:end])
		cs.Sig = "C20:open-put-back-order"
	}
	emit(cs)
}

func runC20Case(id string, c *c20Case) {
	if c.Kind == "open" {
		runC20Open(id, c)
		return
	}
	defer watchCase(id, c)()
	cs := &Case{ID: id, Kind: c.Kind, HypOK: true, Replay: c}
	if c.Kind == "sequential" {
		q := util.NewQueue()
		var got [][]byte
		var produced [][]byte
		nils := 0
		var depths []string
		panicked := false
		func() {
			defer func() {
				if p := recover(); p != nil {
					panicked = true
				}
			}()
			for _, o := range c.History {
				switch o[0] {
				case 'E':
					var b byte
					fmt.Sscanf(o[1:], "%02x", &b)
					q.Enqueue([]byte{b})
					produced = append(produced, []byte{b})
				case 'D':
					b := q.Dequeue()
					if b == nil {
						nils++
					} else {
						got = append(got, b)
					}
				case 'A':
					b := q.DequeueAll()
					if b == nil {
						nils++
					} else {
						for i := range b {
							got = append(got, b[i:i+1])
						}
					}
				case 'R':
					if len(got) > 0 {
						q.Requeue(got[len(got)-1])
						got = got[:len(got)-1]
					}
				case 'G':
					depths = append(depths, fmt.Sprint(q.GetDepth()))
				}
			}
		}()
		finalDepth := q.GetDepth()
		rest := q.DequeueAll()
		cs.Line = "q20 " + strings.Join(c.History, ",")
		if len(c.History) == 0 {
			cs.Line = "q20 -"
		}
		cs.Obs = fmt.Sprintf("%s %s %d %s %s %d", hx(bytes.Join(got, nil)), hx(rest), nils, strings.Join(depths, ","), b2i(panicked), finalDepth)
		cs.Nontrivial = len(c.History) >= 3
		if panicked {
			cs.Oracle = "queue operation panicked"
			cs.Sig = "C20:panic"
		} else if !bytes.Equal(append(bytes.Join(got, nil), rest...), bytes.Join(produced, nil)) {
			cs.Oracle = fmt.Sprintf("obtained %x + held %x != produced %x", bytes.Join(got, nil), rest, bytes.Join(produced, nil))
			cs.Sig = "C20:lossless"
		} else if finalDepth != len(rest) {
			cs.Oracle = fmt.Sprintf("depth %d != chunks held %d", finalDepth, len(rest))
			cs.Sig = "C20:depth"
		}
		emit(cs)
		return
	}
	// ---- concurrent stress: one producer, one consumer; chunks are 2-byte sequence numbers
	old := runtime.GOMAXPROCS(c.Procs)
	defer runtime.GOMAXPROCS(old)
	q := util.NewQueue()
	var wg sync.WaitGroup
	wg.Add(2)
	var obtained []byte
	panicMsg := ""
	depthBad := ""
	starved := ""
	var enq, taken atomic.Int64 // Enqueue calls that have returned; chunks the consumer holds
	var stop atomic.Bool        // the consumer has given up (failure recorded): the producer stops waiting for it
	var abort atomic.Bool       // the watchdog fired: everybody stops spinning
	lossMsg := ""
	go func() {
		defer wg.Done()
		for i := 0; i < c.N; i++ {
			for c.Window > 0 && int64(i)-taken.Load() >= int64(c.Window) && !stop.Load() {
				runtime.Gosched()
			}
			q.Enqueue([]byte{byte(i >> 8), byte(i)})
			enq.Add(1)
			if i%64 == 0 {
				runtime.Gosched()
			}
		}
	}()
	go func() {
		defer wg.Done()
		defer stop.Store(true)
		defer func() {
			if p := recover(); p != nil {
				panicMsg = fmt.Sprint(p)
			}
		}()
		var last []byte
		k := 0
		spins := 0
		checked := 0 // chunks of `obtained` already verified to be 0, 1, 2, ... in order
		for len(obtained) < 2*c.N && spins < 50_000_000 && !abort.Load() {
			// the stream obtained so far must be the produced stream: a gap or a repeat is reported at
			// once (with the position), not after waiting for a chunk that will never come
			if checked > len(obtained)/2 {
				checked = len(obtained) / 2
			}
			for ; checked < len(obtained)/2 && lossMsg == ""; checked++ {
				if got := int(obtained[2*checked])<<8 | int(obtained[2*checked+1]); got != checked&0xffff {
					lossMsg = fmt.Sprintf("consumer read chunk %d where chunk %d was due (after %d chunks)", got, checked, checked)
				}
			}
			if lossMsg != "" {
				break
			}
			o := c.Ops[k%len(c.Ops)]
			k++
			// chunks certainly in the queue for the whole duration of the next take: Enqueues that had
			// returned before it started, minus what this (only) consumer holds
			before := enq.Load() - int64(len(obtained)/2)
			switch o {
			case "D":
				if b := q.Dequeue(); b != nil {
					obtained = append(obtained, b...)
					last = b
				} else {
					if before > 0 && starved == "" {
						starved = fmt.Sprintf("Dequeue returned nothing although %d chunk(s) were in the queue (after %d chunks)", before, len(obtained)/2)
					}
					spins++
					runtime.Gosched()
				}
			case "A":
				if b := q.DequeueAll(); b != nil {
					obtained = append(obtained, b...)
					last = b[len(b)-2:]
				} else {
					if before > 0 && starved == "" {
						starved = fmt.Sprintf("DequeueAll returned nothing although %d chunk(s) were in the queue (after %d chunks)", before, len(obtained)/2)
					}
					spins++
				}
			case "R":
				if last != nil && len(obtained) >= 2 {
					obtained = obtained[:len(obtained)-2]
					q.Requeue(last)
					last = nil
				}
			case "G":
				if d := q.GetDepth(); d < 0 || d > c.N {
					depthBad = fmt.Sprint(d)
				}
			}
			taken.Store(int64(len(obtained) / 2))
		}
	}()
	done := make(chan struct{})
	go func() { wg.Wait(); close(done) }()
	deadlocked := false
	select {
	case <-done:
	case <-timeAfter(20):
		deadlocked = true
		c20Deadlocks.Add(1)
		abort.Store(true)
		stop.Store(true)
	}
	cs.Nontrivial = true
	switch {
	case deadlocked:
		cs.Oracle = "producer/consumer did not finish within 20 s (deadlock or livelock)"
		cs.Sig = "C20:deadlock"
	case panicMsg != "":
		cs.Oracle = "consumer panicked: " + panicMsg
		cs.Sig = "C20:panic"
	case lossMsg != "":
		cs.Oracle = lossMsg
		cs.Sig = "C20:lossless"
	case depthBad != "":
		cs.Oracle = "impossible depth " + depthBad
		cs.Sig = "C20:depth"
	case starved != "":
		cs.Oracle = starved
		cs.Sig = "C20:nonempty-yields-nothing"
	default:
		ok := len(obtained) == 2*c.N
		for i := 0; ok && i < c.N; i++ {
			if obtained[2*i] != byte(i>>8) || obtained[2*i+1] != byte(i) {
				ok = false
			}
		}
		if !ok {
			cs.Oracle = fmt.Sprintf("consumer's stream (%d bytes) is not the produced stream (%d chunks)", len(obtained), c.N)
			cs.Sig = "C20:lossless"
		} else if d := q.GetDepth(); d != 0 {
			cs.Oracle = fmt.Sprintf("depth %d at quiescence with an empty queue", d)
			cs.Sig = "C20:depth"
		}
	}
	cs.Obs = "concurrent"
	emit(cs)
}
