package main

// C14 — SSH connections honour strict host-key checking and the configured identity.
//
// Three ways the real library is driven, over the table
// {strict, not strict} x {known-hosts: has the server key / another key / empty / not given}
// x {password, key, both} x ports/users:
//   - "system":      system transport with a stand-in ssh binary (a shell script that dumps its
//                    argv, optionally asks for a password on the pty, prints a prompt);
//   - "system-real": same, but the stand-in execs /usr/bin/ssh against an in-process SSH server
//                    on loopback (argv recorded AND the connection outcome observed);
//   - "standard":    crypto/ssh transport against an in-process SSH server that records user,
//                    offered auth methods and passwords; a second "rogue" server (unknown host key)
//                    is dialled with the same settings to observe the host-key policy.

import (
	"bytes"
	"crypto/ed25519"
	"crypto/rand"
	"encoding/json"
	"encoding/pem"
	"errors"
	"fmt"
	"net"
	"os"
	"path/filepath"
	"strconv"
	"strings"
	"sync"
	"time"

	"github.com/scrapli/scrapligo/driver/generic"
	"github.com/scrapli/scrapligo/driver/options"
	"github.com/scrapli/scrapligo/logging"
	"github.com/scrapli/scrapligo/transport"
	"github.com/scrapli/scrapligo/util"
	"golang.org/x/crypto/ssh"
	"golang.org/x/crypto/ssh/knownhosts"

	"verif/harness/sim"
)

func init() {
	props["C14"] = prop{Run: runC14, Replay: func(id string, raw json.RawMessage) {
		var c c14Case
		if json.Unmarshal(raw, &c) == nil {
			runC14Case(id, &c)
			c14Cleanup()
		}
	}}
}

type c14Case struct {
	Transport string   `json:"transport"` // system | system-real | standard
	Strict    bool     `json:"strict"`    // true: no strictness option given (library default)
	KH        string   `json:"kh"`        // match | other | empty | none
	Auth      string   `json:"auth"`      // password | key | both
	Host      string   `json:"host"`      // stand-in system cases only; otherwise 127.0.0.1
	Port      int      `json:"port"`      // stand-in system cases only; otherwise the listener's port
	User      string   `json:"user"`
	Password  string   `json:"password"`
	TimeoutS  int      `json:"timeout_s"`
	Config    bool     `json:"config"` // system: WithSSHConfigFile given
	Extra     []string `json:"extra"`
	Netconf   bool     `json:"netconf"` // system stand-in: SSHArgs.NetconfConnection (what netconf.NewDriver sets)
	// PriorKH (standard transport, strict): history in the same process — the SAME known-hosts path
	// held this other content ("match" | "other" | "empty") when an earlier connection to the same
	// server was attempted; the file was then rewritten.  The measured connection is judged by what
	// the file holds NOW.
	PriorKH string `json:"prior_kh,omitempty"`
	// RemoveKH (standard transport, strict): the known-hosts file exists when the driver is created and
	// is gone when Open runs: no known-hosts file is available then, and the connection must fail
	RemoveKH bool `json:"remove_kh,omitempty"`
}

func (c *c14Case) hasPw() bool  { return c.Auth == "password" || c.Auth == "both" }
func (c *c14Case) hasKey() bool { return c.Auth == "key" || c.Auth == "both" }

const c14RealSSH = "/usr/bin/ssh"

var (
	c14Hosts  = []string{"r1", "10.0.0.5", "core-sw.example.net", "2001:db8::1", "edge_7"}
	c14Users  = []string{"admin", "", "net-ops", "root", "user.name_1", "a"}
	c14Ports  = []int{22, 2222, 830, 1, 65535, 8022}
	c14Extras = [][]string{
		nil, nil, {"-v"}, {"-o", "KexAlgorithms=+diffie-hellman-group14-sha1"},
		{"-4", "-o", "Ciphers=+aes128-cbc"}, {"-o", "LogLevel=ERROR"},
	}
	c14KHs   = []string{"match", "other", "empty", "none", "revoked", "match-revoked"}
	c14Auths = []string{"password", "key", "both"}
)

func c14Password(r *sim.Rng) string {
	// unique marker so that the password is not a substring of any other setting or literal
	const alpha = "abcdefghijkmnpqrstuvwxyzABCDEFGHJKLMNPQRSTUVWXYZ23456789!%+,.^_ "
	n := 3 + r.Intn(10)
	b := []byte("Pw~")
	for i := 0; i < n; i++ {
		b = append(b, alpha[r.Intn(len(alpha))])
	}
	return string(b) + "z"
}

func genC14(r *sim.Rng, tr string, strict bool, kh, auth string) *c14Case {
	c := &c14Case{Transport: tr, Strict: strict, KH: kh, Auth: auth, Host: "127.0.0.1", TimeoutS: 5}
	c.User = r.Pick(c14Users)
	c.Password = c14Password(r)
	switch tr {
	case "system":
		c.Host = r.Pick(c14Hosts)
		if r.Chance(1, 2) {
			c.Port = c14Ports[r.Intn(len(c14Ports))]
		} else {
			c.Port = 1 + r.Intn(65535)
		}
		c.TimeoutS = []int{1, 5, 30, 30, 90, 600}[r.Intn(6)]
		c.Config = r.Chance(1, 3)
		c.Extra = c14Extras[r.Intn(len(c14Extras))]
		c.Netconf = r.Chance(1, 4)
	case "system-real":
		c.Config = r.Chance(1, 4)
		if r.Chance(1, 3) {
			c.Extra = []string{"-4"}
		}
		if c.User == "" && r.Chance(1, 2) {
			c.User = "admin"
		}
	}
	return c
}

func runC14(seed uint64, n int, tier string) {
	rng := sim.NewRng(seed)
	var cases []*c14Case
	trs := []string{"system", "standard"}
	if _, err := os.Stat(c14RealSSH); err == nil {
		trs = append(trs, "system-real")
	}
	// the whole table first
	for _, tr := range trs {
		for _, strict := range []bool{true, false} {
			for _, kh := range c14KHs {
				for _, auth := range c14Auths {
					cases = append(cases, genC14(rng.Fork(), tr, strict, kh, auth))
				}
			}
		}
	}
	// then random cells with random ports/users/extra arguments
	for i := 0; i < n; i++ {
		r := rng.Fork()
		tr := "system"
		switch k := r.Intn(10); {
		case k >= 5 && k < 9:
			tr = "standard"
		case k == 9 && len(trs) == 3:
			tr = "system-real"
		}
		cases = append(cases, genC14(r, tr, r.Chance(2, 3), r.Pick(c14KHs), r.Pick(c14Auths)))
	}
	// the known-hosts file removed between creation and Open
	for _, kh := range []string{"match", "other", "empty"} {
		c := genC14(rng.Fork(), "standard", true, kh, "password")
		c.RemoveKH = true
		cases = append(cases, c)
	}
	// histories: the known-hosts file rewritten between two connections (both directions of the verdict)
	for _, pk := range [][2]string{{"match", "other"}, {"match", "empty"}, {"other", "match"}, {"empty", "match"}, {"match", "revoked"}} {
		for _, auth := range []string{"password", "key"} {
			c := genC14(rng.Fork(), "standard", true, pk[1], auth)
			c.PriorKH = pk[0]
			cases = append(cases, c)
		}
	}
	// files that will be exec'd are written before anything forks
	_, _ = c14SharedScript(&c14Case{Transport: "system"})
	_, _, _ = c14ClientKey()
	parallel(len(cases), func(i int) { runC14Case(caseID("C14", seed, i), cases[i]) })
	c14Cleanup()
}

// c14Cleanup removes the per-process files (client key, shared scripts).
func c14Cleanup() {
	if c14KeyPath != "" {
		_ = os.Remove(c14KeyPath)
	}
	if c14ScriptDir != "" {
		_ = os.RemoveAll(c14ScriptDir)
	}
	if c14Rogue != nil {
		c14Rogue.close()
	}
}

// ---------------------------------------------------------------------------------------------
// keys and files

var (
	c14KeyOnce   sync.Once
	c14KeyPath   string
	c14ClientPub ssh.PublicKey
	c14KeyErr    error

	c14RogueOnce sync.Once
	c14Rogue     *c14Server
)

func c14NewSigner() (ssh.Signer, ed25519.PrivateKey) {
	_, priv, err := ed25519.GenerateKey(rand.Reader)
	if err != nil {
		panic(err)
	}
	s, err := ssh.NewSignerFromKey(priv)
	if err != nil {
		panic(err)
	}
	return s, priv
}

// the client key pair of the run: OpenSSH PEM, mode 0600 (the real ssh insists)
func c14ClientKey() (string, ssh.PublicKey, error) {
	c14KeyOnce.Do(func() {
		s, priv := c14NewSigner()
		c14ClientPub = s.PublicKey()
		blk, err := ssh.MarshalPrivateKey(priv, "c14")
		if err != nil {
			c14KeyErr = err
			return
		}
		c14KeyPath = filepath.Join(workDir(), fmt.Sprintf("c14-client-key-%d", os.Getpid()))
		c14KeyErr = os.WriteFile(c14KeyPath, pem.EncodeToMemory(blk), 0o600)
	})
	return c14KeyPath, c14ClientPub, c14KeyErr
}

// ---------------------------------------------------------------------------------------------
// in-process SSH server

type c14Server struct {
	ln     net.Listener
	signer ssh.Signer
	cfg    *ssh.ServerConfig

	mu         sync.Mutex
	conns      int      // TCP connections accepted
	handshakes int      // SSH handshakes (incl. auth) completed
	users      []string // user of every auth attempt
	methods    []string // auth methods offered, in order of first appearance
	passwords  []string // every password received (password method or keyboard-interactive answer)
	open       []net.Conn
}

// resetLog forgets what earlier connections of a history did.
func (s *c14Server) resetLog() {
	s.mu.Lock()
	defer s.mu.Unlock()
	s.conns, s.handshakes = 0, 0
	s.users, s.methods, s.passwords = nil, nil, nil
}

func (s *c14Server) port() int { return s.ln.Addr().(*net.TCPAddr).Port }
func (s *c14Server) addr() string {
	return net.JoinHostPort("127.0.0.1", strconv.Itoa(s.port()))
}

func (s *c14Server) rec(method, user string, pw *string) {
	s.mu.Lock()
	defer s.mu.Unlock()
	s.users = append(s.users, user)
	seen := false
	for _, m := range s.methods {
		seen = seen || m == method
	}
	if !seen {
		s.methods = append(s.methods, method)
	}
	if pw != nil {
		s.passwords = append(s.passwords, *pw)
	}
}

// newC14Server: mode "last" accepts only through the LAST method a client configured like the
// case would try (keyboard-interactive when a password is configured, else publickey), so that
// every configured method is seen; mode "first" accepts any valid credential; mode "open" needs
// no authentication (the rogue server).
func newC14Server(mode string, c *c14Case, clientPub ssh.PublicKey) (*c14Server, error) {
	ln, err := net.Listen("tcp", "127.0.0.1:0")
	if err != nil {
		return nil, err
	}
	s := &c14Server{ln: ln}
	s.signer, _ = c14NewSigner()
	denied := errors.New("denied")
	cfg := &ssh.ServerConfig{MaxAuthTries: 10}
	if mode == "open" {
		cfg.NoClientAuth = true
	} else {
		cfg.PasswordCallback = func(m ssh.ConnMetadata, pw []byte) (*ssh.Permissions, error) {
			p := string(pw)
			s.rec("password", m.User(), &p)
			if mode == "first" && c.hasPw() && p == c.Password {
				return nil, nil
			}
			return nil, denied
		}
		cfg.PublicKeyCallback = func(m ssh.ConnMetadata, k ssh.PublicKey) (*ssh.Permissions, error) {
			s.rec("publickey", m.User(), nil)
			good := c.hasKey() && clientPub != nil && bytes.Equal(k.Marshal(), clientPub.Marshal())
			if good && (mode == "first" || !c.hasPw()) {
				return nil, nil
			}
			return nil, denied
		}
		cfg.KeyboardInteractiveCallback = func(m ssh.ConnMetadata, ch ssh.KeyboardInteractiveChallenge) (*ssh.Permissions, error) {
			// (the question contains a blank so that it cannot be mistaken for a device prompt)
			ans, err := ch("", "", []string{"Enter password: "}, []bool{false})
			if err != nil || len(ans) != 1 {
				s.rec("keyboard-interactive", m.User(), nil)
				return nil, denied
			}
			s.rec("keyboard-interactive", m.User(), &ans[0])
			if c.hasPw() && ans[0] == c.Password {
				return nil, nil
			}
			return nil, denied
		}
	}
	cfg.AddHostKey(s.signer)
	s.cfg = cfg
	go s.serve()
	return s, nil
}

func (s *c14Server) serve() {
	for {
		conn, err := s.ln.Accept()
		if err != nil {
			return
		}
		s.mu.Lock()
		s.conns++
		s.open = append(s.open, conn)
		s.mu.Unlock()
		go s.handle(conn)
	}
}

func (s *c14Server) handle(conn net.Conn) {
	defer conn.Close()
	_ = conn.SetDeadline(time.Now().Add(15 * time.Second))
	sc, chans, reqs, err := ssh.NewServerConn(conn, s.cfg)
	if err != nil {
		return
	}
	defer sc.Close()
	s.mu.Lock()
	s.handshakes++
	s.mu.Unlock()
	go ssh.DiscardRequests(reqs)
	for nc := range chans {
		if nc.ChannelType() != "session" {
			_ = nc.Reject(ssh.UnknownChannelType, "no")
			continue
		}
		ch, creqs, err := nc.Accept()
		if err != nil {
			continue
		}
		go func() {
			for r := range creqs {
				switch r.Type {
				case "pty-req", "env", "subsystem":
					_ = r.Reply(true, nil)
				case "shell":
					_ = r.Reply(true, nil)
					_, _ = ch.Write([]byte("\r\nWelcome\r\nrouter# "))
				default:
					_ = r.Reply(false, nil)
				}
			}
		}()
		go func() {
			buf := make([]byte, 512)
			for {
				if _, err := ch.Read(buf); err != nil {
					_ = ch.Close()
					return
				}
			}
		}()
	}
}

func (s *c14Server) close() {
	_ = s.ln.Close()
	s.mu.Lock()
	defer s.mu.Unlock()
	for _, c := range s.open {
		_ = c.Close()
	}
}

func c14RogueServer() *c14Server {
	c14RogueOnce.Do(func() {
		c14Rogue, _ = newC14Server("open", &c14Case{}, nil)
	})
	return c14Rogue
}

// ---------------------------------------------------------------------------------------------
// one case

type c14Files struct {
	dir, kh, config, key, script string
}

func c14IsKeyErr(err error) bool {
	if err == nil {
		return false
	}
	var ke *knownhosts.KeyError
	return errors.As(err, &ke) || strings.Contains(err.Error(), "knownhosts: key")
}

// the options a user would write for this case
func c14Options(c *c14Case, f *c14Files, host string, port int) []util.Option {
	tr := "system"
	if c.Transport == "standard" {
		tr = "standard"
	}
	opts := []util.Option{
		options.WithTransportType(tr),
		options.WithPort(port),
		options.WithTimeoutSocket(time.Duration(c.TimeoutS) * time.Second),
		options.WithTimeoutOps(6 * time.Second),
	}
	if c.User != "" {
		opts = append(opts, options.WithAuthUsername(c.User))
	}
	if c.hasPw() {
		opts = append(opts, options.WithAuthPassword(c.Password))
	}
	if c.hasKey() {
		opts = append(opts, options.WithAuthPrivateKey(f.key, ""))
	}
	if !c.Strict {
		opts = append(opts, options.WithAuthNoStrictKey())
	}
	if c.KH != "none" {
		opts = append(opts, options.WithSSHKnownHostsFile(f.kh))
	}
	if c.Config {
		opts = append(opts, options.WithSSHConfigFile(f.config))
	}
	if tr == "system" {
		opts = append(opts, options.WithSystemTransportOpenBin(f.script))
		if len(c.Extra) > 0 {
			opts = append(opts, options.WithSystemTransportOpenArgs(c.Extra))
		}
		if c.Netconf {
			// exactly what netconf.NewDriver's (unexported) withNetconfConnection(true) does
			opts = append(opts, func(o interface{}) error {
				a, ok := o.(*transport.SSHArgs)
				if !ok {
					return util.ErrIgnoredOption
				}
				a.NetconfConnection = true
				return nil
			})
		}
	} else {
		opts = append(opts, options.WithAuthBypass())
	}
	_ = host
	return opts
}

func c14Line(c *c14Case, f *c14Files, host string, port int) string {
	kind := "sys"
	if c.Transport == "standard" {
		kind = "std"
	}
	strict := "d"
	if !c.Strict {
		strict = "0"
	}
	pw, key, kh, cfgf := "", "", "", ""
	if c.hasPw() {
		pw = c.Password
	}
	if c.hasKey() {
		key = f.key
	}
	if c.KH != "none" {
		kh = f.kh
	}
	if c.Config {
		cfgf = f.config
	}
	return fmt.Sprintf("c14 %s %d %d %s %s %s %s %s", kind, port, c.TimeoutS, strict, b2i(c.Netconf),
		hxStrs([]string{host, c.User, pw, kh, cfgf, key}), hxStrs(c.Extra), b2i(c.KH == "match"))
}

const c14ScriptHead = "#!/bin/sh\nprintf '%s\\0' \"$@\" > \"$0.argv\"\n"

var (
	c14ScriptOnce sync.Once
	c14ScriptDir  string
	c14ScriptErr  error
)

// c14SharedScript writes the three stand-in variants once and returns the one for this case.
func c14SharedScript(c *c14Case) (string, error) {
	c14ScriptOnce.Do(func() {
		c14ScriptDir = filepath.Join(workDir(), fmt.Sprintf("c14-scripts-%d", os.Getpid()))
		if c14ScriptErr = os.MkdirAll(c14ScriptDir, 0o755); c14ScriptErr != nil {
			return
		}
		for _, v := range []*c14Case{{Transport: "system-real"}, {Transport: "system", Auth: "password"}, {Transport: "system", Auth: "key"}} {
			if err := os.WriteFile(filepath.Join(c14ScriptDir, c14ScriptName(v)), []byte(c14Script(v)), 0o755); err != nil {
				c14ScriptErr = err
			}
		}
	})
	return filepath.Join(c14ScriptDir, c14ScriptName(c)), c14ScriptErr
}

func c14ScriptName(c *c14Case) string {
	switch {
	case c.Transport == "system-real":
		return "real"
	case c.hasPw():
		return "askpw"
	default:
		return "plain"
	}
}

func c14Script(c *c14Case) string {
	switch {
	case c.Transport == "system-real":
		return c14ScriptHead + ": > \"$0.done\"\nexec " + c14RealSSH + " \"$@\"\n"
	case c.hasPw():
		// like ssh: ask for the password on the terminal, then the device prompt
		return c14ScriptHead +
			"printf \"admin@device's password: \"\nIFS= read -r pw\nprintf '%s' \"$pw\" > \"$0.pw\"\n: > \"$0.done\"\n" +
			"printf '\\nWelcome\\nrouter# '\nwhile IFS= read -r l; do :; done\n"
	default:
		return c14ScriptHead + ": > \"$0.done\"\nprintf 'Welcome\\nrouter# '\nwhile IFS= read -r l; do :; done\n"
	}
}

func c14WaitFile(p string, d time.Duration) bool {
	end := time.Now().Add(d)
	for {
		if _, err := os.Stat(p); err == nil {
			return true
		}
		if time.Now().After(end) {
			return false
		}
		time.Sleep(2 * time.Millisecond)
	}
}

// c14Positional: x occurs in argv as an argument that is not the value of a preceding option.
func c14Positional(argv []string, x string) bool {
	valued := map[string]bool{"-p": true, "-o": true, "-l": true, "-F": true, "-i": true, "-s": false}
	for i, a := range argv {
		if a == x && (i == 0 || !valued[argv[i-1]]) {
			return true
		}
	}
	return false
}

func c14Adjacent(argv []string, a, b string) bool {
	for i := 0; i+1 < len(argv); i++ {
		if argv[i] == a && argv[i+1] == b {
			return true
		}
	}
	return false
}

func c14Count(argv []string, a string) int {
	n := 0
	for _, x := range argv {
		if x == a {
			n++
		}
	}
	return n
}

func c14Fail(cs *Case, sig, msg string) {
	if cs.Oracle == "" {
		cs.Oracle = msg
		cs.Sig = sig
	}
}

func runC14Case(id string, c *c14Case) {
	defer watchCase(id, c)()
	cs := &Case{ID: id, Kind: c.Transport + "/" + map[bool]string{true: "strict", false: "nostrict"}[c.Strict] + "/" + c.KH + "/" + c.Auth,
		HypOK: true, Replay: c}
	cs.Nontrivial = c.Strict || c.KH == "other" || c.KH == "empty" || strings.Contains(c.KH, "revoked")
	defer emit(cs)
	fail := func(msg string) {
		cs.Obs = "harness-error"
		cs.Oracle = "harness: " + msg
		cs.Sig = "C14:harness"
	}
	keyPath, clientPub, err := c14ClientKey()
	if err != nil {
		fail("client key: " + err.Error())
		return
	}
	f := &c14Files{key: keyPath}
	f.dir = filepath.Join(workDir(), "c14", fmt.Sprintf("%d-%s", os.Getpid(), id))
	if err := os.MkdirAll(f.dir, 0o755); err != nil {
		fail(err.Error())
		return
	}
	defer os.RemoveAll(f.dir)
	f.kh = filepath.Join(f.dir, "known_hosts")
	f.config = filepath.Join(f.dir, "ssh_config")
	f.script = filepath.Join(f.dir, "ssh-standin")

	// the peer
	var srv *c14Server
	host, port := c.Host, c.Port
	if c.Transport != "system" {
		mode := "last"
		if c.Transport == "system-real" {
			mode = "first"
		}
		srv, err = newC14Server(mode, c, clientPub)
		if err != nil {
			fail("listen: " + err.Error())
			return
		}
		defer srv.close()
		host, port = "127.0.0.1", srv.port()
	}
	// known-hosts file of the cell
	khAddr := net.JoinHostPort(host, strconv.Itoa(port))
	var khContent string
	switch c.KH {
	case "match":
		if srv != nil {
			khContent = knownhosts.Line([]string{khAddr}, srv.signer.PublicKey()) + "\n"
		} else {
			s, _ := c14NewSigner()
			khContent = knownhosts.Line([]string{khAddr}, s.PublicKey()) + "\n"
		}
	case "other":
		s, _ := c14NewSigner()
		khContent = knownhosts.Line([]string{khAddr}, s.PublicKey()) + "\n"
	case "revoked", "match-revoked":
		// the server's key is listed as revoked (alone, or next to an ordinary entry for the host): it
		// matches nothing the file accepts
		if srv != nil {
			if c.KH == "match-revoked" {
				khContent = knownhosts.Line([]string{khAddr}, srv.signer.PublicKey()) + "\n"
			}
			khContent += "@revoked * " + strings.TrimSpace(string(ssh.MarshalAuthorizedKey(srv.signer.PublicKey()))) + "\n"
		} else {
			s, _ := c14NewSigner()
			khContent = "@revoked * " + strings.TrimSpace(string(ssh.MarshalAuthorizedKey(s.PublicKey()))) + "\n"
		}
	}
	if c.KH != "none" {
		if err := os.WriteFile(f.kh, []byte(khContent), 0o644); err != nil {
			fail(err.Error())
			return
		}
	}
	if c.Config {
		_ = os.WriteFile(f.config, []byte("# c14: empty ssh config\n"), 0o644)
	}
	if c.Transport != "standard" {
		// a per-case symlink to a script written once: $0 (hence the dump files) is per case, and no
		// file that gets exec'd is ever open for writing while other cases fork (ETXTBSY)
		shared, err := c14SharedScript(c)
		if err == nil {
			err = os.Symlink(shared, f.script)
		}
		if err != nil {
			fail(err.Error())
			return
		}
	}
	cs.Line = c14Line(c, f, host, port)
	if c.PriorKH != "" && c.Transport == "standard" && srv != nil {
		cs.Kind += "/after-" + c.PriorKH
		now, _ := os.ReadFile(f.kh)
		prior := ""
		switch c.PriorKH {
		case "match":
			prior = knownhosts.Line([]string{khAddr}, srv.signer.PublicKey()) + "\n"
		case "other":
			s, _ := c14NewSigner()
			prior = knownhosts.Line([]string{khAddr}, s.PublicKey()) + "\n"
		}
		_ = os.WriteFile(f.kh, []byte(prior), 0o644)
		if pd, perr := generic.NewDriver(host, c14Options(c, f, host, port)...); perr == nil {
			if pd.Open() == nil {
				_ = pd.Close()
			}
		}
		srv.resetLog()
		_ = os.WriteFile(f.kh, now, 0o644)
	}

	var openErr error
	var d *generic.Driver
	if c.Transport == "system-real" {
		// transport level (no channel): a real ssh that exits on a rejected host key makes the
		// channel reader hit the known Close panic (C07, send on closed Errs), which would kill
		// the harness process
		openErr = c14OpenReal(c, f, host, port)
	} else {
		d, err = generic.NewDriver(host, c14Options(c, f, host, port)...)
		if err != nil {
			cs.Obs = "newdriver-error:" + errClass(err)
			c14Fail(cs, "C14:newdriver", "NewDriver failed: "+err.Error())
			return
		}
		if c.RemoveKH && c.Transport == "standard" {
			_ = os.Remove(f.kh)
			cs.Kind += "/kh-removed"
			cs.Line = "" // oracle only: the model's known-hosts file does not change between creation and Open
		}
		openErr = d.Open()
	}
	connected := openErr == nil

	if c.Transport == "standard" {
		runC14Std(cs, c, f, srv, d, openErr)
		return
	}

	// ---------------- system transport: the argv the stand-in received
	done := c14WaitFile(f.script+".done", 3*time.Second)
	if connected && d != nil {
		_ = d.Close()
	}
	if !done {
		cs.Obs = "no-argv"
		c14Fail(cs, "C14:no-argv", fmt.Sprintf("stand-in ssh was not run (Open error: %v)", openErr))
		return
	}
	raw, _ := os.ReadFile(f.script + ".argv")
	argv := strings.Split(strings.TrimSuffix(string(raw), "\x00"), "\x00")
	cs.Obs = "sys " + hxStrs(argv)

	// ---- oracle, straight from the property
	for _, a := range argv {
		if strings.Contains(a, c.Password) {
			c14Fail(cs, "C14:password-in-argv", fmt.Sprintf("password on the command line: %q", argv))
		}
	}
	// the property: "targets the configured host, port": the host is a positional argument of the
	// command line and the port is named by exactly one -p option, wherever they stand (their
	// positions are facts of the model's theorems, not of the property)
	if !c14Positional(argv, host) {
		c14Fail(cs, "C14:host", fmt.Sprintf("the host %q is not a positional argument: %q", host, argv))
	}
	if !(c14Adjacent(argv, "-p", strconv.Itoa(port)) && c14Count(argv, "-p") == 1) {
		c14Fail(cs, "C14:port", fmt.Sprintf("-p %d missing (or -p given more than once): %q", port, argv))
	}
	if c.User != "" && !(c14Adjacent(argv, "-l", c.User) && c14Count(argv, "-l") == 1) {
		c14Fail(cs, "C14:user", fmt.Sprintf("-l %q missing: %q", c.User, argv))
	}
	if c.User == "" && c14Count(argv, "-l") != 0 {
		c14Fail(cs, "C14:user", fmt.Sprintf("-l given without a configured user: %q", argv))
	}
	const yes, no, null = "StrictHostKeyChecking=yes", "StrictHostKeyChecking=no", "UserKnownHostsFile=/dev/null"
	if c.Strict {
		if !c14Adjacent(argv, "-o", yes) || c14Count(argv, no) != 0 || c14Count(argv, null) != 0 {
			c14Fail(cs, "C14:strict-ignored", fmt.Sprintf("strict checking not requested from ssh: %q", argv))
		}
		if c.KH != "none" && !c14Adjacent(argv, "-o", "UserKnownHostsFile="+f.kh) {
			c14Fail(cs, "C14:known-hosts-ignored", fmt.Sprintf("known-hosts file %q not passed: %q", f.kh, argv))
		}
	} else {
		if !c14Adjacent(argv, "-o", no) || !c14Adjacent(argv, "-o", null) || c14Count(argv, yes) != 0 {
			c14Fail(cs, "C14:nostrict", fmt.Sprintf("disabled checking not passed as =no + /dev/null: %q", argv))
		}
	}
	wantF := "/dev/null"
	if c.Config {
		wantF = f.config
	}
	if !c14Adjacent(argv, "-F", wantF) || c14Count(argv, "-F") != 1 {
		c14Fail(cs, "C14:config", fmt.Sprintf("-F %q expected exactly once: %q", wantF, argv))
	}
	if c.hasKey() && !(c14Adjacent(argv, "-i", keyPath) && c14Count(argv, "-i") == 1) {
		c14Fail(cs, "C14:key", fmt.Sprintf("-i %q missing: %q", keyPath, argv))
	}
	if !c.hasKey() && c14Count(argv, "-i") != 0 {
		c14Fail(cs, "C14:key", fmt.Sprintf("-i given without a configured key: %q", argv))
	}
	tail := append([]string{}, c.Extra...)
	if c.Netconf {
		tail = append(tail, "-s", "netconf")
	}
	if len(argv) < len(tail) || strings.Join(argv[len(argv)-len(tail):], "\x00") != strings.Join(tail, "\x00") {
		c14Fail(cs, "C14:extra", fmt.Sprintf("argv does not end with the extra arguments %q: %q", tail, argv))
	}

	if c.Transport == "system" {
		if !connected {
			c14Fail(cs, "C14:open", "Open against the stand-in failed: "+openErr.Error())
		}
		if c.hasPw() {
			got, _ := os.ReadFile(f.script + ".pw")
			if string(got) != c.Password {
				c14Fail(cs, "C14:password-exchange", fmt.Sprintf("password typed at the prompt is %q, want %q", got, c.Password))
			}
		}
		return
	}

	// ---------------- system-real: what the real ssh did with that argv against the server
	time.Sleep(10 * time.Millisecond)
	srv.mu.Lock()
	users, pws, hs := append([]string{}, srv.users...), append([]string{}, srv.passwords...), srv.handshakes
	srv.mu.Unlock()
	expect := !c.Strict || c.KH == "match"
	switch {
	case connected && !expect:
		c14Fail(cs, "C14:strict-ignored", "real ssh connected although the known-hosts file does not have the server key")
	case !connected && expect:
		c14Fail(cs, "C14:valid-rejected", "real ssh could not connect: "+openErr.Error())
	case connected && hs == 0:
		c14Fail(cs, "C14:open-without-handshake", "Open succeeded but the server completed no handshake")
	case !connected && hs != 0:
		c14Fail(cs, "C14:handshake-despite-hostkey", "the server completed a handshake although Open failed")
	}
	if connected && c.User != "" {
		for _, u := range users {
			if u != c.User {
				c14Fail(cs, "C14:user", fmt.Sprintf("server saw user %q, want %q", u, c.User))
			}
		}
	}
	for _, p := range pws {
		if !c.hasPw() || p != c.Password {
			c14Fail(cs, "C14:password-exchange", fmt.Sprintf("server received password %q (configured: %v)", p, c.hasPw()))
		}
	}
}

// c14OpenReal opens the system transport (real ssh through the argv-dumping wrapper) and plays
// the terminal side of the login by hand: type the password when asked, succeed on the device
// prompt, fail when ssh goes away.
func c14OpenReal(c *c14Case, f *c14Files, host string, port int) error {
	l, err := logging.NewInstance()
	if err != nil {
		return err
	}
	t, err := transport.NewTransport(l, host, "system", c14Options(c, f, host, port)...)
	if err != nil {
		return err
	}
	if err := t.Open(); err != nil {
		return err
	}
	res := make(chan error, 1)
	go func() {
		var buf []byte
		asked := 0
		for {
			b, err := t.Read()
			if err != nil {
				res <- fmt.Errorf("ssh exited: %v; output %q", err, buf)
				return
			}
			buf = append(buf, b...)
			switch low := strings.ToLower(string(buf)); {
			case strings.Contains(low, "router# "):
				res <- nil
				return
			case strings.HasSuffix(strings.TrimRight(low, " "), "password:"):
				asked++
				if asked > 3 || !c.hasPw() {
					res <- fmt.Errorf("password asked %d times (configured: %v); output %q", asked, c.hasPw(), buf)
					return
				}
				buf = nil
				_ = t.Write([]byte(c.Password + "\n"))
			}
		}
	}()
	select {
	case err = <-res:
	case <-time.After(10 * time.Second):
		err = errors.New("timeout waiting for the real ssh")
	}
	_ = t.Close(true)
	return err
}

func runC14Std(cs *Case, c *c14Case, f *c14Files, srv *c14Server, d *generic.Driver, openErr error) {
	connected := openErr == nil
	if connected {
		// the server counts the handshake right after auth; give its goroutine a moment
		for i := 0; i < 100; i++ {
			srv.mu.Lock()
			h := srv.handshakes
			srv.mu.Unlock()
			if h > 0 {
				break
			}
			time.Sleep(time.Millisecond)
		}
		_ = d.Close()
	}
	srv.mu.Lock()
	conns, hs := srv.conns, srv.handshakes
	users, methods, pws := append([]string{}, srv.users...), append([]string{}, srv.methods...), append([]string{}, srv.passwords...)
	srv.mu.Unlock()

	// host-key policy, observed behaviourally
	tag := ""
	rogueAccepted := false
	switch {
	case !connected && errors.Is(openErr, util.ErrBadOption) && conns == 0:
		tag = "nofile"
	case !connected && c14IsKeyErr(openErr):
		tag = "knownhosts"
	case connected:
		// same settings against a server whose key is in no file: only an insecure policy connects
		rogue := c14RogueServer()
		if rogue == nil {
			tag = "probe-unavailable"
			break
		}
		d2, err := generic.NewDriver("127.0.0.1", c14Options(c, f, "127.0.0.1", rogue.port())...)
		if err != nil {
			tag = "probe-error:" + errClass(err)
			break
		}
		err = d2.Open()
		switch {
		case err == nil:
			_ = d2.Close()
			tag = "insecure"
			rogueAccepted = true
		case c14IsKeyErr(err):
			tag = "knownhosts"
		default:
			tag = "probe-error:" + errClass(err)
		}
	default:
		tag = "error:" + errClass(openErr)
	}
	auth, user := "-", "-"
	if len(methods) > 0 {
		auth = strings.Join(methods, ",")
	}
	if len(users) > 0 {
		user = "U" + hx([]byte(users[0]))
	}
	cs.Obs = fmt.Sprintf("std %s %s %s %s", tag, b2i(connected), auth, user)

	// ---- oracle, straight from the property
	expect := (!c.Strict || c.KH == "match") && !c.RemoveKH
	switch {
	case connected && c.RemoveKH:
		c14Fail(cs, "C14:strict-ignored", "connected although the known-hosts file was gone when Open ran (strict checking, no known-hosts file available)")
	case connected && !expect:
		c14Fail(cs, "C14:strict-ignored", "connected although the known-hosts file does not have the server key (kh="+c.KH+")")
	case c.Strict && rogueAccepted:
		c14Fail(cs, "C14:strict-ignored", "strict checking on, yet a server with an unlisted key was accepted")
	case !connected && expect:
		c14Fail(cs, "C14:valid-rejected", "could not connect: "+openErr.Error())
	case c.Strict && c.KH == "none" && conns != 0:
		c14Fail(cs, "C14:nofile-dialled", "strict without known-hosts file: the server was dialled")
	case c.Strict && c.KH == "none" && !errors.Is(openErr, util.ErrBadOption):
		c14Fail(cs, "C14:nofile-error", "strict without known-hosts file: unexpected error "+openErr.Error())
	case !connected && hs != 0:
		c14Fail(cs, "C14:handshake-despite-hostkey", "the server completed a handshake although Open failed")
	case connected && hs == 0:
		c14Fail(cs, "C14:open-without-handshake", "Open succeeded but the server completed no handshake")
	}
	for _, u := range users {
		if u != c.User {
			c14Fail(cs, "C14:user", fmt.Sprintf("server saw user %q, want %q", u, c.User))
		}
	}
	for _, p := range pws {
		if !c.hasPw() || p != c.Password {
			c14Fail(cs, "C14:password-exchange", fmt.Sprintf("server received password %q (configured: %v)", p, c.hasPw()))
		}
	}
	if connected {
		has := func(m string) bool { return c14Count(methods, m) > 0 }
		if has("publickey") != c.hasKey() {
			c14Fail(cs, "C14:key", fmt.Sprintf("publickey offered=%v, key configured=%v", has("publickey"), c.hasKey()))
		}
		if (has("password") || has("keyboard-interactive")) != c.hasPw() {
			c14Fail(cs, "C14:password-exchange", fmt.Sprintf("methods %v, password configured=%v", methods, c.hasPw()))
		}
		if c.hasPw() && len(pws) == 0 {
			c14Fail(cs, "C14:password-exchange", "password configured but never offered")
		}
	}
}
