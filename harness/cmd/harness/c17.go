package main

import (
	"encoding/json"
	"fmt"
	"os"
	"path/filepath"
	"regexp"
	"sort"
	"strings"
	"sync"
	"time"

	"github.com/scrapli/scrapligo/driver/network"
	"github.com/scrapli/scrapligo/driver/options"
	"github.com/scrapli/scrapligo/platform"
	"github.com/scrapli/scrapligo/util"
	"gopkg.in/yaml.v3"

	"verif/harness/sim"
)

func init() {
	props["C17"] = prop{Run: runC17, Replay: func(id string, raw json.RawMessage) {
		var sc c17SynthCase
		if json.Unmarshal(raw, &sc) == nil && sc.Synth {
			runC17Synth(id, sc.Bits)
			return
		}
		var c c17Case
		if json.Unmarshal(raw, &c) == nil {
			runC17Case(id, &c)
		}
	}}
}

type c17Case struct {
	Name    string     `json:"name"`    // advertised platform name (or embedded file name)
	Variant string     `json:"variant"` // "" = default definition
	Start   string     `json:"start"`   // device mode at connection time
	Pairs   [][]string `json:"pairs"`   // (a, b): acquire a, then b
	Segs    []int      `json:"segs"`
	DefSeg  int        `json:"default_seg"`
	// UserDefault: a user option WithDefaultDesiredPriv(level) layered on the definition: the
	// definition's own on-open / on-close steps (acquire-priv without target, send-command) must
	// then work at THAT level
	UserDefault string `json:"user_default,omitempty"`
	// Prior: history in the same process: "variant:<v>" = that variant of the same definition was
	// built earlier, "default" = the plain platform was.  What was built earlier changes nothing.
	Prior string `json:"prior,omitempty"`
}

type y17Level struct {
	Name           string   `yaml:"name"`
	Pattern        string   `yaml:"pattern"`
	NotContains    []string `yaml:"not-contains"`
	PreviousPriv   string   `yaml:"previous-priv"`
	Deescalate     string   `yaml:"deescalate"`
	Escalate       string   `yaml:"escalate"`
	EscalateAuth   bool     `yaml:"escalate-auth"`
	EscalatePrompt string   `yaml:"escalate-prompt"`
}
type y17Platform struct {
	DriverType     string                   `yaml:"driver-type"`
	Levels         map[string]*y17Level     `yaml:"privilege-levels"`
	DefaultLevel   string                   `yaml:"default-desired-privilege-level"`
	OnOpen         []map[string]interface{} `yaml:"on-open"`
	OnClose        []map[string]interface{} `yaml:"on-close"`
	NetworkOnOpen  []map[string]interface{} `yaml:"network-on-open"`
	NetworkOnClose []map[string]interface{} `yaml:"network-on-close"`
}
type y17Def struct {
	PlatformType string                  `yaml:"platform-type"`
	Default      *y17Platform            `yaml:"default"`
	Variants     map[string]*y17Platform `yaml:"variants"`
}

func repoDir() string {
	if d := os.Getenv("VERIF_REPO"); d != "" {
		return d
	}
	return "/repo"
}

func loadY17(file string) (*y17Def, error) {
	raw, err := os.ReadFile(filepath.Join(repoDir(), "assets", "platforms", file+".yaml"))
	if err != nil {
		return nil, err
	}
	var d y17Def
	return &d, yaml.Unmarshal(raw, &d)
}

type inv17 struct {
	Advertised []string                     `json:"advertised"`
	Files      []string                     `json:"files"`
	Prompts    map[string]map[string]string `json:"platform_prompts"`
}

func loadInv17() *inv17 {
	var v inv17
	m := loadInventory()
	_ = json.Unmarshal(m["advertised"], &v.Advertised)
	_ = json.Unmarshal(m["files"], &v.Files)
	_ = json.Unmarshal(m["platform_prompts"], &v.Prompts)
	return &v
}

// c17Decoys: the working directory of every C17 run holds a readable file named after each
// advertised platform (a syntactically valid definition of a DIFFERENT platform).  The property
// says advertised names load "from the embedded definitions": whatever lies around in the working
// directory must not matter.
func c17Decoys(names []string) {
	dir := filepath.Join(workDir(), fmt.Sprintf("c17-cwd-%d", os.Getpid()))
	_ = os.MkdirAll(dir, 0o755)
	decoy := "---\nplatform-type: 'decoy_os'\ndefault:\n  driver-type: 'generic'\n  failed-when-contains: ['decoy']\n"
	for _, n := range names {
		_ = os.WriteFile(filepath.Join(dir, n), []byte(decoy), 0o644)
		_ = os.WriteFile(filepath.Join(dir, n+".yaml"), []byte(decoy), 0o644)
	}
	_ = os.Chdir(dir)
}

func runC17(seed uint64, n int, tier string) {
	rng := sim.NewRng(seed)
	inv := loadInv17()
	c17Decoys(append(append([]string{}, inv.Advertised...), inv.Files...))
	var cases []*c17Case
	names := append([]string{}, inv.Advertised...)
	for _, f := range inv.Files {
		if f == "example" {
			continue
		}
		found := false
		for _, a := range names {
			if a == f {
				found = true
			}
		}
		if !found {
			names = append(names, f)
		}
	}
	sort.Strings(names)
	for _, name := range names {
		def, err := loadY17(name)
		var lv []string
		if err == nil && def.Default != nil {
			for k := range def.Default.Levels {
				lv = append(lv, k)
			}
		}
		sort.Strings(lv)
		r := rng.Fork()
		// all ordered pairs, split over a few cases so that each stays short
		var pairs [][]string
		for _, a := range lv {
			for _, b := range lv {
				pairs = append(pairs, []string{a, b})
			}
		}
		if len(pairs) == 0 {
			pairs = [][]string{nil}
		}
		for i := 0; i < len(pairs); i += 6 {
			j := i + 6
			if j > len(pairs) {
				j = len(pairs)
			}
			c := &c17Case{Name: name, Pairs: pairs[i:j], DefSeg: []int{0, 0, 1, 3, 7}[r.Intn(5)]}
			if len(lv) > 0 {
				c.Start = lv[r.Intn(len(lv))]
			}
			if pairs[0] == nil {
				c.Pairs = nil
			}
			cases = append(cases, c)
		}
		if err == nil {
			for v := range def.Variants {
				cases = append(cases, &c17Case{Name: name, Variant: v})
				cases = append(cases, &c17Case{Name: name, Variant: v, Prior: "default"})
				pc := &c17Case{Name: name, Prior: "variant:" + v, DefSeg: 0}
				if len(lv) > 0 {
					pc.Start = lv[0]
					if pairs[0] != nil {
						pc.Pairs = pairs
						if len(pc.Pairs) > 6 {
							pc.Pairs = pc.Pairs[:6]
						}
					}
				}
				cases = append(cases, pc)
			}
		}
		// a user's default desired level layered on the definition: two levels other than the definition's
		if err == nil && def.Default != nil && len(lv) > 1 {
			n := 0
			for _, u := range lv {
				l := def.Default.Levels[u]
				if u == def.Default.DefaultLevel || n >= 2 || l == nil || (l.PreviousPriv != "" && l.Escalate == "") || l.EscalateAuth {
					continue
				}
				n++
				cases = append(cases, &c17Case{Name: name, UserDefault: u, Start: lv[r.Intn(len(lv))], DefSeg: 0})
			}
		}
	}
	nreal := len(cases)
	parallel(nreal+32, func(i int) {
		if i < nreal {
			runC17Case(caseID("C17", seed, i), cases[i])
		} else {
			runC17Synth(caseID("C17", seed, i), i-nreal)
		}
	})
}

func onxCalls(ops []map[string]interface{}, def string) (calls []string, lines []string) {
	for _, op := range ops {
		t, _ := op["operation"].(string)
		switch t {
		case "channel.write":
			in, _ := op["input"].(string)
			red, _ := op["redacted"].(bool)
			calls = append(calls, fmt.Sprintf("wr|%s|%s", hx([]byte(in)), b2i(red)))
			lines = append(lines, "w:"+in)
		case "channel.return":
			calls = append(calls, "rt")
			lines = append(lines, "r:")
		case "acquire-priv":
			tg := def
			if s, ok := op["target"].(string); ok {
				tg = s
			}
			calls = append(calls, "acq|"+hx([]byte(tg)))
		case "driver.send-command":
			c, _ := op["command"].(string)
			calls = append(calls, "cmdq|"+hx([]byte(c)))
			lines = append(lines, "c:"+c)
		}
	}
	return
}

func runC17Case(id string, c *c17Case) {
	defer watchCase(id, c)()
	inv := loadInv17()
	if wd, _ := os.Getwd(); !strings.Contains(wd, "c17-cwd-") { // replay of a single case
		c17Decoys(append(append([]string{}, inv.Advertised...), inv.Files...))
	}
	cs := &Case{ID: id, Kind: c.Name, HypOK: true, Replay: c, Nontrivial: true}
	def, yerr := loadY17(c.Name)
	// the device: built from the definition itself
	dev := &sim.PrivDevice{Levels: map[string]*sim.PrivLevel{}, OnAuth: sim.AuthNoAsk}
	var pdef *y17Platform
	if yerr == nil {
		pdef = def.Default
		if c.Variant != "" {
			pdef = def.Variants[c.Variant]
		}
	}
	tr := sim.NewTransport(dev)
	tr.Segs, tr.DefaultSeg = c.Segs, c.DefSeg
	opts := []interface{}{}
	_ = opts
	var p *platform.Platform
	var err error
	uo := []interface{}{}
	_ = uo
	userOpts := []func(interface{}) error{}
	_ = userOpts
	popts := []util.Option{options.WithCustomTransport(tr), options.WithReadDelay(20 * time.Microsecond), options.WithTimeoutOps(400 * time.Millisecond)}
	if c.UserDefault != "" {
		popts = append(popts, options.WithDefaultDesiredPriv(c.UserDefault))
	}
	if c.Prior != "" {
		// the earlier platform of the history, on a transport of its own
		ptr := sim.NewTransport(&sim.PrivDevice{Levels: map[string]*sim.PrivLevel{}, OnAuth: sim.AuthNoAsk})
		var pp *platform.Platform
		var perr error
		if strings.HasPrefix(c.Prior, "variant:") {
			pp, perr = platform.NewPlatformVariant(c.Name, strings.TrimPrefix(c.Prior, "variant:"), "sim", options.WithCustomTransport(ptr))
		} else {
			pp, perr = platform.NewPlatform(c.Name, "sim", options.WithCustomTransport(ptr))
		}
		if perr == nil {
			_, _ = pp.GetNetworkDriver()
		}
		cs.Kind += "+after-" + strings.SplitN(c.Prior, ":", 2)[0]
	}
	if c.Variant == "" {
		p, err = platform.NewPlatform(c.Name, "sim", popts...)
	} else {
		p, err = platform.NewPlatformVariant(c.Name, c.Variant, "sim", popts...)
	}
	if err != nil {
		cs.Obs = "load-error"
		cs.Oracle = fmt.Sprintf("advertised platform %q does not load: %v", c.Name, err)
		cs.Sig = "C17:does-not-load:" + c.Name
		emit(cs)
		return
	}
	if yerr != nil || pdef == nil {
		cs.Oracle = "harness could not read the definition file: " + fmt.Sprint(yerr)
		emit(cs)
		return
	}
	if c.Variant != "" {
		// variant merge: driver type / levels / default level come from the variant where it defines them
		nd, e := p.GetNetworkDriver()
		if e != nil {
			cs.Oracle = "variant: " + e.Error()
			cs.Sig = "C17:variant-driver"
		} else {
			want := def.Default.Levels
			if len(pdef.Levels) > 0 {
				want = pdef.Levels
			}
			if len(nd.PrivilegeLevels) != len(want) {
				cs.Oracle = fmt.Sprintf("variant %s: %d levels, want %d", c.Variant, len(nd.PrivilegeLevels), len(want))
				cs.Sig = "C17:variant-levels"
			}
			for k, l := range want {
				if g, ok := nd.PrivilegeLevels[k]; !ok || g.Pattern != l.Pattern || g.PreviousPriv != l.PreviousPriv {
					cs.Oracle = fmt.Sprintf("variant %s: level %s not as the variant defines it", c.Variant, k)
					cs.Sig = "C17:variant-levels"
				}
			}
			wd := def.Default.DefaultLevel
			if pdef.DefaultLevel != "" {
				wd = pdef.DefaultLevel
			}
			if nd.DefaultDesiredPriv != wd {
				cs.Oracle = fmt.Sprintf("variant %s: default level %q, want %q", c.Variant, nd.DefaultDesiredPriv, wd)
				cs.Sig = "C17:variant-default"
			}
		}
		cs.Obs = "variant"
		emit(cs)
		return
	}
	if pdef.DriverType != "network" {
		if _, e := p.GetGenericDriver(); e != nil {
			cs.Oracle = "declared generic but no generic driver: " + e.Error()
			cs.Sig = "C17:driver-type"
		}
		cs.Obs = "generic"
		emit(cs)
		return
	}
	d, e := p.GetNetworkDriver()
	if e != nil {
		cs.Oracle = "declared network but no network driver: " + e.Error()
		cs.Sig = "C17:driver-type"
		emit(cs)
		return
	}
	prompts := inv.Prompts[c.Name]
	if prompts == nil {
		// advertised name without file of the same name: prompts keyed by file; find by platform-type
		for f, pm := range inv.Prompts {
			if fd, er := loadY17(f); er == nil && fd.PlatformType == c.Name {
				prompts = pm
			}
		}
	}
	var keys []string
	for k := range pdef.Levels {
		keys = append(keys, k)
	}
	sort.Strings(keys)
	var specs []string
	fileTag := strings.NewReplacer("-", "_", ".", "_").Replace(c.Name)
	for _, k := range keys {
		l := pdef.Levels[k]
		dev.Levels[l.Name] = &sim.PrivLevel{Name: l.Name, Prompt: prompts[k], Previous: l.PreviousPriv, Escalate: l.Escalate, Deescalate: l.Deescalate, Auth: false}
		var nc []string
		for _, x := range l.NotContains {
			nc = append(nc, hx([]byte(x)))
		}
		ep := ""
		if l.EscalatePrompt != "" {
			ep = "pfesc_" + fileTag + "_default_" + strings.NewReplacer("-", "_").Replace(k)
		}
		specs = append(specs, fmt.Sprintf("%s|pf_%s_default_%s|%s|%s|%s|%s|%s|%s", hx([]byte(l.Name)), fileTag, strings.NewReplacer("-", "_").Replace(k),
			strings.Join(nc, ","), hx([]byte(l.PreviousPriv)), hx([]byte(l.Deescalate)), hx([]byte(l.Escalate)), b2i(l.EscalateAuth), ep))
	}
	c17mu.Lock()
	c17Levels = pdef.Levels
	c17mu.Unlock()
	dev.Mode = c.Start
	effDefault := pdef.DefaultLevel
	if c.UserDefault != "" {
		effDefault = c.UserDefault
	}
	var calls, outs []string
	// ---- open: generic on-open then network on-open
	oc1, ol1 := onxCalls(pdef.OnOpen, effDefault)
	oc2, ol2 := onxCalls(pdef.NetworkOnOpen, effDefault)
	calls = append(append(calls, oc1...), oc2...)
	tr.Mark('C')
	t0 := time.Now()
	openErr := d.Open()
	if openErr != nil {
		if time.Since(t0) > 380*time.Millisecond {
			tr.Mark('D')
		}
		cs.Oracle = fmt.Sprintf("open (on-open steps) failed from start mode %s: %v", c.Start, openErr)
		cs.Sig = "C17:open-failed:" + c.Name
	}
	for range calls {
		outs = append(outs, "ok:")
	}
	openLines := append(ol1, ol2...)
	// the device must have received the on-open commands, in order, at the default level
	if openErr == nil {
		var got []string
		for _, l := range dev.CommandLines() {
			for _, w := range openLines {
				if strings.HasPrefix(w, "c:") && l.Line == w[2:] {
					got = append(got, l.Mode+"|"+l.Line)
				}
			}
		}
		var want []string
		for _, w := range openLines {
			if strings.HasPrefix(w, "c:") {
				want = append(want, effDefault+"|"+w[2:])
			}
		}
		if strings.Join(got, ";") != strings.Join(want, ";") && !sameGroup(prompts, dev.Mode, effDefault) {
			cs.Oracle = fmt.Sprintf("on-open commands seen by the device: %v, want %v", got, want)
			cs.Sig = "C17:on-open"
		}
	}
	// the levels visited while opening lie on the tree path from the start level to the level in force
	if openErr == nil && cs.Oracle == "" {
		anc := func(n string) []string {
			var r []string
			for k := 0; n != "" && k < 20; k++ {
				r = append(r, n)
				if l := pdef.Levels[n]; l != nil {
					n = l.PreviousPriv
				} else {
					n = ""
				}
			}
			return r
		}
		onPath := map[string]bool{}
		a, b := anc(c.Start), anc(effDefault)
		inB := map[string]bool{}
		for _, x := range b {
			inB[x] = true
		}
		lca := ""
		for _, x := range a {
			onPath[x] = true
			if inB[x] {
				lca = x
				break
			}
		}
		for _, x := range b {
			onPath[x] = true
			if x == lca {
				break
			}
		}
		ok := func(m string) bool {
			for x := range onPath {
				if x == m || sameGroup(prompts, m, x) {
					return true
				}
			}
			return false
		}
		for _, l := range dev.CommandLines() {
			if !ok(l.Mode) {
				cs.Oracle = fmt.Sprintf("while opening (start %s, level in force %s) the device was taken through level %s (line %q)", c.Start, effDefault, l.Mode, l.Line)
				cs.Sig = "C17:open-detour"
				break
			}
		}
		if cs.Oracle == "" && !ok(dev.Mode) {
			cs.Oracle = fmt.Sprintf("after Open (start %s, level in force %s) the device is at level %s", c.Start, effDefault, dev.Mode)
			cs.Sig = "C17:open-level"
		}
	}
	// ---- every level from every other
	if openErr == nil {
		for _, pr := range c.Pairs {
			for _, tg := range pr {
				l := pdef.Levels[tg]
				if l == nil {
					continue
				}
				tr.Mark('C')
				t1 := time.Now()
				calls = append(calls, "acq|"+hx([]byte(tg)))
				er := d.AcquirePriv(tg)
				if er != nil && (errClass(er) == "timeout" || time.Since(t1) > 380*time.Millisecond) {
					tr.Mark('D')
				}
				if er != nil {
					outs = append(outs, "err:"+errClass(er))
				} else {
					outs = append(outs, "ok:")
				}
				enterable := l.PreviousPriv == "" || l.Escalate != "" || sameGroup(prompts, dev.Mode, tg)
				if cs.Oracle == "" && enterable {
					if er != nil {
						cs.Oracle = fmt.Sprintf("acquire %s (device in %s) failed: %v", tg, dev.Mode, er)
						cs.Sig = "C17:acquire-failed:" + c.Name
					} else if !sameGroup(prompts, dev.Mode, tg) {
						cs.Oracle = fmt.Sprintf("acquire %s ended with the device in %s", tg, dev.Mode)
						cs.Sig = "C17:wrong-level:" + c.Name
					}
				}
				if er != nil {
					break
				}
			}
		}
	}
	// ---- close: network on-close then generic on-close
	cc1, _ := onxCalls(pdef.NetworkOnClose, effDefault)
	cc2, _ := onxCalls(pdef.OnClose, effDefault)
	nlog := len(dev.Log)
	if openErr == nil {
		tr.Mark('C')
		calls = append(append(calls, cc1...), cc2...)
		for range append(cc1, cc2...) {
			outs = append(outs, "ok:")
		}
		done := make(chan error, 1)
		go func() { done <- d.Close() }()
		select {
		case <-done:
		case <-time.After(3 * time.Second):
			cs.Oracle = "Close did not return"
			cs.Sig = "C17:close-hang"
		}
		// on-close writes reached the device
		for _, op := range append(pdef.NetworkOnClose, pdef.OnClose...) {
			if t, _ := op["operation"].(string); t == "channel.write" {
				in, _ := op["input"].(string)
				found := false
				for _, l := range dev.Log[nlog:] {
					if l.Line == in {
						found = true
					}
				}
				if !found && cs.Oracle == "" {
					cs.Oracle = fmt.Sprintf("on-close input %q never reached the device", in)
					cs.Sig = "C17:on-close"
				}
			}
		}
	}
	time.Sleep(time.Millisecond)
	logStr := tr.LogString()
	writes, _, _ := tr.Snapshot()
	var wl [][]byte
	for _, w := range writes {
		wl = append(wl, append([]byte("p"), w...))
	}
	cs.Line = fmt.Sprintf("net 1000 %s %s %s %s %s %s %s", hx([]byte("\n")), hx(tr.StartBytes()), hx([]byte(effDefault)), hx(nil),
		hxStrs(specs), hxStrs(calls), logStr)
	cs.Obs = fmt.Sprintf("%s sync %s %s", strings.Join(outs, ","), hxList(wl), hx([]byte(d.CurrentPriv)))
	_ = network.Driver{}
	emit(cs)
}

// sameGroup: two levels are indistinguishable to the driver when each one's canonical prompt is
// accepted by the other's pattern (after the not-contains filter).
var c17Levels map[string]*y17Level
var c17mu sync.Mutex

func sameGroup(prompts map[string]string, a, b string) bool {
	if a == b {
		return true
	}
	la, lb := c17Levels[a], c17Levels[b]
	if la == nil || lb == nil {
		return false
	}
	acc := func(l *y17Level, pr string) bool {
		re, err := regexp.Compile(l.Pattern)
		if err != nil || !re.MatchString(pr) {
			return false
		}
		for _, nc := range l.NotContains {
			if strings.Contains(pr, nc) {
				return false
			}
		}
		return true
	}
	return acc(la, prompts[b]) && acc(lb, prompts[a])
}
