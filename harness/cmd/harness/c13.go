package main

import (
	"bytes"
	"encoding/json"
	"fmt"
	"os"
	"path/filepath"
	"strings"
	"time"

	"github.com/scrapli/scrapligo/driver/generic"
	"github.com/scrapli/scrapligo/driver/network"
	"github.com/scrapli/scrapligo/driver/opoptions"
	"github.com/scrapli/scrapligo/driver/options"
	"github.com/scrapli/scrapligo/response"
	"github.com/scrapli/scrapligo/util"

	"verif/harness/sim"
)

func init() {
	props["C13"] = prop{Run: runC13, Replay: func(id string, raw json.RawMessage) {
		var c c13Case
		if json.Unmarshal(raw, &c) == nil {
			runC13Case(id, &c)
		}
	}}
}

// failure strings; some have significant leading / trailing blanks (the scan is a plain substring
// test: " denied " does not occur in "access denied\n")
var c13FailPool = []string{"% Invalid", "error:", "ERR", "unknown command", "Ambiguous", "denied", "E", "% ", " denied ", "Error: ", " % Incomplete", "\t"}

type c13Case struct {
	Variant string   `json:"variant"`
	Stop    bool     `json:"stop"`
	OpF     []string `json:"op_failed_when"`
	DrvF    []string `json:"driver_failed_when"`
	Cmds    []string `json:"cmds"`
	Outs    []string `json:"outs"`
	// an earlier operation on the same driver (its own operation-level list), then the measured one
	PreOpF  []string `json:"pre_op_failed_when,omitempty"`
	PreCmds []string `json:"pre_cmds,omitempty"`
	PreOuts []string `json:"pre_outs,omitempty"`
	PreStop bool     `json:"pre_stop,omitempty"`
	// Mix: where options of OTHER kinds (channel-level timeout, network-level privilege level)
	// stand in the option list relative to the two generic ones: 0 after, 1 in front, 2 between, 3 around
	Mix int `json:"mix,omitempty"`
}

func genC13(r *sim.Rng) *c13Case {
	c := &c13Case{}
	c.Variant = r.Pick([]string{"commands", "commands", "each", "fromfile", "netconfigs", "netconfig", "netcommands", "netcommandsfile", "netconfigsfile"})
	c.Stop = r.Bool()
	if r.Chance(1, 2) {
		c.Mix = 1 + r.Intn(3)
	}
	nd := r.Intn(4)
	for i := 0; i < nd; i++ {
		c.DrvF = append(c.DrvF, r.Pick(c13FailPool))
	}
	if r.Chance(1, 2) {
		no := 1 + r.Intn(2)
		for i := 0; i < no; i++ {
			c.OpF = append(c.OpF, r.Pick(c13FailPool))
		}
	}
	n := 1 + r.Intn(10)
	// placement of failures: none / first / middle / last / several
	place := r.Intn(5)
	// a quarter of the cases repeat earlier commands verbatim, with the same device output (a
	// command file that repeats a line, the same bad sub-command under several interfaces): two
	// failed members may then be equal in every field and are still two members
	dup := r.Chance(1, 4)
	for i := 0; i < n; i++ {
		if dup && i > 0 && r.Chance(1, 2) {
			j := r.Intn(i)
			c.Cmds = append(c.Cmds, c.Cmds[j])
			c.Outs = append(c.Outs, c.Outs[j])
			continue
		}
		c.Cmds = append(c.Cmds, fmt.Sprintf("show item%d", r.Intn(50)))
		plant := false
		switch place {
		case 1:
			plant = i == 0
		case 2:
			plant = i == n/2
		case 3:
			plant = i == n-1
		case 4:
			plant = r.Chance(1, 3)
		}
		lines := 1 + r.Intn(3)
		var sb []string
		for l := 0; l < lines; l++ {
			sb = append(sb, fmt.Sprintf("line %d of item %d ok", l, i))
		}
		if plant {
			// plant a failure string: mostly one in force, sometimes one that is not
			s := r.Pick(c13FailPool)
			eff := c.DrvF
			if len(c.OpF) > 0 {
				eff = c.OpF
			}
			if len(eff) > 0 && r.Chance(2, 3) {
				s = r.Pick(eff)
			}
			at := r.Intn(len(sb))
			if core := strings.TrimSpace(s); core != s && core != "" && r.Chance(1, 2) {
				// only the core of a failure string with edge blanks, at the end of a line: NOT an occurrence
				sb[at] = sb[at] + "," + core
			} else {
				sb[at] = strings.TrimRight(sb[at]+" "+s+" tail", " ")
			}
		}
		c.Outs = append(c.Outs, strings.Join(sb, "\n"))
	}
	// history: half of the cases run an earlier operation on the same driver first, with an
	// operation-level list of its own (and sometimes stop-on-failed); nothing of it may carry over
	if r.Chance(1, 2) {
		np := 1 + r.Intn(3)
		for i := 0; i < np; i++ {
			c.PreCmds = append(c.PreCmds, fmt.Sprintf("show pre%d", r.Intn(50)))
			o := fmt.Sprintf("pre line %d ok", i)
			if r.Chance(1, 3) {
				o += " " + r.Pick(c13FailPool) + " tail"
			}
			c.PreOuts = append(c.PreOuts, o)
		}
		if r.Chance(3, 4) {
			no := 1 + r.Intn(2)
			for i := 0; i < no; i++ {
				c.PreOpF = append(c.PreOpF, r.Pick(c13FailPool))
			}
		}
		c.PreStop = r.Chance(1, 3)
	}
	return c
}

func runC13(seed uint64, n int, tier string) {
	rng := sim.NewRng(seed)
	cases := make([]*c13Case, n)
	for i := range cases {
		cases[i] = genC13(rng.Fork())
	}
	parallel(n, func(i int) { runC13Case(caseID("C13", seed, i), cases[i]) })
}

func runC13Case(id string, c *c13Case) {
	defer watchCase(id, c)()
	dev := &sim.CLIDevice{Prompt: []byte("router#"), Banner: sim.Atoms([]byte("router#"))}
	for _, o := range c.PreOuts {
		dev.Outputs = append(dev.Outputs, sim.Atoms([]byte(o)))
	}
	for _, o := range c.Outs {
		dev.Outputs = append(dev.Outputs, sim.Atoms([]byte(strings.ReplaceAll(o, "\n", "\r\n"))))
	}
	tr := sim.NewTransport(dev)
	var d *generic.Driver
	var nd *network.Driver
	var err error
	if strings.HasPrefix(c.Variant, "net") {
		// the network driver's variants (the prompt router# is its privilege-exec level; configs are
		// sent there with the operation's privilege-level option, so no mode change is involved)
		nd, err = newNetworkSimple(tr, 20*time.Microsecond, options.WithFailedWhenContains(c.DrvF), options.WithTimeoutOps(5*time.Second))
		if nd != nil {
			d = nd.Driver
		}
	} else {
		d, err = newGeneric(tr, options.WithFailedWhenContains(c.DrvF))
	}
	cs := &Case{ID: id, Kind: c.Variant, HypOK: true, Replay: c}
	cs.Line = fmt.Sprintf("c13 %s %s %s %s %s", b2i(c.Stop), hxStrs(c.OpF), hxStrs(c.DrvF),
		hxStrs(c.Cmds), hxStrs(c.Outs))
	if err != nil {
		cs.Obs = "newdriver-error " + errClass(err)
		cs.Oracle = "driver construction failed: " + err.Error()
		emit(cs)
		return
	}
	if nd != nil {
		err = nd.Open()
	} else {
		err = d.Open()
	}
	if err != nil {
		cs.Obs = "open-error " + errClass(err)
		cs.Oracle = "open failed: " + err.Error()
		emit(cs)
		return
	}
	if nd != nil {
		defer nd.Close()
	} else {
		defer d.Close()
	}
	var opts []util.Option
	other := func() util.Option { return opoptions.WithTimeoutOps(5 * time.Second) }
	if c.Mix == 1 || c.Mix == 3 {
		opts = append(opts, other())
		if nd != nil {
			opts = append(opts, opoptions.WithPrivilegeLevel("privilege-exec"))
		}
	}
	if c.Stop && c.Mix != 3 {
		opts = append(opts, opoptions.WithStopOnFailed())
	}
	if c.Mix == 2 {
		opts = append(opts, other())
	}
	if len(c.OpF) > 0 {
		opts = append(opts, opoptions.WithFailedWhenContains(c.OpF))
	}
	if c.Mix == 3 {
		opts = append(opts, other())
		if c.Stop {
			opts = append(opts, opoptions.WithStopOnFailed())
		}
	}
	preSent := 0
	if len(c.PreCmds) > 0 {
		var popts []util.Option
		if c.PreStop {
			popts = append(popts, opoptions.WithStopOnFailed())
		}
		if len(c.PreOpF) > 0 {
			popts = append(popts, opoptions.WithFailedWhenContains(c.PreOpF))
		}
		if _, perr := d.SendCommands(c.PreCmds, popts...); perr != nil {
			cs.Obs = "pre-error " + errClass(perr)
			cs.Oracle = "earlier operation failed: " + perr.Error()
			emit(cs)
			return
		}
		preSent = len(dev.NonEmptyLines())
		// commands the earlier operation did not send (stop-on-failed) leave their outputs
		// queued in the device: drop them so the measured operation starts aligned
		dev.DropOutputs(len(c.PreCmds) - preSent)
		cs.Kind += "+pre"
	}
	var m *response.MultiResponse
	var collapsed *response.Response
	switch c.Variant {
	case "commands":
		m, err = d.SendCommands(c.Cmds, opts...)
	case "netcommands":
		m, err = nd.SendCommands(c.Cmds, opts...)
	case "netcommandsfile", "netconfigsfile":
		f := filepath.Join(workDir(), id+".lines")
		_ = os.WriteFile(f, []byte(strings.Join(c.Cmds, "\n")+"\n"), 0o644)
		if c.Variant == "netcommandsfile" {
			m, err = nd.SendCommandsFromFile(f, opts...)
		} else {
			m, err = nd.SendConfigsFromFile(f, append(opts, opoptions.WithPrivilegeLevel("privilege-exec"))...)
		}
		_ = os.Remove(f)
	case "netconfigs":
		m, err = nd.SendConfigs(c.Cmds, append(opts, opoptions.WithPrivilegeLevel("privilege-exec"))...)
	case "netconfig":
		collapsed, err = nd.SendConfig(strings.Join(c.Cmds, "\n"), append(opts, opoptions.WithPrivilegeLevel("privilege-exec"))...)
	case "fromfile":
		f := filepath.Join(workDir(), id+".cmds")
		_ = os.WriteFile(f, []byte(strings.Join(c.Cmds, "\n")+"\n"), 0o644)
		m, err = d.SendCommandsFromFile(f, opts...)
		_ = os.Remove(f)
	case "each":
		// one SendCommand per command, aggregated by the caller the same way; stop-on-failed is
		// a multi-send notion, so the model line for this variant carries stop=0.
		m = response.NewMultiResponse("sim")
		for _, cmd := range c.Cmds {
			var r *response.Response
			r, err = d.SendCommand(cmd, opts...)
			if err != nil {
				break
			}
			m.AppendResponse(r)
		}
		cs.Line = fmt.Sprintf("c13 0 %s %s %s %s", hxStrs(c.OpF), hxStrs(c.DrvF),
			hxStrs(c.Cmds), hxStrs(c.Outs))
	}
	if err != nil {
		cs.Obs = "error " + errClass(err)
		cs.Oracle = "unexpected error: " + err.Error()
		cs.Sig = "C13:error:" + errClass(err)
		emit(cs)
		return
	}
	if c.Variant == "netconfig" {
		cs.Line = ""
		runC13Collapsed(cs, c, collapsed, dev, preSent)
		return
	}
	// ---- observables
	var matched, failedInputs, results [][]byte
	for _, r := range m.Responses {
		s := ""
		if oe, ok := r.Failed.(*response.OperationError); ok && oe != nil {
			s = oe.ErrorString
		} else if r.Failed != nil {
			s = "?" + r.Failed.Error()
		}
		matched = append(matched, []byte(s))
		results = append(results, []byte(r.Result))
	}
	if me, ok := m.Failed.(*response.MultiOperationError); ok && me != nil {
		for _, oe := range me.Operations {
			failedInputs = append(failedInputs, []byte(oe.Input))
		}
	}
	sent := dev.NonEmptyLines()[preSent:]
	cs.Obs = fmt.Sprintf("ok %d %s %s %s %s %s %s", len(m.Responses), hxList(matched),
		hxList(failedInputs), hxList(sent), hxList(results), hx([]byte(m.JoinedResult())),
		b2i(m.Failed != nil))
	// ---- direct oracle (model-free): the property text evaluated on the trace
	eff := c.DrvF
	if len(c.OpF) > 0 {
		eff = c.OpF
	}
	stop := c.Stop && c.Variant != "each"
	expectSent := 0
	anyFailed := false
	for i := range c.Cmds {
		expectSent++
		f := false
		for _, s := range eff {
			if s != "" && strings.Contains(c.Outs[i], s) {
				f = true
			}
		}
		if i < len(m.Responses) {
			got := m.Responses[i].Failed != nil
			if got != f {
				cs.Oracle = fmt.Sprintf("response %d failed=%v but output-contains-failure-string=%v", i, got, f)
				cs.Sig = "C13:failed-flag"
			}
			if m.Responses[i].Result != c.Outs[i] {
				cs.Oracle = fmt.Sprintf("response %d result %q != device output %q", i, m.Responses[i].Result, c.Outs[i])
				cs.Sig = "C13:result"
			}
		}
		if f {
			anyFailed = true
			if stop {
				break
			}
		}
	}
	if len(m.Responses) != expectSent || len(sent) != expectSent {
		cs.Oracle = fmt.Sprintf("expected %d commands sent/responses, got %d responses and device saw %d lines", expectSent, len(m.Responses), len(sent))
		cs.Sig = "C13:stop"
	} else {
		for i := 0; i < expectSent; i++ {
			if !bytes.Equal(sent[i], []byte(c.Cmds[i])) {
				cs.Oracle = fmt.Sprintf("device line %d = %q, want %q", i, sent[i], c.Cmds[i])
				cs.Sig = "C13:sent"
			}
		}
	}
	// "lists exactly those members": the aggregate's operations are the failed members' own errors,
	// one per failed member, in order
	var wantOps, gotOps []*response.OperationError
	for _, r := range m.Responses {
		if oe, ok := r.Failed.(*response.OperationError); ok && oe != nil {
			wantOps = append(wantOps, oe)
		}
	}
	if me, ok := m.Failed.(*response.MultiOperationError); ok && me != nil {
		gotOps = me.Operations
	}
	if len(gotOps) != len(wantOps) {
		cs.Oracle = fmt.Sprintf("%d members failed, but the multi response lists %d", len(wantOps), len(gotOps))
		cs.Sig = "C13:multi-members"
	} else {
		for i := range wantOps {
			if gotOps[i] != wantOps[i] {
				cs.Oracle = fmt.Sprintf("listed operation %d (%q) is not failed member %d's error (%q)", i, gotOps[i].Input, i, wantOps[i].Input)
				cs.Sig = "C13:multi-members"
			}
		}
	}
	if (m.Failed != nil) != anyFailed {
		cs.Oracle = fmt.Sprintf("multi failed=%v, some member failed=%v", m.Failed != nil, anyFailed)
		cs.Sig = "C13:multi"
	}
	cs.Nontrivial = anyFailed && len(c.Cmds) > 1
	emit(cs)
}

// runC13Collapsed: the oracle for network SendConfig — "a collapsed config response reports the
// same": failed exactly when a member (a line's output, under the list in force) is, its result the
// lines' outputs joined by newlines, transmission as for SendConfigs.  (Oracle only: the collapse
// is C13_collapse / C13_send_config_is_source on the model side.)
func runC13Collapsed(cs *Case, c *c13Case, r *response.Response, dev *sim.CLIDevice, preSent int) {
	eff := c.DrvF
	if len(c.OpF) > 0 {
		eff = c.OpF
	}
	expectSent := 0
	anyFailed := false
	var outs []string
	for i := range c.Cmds {
		expectSent++
		outs = append(outs, c.Outs[i])
		f := false
		for _, s := range eff {
			if s != "" && strings.Contains(c.Outs[i], s) {
				f = true
			}
		}
		if f {
			anyFailed = true
			if c.Stop {
				break
			}
		}
	}
	sent := dev.NonEmptyLines()[preSent:]
	cs.Obs = fmt.Sprintf("collapsed failed=%v sent=%d result=%s", r.Failed != nil, len(sent), hx([]byte(r.Result)))
	cs.Nontrivial = anyFailed && len(c.Cmds) > 1
	switch {
	case (r.Failed != nil) != anyFailed:
		cs.Oracle = fmt.Sprintf("collapsed config response failed=%v, but some line's output contains a failure string in force=%v (in force: %q)", r.Failed != nil, anyFailed, eff)
		cs.Sig = "C13:collapse-failed"
	case r.Result != strings.Join(outs, "\n"):
		cs.Oracle = fmt.Sprintf("collapsed result %q is not the lines' outputs joined by newlines %q", r.Result, strings.Join(outs, "\n"))
		cs.Sig = "C13:collapse-result"
	case len(sent) != expectSent:
		cs.Oracle = fmt.Sprintf("expected %d config lines sent, device saw %d", expectSent, len(sent))
		cs.Sig = "C13:stop"
	}
	emit(cs)
}
