package main

import (
	"bytes"
	"encoding/json"
	"fmt"
	"regexp"
	"strings"
	"time"

	"github.com/scrapli/scrapligo/driver/opoptions"
	"github.com/scrapli/scrapligo/driver/options"
	"github.com/scrapli/scrapligo/util"

	"verif/harness/sim"
)

func init() {
	props["C01"] = prop{Run: runC01, Replay: func(id string, raw json.RawMessage) {
		var c c01Case
		if json.Unmarshal(raw, &c) == nil {
			runC01Case(id, &c)
		}
	}}
}

type c01Case struct {
	Prompt    string     `json:"prompt"`
	Trail     string     `json:"trail"`
	Banner    string     `json:"banner"`
	Cmds      []string   `json:"cmds"`
	Outs      [][]string `json:"outs"` // per command: atoms (plain bytes or one escape sequence each)
	EOL       string     `json:"eol"`
	Echo      int        `json:"echo"`
	WrapEvery int        `json:"wrap_every"`
	Segs      []int      `json:"segs"`
	DefSeg    int        `json:"default_seg"`
	ReadSize  int        `json:"read_size"`
	Depth     int        `json:"depth"`
	NoStrip   bool       `json:"no_strip"`
	Exact     bool       `json:"exact"`
	DelayUS   int        `json:"read_delay_us"`
	Variant   string     `json:"variant"` // commands | each
}

var c01Words = []string{"Interface", "is", "up", "line protocol", "GigabitEthernet0/1", "10.0.0.1", "OK", "total 42", "MTU 1500 bytes",
	"Internet address", "!", "version 16.12", "hostname r1", "end", "  description uplink to core", "%", "été", "日本語", "a", "--More--", "[ok]", "0 packets input"}

var c01Esc = []string{"\x1b[0m", "\x1b[1;32m", "\x1b[K", "\x1b[2J", "\x1b[?25h", "\x1b[31m", "\x1b[0;1;4m"}

var promptRe = regexp.MustCompile(`(?im)^[a-z\d.\-@()/:]{1,48}[#>$]\s*$`)

func genPrompt(r *sim.Rng) string {
	al := "abcdefghijklmnopqrstuvwxyz0123456789.-@()/:ABCXYZ"
	n := 1 + r.Intn(16)
	var sb strings.Builder
	for i := 0; i < n; i++ {
		sb.WriteByte(al[r.Intn(len(al))])
	}
	sb.WriteByte("#>$"[r.Intn(3)])
	return sb.String()
}

func genLine(r *sim.Rng, maxLen int) string {
	if r.Chance(1, 8) {
		return ""
	}
	if r.Chance(1, 9) {
		// a line of blanks only (column padding of an empty table row): as the first or last line of
		// an output it is part of the surrounding blank lines that are trimmed
		return strings.Repeat(" ", 1+r.Intn(6))
	}
	var parts []string
	n := 1 + r.Intn(5)
	for i := 0; i < n; i++ {
		parts = append(parts, r.Pick(c01Words))
	}
	s := strings.Join(parts, " ")
	if r.Chance(1, 4) {
		s += strings.Repeat(" ", 1+r.Intn(3))
	}
	if r.Chance(1, 12) {
		s += " " + strings.Repeat("x", r.Intn(maxLen))
	}
	if len(s) > maxLen {
		s = s[:maxLen]
		for len(s) > 0 && s[len(s)-1] >= 0x80 {
			s = s[:len(s)-1]
		}
	}
	if r.Chance(1, 6) && len(s)+14 < maxLen {
		// a line that is not a prompt as a whole but whose LAST TOKEN looks like one ("description
		// uplink to core-rtr1#"): a search window that starts inside the line must not take it for the prompt
		s = strings.TrimRight(s, " ") + " " + r.Pick([]string{"core-rtr1#", "r1(config)#", "sw2.lab>", "host@dev:~$"})
	}
	// a line must not look like a prompt: make sure it contains a space or is empty
	if promptRe.MatchString(s) {
		s = "x " + s
	}
	return s
}

func genC01(r *sim.Rng) *c01Case {
	c := &c01Case{}
	c.Prompt = genPrompt(r)
	c.Trail = r.Pick([]string{"", " ", "  ", ""})
	c.EOL = r.Pick([]string{"\r\n", "\r\n", "\n"})
	c.Depth = []int{0, 1000, 1000, 10000, 200, 120}[r.Intn(6)]
	maxLine := 90
	if c.Depth != 0 && c.Depth < 200 {
		maxLine = c.Depth - len(c.Prompt) - 8
	}
	if r.Chance(2, 3) {
		c.Banner = "Welcome to the device" + c.EOL + c.EOL + c.Prompt + c.Trail
	}
	n := 1 + r.Intn(8)
	for i := 0; i < n; i++ {
		cmd := fmt.Sprintf("%s %s%d", r.Pick([]string{"show", "display", "get", "sh"}), r.Pick([]string{"version", "ip int brief", "run | i host", "clock", "x"}), i)
		if r.Chance(1, 6) {
			cmd += " " + strings.Repeat("a", 10+r.Intn(60)) + "!"
		}
		if r.Chance(1, 4) {
			// commands ending in a run of one byte (the fuzzy echo matcher walks byte by byte)
			cmd = r.Pick([]string{"show vlan all", "show firewall", "show interface 0/0/11", "show ip route vrf all", "sh ver | i uptime  ", "display vlan summary ||", "ping 10.0.0.1 count 100", "xx"})
		}
		if r.Chance(1, 8) {
			// a command LONGER than the prompt search depth (the window for the echo is sized by the
			// input, not by the depth): long filter expressions, pasted configuration lines
			d := c.Depth
			if d == 0 {
				d = 1000
			}
			if d <= 1000 && (d <= 200 || r.Chance(1, 3)) {
				cmd = "show running-config | include " + strings.Repeat("abcdefghij", (d+20+r.Intn(60))/10) + "!"
			}
		}
		c.Cmds = append(c.Cmds, cmd)
		var atoms []string
		nl := r.Intn(7)
		if r.Chance(1, 10) {
			nl = 20 + r.Intn(60)
		}
		for l := 0; l < nl; l++ {
			if l > 0 {
				atoms = append(atoms, c.EOL)
			}
			if r.Chance(1, 5) {
				atoms = append(atoms, r.Pick(c01Esc))
			}
			atoms = append(atoms, genLine(r, maxLine))
			if r.Chance(1, 8) {
				atoms = append(atoms, r.Pick(c01Esc))
			}
		}
		c.Outs = append(c.Outs, atoms)
	}
	c.Exact = r.Chance(1, 3)
	if !c.Exact {
		c.Echo = r.Intn(4)
		c.WrapEvery = []int{0, 8, 20, 80}[r.Intn(4)]
	}
	if !c.Exact && c.Depth != 0 && c.Depth <= 200 && r.Chance(1, 2) {
		// an input no longer than the search depth whose echo, as the terminal wraps it, IS longer: the
		// window in which the echo is searched is sized by the input (twice its length), not by the depth
		c.Echo = 1 + r.Intn(3)
		c.WrapEvery = []int{8, 20}[r.Intn(2)]
		k := r.Intn(len(c.Cmds))
		want := c.Depth - r.Intn(10)
		cmd := "show running-config | include "
		for len(cmd) < want-1 {
			cmd += string(rune('a' + len(cmd)%26))
		}
		c.Cmds[k] = cmd + "!"
	}
	c.NoStrip = r.Chance(1, 3)
	c.ReadSize = []int{8192, 8192, 64, 16, 65535}[r.Intn(5)]
	switch r.Intn(6) {
	case 0:
		c.DefSeg = 1
		if c.ReadSize < 16 {
			c.ReadSize = 16
		}
	case 1:
		c.DefSeg = 0
	case 2:
		// the last byte of everything the device has sent so far arrives in a read of its own
		c.DefSeg = sim.SegAllButLast
		k := r.Intn(6)
		for i := 0; i < k; i++ {
			c.Segs = append(c.Segs, []int{sim.SegAllButLast, 0, 1}[r.Intn(3)])
		}
	default:
		k := r.Intn(60)
		for i := 0; i < k; i++ {
			c.Segs = append(c.Segs, []int{1, 2, 3, 7, 64, 8192}[r.Intn(6)])
		}
		c.DefSeg = []int{1, 3, 7, 0}[r.Intn(4)]
	}
	c.DelayUS = []int{1, 20, 250}[r.Intn(3)]
	c.Variant = r.Pick([]string{"commands", "each"})
	return c
}

func runC01(seed uint64, n int, tier string) {
	rng := sim.NewRng(seed)
	cases := make([]*c01Case, n)
	for i := range cases {
		cases[i] = genC01(rng.Fork())
	}
	parallel(n, func(i int) { runC01Case(caseID("C01", seed, i), cases[i]) })
}

// atomsOf turns the generator's string atoms into transport atoms: an escape sequence stays one
// atom, everything else is split bytewise.
func atomsOf(l []string) [][]byte {
	var out [][]byte
	for _, a := range l {
		if strings.HasPrefix(a, "\x1b") {
			out = append(out, []byte(a))
		} else {
			out = append(out, sim.Atoms([]byte(a))...)
		}
	}
	return out
}

var ansiRe = regexp.MustCompile("[\u001B\u009B][[\\]()#;?]*(?:(?:(?:[a-zA-Z\\d]*(?:;[a-zA-Z\\d]*)*)?\u0007)|(?:(?:\\d{1,4}(?:;\\d{0,4})*)?[\\dA-PRZcf-ntqry=><~]))")

// specResult is the property's right-hand side, computed without the library: CR and escape
// atoms removed, trailing spaces per line removed, surrounding blank lines trimmed; the prompt
// (without its trailing blanks) appended on its own line when kept.
func specResult(atoms []string, prompt string, keep bool) string {
	var sb strings.Builder
	for _, a := range atoms {
		if strings.HasPrefix(a, "\x1b") {
			continue
		}
		sb.WriteString(strings.ReplaceAll(a, "\r", ""))
	}
	lines := strings.Split(sb.String(), "\n")
	for i := range lines {
		lines[i] = strings.TrimRight(lines[i], " ")
	}
	if keep {
		// with the prompt kept, the trimmed unit is output + prompt: blank lines between them stay
		if len(atoms) == 0 {
			return prompt
		}
		return strings.Trim(strings.Join(lines, "\n")+"\n"+prompt, "\n")
	}
	return strings.Trim(strings.Join(lines, "\n"), "\n")
}

func runC01Case(id string, c *c01Case) {
	defer watchCase(id, c)()
	dev := &sim.CLIDevice{Prompt: []byte(c.Prompt), Trail: []byte(c.Trail), EOL: []byte(c.EOL),
		Echo: sim.EchoStyle(c.Echo), WrapEvery: c.WrapEvery}
	if c.Banner != "" {
		dev.Banner = sim.Atoms([]byte(c.Banner))
	}
	for _, o := range c.Outs {
		dev.Outputs = append(dev.Outputs, atomsOf(o))
	}
	tr := sim.NewTransport(dev)
	tr.Segs = c.Segs
	tr.DefaultSeg = c.DefSeg
	opts := []util.Option{options.WithReadDelay(time.Duration(c.DelayUS) * time.Microsecond), options.WithTransportReadSize(c.ReadSize)}
	depth := 1000
	if c.Depth != 0 {
		opts = append(opts, options.WithPromptSearchDepth(c.Depth))
		depth = c.Depth
	}
	cs := &Case{ID: id, Kind: fmt.Sprintf("%s/exact=%v/echo=%d/strip=%v", c.Variant, c.Exact, c.Echo, !c.NoStrip), HypOK: true, Replay: c}
	d, err := newGeneric(tr, opts...)
	if err != nil {
		cs.Oracle = "driver construction failed: " + err.Error()
		emit(cs)
		return
	}
	if err = d.Open(); err != nil {
		cs.Oracle = "open failed: " + err.Error()
		emit(cs)
		return
	}
	var oo []util.Option
	flags := ""
	if c.NoStrip {
		oo = append(oo, opoptions.WithNoStripPrompt())
		flags += "n"
	}
	if c.Exact {
		oo = append(oo, opoptions.WithExactMatchInput())
		flags += "x"
	}
	var results []string
	var callErr error
	switch c.Variant {
	case "commands":
		m, e := d.SendCommands(c.Cmds, oo...)
		callErr = e
		if m != nil {
			for _, r := range m.Responses {
				results = append(results, r.Result)
			}
		}
	default:
		for _, cmd := range c.Cmds {
			r, e := d.SendCommand(cmd, oo...)
			if e != nil {
				callErr = e
				break
			}
			results = append(results, r.Result)
		}
	}
	logStr := tr.LogString()
	_, emissions := tr.WriteEmissions()
	writes, _, _ := tr.Snapshot()
	start := tr.StartBytes()
	_ = d.Close()
	// ---- model line
	var calls []string
	for _, cmd := range c.Cmds {
		calls = append(calls, fmt.Sprintf("in|%s|%s|", hx([]byte(cmd)), flags))
	}
	cs.Line = fmt.Sprintf("chan %d prompt_pattern %s %s %s %s", depth, hx([]byte("\n")), hx(start), hxStrs(calls), logStr)
	var outs []string
	for _, r := range results {
		outs = append(outs, "ok:"+hx([]byte(r)))
	}
	if callErr != nil {
		outs = append(outs, "err:"+errClass(callErr))
	}
	var wl [][]byte
	for _, w := range writes {
		wl = append(wl, append([]byte("p"), w...))
	}
	cs.Obs = fmt.Sprintf("%s sync %s L", strings.Join(outs, ","), hxList(wl))
	cs.Nontrivial = len(c.Cmds) > 1
	// hypotheses of theorem C01_cli_alignment evaluated by the model on this case (small cases
	// only: the check is quadratic in the stream length); escape atoms put a case outside them
	total := len(start)
	hasEsc := false
	for _, e := range emissions {
		total += len(e)
		if bytes.IndexByte(e, 27) >= 0 {
			hasEsc = true
		}
	}
	if callErr == nil && len(emissions) == 2*len(c.Cmds) && total < 700 && !hasEsc {
		var echos, resps, wants [][]byte
		for i := range c.Cmds {
			echos = append(echos, emissions[2*i])
			resps = append(resps, emissions[2*i+1])
			wants = append(wants, []byte(specResult(c.Outs[i], c.Prompt, c.NoStrip)))
		}
		cs.HypLine = fmt.Sprintf("c01hyp %d prompt_pattern %s %s %s %s %s %s %s", depth, hx([]byte("\n")), hx(start), "f"+flags,
			hxStrs(c.Cmds), hxList(echos), hxList(resps), hxList(wants))
	}
	cs.HypOK = false
	// ---- direct oracle
	if callErr != nil {
		cs.Oracle = "unexpected error: " + callErr.Error()
		cs.Sig = "C01:error:" + errClass(callErr)
	} else if len(results) != len(c.Cmds) {
		cs.Oracle = fmt.Sprintf("%d results for %d commands", len(results), len(c.Cmds))
		cs.Sig = "C01:count"
	} else {
		for i := range c.Cmds {
			want := specResult(c.Outs[i], c.Prompt, c.NoStrip)
			if results[i] != want {
				cs.Oracle = fmt.Sprintf("command %d (%q): result %q != device output %q", i, c.Cmds[i], results[i], want)
				cs.Sig = "C01:result"
				if !c.Exact && 2*i < len(emissions) && staleCompletesEcho(c, i, start, emissions[2*i]) {
					// known finding: bytes already in the buffer (login banner and prompt, or the blanks
					// after the previous prompt) together with a proper prefix of the echo contain the
					// command as a subsequence: the fuzzy matcher declares the echo complete early
					cs.Sig = "C01:fuzzy-echo-completed-by-stale-bytes"
				}
				break
			}
		}
		var want [][]byte
		for _, cmd := range c.Cmds {
			want = append(want, []byte(cmd), []byte("\n"))
		}
		if len(writes) != len(want) {
			cs.Oracle = fmt.Sprintf("device received %d writes, want %d", len(writes), len(want))
			cs.Sig = "C01:writes"
		} else {
			for i := range want {
				if !bytes.Equal(want[i], writes[i]) {
					cs.Oracle = fmt.Sprintf("write %d = %q, want %q", i, writes[i], want[i])
					cs.Sig = "C01:writes"
					break
				}
			}
		}
	}
	emit(cs)
}

// staleCompletesEcho: is there a proper prefix p of command i's echo such that the bytes that can
// be in the read buffer before it (for the first command everything the device sent at login, for
// later ones a suffix of the blanks after the prompt) followed by p already "roughly contain" the
// command (contract of util.BytesRoughlyContains: substring, or subsequence of a buffer at least as long)?
func staleCompletesEcho(c *c01Case, i int, start, echo []byte) bool {
	norm := func(b []byte) []byte { return bytes.ReplaceAll(b, []byte("\r"), nil) }
	var stales [][]byte
	if i == 0 {
		stales = append(stales, norm(start))
	} else {
		for k := 0; k <= len(c.Trail); k++ {
			stales = append(stales, []byte(c.Trail[k:]))
		}
	}
	e := norm(echo)
	cmd := []byte(c.Cmds[i])
	for _, st := range stales {
		for k := 0; k < len(e); k++ {
			buf := append(append([]byte(nil), st...), e[:k]...)
			if bytes.Contains(buf, cmd) || (len(buf) >= len(cmd) && pfSubseq(cmd, buf)) {
				return true
			}
		}
	}
	return false
}
