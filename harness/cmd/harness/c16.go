package main

// C16 — built-in transports are transparent, ordered byte pipes that unblock on close.
//
// The REAL transports (transport.Telnet, transport.Standard, transport.System, built by the
// library's own factory) are run against loopback peers (c16_peers.go).  Per case:
//   - the peer sends payloads of sizes around and above the read size in peer-chosen write splits,
//     interleaved with client writes; a reader goroutine calls Read(n) until everything arrived;
//   - direct oracle: concat(reads) == what the peer sent (telnet: initial buffer first), the peer
//     received == concat(writes), every read returns 1..n bytes (except telnet's first read, which
//     returns the whole initial buffer), errors only at the end and without data;
//   - then the transport is closed (or the peer goes away) while the reader is blocked in Read: the
//     read must return within the watchdog;
//   - correspondence: the peer's byte stream, cut at the sizes the real reads returned, is fed to
//     the Coq model (Pipes.v run_c16) as the kernel deliveries with the same read size: the model
//     must return the same slices (wrapper logic b[0:n], initial-buffer-first, error passing).
// Mode "session" (c16_e2e.go) runs a CLI / NETCONF driver session over the real transport and over
// the simulated ideal pipe and compares the results.

import (
	"bytes"
	"encoding/hex"
	"encoding/json"
	"errors"
	"fmt"
	"io"
	"os"
	"strconv"
	"strings"
	"sync"
	"time"

	"verif/harness/sim"
)

func init() {
	props["C16"] = prop{Run: runC16, Replay: func(id string, raw json.RawMessage) {
		var c c16Case
		if json.Unmarshal(raw, &c) == nil {
			runC16Case(id, &c)
		}
	}}
}

type c16Step struct {
	Op string `json:"op"` // "s": the peer sends B; "w": the client writes B; "p": 1 ms pause
	B  string `json:"b,omitempty"`
}

type c16Case struct {
	Kind    string    `json:"kind"`              // telnet | standard | system | system-ssh
	Sub     string    `json:"sub"`               // shell | netconf (ssh kinds)
	Auth    string    `json:"auth"`              // none | password (standard)
	Via     string    `json:"via"`               // impl | transport
	Mode    string    `json:"mode"`              // close | peerclose | session
	N       int       `json:"n"`                 // read size
	Initial string    `json:"initial,omitempty"` // telnet: data sent during the opening; system: payload the stand-in emits
	Steps   []c16Step `json:"steps,omitempty"`
	Probe   string    `json:"probe,omitempty"` // named corpus probe
	Sess    *c16Sess  `json:"sess,omitempty"`
}

func c16Bytes(r *sim.Rng, n int, avoidTilde bool) []byte {
	b := make([]byte, n)
	special := []byte{0x00, 0xff, 0xff, 0x0a, 0x0d, 0x03, 0x04, 0x11, 0x13, 0x1a, 0x1b, 0x7f, 0x08, 0xfe, 0xfd, 0xfb, 0xfc}
	for i := range b {
		if r.Chance(1, 5) {
			b[i] = special[r.Intn(len(special))]
		} else {
			b[i] = byte(r.Intn(256))
		}
		if avoidTilde && b[i] == '~' {
			b[i] = '-'
		}
	}
	return b
}

// c16Sizes: payload sizes around and above the read size.
func c16Sizes(r *sim.Rng, n int) []int {
	cand := []int{1, n - 1, n, n + 1, 3*n + 5, 2, n / 2, 2 * n}
	k := 1 + r.Intn(4)
	var out []int
	for i := 0; i < k; i++ {
		s := cand[r.Intn(len(cand))]
		if i == 0 && r.Chance(1, 2) {
			s = cand[1+r.Intn(4)]
		}
		if s < 1 {
			s = 1
		}
		out = append(out, s)
	}
	return out
}

// c16Split cuts b into the slices of one sender's successive write calls.
func c16Split(r *sim.Rng, b []byte, n int) [][]byte {
	var out [][]byte
	pat := r.Intn(5)
	for len(b) > 0 {
		var k int
		switch pat {
		case 0:
			k = len(b)
		case 1:
			k = n
		case 2:
			k = 1 + r.Intn(2*n+3)
		case 3:
			k = 1
			if len(b) > 96 {
				k = 1 + r.Intn(97)
			}
		default:
			k = []int{1, n - 1, n + 1, 7, len(b)}[r.Intn(5)]
		}
		if k < 1 {
			k = 1
		}
		if k > len(b) {
			k = len(b)
		}
		out = append(out, b[:k])
		b = b[k:]
	}
	return out
}

func genC16(r *sim.Rng, i int) *c16Case {
	c := &c16Case{}
	// transport x read size x payload sizes x split patterns
	switch r.Intn(12) {
	case 0, 1, 2, 3:
		c.Kind = "telnet"
	case 4, 5, 6:
		c.Kind = "standard"
	case 7, 8, 9:
		c.Kind = "system"
	default:
		c.Kind = "system-ssh"
	}
	c.N = []int{16, 64, 8192, 16, 64, 1, 333}[r.Intn(7)]
	if c.N == 8192 && r.Chance(1, 2) {
		c.N = 64 // keep most lines short; 8192 stays well covered
	}
	c.Via = r.Pick([]string{"impl", "transport"})
	c.Mode = r.Pick([]string{"close", "close", "peerclose"})
	if c.Kind == "standard" && r.Chance(1, 3) {
		c.Mode = "close-silent" // the peer has stopped reacting when the transport is closed
	}
	c.Sub, c.Auth = "shell", "none"
	if c.Kind == "standard" {
		c.Sub = r.Pick([]string{"shell", "shell", "netconf"})
		c.Auth = r.Pick([]string{"none", "password"})
	}
	if c.Kind == "system" && r.Chance(1, 5) {
		// the netconf flavour of the system transport has its own open path; its pty is cooked (known
		// findings), so only the life cycle is exercised: a read blocked on a silent peer, then close
		c.Sub, c.Mode = "netconf", "close"
		return c
	}
	if r.Chance(1, 6) {
		c.Mode = "session"
		c.Sess = genC16Sess(r, c)
		return c
	}
	avoid := c.Kind == "system-ssh"
	if c.Kind == "telnet" && r.Chance(2, 3) {
		// data that arrives while Open negotiates; 0xff would start a telnet command there (C15's
		// subject), so the opening is IAC-free — after Open every byte is data
		ini := c16Bytes(r, []int{1, 5, c.N - 1, c.N, c.N + 1, 40}[r.Intn(6)]%300+1, false)
		c.Initial = hex.EncodeToString(bytes.ReplaceAll(ini, []byte{0xff}, []byte{0x41}))
	}
	if c.Kind == "system" && r.Chance(2, 3) {
		c.Initial = hex.EncodeToString(c16Bytes(r, c16Sizes(r, c.N)[0], false))
	}
	var sends, writes [][]byte
	if c.Kind != "system" {
		for _, s := range c16Sizes(r, c.N) {
			sends = append(sends, c16Split(r, c16Bytes(r, s, false), c.N)...)
		}
	}
	nw := c16Sizes(r, c.N)
	if r.Chance(1, 6) && c.Kind != "system" {
		nw = nil
	}
	for _, s := range nw {
		writes = append(writes, c16Split(r, c16Bytes(r, s, avoid), c.N)...)
	}
	if c.Kind == "telnet" && r.Chance(1, 8) {
		c.Steps = append(c.Steps, c16Step{Op: "P"})
	}
	// peer-chosen interleaving of the two directions
	for len(sends) > 0 || len(writes) > 0 {
		pickSend := len(writes) == 0 || (len(sends) > 0 && r.Bool())
		if pickSend {
			c.Steps = append(c.Steps, c16Step{Op: "s", B: hex.EncodeToString(sends[0])})
			sends = sends[1:]
		} else {
			c.Steps = append(c.Steps, c16Step{Op: "w", B: hex.EncodeToString(writes[0])})
			writes = writes[1:]
		}
		if r.Chance(1, 6) {
			c.Steps = append(c.Steps, c16Step{Op: "p"})
		}
	}
	return c
}

func c16Corpus() []*c16Case {
	h := func(s string) string { return hex.EncodeToString([]byte(s)) }
	ff := hex.EncodeToString([]byte{0xff, 0xff, 0xfd, 0x01, 0xff, 0xfb, 0x03, 0x00, 0xff})
	big := strings.Repeat("0123456789abcdef", 8192*3/16+1)
	return []*c16Case{
		// after Open telnet is transparent: IAC bytes are data in both directions
		{Kind: "telnet", Via: "impl", Mode: "close", N: 16, Initial: h("login: "), Steps: []c16Step{{Op: "s", B: ff}, {Op: "w", B: ff}, {Op: "s", B: ff}}},
		{Kind: "telnet", Via: "transport", Mode: "peerclose", N: 8192, Steps: []c16Step{{Op: "s", B: h(big)}, {Op: "w", B: h(big)}}},
		{Kind: "telnet", Via: "transport", Mode: "close", N: 64, Initial: h(strings.Repeat("B", 200))},
		// idle for longer than the socket timeout after Open, then both directions again
		{Kind: "telnet", Via: "transport", Mode: "close", N: 64, Steps: []c16Step{{Op: "w", B: h("show version\n")}, {Op: "s", B: h("ok\n")}, {Op: "P"}, {Op: "w", B: h("show clock\n")}, {Op: "s", B: h("12:00\n")}}},
		{Kind: "telnet", Via: "impl", Mode: "peerclose", N: 16, Initial: h("login: "), Steps: []c16Step{{Op: "P"}, {Op: "w", B: ff}, {Op: "s", B: ff}}},
		{Kind: "standard", Sub: "shell", Auth: "password", Via: "transport", Mode: "close", N: 8192, Steps: []c16Step{{Op: "s", B: h(big)}, {Op: "w", B: h(big)}}},
		{Kind: "standard", Sub: "shell", Auth: "none", Via: "transport", Mode: "close-silent", N: 64, Steps: []c16Step{{Op: "s", B: ff}, {Op: "w", B: ff}}},
		{Kind: "standard", Sub: "netconf", Auth: "none", Via: "impl", Mode: "peerclose", N: 16, Steps: []c16Step{{Op: "w", B: h("<hello/>]]>]]>")}, {Op: "s", B: h("<hello/>]]>]]>")}}},
		{Kind: "system", Via: "impl", Mode: "close", N: 81, Initial: h(big[:8192]), Steps: []c16Step{{Op: "w", B: ff}, {Op: "w", B: h("\r\n\x03\x04\x11\x13\x1a\x1c\x7f")}}},
		{Kind: "system", Via: "transport", Mode: "peerclose", N: 8192, Steps: []c16Step{{Op: "w", B: h(big[:8192*3+5])}}},
		// ONE write larger than the pty and the peer absorb unread (a pasted configuration, a large
		// rpc): it completes only while the transport keeps being read, and Close still gets through
		{Kind: "system", Via: "transport", Mode: "close", N: 8192, Steps: []c16Step{{Op: "w", B: h(strings.Repeat(big[:4096], 25))}}},
		{Kind: "system", Via: "impl", Mode: "close", N: 8192, Steps: []c16Step{{Op: "w", B: h(strings.Repeat(big[:4096], 70))}, {Op: "w", B: h("show version\n")}}},
		// the netconf flavour of the system transport (its own open path): a read blocked on a silent peer must return on close
		{Kind: "system", Sub: "netconf", Via: "impl", Mode: "close", N: 64},
		{Kind: "system", Sub: "netconf", Via: "transport", Mode: "close", N: 8192},
		{Kind: "system", Sub: "shell", Via: "transport", Mode: "close", N: 64},
		{Kind: "system-ssh", Sub: "shell", Auth: "none", Via: "transport", Mode: "close", N: 64, Steps: []c16Step{{Op: "s", B: ff}, {Op: "w", B: ff}, {Op: "w", B: h("show version\n")}}},
		{Kind: "system-ssh", Sub: "shell", Auth: "none", Via: "impl", Mode: "peerclose", N: 8192, Steps: []c16Step{{Op: "s", B: h(big[:8192*3+5])}, {Op: "w", B: h(big[:9000])}}},
		// probe: a line starting with '~' — the ssh client's escape character on a pty session
		{Kind: "system-ssh", Sub: "shell", Auth: "none", Via: "impl", Mode: "close", N: 64, Probe: "tilde", Steps: []c16Step{{Op: "w", B: h("conf t\n~~ banner ~\n~x\n")}, {Op: "s", B: h("ok\n")}}},
		{Kind: "system-ssh", Sub: "shell", Auth: "none", Via: "impl", Mode: "close", N: 64, Probe: "tilde-dot", Steps: []c16Step{{Op: "w", B: h("conf t\n")}, {Op: "w", B: h("~. end of banner")}, {Op: "w", B: h("\n")}, {Op: "s", B: h("ok\n")}}},
		// probes: NETCONF over the system transport — ssh on a pty that stays in canonical mode
		{Kind: "system-ssh", Sub: "netconf", Auth: "none", Via: "impl", Mode: "close", N: 8192, Probe: "nc-pty-cooked", Steps: []c16Step{{Op: "w", B: h("<rpc>abc</rpc>]]>]]>\n")}, {Op: "s", B: h("<rpc-reply/>\n]]>]]>")}}},
		{Kind: "system-ssh", Sub: "netconf", Auth: "none", Via: "impl", Mode: "session", N: 64, Probe: "nc-long-line", Sess: &c16Sess{Proto: "netconf", Ver: "1.0", TimeoutMS: 700,
			Ops: []ncOp{{Kind: "edit", Args: []string{"running", "<config>" + strings.Repeat("<i>0123</i>", 600) + "</config>"}}, {Kind: "lock", Args: []string{"running"}}}}},
		// the same session over the standard transport (passes)
		{Kind: "standard", Sub: "netconf", Auth: "password", Via: "impl", Mode: "session", N: 64, Sess: &c16Sess{Proto: "netconf", Ver: "both", TimeoutMS: 700,
			Ops: []ncOp{{Kind: "edit", Args: []string{"running", "<config>" + strings.Repeat("<i>0123</i>", 600) + "</config>"}}, {Kind: "lock", Args: []string{"running"}}}}},
	}
}

func runC16(seed uint64, n int, tier string) {
	rng := sim.NewRng(seed)
	cases := c16Corpus()
	for i := 0; i < n; i++ {
		cases = append(cases, genC16(rng.Fork(), i))
	}
	parallel(len(cases), func(i int) { runC16Case(caseID("C16", seed, i), cases[i]) })
}

// ---------------------------------------------------------------- reader

type c16Read struct {
	b   []byte // copy taken when the read returned
	raw []byte // the slice the read returned, kept: the bytes a read returned stay those bytes
	err error
}

type c16Reader struct {
	mu    sync.Mutex
	reads []c16Read
	total int
	done  chan struct{}
	endAt time.Time
}

func startC16Reader(cl *c16Client, n int) *c16Reader {
	rd := &c16Reader{done: make(chan struct{})}
	go func() {
		defer close(rd.done)
		idle := 0
		for {
			b, err := cl.Read(n)
			if err == nil && len(b) == 0 {
				// (b, nil) with no bytes: recorded (the oracle rejects it), but do not spin on it
				if idle++; idle > 64 {
					rd.mu.Lock()
					rd.endAt = time.Now()
					rd.mu.Unlock()
					return
				}
			} else {
				idle = 0
			}
			cp := append([]byte(nil), b...)
			rd.mu.Lock()
			rd.reads = append(rd.reads, c16Read{b: cp, raw: b, err: err})
			rd.total += len(cp)
			if err != nil {
				rd.endAt = time.Now()
			}
			rd.mu.Unlock()
			if err != nil {
				return
			}
		}
	}()
	return rd
}

func (rd *c16Reader) snapshot() ([]c16Read, []byte) {
	rd.mu.Lock()
	defer rd.mu.Unlock()
	var all []byte
	for _, r := range rd.reads {
		all = append(all, r.b...)
	}
	return append([]c16Read(nil), rd.reads...), all
}

func (rd *c16Reader) finished() bool {
	select {
	case <-rd.done:
		return true
	default:
		return false
	}
}

// c16Wait polls cond until it holds, the reader died, or the watchdog fires.
func c16Wait(d time.Duration, cond func() bool) bool {
	deadline := time.Now().Add(d)
	for {
		if cond() {
			return true
		}
		if time.Now().After(deadline) {
			return false
		}
		time.Sleep(300 * time.Microsecond)
	}
}

func c16ErrMark(err error) string {
	if errors.Is(err, io.EOF) {
		return "."
	}
	return "!"
}

func unhex(s string) []byte {
	b, _ := hex.DecodeString(s)
	return b
}

func c16Trunc(b []byte) string {
	if len(b) > 48 {
		return fmt.Sprintf("%x…(%d bytes)", b[:48], len(b))
	}
	return fmt.Sprintf("%x", b)
}

func c16Diff(got, want []byte) string {
	i := 0
	for i < len(got) && i < len(want) && got[i] == want[i] {
		i++
	}
	lo := i - 8
	if lo < 0 {
		lo = 0
	}
	g, w := got[lo:], want[lo:]
	return fmt.Sprintf("lengths %d/%d, first difference at offset %d: got …%s want …%s", len(got), len(want), i, c16Trunc(g), c16Trunc(w))
}

// ---------------------------------------------------------------- one case

func runC16Case(id string, c *c16Case) {
	defer watchCase(id, c)()
	if c.Mode == "session" {
		runC16Session(id, c)
		return
	}
	cs := &Case{ID: id, Kind: fmt.Sprintf("%s/%s/%s/%s/n=%d", c.Kind, c.Sub, c.Via, c.Mode, c.N), HypOK: true, Replay: c}
	if c.Probe != "" {
		cs.Kind += "/probe=" + c.Probe
	}
	fail := func(sig, format string, a ...interface{}) {
		if cs.Oracle == "" {
			cs.Oracle = fmt.Sprintf(format, a...)
			cs.Sig = "C16:" + sig // the first failure names the class
		} else if len(cs.Oracle) < 1500 {
			cs.Oracle += "; " + fmt.Sprintf(format, a...)
		}
	}
	initial := unhex(c.Initial)
	var writes, sends []byte
	for _, s := range c.Steps {
		switch s.Op {
		case "s":
			sends = append(sends, unhex(s.B)...)
		case "w":
			writes = append(writes, unhex(s.B)...)
		}
	}
	// ---- peer
	var peer c16Peer
	var pty *c16PtyPeer
	var sshPeer *c16SSHPeer
	var err error
	hangAfter := -1
	marker := []byte(nil)
	switch c.Kind {
	case "telnet":
		peer, err = newC16TCPPeer(initial, nil)
	case "standard":
		sshPeer, err = newC16SSHPeer(c.Auth, nil, nil)
		peer = sshPeer
	case "system-ssh":
		marker = []byte("RDY")
		sshPeer, err = newC16SSHPeer("none", marker, nil)
		peer = sshPeer
	case "system":
		marker = []byte("RDY")
		pty, err = newC16PtyPeer(id, initial)
		peer = pty
		if c.Mode == "peerclose" {
			hangAfter = len(writes)
		}
	default:
		err = fmt.Errorf("unknown transport kind %q", c.Kind)
	}
	if err != nil {
		cs.Obs = "setup-error"
		fail("harness-setup", "peer setup failed: %v", err)
		emit(cs)
		return
	}
	defer peer.Stop()
	// ---- client: the real transport
	cl, err := openC16Client(c.Kind, c.Via, c.Sub, c.Auth, peer.Port(), pty, hangAfter)
	if err != nil {
		cs.Obs = "open-error"
		fail("open-error", "%s transport failed to open against the loopback peer: %v", c.Kind, err)
		emit(cs)
		return
	}
	closed := false
	closeClient := func() (error, bool) {
		closed = true
		done := make(chan error, 1)
		go func() { done <- cl.Close() }()
		select {
		case e := <-done:
			return e, true
		case <-time.After(2 * time.Second):
			return nil, false
		}
	}
	defer func() {
		if !closed {
			_, _ = closeClient()
		}
	}()
	checkSession := func() {
		if sshPeer != nil {
			// the session must be what the property names: pty + shell, or the netconf subsystem
			want := "pty-req,shell"
			if c.Sub == "netconf" {
				want = "subsystem:netconf"
			}
			got := strings.Join(sshPeer.Requests(), ",")
			got = strings.ReplaceAll(got, "env,", "")
			if got != want {
				fail("session-requests", "ssh session requests %q, want %q", got, want)
			}
			if c.Kind == "standard" && c.Auth == "password" {
				sshPeer.mu2.Lock()
				a := sshPeer.authed
				sshPeer.mu2.Unlock()
				if a != "password" {
					fail("auth", "password authentication was not used")
				}
			}
		}
	}
	if c.Kind == "standard" {
		checkSession()
	}
	if c.Kind == "telnet" && len(initial) > 0 && cl.openDur < c16TelnetTimeout*17/40 {
		// Open returned after the first-byte window alone: the opening was not there yet (scheduling),
		// so nothing was buffered and these bytes are ordinary stream data
		sends = append(append([]byte(nil), initial...), sends...)
		initial = nil
		cs.Kind += "/opening-late"
	}
	rd := startC16Reader(cl, c.N)
	// the stream this end must see, in order.  With a marker the peer announces that the pipe is up
	// (pty made raw / remote shell started); whatever precedes it (ssh's own chatter on the pty) is
	// not peer data and is taken as observed.
	var prefix []byte
	if marker != nil {
		ok := c16Wait(4*time.Second, func() bool {
			_, all := rd.snapshot()
			return bytes.Contains(all, marker) || rd.finished()
		})
		_, all := rd.snapshot()
		if !ok || !bytes.Contains(all, marker) {
			cs.Obs = "no-marker"
			fail("no-marker", "the peer's ready marker never arrived; got %s", c16Trunc(all))
			emit(cs)
			return
		}
		prefix = all[:bytes.Index(all, marker)+len(marker)]
		checkSession() // (the system transport's Open returns before ssh has connected)
	}
	var expect []byte
	switch c.Kind {
	case "telnet":
		expect = append(append(expect, initial...), sends...)
	case "system":
		expect = append(append(append(expect, prefix...), initial...), writes...)
	default:
		expect = append(append(expect, prefix...), sends...)
	}
	// ---- the script
	stepErr := ""
	for _, s := range c.Steps {
		switch s.Op {
		case "s":
			if e := peer.Send(unhex(s.B)); e != nil && stepErr == "" {
				stepErr = "peer send: " + e.Error()
			}
		case "w":
			wd := make(chan error, 1)
			b := unhex(s.B)
			go func() { wd <- cl.Write(b) }()
			select {
			case e := <-wd:
				if e != nil {
					fail("write-error", "Write of %d bytes failed: %v", len(b), e)
				}
			case <-time.After(3 * time.Second):
				fail("write-blocked", "Write of %d bytes did not return within 3 s", len(b))
			}
		case "p":
			time.Sleep(time.Millisecond)
		case "P": // the connection sits idle for longer than the socket timeout, then traffic goes on
			time.Sleep(c16TelnetTimeout + 150*time.Millisecond)
		}
		if cs.Oracle != "" {
			break
		}
	}
	if stepErr != "" {
		fail("harness-peer", "%s", stepErr)
	}
	// ---- wait until both directions have drained
	gotAll := c16Wait(3*time.Second, func() bool {
		rd.mu.Lock()
		t := rd.total
		rd.mu.Unlock()
		return t >= len(expect) || rd.finished()
	})
	c16Wait(1500*time.Millisecond, func() bool { return len(peer.Received()) >= len(writes) })
	received := peer.Received()
	// give a stray extra byte the chance to show up, and the reader the time to block in Read again
	time.Sleep(3 * time.Millisecond)
	readsBefore, allBefore := rd.snapshot()
	earlyEnd := rd.finished()
	// ---- blocked read, then close / peer gone
	limit := time.Second
	if c.Kind == "system" || c.Kind == "system-ssh" {
		limit = 2 * time.Second
	}
	t0 := time.Now()
	var closeErr error
	closeReturned := true
	switch c.Mode {
	case "peerclose":
		if c.Kind != "system" { // the stand-in leaves by itself after the agreed byte count
			peer.Hangup()
		}
	case "close-silent":
		peer.Freeze()
		time.Sleep(5 * time.Millisecond)
		closeErr, closeReturned = closeClient()
	default:
		closeErr, closeReturned = closeClient()
	}
	unblocked := c16Wait(limit, rd.finished)
	dt := time.Since(t0)
	if c.Mode == "peerclose" {
		closeErr, closeReturned = closeClient()
	}
	_ = closeErr
	reads, all := rd.snapshot()

	// ---- direct oracle
	switch {
	case !gotAll:
		fail("read-missing", "reads returned %d of %d bytes within the watchdog: %s", len(allBefore), len(expect), c16Diff(allBefore, expect))
	case !bytes.Equal(allBefore, expect):
		fail("read-stream", "concatenated reads differ from what the peer sent: %s", c16Diff(allBefore, expect))
	case c.Kind == "system-ssh" && c.Mode == "peerclose" && bytes.HasPrefix(all, expect):
		// once the peer is gone the ssh client says so on the pty ("Connection to ... closed"):
		// local chatter after the end of the peer's stream, taken as observed
		expect = all
	case !bytes.Equal(all, expect):
		fail("read-extra", "bytes appeared after the stream was complete: %s", c16Diff(all, expect))
	}
	if !bytes.Equal(received, writes) {
		fail("write-stream", "the peer received something else than what was written: %s", c16Diff(received, writes))
	}
	for i, r := range reads {
		if !bytes.Equal(r.raw, r.b) {
			fail("returned-slice-overwritten", "the %d bytes read %d returned were overwritten by later reads (a consumer that keeps the slices it gets loses them): returned %s, now %s",
				len(r.b), i, c16Trunc(r.b), c16Trunc(r.raw))
			break
		}
	}
	for i, r := range reads {
		switch {
		case r.err != nil && i != len(reads)-1:
			fail("read-after-error", "read %d returned an error and reading went on", i)
		case r.err != nil && len(r.b) > 0:
			fail("data-with-error", "read %d returned %d bytes together with error %v", i, len(r.b), r.err)
		case r.err == nil && len(r.b) == 0:
			fail("empty-read", "read %d returned no bytes and no error", i)
		case r.err == nil && len(r.b) > c.N && !(c.Kind == "telnet" && i == 0 && len(initial) > 0):
			fail("read-too-long", "read %d returned %d bytes for n=%d", i, len(r.b), c.N)
		}
	}
	if c.Kind == "telnet" && len(initial) > 0 && (len(reads) == 0 || !bytes.Equal(reads[0].b, initial)) {
		var g []byte
		if len(reads) > 0 {
			g = reads[0].b
		}
		fail("telnet-initial", "first read returned %s, want the whole initial buffer %s", c16Trunc(g), c16Trunc(initial))
	}
	if earlyEnd && !(c.Kind == "system" && c.Mode == "peerclose") { // (the stand-in leaves by itself)
		fail("read-ended-early", "Read returned an error while the connection was up: %v", readsBefore[len(readsBefore)-1].err)
	}
	// the unblock-on-close clause is independent of the byte-stream clauses: a failure of it names
	// the class even when the stream already differed (e.g. in a probe of a known stream finding)
	lifecycle := ""
	if !unblocked {
		lifecycle = fmt.Sprintf("a Read blocked at %s time was still blocked %v later", c.Mode, limit)
		cs.Sig = "C16:blocked-read:" + c.Mode
	}
	if !closeReturned {
		lifecycle += " Close did not return within 2 s"
		cs.Sig = "C16:close-hangs"
	}
	if lifecycle != "" {
		if cs.Oracle != "" {
			lifecycle += "; " + cs.Oracle
		}
		cs.Oracle = strings.TrimSpace(lifecycle)
	}
	if os.Getenv("C16_TIMING") != "" {
		fmt.Fprintf(os.Stderr, "c16-timing %s %s unblocked=%v after=%v close-error=%v\n", c.Kind, c.Mode, unblocked, dt.Round(100*time.Microsecond), closeErr)
	}
	cs.Nontrivial = len(expect) > c.N && len(writes) > 0
	if cs.Oracle != "" && lifecycle == "" {
		switch c.Probe {
		case "tilde", "tilde-dot": // the ssh client's escape character ('~' at the start of a line)
			cs.Sig = "C16:ssh-escape-char"
		case "nc-pty-cooked": // local echo and LF -> CR LF of the canonical-mode pty
			cs.Sig = "C16:system-netconf-pty-cooked"
		}
	}

	// ---- model line: the peer's stream cut at the sizes the real reads returned
	mkind := c.Kind
	if mkind == "system-ssh" {
		mkind = "system"
	}
	ini := "-"
	rest := expect
	skipFirst := false
	if c.Kind == "telnet" && len(initial) > 0 {
		ini = hx(initial)
		rest = expect[len(initial):]
		skipFirst = true
	}
	var deliveries, obs []string
	var sizes []string
	prevFull, merge := false, true
	for i, r := range reads {
		sizes = append(sizes, strconv.Itoa(c.N))
		if r.err != nil {
			prevFull = false
			deliveries = append(deliveries, c16ErrMark(r.err))
			obs = append(obs, c16ErrMark(r.err)+hx(r.b))
			continue
		}
		obs = append(obs, hx(r.b))
		if i == 0 && skipFirst {
			continue
		}
		k := len(r.b)
		if k > len(rest) {
			k = len(rest)
		}
		// a read that filled its buffer may have left the tail of the same kernel delivery behind:
		// for every second such pair let the model see ONE delivery longer than n (it must cut it
		// the same way), otherwise one delivery per read
		if prevFull && merge {
			deliveries[len(deliveries)-1] += hx(rest[:k])
		} else {
			deliveries = append(deliveries, hx(rest[:k]))
		}
		merge = !merge
		prevFull = len(r.b) == c.N
		rest = rest[k:]
	}
	if len(rest) > 0 {
		deliveries = append(deliveries, hx(rest)) // never read: stays in the model's stream
	}
	join := func(l []string) string {
		if len(l) == 0 {
			return "L"
		}
		return "L:" + strings.Join(l, ":")
	}
	sz := "-"
	if len(sizes) > 0 {
		sz = strings.Join(sizes, ",")
	}
	cs.Line = fmt.Sprintf("c16 %s %s %s %s", mkind, ini, join(deliveries), sz)
	if len(expect) > 60000 {
		// a stream of hundreds of kilobytes: the direct oracle (the bytes themselves) stands alone
		cs.Line = ""
	}
	if c.Probe != "" && cs.Oracle != "" {
		// a probe that shows the OS path (ssh client, pty) altering the stream: the wrapper model has
		// nothing to say about it, the oracle verdict stands alone
		cs.Line = ""
	}
	cs.Obs = fmt.Sprintf("%s R%s", join(obs), hx(expect[min16(len(all), len(expect)):]))
	emit(cs)
}

func min16(a, b int) int {
	if a < b {
		return a
	}
	return b
}
