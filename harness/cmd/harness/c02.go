package main

import (
	"bytes"
	"encoding/json"
	"fmt"
	"strconv"
	"strings"

	"github.com/scrapli/scrapligo/response"

	"verif/harness/sim"
)

func init() {
	props["C02"] = prop{Run: runC02, Replay: func(id string, raw json.RawMessage) {
		if bytes.Contains(raw, []byte(`"hello_kind"`)) { // an end-to-end session (see runC02)
			var nc ncCase
			if json.Unmarshal(raw, &nc) == nil {
				runNCCase(id, &nc)
			}
			return
		}
		var c c02Case
		if json.Unmarshal(raw, &c) == nil {
			runC02Case(id, &c)
		}
	}}
}

type c02Case struct {
	Version string `json:"version"`
	Class   string `json:"class"` // wellformed | truncated | badsize | noterm | junk | longheader | random
	Raw     []byte `json:"raw"`
	Payload []byte `json:"payload,omitempty"` // for wellformed cases: what the server meant to send
}

const xmlHeader = "<?xml version=\"1.0\" encoding=\"UTF-8\"?>"

var c02Frags = []string{"<rpc-reply message-id=\"101\">", "</rpc-reply>", "<data>", "</data>", "<ok/>", "\n", "  ", "#", "##", "\n#", "\n##\n",
	"12", "7", "é", "日本", "<rpc-error>", "</rpc-error>", "<rpc-errors>", "</rpc-errors>", "<nc:rpc-error>", "</nc:rpc-error>",
	"<error-severity>error</error-severity>", "<error-severity>warning</error-severity>", "<a b=\"c\">", "</a>", "text", "]]>", "]]>]]",
	"#5\n", "\n#3\nabc", "0", "\t", "<x/>", "interface Gi0/0", "!"}

func genPayload(r *sim.Rng) []byte {
	var sb strings.Builder
	if r.Chance(1, 3) {
		sb.WriteString(xmlHeader)
		if r.Bool() {
			sb.WriteString("\n")
		}
	}
	// a tenth of the replies: a large body FIRST (partial data, a long listing) and what classifies
	// the reply — an rpc-error or none — only behind it
	bigFirst := r.Chance(1, 10)
	if bigFirst {
		sb.WriteString("<rpc-reply message-id=\"101\"><data>")
		sb.WriteString(strings.Repeat("<i>z</i>", (4100+r.Intn(5000))/8))
		sb.WriteString("</data>")
	}
	n := 1 + r.Intn(12)
	for i := 0; i < n; i++ {
		sb.WriteString(r.Pick(c02Frags))
	}
	if bigFirst && r.Bool() {
		sb.WriteString("<rpc-error><error-severity>error</error-severity></rpc-error></rpc-reply>")
	}
	if r.Chance(1, 8) {
		sb.WriteString(strings.Repeat("x", 90+r.Intn(1200)))
	}
	if r.Chance(1, 60) {
		sb.WriteString(strings.Repeat("y", 3000+r.Intn(2000)))
	}
	s := sb.String()
	if s == "" {
		s = "<ok/>"
	}
	return []byte(s)
}

func partition(p []byte, r *sim.Rng) [][]byte {
	var chunks [][]byte
	mode := r.Intn(4)
	for len(p) > 0 {
		var k int
		switch mode {
		case 0:
			k = len(p)
		case 1:
			k = 1
		case 2:
			k = 1 + r.Intn(8)
		default:
			k = 1 + r.Intn(len(p))
		}
		if k > len(p) {
			k = len(p)
		}
		chunks = append(chunks, p[:k])
		p = p[k:]
		if mode == 0 {
			mode = 3
		}
	}
	return chunks
}

func encode11(chunks [][]byte) []byte {
	var b bytes.Buffer
	for _, c := range chunks {
		fmt.Fprintf(&b, "\n#%d\n", len(c))
		b.Write(c)
	}
	b.WriteString("\n##\n")
	return b.Bytes()
}

func genC02(r *sim.Rng) *c02Case {
	c := &c02Case{Version: "1.1"}
	if r.Chance(1, 5) {
		c.Version = "1.0"
		p := genPayload(r)
		p = bytes.ReplaceAll(p, []byte("]]>]]>"), []byte("]]>"))
		c.Payload = p
		c.Class = "wellformed"
		c.Raw = append(append([]byte{}, p...), []byte("]]>]]>")...)
		if r.Bool() {
			c.Raw = append(c.Raw, '\n')
		}
		return c
	}
	p := genPayload(r)
	chunks := partition(p, r)
	raw := encode11(chunks)
	ws := []string{"", "\n", " ", "\n\n", "\r\n", "\t"}
	raw = append([]byte(r.Pick(ws)), raw...)
	raw = append(raw, []byte(r.Pick(ws))...)
	c.Payload = p
	c.Raw = raw
	c.Class = "wellformed"
	switch r.Intn(10) {
	case 0: // truncate at a random point
		c.Class = "truncated"
		c.Raw = raw[:r.Intn(len(raw))]
	case 1: // bump / shrink / negate / alpha a size
		c.Class = "badsize"
		i := bytes.Index(raw, []byte("\n#"))
		if i >= 0 {
			j := i + 2
			k := j
			for k < len(raw) && raw[k] >= '0' && raw[k] <= '9' {
				k++
			}
			var ns string
			switch r.Intn(6) {
			case 0:
				ns = "-" + string(raw[j:k])
			case 1:
				ns = "x" + string(raw[j:k])
			case 2:
				ns = string(raw[j:k]) + "999999"
			case 3:
				ns = "99999999999999999999"
			case 4:
				ns = ""
			default:
				n, _ := strconv.Atoi(string(raw[j:k]))
				ns = strconv.Itoa(n + 1 + r.Intn(50) + len(raw))
			}
			c.Raw = append(append(append([]byte{}, raw[:j]...), []byte(ns)...), raw[k:]...)
		}
	case 2: // drop terminator
		c.Class = "noterm"
		c.Raw = bytes.TrimSuffix(bytes.TrimRight(raw, " \n\r\t"), []byte("##"))
		if r.Bool() {
			c.Raw = bytes.TrimRight(c.Raw, "\n")
		}
	case 3: // junk where a marker is due
		c.Class = "junk"
		i := bytes.LastIndex(raw, []byte("\n#"))
		if i >= 0 {
			c.Raw = append(append(append([]byte{}, raw[:i+1]...), []byte(r.Pick([]string{"x", "<", "9", "?#"}))...), raw[i+1:]...)
		}
	case 4: // header not terminated within 11 bytes
		c.Class = "longheader"
		c.Raw = []byte("\n#" + strings.Repeat("1", 11+r.Intn(5)) + "\nabc\n##\n")
	case 5: // raw random over a small alphabet
		c.Class = "random"
		n := r.Intn(24)
		al := "#\n0123456789-+a<> "
		var sb strings.Builder
		if r.Bool() {
			sb.WriteString("#")
		}
		for i := 0; i < n; i++ {
			sb.WriteByte(al[r.Intn(len(al))])
		}
		c.Raw = []byte(sb.String())
		c.Payload = nil
	}
	if c.Class != "wellformed" {
		c.Payload = nil
	}
	return c
}

var c02Markers = [][]byte{[]byte("<rpc-error>"), []byte("<rpc-errors>"), []byte("</rpc-error>"), []byte("</rpc-errors>"),
	[]byte("<nc:rpc-error>"), []byte("</nc:rpc-error>")}

func hasMarker(b []byte) bool {
	for _, m := range c02Markers {
		if bytes.Contains(b, m) {
			return true
		}
	}
	return false
}

func isSubseq(sub, s []byte) bool {
	i := 0
	for _, c := range s {
		if i < len(sub) && sub[i] == c {
			i++
		}
	}
	return i == len(sub)
}

// strictRFC is an independent RFC 6242 decoder (harness-side reference for the oracle).
func strictRFC(raw []byte) ([]byte, bool) {
	var out []byte
	i := 0
	for {
		if i+4 <= len(raw) && string(raw[i:i+4]) == "\n##\n" {
			return out, len(out) > 0 && i+4 == len(raw)
		}
		if i+2 > len(raw) || raw[i] != '\n' || raw[i+1] != '#' {
			return nil, false
		}
		j := i + 2
		k := j
		for k < len(raw) && k-j < 10 && raw[k] >= '0' && raw[k] <= '9' {
			k++
		}
		if k == j || raw[j] == '0' || k >= len(raw) || raw[k] != '\n' {
			return nil, false
		}
		n, _ := strconv.Atoi(string(raw[j:k]))
		if n > 4294967295 || k+1+n > len(raw) {
			return nil, false
		}
		out = append(out, raw[k+1:k+1+n]...)
		i = k + 1 + n
	}
}

func runC02(seed uint64, n int, tier string) {
	rng := sim.NewRng(seed)
	cases := make([]*c02Case, 0, n)
	for i := 0; i < n; i++ {
		cases = append(cases, genC02(rng.Fork()))
	}
	// a fixed corpus of boundary inputs runs first
	for _, s := range []string{"#", "#12", "#5\nabc\n##", "#-1\nabc\n##", "#3\nabc\n#x", "#3\nabc", "#3\nabc\n##", "##", "", " ", "#\n", "#+3\nabc\n##",
		"#3\nabc##", "\n#3\nabc\n##\n", "#00000000003\nabc\n##", "#2147483648\nab\n##", "#9223372036854775807\nab\n##", "#3\nab"} {
		cl := "corpus"
		cases = append(cases, &c02Case{Version: "1.1", Class: cl, Raw: []byte(s)})
	}
	parallel(len(cases), func(i int) { runC02Case(caseID("C02", seed, i), cases[i]) })
	// "for every way its bytes are split into transport reads": whole sessions through netconf.Driver
	// (replies on time, every chunking that keeps the message-id in one chunk, echoing or not, reply
	// sharing a read with the echo of its request or with the whole exchange); result and failure
	// marking are compared with the session model, which decodes with the model of Record
	k := n / 40
	if k < 40 {
		k = 40
	}
	runNC("C02", seed+977, k, tier)
}

func runC02Case(id string, c *c02Case) {
	defer watchCase(id, c)()
	cs := &Case{ID: id, Kind: c.Version + ":" + c.Class, HypOK: c.Class == "wellformed", Replay: c}
	vtag := "11"
	if c.Version == "1.0" {
		vtag = "10"
	}
	cs.Line = fmt.Sprintf("c02 %s %s", vtag, hx(c.Raw))
	r := response.NewNetconfResponse(nil, nil, "sim", 830, c.Version)
	// exact-capacity copy: no stray bytes behind the slice
	raw := make([]byte, len(c.Raw))
	copy(raw, c.Raw)
	panicked := ""
	func() {
		defer func() {
			if p := recover(); p != nil {
				panicked = fmt.Sprint(p)
			}
		}()
		r.Record(raw)
	}()
	if panicked != "" {
		cs.Obs = "panic"
		cs.Oracle = "decoding panicked: " + panicked
		cs.Sig = "C02:panic"
		cs.Nontrivial = true
		emit(cs)
		return
	}
	parseErr := false
	rpcErr := false
	if oe, ok := r.Failed.(*response.OperationError); ok && oe != nil {
		if strings.HasPrefix(oe.ErrorString, "unable to parse netconf 1.1 response") {
			parseErr = true
		} else {
			rpcErr = true
		}
	}
	cs.Obs = fmt.Sprintf("ok %s %s %s", hx([]byte(r.Result)), b2i(rpcErr), b2i(parseErr))
	cs.Nontrivial = len(c.Raw) > 8
	// ---- oracle
	switch {
	case c.Class == "wellformed":
		want := bytes.TrimSpace(bytes.TrimPrefix(c.Payload, []byte(xmlHeader)))
		if parseErr {
			cs.Oracle = "well-formed reply was marked failed with a parse error"
			cs.Sig = "C02:wellformed-parse-error"
		} else if r.Result != string(want) {
			cs.Oracle = fmt.Sprintf("result %q != payload %q", r.Result, want)
			cs.Sig = "C02:result"
		} else if rpcErr != hasMarker(c.Payload) {
			cs.Oracle = fmt.Sprintf("failed=%v but payload-carries-rpc-error=%v", rpcErr, hasMarker(c.Payload))
			cs.Sig = "C02:rpc-error-classification"
		}
	case c.Version == "1.1":
		// listed malformed classes must be parse errors; anything accepted must be a subsequence of
		// the input, and must agree with the strict RFC decoder whenever that one accepts
		if p, ok := strictRFC(bytes.TrimRight(append([]byte("\n"), bytes.TrimLeft(c.Raw, " \n\r\t")...), " \r\t")); ok && !parseErr {
			want := bytes.TrimSpace(bytes.TrimPrefix(p, []byte(xmlHeader)))
			if r.Result != string(want) {
				cs.Oracle = fmt.Sprintf("result %q != strict RFC 6242 decoding %q", r.Result, want)
				cs.Sig = "C02:result-vs-rfc"
			}
		}
		if !parseErr && !isSubseq([]byte(r.Result), c.Raw) {
			cs.Oracle = "result contains bytes the server did not send"
			cs.Sig = "C02:invented-bytes"
		}
		malformed := false
		switch c.Class {
		case "noterm", "longheader":
			malformed = true
		case "truncated", "badsize", "junk", "random", "corpus":
			// malformed iff no terminator reachable by the lenient grammar: decide with a
			// harness-side lenient reference (chunks then "##"); see lenientOK
			malformed = !lenientOK(c.Raw)
		}
		if malformed && !parseErr {
			cs.Oracle = fmt.Sprintf("malformed frame (%s) accepted as success with result %q", c.Class, r.Result)
			cs.Sig = "C02:malformed-accepted:" + malformedKind(c.Raw)
		}
	}
	emit(cs)
}

// lenientOK: a frame is acceptable when, after trimming, it is a sequence of chunks
// '#' size LF data (optional LFs between chunks), each with all its data present, followed by
// "##".  This is the property's own notion of "not malformed" (leading zeros, '+', missing LF
// before a marker are left unconstrained = acceptable either way is NOT assumed here: they count as
// acceptable).
func lenientOK(raw []byte) bool {
	d := bytes.TrimSpace(raw)
	i := 0
	seen := false
	for i < len(d) {
		if d[i] == '\n' {
			i++
			continue
		}
		if d[i] != '#' {
			return false
		}
		i++
		if i >= len(d) {
			return false
		}
		if d[i] == '#' {
			_ = seen
			return true
		}
		j := i
		for j < len(d) && j-i <= 10 && d[j] != '\n' {
			j++
		}
		if j >= len(d) || d[j] != '\n' || j == i {
			return false
		}
		n, err := strconv.Atoi(string(d[i:j]))
		if err != nil || n < 0 || j+1+n > len(d) {
			return false
		}
		seen = true
		i = j + 1 + n
	}
	return false
}

func malformedKind(raw []byte) string {
	d := bytes.TrimSpace(raw)
	if !bytes.Contains(d, []byte("##")) {
		return "no-terminator"
	}
	return "other"
}
