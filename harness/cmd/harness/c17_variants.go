package main

import (
	"fmt"
	"os"
	"path/filepath"
	"sort"
	"strings"
	"time"

	"github.com/scrapli/scrapligo/driver/options"
	"github.com/scrapli/scrapligo/platform"

	"verif/harness/sim"
)

// Synthetic variants (C17, "a variant replaces exactly the sections it defines"): one base
// definition and one variant per subset of the sections {failed-when-contains, privilege-levels,
// default-desired-privilege-level, network-on-open, network-on-close}; the driver built by
// platform.NewPlatformVariant is inspected and driven (open / close against a device) and every
// section must be the variant's exactly when the variant defines it.

var c17Sections = []string{"failed", "levels", "default", "net-open", "net-close"}

func c17SynthLevels(tag string, pats [3]int) string {
	return fmt.Sprintf(`  privilege-levels:
    exec:
      name: 'exec'
      pattern: '(?im)^[a-z0-9.\-@/:]{1,32}\(l%d\)[#>]$'
      previous-priv:
      deescalate:
      escalate:
      escalate-auth: false
      escalate-prompt:
    privilege-exec:
      name: 'privilege-exec'
      pattern: '(?im)^[a-z0-9.\-@/:]{1,32}\(l%d\)[#>]$'
      previous-priv: 'exec'
      deescalate: 'disable-%s'
      escalate: 'enable-%s'
      escalate-auth: false
      escalate-prompt:
    configuration:
      name: 'configuration'
      pattern: '(?im)^[a-z0-9.\-@/:]{1,32}\(l%d\)[#>]$'
      previous-priv: 'privilege-exec'
      deescalate: 'end-%s'
      escalate: 'configure-%s'
      escalate-auth: false
      escalate-prompt:
`, pats[0], pats[1], tag, tag, pats[2], tag, tag)
}

func c17SynthYAML() string {
	var sb strings.Builder
	sb.WriteString("---\nplatform-type: 'verif_synth'\ndefault:\n  driver-type: 'network'\n")
	sb.WriteString(c17SynthLevels("base", [3]int{0, 1, 2}))
	sb.WriteString("  default-desired-privilege-level: 'privilege-exec'\n  failed-when-contains:\n    - 'base-fail'\n  textfsm-platform: ''\n")
	sb.WriteString("  network-on-open:\n    - operation: 'acquire-priv'\n    - operation: 'driver.send-command'\n      command: 'base-open-step'\n")
	sb.WriteString("  network-on-close:\n    - operation: 'acquire-priv'\n    - operation: 'channel.write'\n      input: 'base-close-step'\n    - operation: 'channel.return'\n")
	sb.WriteString("variants:\n")
	for bits := 0; bits < 32; bits++ {
		sb.WriteString(fmt.Sprintf("  v%02d:\n", bits))
		if bits == 0 {
			sb.WriteString("    textfsm-platform: ''\n")
		}
		ind := func(s string) string { return strings.ReplaceAll("  "+s, "\n  ", "\n    ") }
		if bits&1 != 0 {
			sb.WriteString("    failed-when-contains:\n      - 'variant-fail'\n")
		}
		if bits&2 != 0 {
			sb.WriteString(strings.TrimRight(ind(c17SynthLevels("variant", [3]int{0, 1, 2})), " "))
		}
		if bits&4 != 0 {
			sb.WriteString("    default-desired-privilege-level: 'configuration'\n")
		}
		if bits&8 != 0 {
			sb.WriteString("    network-on-open:\n      - operation: 'acquire-priv'\n      - operation: 'driver.send-command'\n        command: 'variant-open-step'\n")
		}
		if bits&16 != 0 {
			sb.WriteString("    network-on-close:\n      - operation: 'acquire-priv'\n      - operation: 'channel.write'\n        input: 'variant-close-step'\n      - operation: 'channel.return'\n")
		}
	}
	return sb.String()
}

type c17SynthCase struct {
	Synth bool `json:"synthetic_variant"`
	Bits  int  `json:"sections_defined_by_variant"`
}

func runC17Synth(id string, bits int) {
	c := &c17SynthCase{Synth: true, Bits: bits}
	defer watchCase(id, c)()
	var defd []string
	for i, s := range c17Sections {
		if bits&(1<<i) != 0 {
			defd = append(defd, s)
		}
	}
	cs := &Case{ID: id, Kind: "synthetic-variant", HypOK: true, Replay: c, Nontrivial: bits != 0}
	f := filepath.Join(workDir(), fmt.Sprintf("%s.yaml", strings.ReplaceAll(id, "/", "_")))
	if err := os.WriteFile(f, []byte(c17SynthYAML()), 0o644); err != nil {
		cs.Oracle = err.Error()
		emit(cs)
		return
	}
	defer os.Remove(f)
	tag := func(bit int) string {
		if bits&bit != 0 {
			return "variant"
		}
		return "base"
	}
	lt := tag(2)
	dev := &sim.PrivDevice{Levels: map[string]*sim.PrivLevel{
		"exec":           {Name: "exec", Prompt: "host(l0)#"},
		"privilege-exec": {Name: "privilege-exec", Prompt: "host(l1)#", Previous: "exec", Escalate: "enable-" + lt, Deescalate: "disable-" + lt},
		"configuration":  {Name: "configuration", Prompt: "host(l2)#", Previous: "privilege-exec", Escalate: "configure-" + lt, Deescalate: "end-" + lt},
	}, Mode: "exec"}
	tr := sim.NewTransport(dev)
	p, err := platform.NewPlatformVariant(f, fmt.Sprintf("v%02d", bits), "sim", options.WithCustomTransport(tr),
		options.WithReadDelay(20*time.Microsecond), options.WithTimeoutOps(400*time.Millisecond))
	if err != nil {
		cs.Oracle = "NewPlatformVariant: " + err.Error()
		cs.Sig = "C17:variant-load"
		emit(cs)
		return
	}
	d, err := p.GetNetworkDriver()
	if err != nil {
		cs.Oracle = "GetNetworkDriver: " + err.Error()
		cs.Sig = "C17:variant-driver"
		emit(cs)
		return
	}
	fail := func(sig, f string, a ...interface{}) {
		if cs.Oracle == "" {
			cs.Oracle = fmt.Sprintf("variant defining {%s}: ", strings.Join(defd, ", ")) + fmt.Sprintf(f, a...)
			cs.Sig = sig
		}
	}
	if want := tag(1) + "-fail"; len(d.FailedWhenContains) != 1 || d.FailedWhenContains[0] != want {
		fail("C17:variant-failed-when", "failed-when-contains %q, want [%q]", d.FailedWhenContains, want)
	}
	wantDef := "privilege-exec"
	if bits&4 != 0 {
		wantDef = "configuration"
	}
	if d.DefaultDesiredPriv != wantDef {
		fail("C17:variant-default", "default level %q, want %q", d.DefaultDesiredPriv, wantDef)
	}
	if pe := d.PrivilegeLevels["privilege-exec"]; pe == nil || pe.Escalate != "enable-"+lt {
		fail("C17:variant-levels", "privilege levels are not the %s's", lt)
	}
	openErr := d.Open()
	var opened []string
	for _, l := range dev.CommandLines() {
		opened = append(opened, l.Line)
	}
	n0 := len(dev.CommandLines())
	var closeErr error
	if openErr == nil {
		closeErr = d.Close()
	}
	var closed []string
	for _, l := range dev.CommandLines()[n0:] {
		closed = append(closed, l.Line)
	}
	has := func(l []string, s string) bool {
		for _, x := range l {
			if x == s {
				return true
			}
		}
		return false
	}
	if openErr != nil {
		fail("C17:variant-open", "open failed: %v", openErr)
	} else if !has(opened, tag(8)+"-open-step") || has(opened, map[string]string{"base": "variant", "variant": "base"}[tag(8)]+"-open-step") {
		fail("C17:variant-on-open", "open sent %q, want the %s's on-open step", opened, tag(8))
	}
	if closeErr != nil {
		fail("C17:variant-close", "close failed: %v", closeErr)
	} else if openErr == nil && (!has(closed, tag(16)+"-close-step") || has(closed, map[string]string{"base": "variant", "variant": "base"}[tag(16)]+"-close-step")) {
		fail("C17:variant-on-close", "close sent %q, want the %s's on-close step", closed, tag(16))
	}
	sort.Strings(defd)
	cs.Obs = "synthetic-variant"
	emit(cs)
}
