package main

import (
	"fmt"
	"os"
	"path/filepath"
	"time"

	"github.com/scrapli/scrapligo/platform"

	"github.com/scrapli/scrapligo/driver/generic"
	"github.com/scrapli/scrapligo/driver/network"
	"github.com/scrapli/scrapligo/driver/options"
	"github.com/scrapli/scrapligo/logging"
	"github.com/scrapli/scrapligo/util"

	"verif/harness/sim"
)

// runC11Escalate: privilege escalation with the secondary secret under a debug logger and a
// channel log: which writes are logged as "redacted", and whether the secret shows up anywhere.
func runC11Escalate(cs *Case, c *c10Case, sink *logSink, li *logging.Instance) {
	rx := map[string]string{}
	for _, e := range loadRegexes() {
		rx[e.Name] = e.Src
	}
	dev := &sim.PrivDevice{Levels: map[string]*sim.PrivLevel{
		"exec":           {Name: "exec", Prompt: "host(l0)#"},
		"privilege-exec": {Name: "privilege-exec", Prompt: "host(l1)#", Previous: "exec", Escalate: "enable", Deescalate: "disable", Auth: true, AuthPrompt: "Password: "},
	}, Mode: "exec", Secret: c.Secret, OnAuth: sim.AuthBehaviour(c.OnAuth)}
	tr := sim.NewTransport(dev)
	tr.Segs, tr.DefaultSeg = c.Segs, c.DefSeg
	pl := map[string]*network.PrivilegeLevel{
		"exec":           {Name: "exec", Pattern: rx["verif_lvl_0"]},
		"privilege-exec": {Name: "privilege-exec", Pattern: rx["verif_lvl_1"], PreviousPriv: "exec", Escalate: "enable", Deescalate: "disable", EscalateAuth: true, EscalatePrompt: rx[c04AuthPromptRx]},
	}
	if c.LossAfterSecret != "" {
		// escalation inside the on-open hook; the link dies right after the secret went out
		tr.WriteHook = func(n int, b []byte) {
			if string(b) == c.Secret {
				if c.LossAfterSecret == "eof" {
					tr.Fail(sim.LossEOF)
				} else {
					tr.Fail(sim.LossErr)
				}
			}
		}
		d, err := network.NewDriver("sim", options.WithCustomTransport(tr), options.WithReadDelay(20*time.Microsecond), options.WithTimeoutOps(300*time.Millisecond),
			options.WithPrivilegeLevels(pl), options.WithDefaultDesiredPriv("privilege-exec"), options.WithAuthSecondary(c.Secret),
			options.WithLogger(li), options.WithChannelLog(sink),
			options.WithNetworkOnOpen(func(nd *network.Driver) error { return nd.AcquirePriv("privilege-exec") }))
		if err != nil {
			cs.Oracle = "setup failed"
			emit(cs)
			return
		}
		oerr := d.Open()
		time.Sleep(time.Millisecond)
		_ = d.Close()
		cs.Kind += "/loss-after-secret"
		cs.Obs = "open:" + errClass(oerr)
		cs.Nontrivial = true
		if oerr == nil {
			cs.Oracle = "open succeeded although the link died during the escalation of its on-open hook"
			cs.Sig = "C11:harness"
		}
		if m := sink.containsAny(c.Secret); m != "" {
			cs.Oracle = m
			cs.Sig = "C11:secret-logged"
		}
		emit(cs)
		return
	}
	var extra []util.Option
	if c.Refused {
		dev.Secret = c.Secret + "-not"
		extra = append(extra, options.WithFailedWhenContains([]string{"% Invalid input", "% Access denied", "% Bad secrets"}))
		cs.Kind += "/refused"
	}
	d, err := network.NewDriver("sim", append([]util.Option{options.WithCustomTransport(tr), options.WithReadDelay(20 * time.Microsecond), options.WithTimeoutOps(300 * time.Millisecond),
		options.WithPrivilegeLevels(pl), options.WithDefaultDesiredPriv("privilege-exec"), options.WithAuthSecondary(c.Secret),
		options.WithLogger(li), options.WithChannelLog(sink)}, extra...)...)
	if err != nil || d.Open() != nil {
		cs.Oracle = "setup failed"
		emit(cs)
		return
	}
	if c.WriteErr > 0 {
		ws, _, _ := tr.Snapshot()
		tr.SetWriteErr(len(ws) + c.WriteErr - 1)
		cs.Kind += "/write-error"
	}
	tr.Mark('C')
	t0 := time.Now()
	e := d.AcquirePriv("privilege-exec")
	if e != nil && (errClass(e) == "timeout" || time.Since(t0) > 280*time.Millisecond) {
		tr.Mark('D')
	}
	time.Sleep(time.Millisecond)
	logStr := tr.LogString()
	writes, _, _ := tr.Snapshot()
	start := tr.StartBytes()
	cached := d.CurrentPriv
	_ = d.Close()
	specs := []string{
		fmt.Sprintf("%s|verif_lvl_0||||||", hx([]byte("exec"))),
		fmt.Sprintf("%s|verif_lvl_1||%s|%s|%s|1|%s", hx([]byte("privilege-exec")), hx([]byte("exec")), hx([]byte("disable")), hx([]byte("enable")), c04AuthPromptRx),
	}
	cs.Line = fmt.Sprintf("net 1000 %s %s %s %s %s %s %s", hx([]byte("\n")), hx(start), hx([]byte("privilege-exec")), hx([]byte(c.Secret)),
		hxStrs(specs), hxStrs([]string{"acq|" + hx([]byte("privilege-exec"))}), logStr)
	out := "ok:"
	if e != nil {
		out = "err:" + errClass(e)
	}
	var wl [][]byte
	for _, w := range writes {
		tag := "p"
		if string(w) == c.Secret {
			tag = "r"
		}
		wl = append(wl, append([]byte(tag), w...))
	}
	cs.Obs = fmt.Sprintf("%s sync %s %s", out, hxList(wl), hx([]byte(cached)))
	cs.Nontrivial = true
	if c.WriteErr > 0 || c.Refused {
		cs.Line = "" // failing writes / a device with another secret are outside the model: log oracle only
	}
	if m := sink.containsAny(c.Secret); m != "" {
		cs.Oracle = m
		cs.Sig = "C11:secret-logged"
	}
	emit(cs)
}

// runC11System: logins through the system transport that fail before or right after ssh is started
// (oracle only): no log line may contain the password or the key passphrase.
func runC11System(cs *Case, c *c10Case, sink *logSink, li *logging.Instance) {
	opts := []util.Option{options.WithTransportType("system"), options.WithLogger(li), options.WithChannelLog(sink),
		options.WithAuthUsername(c.User), options.WithTimeoutSocket(2 * time.Second), options.WithTimeoutOps(300 * time.Millisecond),
		options.WithAuthNoStrictKey(), options.WithSystemTransportOpenBin("/bin/true")}
	if c.OnAuth == 0 {
		cs.Kind += "/key-with-passphrase"
		opts = append(opts, options.WithAuthPrivateKey("/nonexistent/c11/id_ed25519", c.Passphrase))
	} else {
		cs.Kind += "/password-ssh-exits"
		opts = append(opts, options.WithAuthPassword(c.Password))
	}
	d, err := generic.NewDriver("192.0.2.1", opts...)
	if err != nil {
		cs.Oracle = "driver construction failed: " + err.Error()
		emit(cs)
		return
	}
	done := make(chan error, 1)
	go func() { done <- d.Open() }()
	var oerr error
	select {
	case oerr = <-done:
	case <-time.After(10 * time.Second):
		cs.Oracle = "Open did not return within 10 s"
		cs.Sig = "C11:system-open-hang"
		emit(cs)
		return
	}
	if oerr == nil {
		_ = d.Close()
	}
	time.Sleep(2 * time.Millisecond)
	cs.Obs = "open:" + errClass(oerr)
	cs.Nontrivial = true
	if m := sink.containsAny(c.Password, c.Passphrase); m != "" {
		cs.Oracle = m
		cs.Sig = "C11:secret-logged"
	}
	emit(cs)
}

// runC11Platform: a driver built from a platform definition whose on-open sequence writes a secret
// marked redacted (oracle only).
func runC11Platform(id string, cs *Case, c *c10Case, sink *logSink, li *logging.Instance) {
	quoted := c.OnAuth < 2
	net := c.OnAuth != 3
	val := c.Secret
	if quoted {
		val = "'" + c.Secret + "'"
	}
	section := "on-open"
	dtype := "generic"
	levels := ""
	if net {
		section = "network-on-open"
		dtype = "network"
		levels = "  privilege-levels:\n    exec:\n      name: 'exec'\n      pattern: '(?im)^[a-z0-9.\\-@/:]{1,32}#$'\n      previous-priv:\n      deescalate:\n      escalate:\n      escalate-auth: false\n      escalate-prompt:\n  default-desired-privilege-level: 'exec'\n"
	}
	yml := "---\nplatform-type: 'c11'\ndefault:\n  driver-type: '" + dtype + "'\n" + levels +
		"  " + section + ":\n    - operation: 'channel.write'\n      input: " + val + "\n      redacted: true\n    - operation: 'channel.return'\n"
	f := filepath.Join(workDir(), id+"-platform.yaml")
	if err := os.WriteFile(f, []byte(yml), 0o644); err != nil {
		cs.Oracle = "harness: " + err.Error()
		emit(cs)
		return
	}
	defer os.Remove(f)
	cs.Kind += map[bool]string{true: "/string", false: "/not-a-string"}[quoted] + "/" + dtype
	dev := &sim.CLIDevice{Prompt: []byte("router#"), Banner: sim.Atoms([]byte("router#")), Echo: sim.EchoNone}
	tr := sim.NewTransport(dev)
	p, err := platform.NewPlatform(f, "sim", options.WithCustomTransport(tr), options.WithReadDelay(20*time.Microsecond),
		options.WithTimeoutOps(300*time.Millisecond), options.WithLogger(li), options.WithChannelLog(sink))
	if err != nil {
		cs.Obs = "platform-error"
		// (a definition that is refused when it is loaded is fine too, as long as nothing was logged)
	} else {
		var oerr error
		if net {
			nd, e := p.GetNetworkDriver()
			if e == nil {
				oerr = nd.Open()
				_ = nd.Close()
			} else {
				oerr = e
			}
		} else {
			gd, e := p.GetGenericDriver()
			if e == nil {
				oerr = gd.Open()
				_ = gd.Close()
			} else {
				oerr = e
			}
		}
		cs.Obs = "open:" + errClass(oerr)
	}
	time.Sleep(2 * time.Millisecond)
	cs.Nontrivial = true
	if m := sink.containsAny(c.Secret); m != "" {
		cs.Oracle = m
		cs.Sig = "C11:secret-logged"
	}
	emit(cs)
}
