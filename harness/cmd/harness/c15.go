package main

import (
	"bytes"
	"encoding/json"
	"fmt"
	"net"
	"sync"
	"time"

	"github.com/scrapli/scrapligo/logging"
	"github.com/scrapli/scrapligo/transport"

	"verif/harness/sim"
)

func init() {
	props["C15"] = prop{Run: runC15, Replay: func(id string, raw json.RawMessage) {
		var c c15Case
		if json.Unmarshal(raw, &c) == nil {
			runC15Case(id, &c)
		}
	}}
}

type c15Tok struct {
	Kind string `json:"k"` // data | esc | neg | cmd
	B    int    `json:"b,omitempty"`
	V    int    `json:"v,omitempty"` // verb byte
	O    int    `json:"o,omitempty"` // option
}

type c15Case struct {
	Toks []c15Tok `json:"toks"`
	Segs []int    `json:"segs"` // TCP segmentation of the opening
	// an earlier connection attempt on the SAME transport object: the server sends these bytes
	// (ending inside a telnet command) and hangs up; the opening under test follows on a new
	// connection and must be handled as on a fresh object
	Pre []int `json:"pre,omitempty"`
	// ReadN: size asked of every Read (0 = 8192); smaller than the data collected while opening in a
	// third of the cases
	ReadN int `json:"read_n,omitempty"`
	// PaceMS > 0: a slow server: the opening is sent in seven pieces PaceMS apart, so that it lasts
	// longer than TimeoutSocket/2 in total while no single pause comes near the idle bound that ends
	// the negotiation phase (TimeoutSocket/2 once a byte has arrived)
	PaceMS int `json:"pace_ms,omitempty"`
}

func genC15(r *sim.Rng) *c15Case {
	c := &c15Case{}
	n := 1 + r.Intn(14)
	banner := []byte("\r\nUser Access Verification\r\n\r\nUsername: ")
	bi := 0
	for i := 0; i < n; i++ {
		switch r.Intn(8) {
		case 0, 1, 2:
			c.Toks = append(c.Toks, c15Tok{Kind: "neg", V: 251 + r.Intn(4), O: []int{1, 3, 3, 24, 31, 32, 33, 34, 39, 0, 250, 255}[r.Intn(12)]})
		case 3:
			c.Toks = append(c.Toks, c15Tok{Kind: "cmd", B: []int{241, 249, 246, 240, 0, 65}[r.Intn(6)]})
		case 4:
			c.Toks = append(c.Toks, c15Tok{Kind: "esc"})
		default:
			k := 1 + r.Intn(6)
			for j := 0; j < k; j++ {
				c.Toks = append(c.Toks, c15Tok{Kind: "data", B: int(banner[bi%len(banner)])})
				bi++
			}
		}
	}
	if r.Chance(1, 3) {
		c.ReadN = []int{1, 3, 16}[r.Intn(3)]
	}
	if r.Chance(1, 4) {
		c.Pre = [][]int{{255}, {255, 251}, {255, 253}, {255, 253, 3, 255}, {104, 105, 255, 254}, {255, 252}}[r.Intn(6)]
	}
	if r.Chance(1, 8) {
		// a slow server; make sure a negotiation arrives late in the opening
		c.PaceMS = 90
		c.Toks = append(c.Toks, c15Tok{Kind: "data", B: 'x'}, c15Tok{Kind: "neg", V: 253, O: 31}, c15Tok{Kind: "data", B: 'y'})
	}
	total := len(renderToks(c.Toks))
	for total > 0 {
		k := 1 + r.Intn(7)
		if r.Chance(1, 4) {
			k = total
		}
		if k > total {
			k = total
		}
		c.Segs = append(c.Segs, k)
		total -= k
	}
	return c
}

func renderToks(toks []c15Tok) []byte {
	var b []byte
	for _, t := range toks {
		switch t.Kind {
		case "data":
			b = append(b, byte(t.B))
		case "esc":
			b = append(b, 255, 255)
		case "neg":
			b = append(b, 255, byte(t.V), byte(t.O))
		case "cmd":
			b = append(b, 255, byte(t.B))
		}
	}
	return b
}

func runC15(seed uint64, n int, tier string) {
	rng := sim.NewRng(seed)
	cases := make([]*c15Case, 0, n+4)
	// corpus first
	cases = append(cases,
		&c15Case{Toks: []c15Tok{{Kind: "cmd", B: 241}, {Kind: "data", B: 'h'}, {Kind: "data", B: 'i'}}, Segs: []int{4}},
		&c15Case{Toks: []c15Tok{{Kind: "esc"}, {Kind: "data", B: 'h'}, {Kind: "neg", V: 253, O: 3}, {Kind: "data", B: 'i'}}, Segs: []int{1, 1, 1, 1, 1, 1, 1}},
		&c15Case{Toks: []c15Tok{{Kind: "neg", V: 253, O: 24}, {Kind: "neg", V: 251, O: 1}, {Kind: "neg", V: 254, O: 3}, {Kind: "neg", V: 252, O: 3}, {Kind: "data", B: 'x'}}, Segs: []int{13}},
	)
	for i := 0; i < n; i++ {
		cases = append(cases, genC15(rng.Fork()))
	}
	parallel(len(cases), func(i int) { runC15Case(caseID("C15", seed, i), cases[i]) })
}

func runC15Case(id string, c *c15Case) {
	defer watchCase(id, c)()
	cs := &Case{ID: id, Kind: "opening", HypOK: true, Replay: c}
	opening := renderToks(c.Toks)
	cs.Line = "c15 " + hx(opening)
	ln, err := net.Listen("tcp", "127.0.0.1:0")
	if err != nil {
		cs.Oracle = "listen: " + err.Error()
		emit(cs)
		return
	}
	defer ln.Close()
	var mu sync.Mutex
	var received []byte
	srvDone := make(chan struct{})
	go func() {
		defer close(srvDone)
		conn, err := ln.Accept()
		if err != nil {
			return
		}
		defer conn.Close()
		go func() {
			buf := make([]byte, 256)
			for {
				n, err := conn.Read(buf)
				mu.Lock()
				received = append(received, buf[:n]...)
				mu.Unlock()
				if err != nil {
					return
				}
			}
		}()
		rest := opening
		segs, pause := c.Segs, 2*time.Millisecond
		if c.PaceMS > 0 {
			pause = time.Duration(c.PaceMS) * time.Millisecond
			piece := (len(opening) + 6) / 7
			if piece < 1 {
				piece = 1
			}
			segs = nil
			for i := 0; i < 6; i++ {
				segs = append(segs, piece)
			}
		}
		for _, k := range segs {
			if k > len(rest) {
				k = len(rest)
			}
			if k == 0 {
				break
			}
			_, _ = conn.Write(rest[:k])
			rest = rest[k:]
			time.Sleep(pause)
		}
		if len(rest) > 0 {
			_, _ = conn.Write(rest)
		}
		time.Sleep(1500 * time.Millisecond)
	}()
	l, _ := logging.NewInstance()
	port := ln.Addr().(*net.TCPAddr).Port
	args, _ := transport.NewArgs(l, "127.0.0.1")
	args.Port = port
	args.TimeoutSocket = 600 * time.Millisecond
	ta, _ := transport.NewTelnetArgs()
	tt, _ := transport.NewTelnetTransport(ta)
	if len(c.Pre) > 0 {
		cs.Kind = "reopen"
		if ln0, err0 := net.Listen("tcp", "127.0.0.1:0"); err0 == nil {
			go func() {
				conn, err := ln0.Accept()
				if err != nil {
					return
				}
				pre := make([]byte, len(c.Pre))
				for i, v := range c.Pre {
					pre[i] = byte(v)
				}
				_, _ = conn.Write(pre)
				time.Sleep(30 * time.Millisecond)
				_ = conn.Close()
			}()
			a0, _ := transport.NewArgs(l, "127.0.0.1")
			a0.Port = ln0.Addr().(*net.TCPAddr).Port
			a0.TimeoutSocket = 300 * time.Millisecond
			_ = tt.Open(a0)
			_ = tt.Close()
			_ = ln0.Close()
		}
	}
	if err := tt.Open(args); err != nil {
		cs.Obs = "open-error"
		cs.Oracle = "telnet open failed: " + err.Error()
		cs.Sig = "C15:open-error"
		emit(cs)
		return
	}
	// first reads: collect what is available within a short window
	var data []byte
	got := make(chan []byte, 400)
	go func() {
		readN, maxReads := 8192, 4
		if c.ReadN > 0 {
			readN, maxReads = c.ReadN, 400
		}
		for i := 0; i < maxReads; i++ {
			b, err := tt.Read(readN)
			if err != nil {
				close(got)
				return
			}
			got <- b
		}
	}()
	deadline := time.After(120 * time.Millisecond)
collect:
	for {
		select {
		case b, ok := <-got:
			if !ok {
				break collect
			}
			data = append(data, b...)
		case <-deadline:
			break collect
		}
	}
	time.Sleep(20 * time.Millisecond)
	mu.Lock()
	replies := append([]byte(nil), received...)
	mu.Unlock()
	_ = tt.Close()
	cs.Obs = fmt.Sprintf("%s %s", hx(replies), hx(data))
	// ---- oracle straight from the property text
	var wantReplies, wantData []byte
	hasNeg := false
	for _, t := range c.Toks {
		switch t.Kind {
		case "data":
			wantData = append(wantData, byte(t.B))
		case "esc":
			wantData = append(wantData, 255)
		case "neg":
			hasNeg = true
			switch t.V {
			case 253:
				if t.O == 3 {
					wantReplies = append(wantReplies, 255, 251, byte(t.O))
				} else {
					wantReplies = append(wantReplies, 255, 252, byte(t.O))
				}
			case 254:
				wantReplies = append(wantReplies, 255, 252, byte(t.O))
			case 251:
				wantReplies = append(wantReplies, 255, 253, byte(t.O))
			case 252:
				wantReplies = append(wantReplies, 255, 254, byte(t.O))
			}
		}
	}
	cs.Nontrivial = hasNeg && len(wantData) > 0
	if !bytes.Equal(replies, wantReplies) {
		cs.Oracle = fmt.Sprintf("server received replies %v, want %v", replies, wantReplies)
		cs.Sig = "C15:replies"
	} else if !bytes.Equal(bytes.ReplaceAll(data, []byte{255}, nil), bytes.ReplaceAll(wantData, []byte{255}, nil)) {
		// (how an escaped IAC itself is rendered is left open; everything else must arrive)
		cs.Oracle = fmt.Sprintf("first reads delivered %q, want %q", data, wantData)
		cs.Sig = "C15:data"
		if len(data) < len(wantData) {
			cs.Sig = "C15:data-lost-after-command"
		}
	}
	emit(cs)
}
