package main

// Synchronisation skeletons (C07).  For each Go function that the shutdown-protocol model
// (coq/theories/Close.v) transcribes, the ordered list of its synchronisation-relevant statements
// is extracted from the AST, in source order, as tokens:
//
//	select[recv X,send Y,timer,default]   a select statement (cases in source order, a receive from
//	                                      time.After(..) / <timer>.C is `timer`, default last)
//	send X / recv X                       channel operations outside a select
//	close X                               close(X)
//	once O close X                        O.Do(func() { close(X) })
//	lock M / unlock M                     M.Lock() / M.Unlock()   (also RLock / RUnlock)
//	call F [true|false]                   a call of one of the functions in syncCalls (rendered
//	                                      callee, boolean literal arguments appended)
//	load F / store F                      access to a shared plain field in syncFields
//	defer <token>                         the same inside a defer statement
//	go{ ... }                             a go statement with a function literal
//	for{ ... }                            a loop
//	return / break / continue             control transfers
//
// Everything else (logging, byte processing, yield hooks) is skipped.  The Coq side derives the
// same tokens from the instructions of the model's control-flow graphs and compares
// (CloseSkel.v); a change of any synchronisation statement of these functions changes the
// generated list and breaks that comparison.

import (
	"bytes"
	"go/ast"
	"go/printer"
	"go/token"
	"strings"
)

// functions whose calls are part of the skeleton (by rendered callee)
var syncCalls = map[string]bool{
	"c.t.Read": true, "c.t.Close": true, "t.read": true, "t.Impl.Read": true, "t.Impl.Close": true,
	"c.Q.Enqueue": true, "c.Q.Dequeue": true, "time.Sleep": true,
	"d.Channel.Close": true, "d.Channel.Read": true,
	"cancel": true, "ctx.Err": true, "d.getMessage": true,
	"t.getFd": true, "t.setFd": true, "t.getFd().Read": true, "t.setFd(nil).Close": true,
	"t.fd.Read": true, "t.fd.Close": true,
}

// shared plain fields whose loads and stores are part of the skeleton
var syncFields = map[string]bool{"t.fd": true}

type skelWalker struct {
	fset *token.FileSet
	toks []string
	// detail: `return` tokens say whether the last result is the literal nil ("return nil") or not
	// ("return err"), deferred function literals are walked ("defer{ ... }"), and the calls in
	// openCalls are part of the skeleton (used for the Open functions, property C10)
	detail bool
}

// calls that open or close the connection (Open functions)
var openCalls = map[string]bool{
	"c.t.Open": true, "d.Channel.Open": true, "d.Driver.Open": true,
	"c.Close": true, "d.Channel.Close": true, "d.Driver.Close": true, "d.Close": true,
}

func (w *skelWalker) render(e ast.Expr) string {
	var b bytes.Buffer
	_ = printer.Fprint(&b, w.fset, e)
	return strings.Join(strings.Fields(b.String()), " ")
}

func (w *skelWalker) emit(prefix, t string) { w.toks = append(w.toks, prefix+t) }

func isTimerRecv(w *skelWalker, e ast.Expr) bool {
	// <-time.After(..)  or  <-x.C
	s := w.render(e)
	return strings.HasPrefix(s, "time.After(") || strings.HasSuffix(s, ".C")
}

// expr scans an expression in evaluation order (operands before the operation that uses them).
func (w *skelWalker) expr(e ast.Expr, prefix string) {
	if e == nil {
		return
	}
	switch x := e.(type) {
	case *ast.CallExpr:
		fun := w.render(x.Fun)
		// X.Do(func() { close(Y) })
		if sel, ok := x.Fun.(*ast.SelectorExpr); ok && sel.Sel.Name == "Do" && len(x.Args) == 1 {
			if fl, ok := x.Args[0].(*ast.FuncLit); ok && len(fl.Body.List) == 1 {
				if es, ok := fl.Body.List[0].(*ast.ExprStmt); ok {
					if c, ok := es.X.(*ast.CallExpr); ok && w.render(c.Fun) == "close" && len(c.Args) == 1 {
						w.emit(prefix, "once "+w.render(sel.X)+" close "+w.render(c.Args[0]))
						return
					}
				}
			}
		}
		// operands first
		if sel, ok := x.Fun.(*ast.SelectorExpr); ok {
			w.expr(sel.X, prefix)
		}
		for _, a := range x.Args {
			w.expr(a, prefix)
		}
		if sel, ok := x.Fun.(*ast.SelectorExpr); ok {
			switch sel.Sel.Name {
			case "Lock", "RLock":
				if len(x.Args) == 0 {
					w.emit(prefix, "lock "+w.render(sel.X))
					return
				}
			case "Unlock", "RUnlock":
				if len(x.Args) == 0 {
					w.emit(prefix, "unlock "+w.render(sel.X))
					return
				}
			}
		}
		if fun == "close" && len(x.Args) == 1 {
			w.emit(prefix, "close "+w.render(x.Args[0]))
			return
		}
		if syncCalls[fun] || (w.detail && openCalls[fun]) {
			t := "call " + fun
			for _, a := range x.Args {
				if id, ok := a.(*ast.Ident); ok && (id.Name == "true" || id.Name == "false") {
					t += " " + id.Name
				}
			}
			w.emit(prefix, t)
		}
	case *ast.UnaryExpr:
		if x.Op == token.ARROW {
			w.expr(x.X, prefix)
			if isTimerRecv(w, x.X) {
				w.emit(prefix, "recv timer")
			} else {
				w.emit(prefix, "recv "+w.render(x.X))
			}
			return
		}
		w.expr(x.X, prefix)
	case *ast.BinaryExpr:
		w.expr(x.X, prefix)
		w.expr(x.Y, prefix)
	case *ast.ParenExpr:
		w.expr(x.X, prefix)
	case *ast.SelectorExpr:
		w.expr(x.X, prefix)
		if f := w.render(x); syncFields[f] {
			w.emit(prefix, "load "+f)
		}
	case *ast.IndexExpr:
		w.expr(x.X, prefix)
		w.expr(x.Index, prefix)
	case *ast.SliceExpr:
		w.expr(x.X, prefix)
	case *ast.StarExpr:
		w.expr(x.X, prefix)
	case *ast.TypeAssertExpr:
		w.expr(x.X, prefix)
	case *ast.CompositeLit:
		for _, el := range x.Elts {
			w.expr(el, prefix)
		}
	case *ast.KeyValueExpr:
		w.expr(x.Value, prefix)
	case *ast.FuncLit:
		// a function value that is not started here: not part of this function's skeleton
	}
}

func (w *skelWalker) commTok(s ast.Stmt) string {
	switch c := s.(type) {
	case *ast.SendStmt:
		return "send " + w.render(c.Chan)
	case *ast.ExprStmt:
		if u, ok := c.X.(*ast.UnaryExpr); ok && u.Op == token.ARROW {
			if isTimerRecv(w, u.X) {
				return "timer"
			}
			return "recv " + w.render(u.X)
		}
	case *ast.AssignStmt:
		if len(c.Rhs) == 1 {
			if u, ok := c.Rhs[0].(*ast.UnaryExpr); ok && u.Op == token.ARROW {
				if isTimerRecv(w, u.X) {
					return "timer"
				}
				return "recv " + w.render(u.X)
			}
		}
	}
	return "?"
}

func (w *skelWalker) stmts(l []ast.Stmt) {
	for _, s := range l {
		w.stmt(s)
	}
}

func (w *skelWalker) stmt(s ast.Stmt) {
	switch x := s.(type) {
	case nil:
	case *ast.BlockStmt:
		w.stmts(x.List)
	case *ast.ExprStmt:
		w.expr(x.X, "")
	case *ast.AssignStmt:
		for _, r := range x.Rhs {
			w.expr(r, "")
		}
		for _, l := range x.Lhs {
			if f := w.render(l); syncFields[f] {
				w.emit("", "store "+f)
			}
		}
	case *ast.DeclStmt:
		if gd, ok := x.Decl.(*ast.GenDecl); ok {
			for _, sp := range gd.Specs {
				if vs, ok := sp.(*ast.ValueSpec); ok {
					for _, v := range vs.Values {
						w.expr(v, "")
					}
				}
			}
		}
	case *ast.SendStmt:
		w.expr(x.Value, "")
		w.emit("", "send "+w.render(x.Chan))
	case *ast.DeferStmt:
		if fl, ok := x.Call.Fun.(*ast.FuncLit); ok && w.detail {
			w.emit("", "defer{")
			w.stmts(fl.Body.List)
			w.emit("", "}")
		} else {
			w.expr(x.Call, "defer ")
		}
	case *ast.GoStmt:
		if fl, ok := x.Call.Fun.(*ast.FuncLit); ok {
			w.emit("", "go{")
			w.stmts(fl.Body.List)
			w.emit("", "}")
		} else {
			w.emit("", "go "+w.render(x.Call.Fun))
		}
	case *ast.ReturnStmt:
		for _, r := range x.Results {
			w.expr(r, "")
		}
		if w.detail && len(x.Results) > 0 {
			if id, ok := x.Results[len(x.Results)-1].(*ast.Ident); ok && id.Name == "nil" {
				w.emit("", "return nil")
			} else {
				w.emit("", "return err")
			}
		} else {
			w.emit("", "return")
		}
	case *ast.BranchStmt:
		switch x.Tok {
		case token.BREAK:
			w.emit("", "break")
		case token.CONTINUE:
			w.emit("", "continue")
		}
	case *ast.IfStmt:
		w.stmt(x.Init)
		w.expr(x.Cond, "")
		w.stmt(x.Body)
		w.stmt(x.Else)
	case *ast.ForStmt:
		w.stmt(x.Init)
		w.emit("", "for{")
		w.expr(x.Cond, "")
		w.stmt(x.Body)
		w.stmt(x.Post)
		w.emit("", "}")
	case *ast.RangeStmt:
		w.expr(x.X, "")
		w.emit("", "for{")
		w.stmt(x.Body)
		w.emit("", "}")
	case *ast.SwitchStmt:
		w.stmt(x.Init)
		w.expr(x.Tag, "")
		for _, c := range x.Body.List {
			w.stmts(c.(*ast.CaseClause).Body)
		}
	case *ast.TypeSwitchStmt:
		for _, c := range x.Body.List {
			w.stmts(c.(*ast.CaseClause).Body)
		}
	case *ast.SelectStmt:
		var cases []string
		timer, def := false, false
		for _, c := range x.Body.List {
			cc := c.(*ast.CommClause)
			if cc.Comm == nil {
				def = true
				continue
			}
			t := w.commTok(cc.Comm)
			if t == "timer" {
				timer = true
			} else {
				cases = append(cases, t)
			}
		}
		if timer {
			cases = append(cases, "timer")
		}
		if def {
			cases = append(cases, "default")
		}
		w.emit("", "select["+strings.Join(cases, ",")+"]")
		for _, c := range x.Body.List {
			w.stmts(c.(*ast.CommClause).Body)
		}
	case *ast.LabeledStmt:
		w.stmt(x.Stmt)
	}
}

// skeletonOf returns the token list of a function.
func skeletonOf(rel, fn string) []string { return skeletonOfD(rel, fn, false) }

func skeletonOfD(rel, fn string, detail bool) []string {
	fd := funcDecl(rel, fn)
	if fd == nil || fd.Body == nil {
		die("function %s not found in %s (synchronisation skeleton)", fn, rel)
	}
	w := &skelWalker{fset: load(rel).fset, detail: detail}
	w.stmts(fd.Body.List)
	return w.toks
}

// the functions of the shutdown protocol, in the order the Coq side expects them
var skeletonFuncs = [][3]string{
	{"channel_read_loop", "channel/read.go", "Channel.read"},
	{"channel_Read", "channel/read.go", "Channel.Read"},
	{"channel_Close", "channel/channel.go", "Channel.Close"},
	{"transport_read", "transport/transport.go", "Transport.read"},
	{"transport_Close", "transport/transport.go", "Transport.Close"},
	{"netconf_Close", "driver/netconf/driver.go", "Driver.Close"},
	{"netconf_read_loop", "driver/netconf/read.go", "Driver.read"},
	{"netconf_sendRPC", "driver/netconf/rpc.go", "Driver.sendRPC"},
	{"system_getFd", "transport/system.go", "System.getFd"},
	{"system_setFd", "transport/system.go", "System.setFd"},
	{"system_Read", "transport/system.go", "System.Read"},
	{"system_Close", "transport/system.go", "System.Close"},
}

// the Open functions: what they open, which returns carry an error, what closes the connection
// again (property C10: "in every failure case the transport is closed")
var openFuncs = [][3]string{
	{"channel_Open", "channel/channel.go", "Channel.Open"},
	{"generic_Open", "driver/generic/driver.go", "Driver.Open"},
	{"network_Open", "driver/network/driver.go", "Driver.Open"},
	{"netconf_Open", "driver/netconf/driver.go", "Driver.Open"},
}
