package main

// Decision functions translated statement by statement (C09: determineVersion, C05: GetTimeout).
// The Go AST of the function body is emitted as a term of a tiny imperative language
// (coq/theories/Decide.v: dstmt) that Coq INTERPRETS; the theorems then state that the
// interpretation of what the source says NOW equals the hand-written model, for every input
// (the functions depend on their inputs through finitely many tests only).  Anything the
// translator does not understand becomes `DOther "<source text>"`, on which the interpreter
// fails, so an unforeseen statement breaks the theorem instead of being ignored.

import (
	"fmt"
	"go/ast"
	"go/token"
	"strings"
)

type decTr struct {
	g *goFile
	// statements to drop: `x := getNetconfPatterns()` and the like (pure lookups)
	dropAssignFrom map[string]bool
	// inside the body of `go func() {...}()`: a bare return ends the goroutine, not the function
	inGo bool
	// opaqueGo: `go func() {...}()` is one effect whose text is the goroutine's source
	opaqueGo bool
	// keepLog: logging calls are effects of this function (what is logged is the subject)
	keepLog bool
	// nesting depth of `for cond {}` loops being translated
	loopDepth int
}

func (t *decTr) render(e ast.Expr) string {
	w := &skelWalker{fset: t.g.fset}
	return w.render(e)
}

func q(s string) string { return "\"" + strings.ReplaceAll(s, "\"", "\"\"") + "\"" }

func (t *decTr) expr(e ast.Expr) string {
	switch x := e.(type) {
	case *ast.ParenExpr:
		return t.expr(x.X)
	case *ast.UnaryExpr:
		if x.Op == token.NOT {
			return "(DNot " + t.expr(x.X) + ")"
		}
	case *ast.CallExpr:
		// d.ServerHasCapability(c)
		if sel, ok := x.Fun.(*ast.SelectorExpr); ok && sel.Sel.Name == "ServerHasCapability" && len(x.Args) == 1 {
			return "(DHas " + q(t.render(x.Args[0])) + ")"
		}
		return "(DAtom " + q(t.render(e)) + ")"
	case *ast.Ident, *ast.SelectorExpr:
		return "(DAtom " + q(t.render(e)) + ")"
	case *ast.BinaryExpr:
		switch x.Op {
		case token.EQL:
			return "(DEq " + q(t.render(x.X)) + " " + q(t.render(x.Y)) + ")"
		case token.NEQ:
			return "(DNot (DEq " + q(t.render(x.X)) + " " + q(t.render(x.Y)) + "))"
		case token.LAND:
			return "(DAnd " + t.expr(x.X) + " " + t.expr(x.Y) + ")"
		case token.LOR:
			return "(DOr " + t.expr(x.X) + " " + t.expr(x.Y) + ")"
		case token.GTR, token.LSS, token.GEQ, token.LEQ:
			return "(DAtom " + q(t.render(e)) + ")"
		}
	}
	return "(DUnknown " + q(t.render(e)) + ")"
}

func (t *decTr) stmts(l []ast.Stmt) string {
	var out []string
	for _, s := range l {
		if r := t.stmt(s); r != "" {
			out = append(out, r)
		}
	}
	return "[" + strings.Join(out, "; ") + "]"
}

func (t *decTr) stmt(s ast.Stmt) string {
	switch x := s.(type) {
	case *ast.AssignStmt:
		if len(x.Lhs) == 1 && len(x.Rhs) == 1 {
			if c, ok := x.Rhs[0].(*ast.CallExpr); ok && t.dropAssignFrom[t.render(c.Fun)] {
				return ""
			}
			if x.Tok == token.ASSIGN || x.Tok == token.DEFINE {
				return "DAssign " + q(t.render(x.Lhs[0])) + " " + q(t.render(x.Rhs[0]))
			}
			// x += e and the like: an update of x, recorded with its operator
			return "DCall " + q(t.render(x.Lhs[0])+" "+x.Tok.String()+" "+t.render(x.Rhs[0]))
		}
		// `_, err = f(...)`: an effect; the call is recorded, the named results are assigned its text
		if len(x.Lhs) == 2 && len(x.Rhs) == 1 {
			if c, ok := x.Rhs[0].(*ast.CallExpr); ok {
				// the variable that receives the error is part of the call's text unless it is the
				// conventional `err` (or blank): a test of `readErr` after a call that assigned `err` is seen
				if id, isId := x.Lhs[1].(*ast.Ident); isId && id.Name != "err" && id.Name != "_" {
					return "DCall " + q(t.render(c)+" -> "+t.render(x.Lhs[0])+", "+id.Name)
				}
				return "DCall " + q(t.render(c))
			}
			// `v, ok := x.(T)`: v is assigned the assertion's text, ok (unless blank) "ok of <text>"
			if ta, ok := x.Rhs[0].(*ast.TypeAssertExpr); ok && ta.Type != nil {
				out := "DAssign " + q(t.render(x.Lhs[0])) + " " + q(t.render(ta))
				if id, isId := x.Lhs[1].(*ast.Ident); !isId || id.Name != "_" {
					out += "; DAssign " + q(t.render(x.Lhs[1])) + " " + q("ok of "+t.render(ta))
				}
				return out
			}
		}
		// `v, ok := m[k]`: ok is assigned "ok of <m[k]>", v (unless blank) the lookup's text
		if len(x.Lhs) == 2 && len(x.Rhs) == 1 {
			if ix, ok := x.Rhs[0].(*ast.IndexExpr); ok {
				out := ""
				if id, isId := x.Lhs[0].(*ast.Ident); !isId || id.Name != "_" {
					out = "DAssign " + q(t.render(x.Lhs[0])) + " " + q(t.render(ix)) + "; "
				}
				return out + "DAssign " + q(t.render(x.Lhs[1])) + " " + q("ok of "+t.render(ix))
			}
		}
		// `a, b, err := f(...)`: an effect; the call is recorded
		if len(x.Lhs) > 2 && len(x.Rhs) == 1 {
			if c, ok := x.Rhs[0].(*ast.CallExpr); ok {
				if id, isId := x.Lhs[len(x.Lhs)-1].(*ast.Ident); isId && (id.Name == "err" || id.Name == "_") {
					return "DCall " + q(t.render(c))
				}
			}
		}
	case *ast.DeclStmt:
		// `var x bool` without a value: x is false from here on (it may be tested)
		if gd, ok := x.Decl.(*ast.GenDecl); ok && gd.Tok == token.VAR && len(gd.Specs) == 1 {
			if vs, ok := gd.Specs[0].(*ast.ValueSpec); ok && len(vs.Values) == 0 && len(vs.Names) == 1 {
				if id, ok := vs.Type.(*ast.Ident); ok && id.Name == "bool" {
					return "DAssign " + q(vs.Names[0].Name) + " " + q("false")
				}
				// `var x string` / `var x int` INSIDE a loop body is a reset on every iteration
				if id, ok := vs.Type.(*ast.Ident); ok && t.loopDepth > 0 && (id.Name == "string" || id.Name == "int") {
					return "DAssign " + q(vs.Names[0].Name) + " " + q("zero "+id.Name)
				}
			}
		}
		// `var x T` without a value: nothing happens
		if gd, ok := x.Decl.(*ast.GenDecl); ok && gd.Tok == token.VAR {
			all := true
			for _, sp := range gd.Specs {
				if vs, ok := sp.(*ast.ValueSpec); !ok || len(vs.Values) > 0 {
					all = false
				}
			}
			if all {
				return ""
			}
		}
	case *ast.SelectStmt:
		// select { case <-ch: A; default: B }  (the non-blocking poll)  =  if <-ch is ready { A } else { B }
		if len(x.Body.List) == 2 {
			var recvText, aBody, dBody string
			okShape := true
			for _, cl := range x.Body.List {
				cc := cl.(*ast.CommClause)
				if cc.Comm == nil {
					dBody = t.stmts(cc.Body)
					continue
				}
				es, isE := cc.Comm.(*ast.ExprStmt)
				if !isE {
					okShape = false
					break
				}
				u, isU := es.X.(*ast.UnaryExpr)
				if !isU || u.Op != token.ARROW {
					okShape = false
					break
				}
				recvText = "<-" + t.render(u.X)
				aBody = t.stmts(cc.Body)
			}
			if okShape && recvText != "" && dBody != "" {
				return "DIf (DAtom " + q("ready "+recvText) + ") " + aBody + " " + dBody
			}
		}
		// select { case c1: A1; case c2: A2; ... } (blocking): a switch on WHICH communication happens,
		// `DSwitch "select"`: the environment chooses the case by the text of its communication
		{
			var cases []string
			okAll := true
			for _, cl := range x.Body.List {
				cc := cl.(*ast.CommClause)
				label := ""
				switch cm := cc.Comm.(type) {
				case nil:
					label = ""
				case *ast.ExprStmt:
					label = t.render(cm.X)
				case *ast.AssignStmt:
					if len(cm.Lhs) >= 1 && len(cm.Rhs) == 1 {
						var ls []string
						for _, l := range cm.Lhs {
							ls = append(ls, t.render(l))
						}
						label = strings.Join(ls, ", ") + " " + cm.Tok.String() + " " + t.render(cm.Rhs[0])
					} else {
						okAll = false
					}
				case *ast.SendStmt:
					label = t.render(cm.Chan) + " <- " + t.render(cm.Value)
				default:
					okAll = false
				}
				if cc.Comm == nil {
					cases = append(cases, "([], "+t.stmts(cc.Body)+")")
				} else {
					cases = append(cases, "(["+q(label)+"], "+t.stmts(cc.Body)+")")
				}
			}
			if okAll {
				return "DSwitch " + q("select") + " [" + strings.Join(cases, "; ") + "]"
			}
		}
	case *ast.ForStmt:
		// for { body }: a loop that only a return (or break) ends: `DRange "_" "forever"` — the environment
		// says how many iterations are looked at
		if x.Init == nil && x.Cond == nil && x.Post == nil {
			t.loopDepth++
			body := t.stmts(x.Body.List)
			t.loopDepth--
			return "DRange " + q("_") + " " + q("forever") + " " + body
		}
		// for cond { body }: the forever loop whose first statement leaves it when the condition fails;
		// for init; cond; post { body }: the init statement, then that loop with the post statement last
		// (only when no `continue` in the body could skip it)
		if x.Cond != nil && (x.Post == nil || !hasContinue(x.Body)) {
			t.loopDepth++
			body := strings.TrimSuffix(strings.TrimPrefix(t.stmts(x.Body.List), "["), "]")
			t.loopDepth--
			parts := []string{"DIf (DNot " + t.expr(x.Cond) + ") [DBreak] []"}
			if body != "" {
				parts = append(parts, body)
			}
			if x.Post != nil {
				parts = append(parts, t.stmt(x.Post))
			}
			loop := "DRange " + q("_") + " " + q("while") + " [" + strings.Join(parts, "; ") + "]"
			if x.Init != nil {
				return t.stmt(x.Init) + "; " + loop
			}
			return loop
		}
	case *ast.IfStmt:
		if x.Init != nil {
			// if init; cond { ... }: the init statement, then the if
			init := t.stmt(x.Init)
			y := *x
			y.Init = nil
			rest := t.stmt(&y)
			if init == "" {
				return rest
			}
			return init + "; " + rest
		}
		if x.Init == nil {
			els := "[]"
			switch e := x.Else.(type) {
			case *ast.BlockStmt:
				els = t.stmts(e.List)
			case *ast.IfStmt:
				els = "[" + t.stmt(e) + "]"
			}
			return "DIf " + t.expr(x.Cond) + " " + t.stmts(x.Body.List) + " " + els
		}
	case *ast.SwitchStmt:
		if x.Init == nil && x.Tag == nil {
			// switch { case c1: ..; case c2: ..; default: .. }  =  if c1 {..} else if c2 {..} else {..}
			var dflt string = "[]"
			type arm struct{ cond, body string }
			var arms []arm
			for _, c := range x.Body.List {
				cc := c.(*ast.CaseClause)
				if cc.List == nil {
					dflt = t.stmts(cc.Body)
					continue
				}
				cond := t.expr(cc.List[0])
				for _, e := range cc.List[1:] {
					cond = "(DOr " + cond + " " + t.expr(e) + ")"
				}
				arms = append(arms, arm{cond, t.stmts(cc.Body)})
			}
			out := dflt
			for i := len(arms) - 1; i >= 0; i-- {
				out = "[DIf " + arms[i].cond + " " + arms[i].body + " " + out + "]"
			}
			// a one-statement list: unwrap
			return strings.TrimSuffix(strings.TrimPrefix(out, "["), "]")
		}
		if x.Init == nil && x.Tag != nil {
			var cases []string
			for _, c := range x.Body.List {
				cc := c.(*ast.CaseClause)
				var labels []string
				for _, e := range cc.List {
					labels = append(labels, q(t.render(e)))
				}
				cases = append(cases, "(["+strings.Join(labels, "; ")+"], "+t.stmts(cc.Body)+")")
			}
			return "DSwitch " + q(t.render(x.Tag)) + " [" + strings.Join(cases, "; ") + "]"
		}
	case *ast.RangeStmt:
		// for _, v := range l { body }
		if k, ok := x.Key.(*ast.Ident); ok && x.Tok == token.DEFINE {
			if v, ok := x.Value.(*ast.Ident); ok {
				body := t.stmts(x.Body.List)
				if k.Name != "_" {
					// for i, v := range l: the key is bound to "index of v" at the head of the body
					bind := "DAssign " + q(k.Name) + " " + q("index of "+v.Name)
					if body == "[]" {
						body = "[" + bind + "]"
					} else {
						body = "[" + bind + "; " + body[1:]
					}
				}
				return "DRange " + q(v.Name) + " " + q(t.render(x.X)) + " " + body
			}
			// for k := range m { body }: the keys of m
			if x.Value == nil && k.Name != "_" {
				return "DRange " + q(k.Name) + " " + q("keys of "+t.render(x.X)) + " " + t.stmts(x.Body.List)
			}
		}
	case *ast.BranchStmt:
		if x.Tok == token.CONTINUE && x.Label == nil {
			return "DContinue"
		}
		if x.Tok == token.BREAK && x.Label == nil {
			return "DBreak"
		}
	case *ast.GoStmt:
		// go func() { body }(): the body runs once, as the body of a one-iteration loop `DRange "go" "once"`,
		// so that a bare return inside it (DBreak) ends the goroutine and the caller's code goes on
		// (the callers translated here wait at once for what the goroutine sends)
		if t.opaqueGo {
			return "DCall " + q("go "+t.render(x.Call))
		}
		if fl, ok := x.Call.Fun.(*ast.FuncLit); ok && len(x.Call.Args) == 0 && !t.inGo {
			t.inGo = true
			body := t.stmts(fl.Body.List)
			t.inGo = false
			return "DRange " + q("go") + " " + q("once") + " " + body
		}
		// go f(args): a named function started as a goroutine: one effect
		if _, isLit := x.Call.Fun.(*ast.FuncLit); !isLit {
			return "DCall " + q("go "+t.render(x.Call))
		}
	case *ast.DeferStmt:
		// defer f(...): recorded where it is registered
		return "DCall " + q("defer "+t.render(x.Call))
	case *ast.SendStmt:
		return "DCall " + q(t.render(x.Chan)+" <- "+t.render(x.Value))
	case *ast.IncDecStmt:
		return "DCall " + q(t.render(x.X)+x.Tok.String())
	case *ast.ExprStmt:
		if u, ok := x.X.(*ast.UnaryExpr); ok && u.Op == token.ARROW {
			return "DCall " + q("<-"+t.render(u.X))
		}
		if c, ok := x.X.(*ast.CallExpr); ok {
			f := t.render(c.Fun)
			if (strings.HasPrefix(f, "a.l.") || strings.HasPrefix(f, "c.l.") || strings.HasPrefix(f, "d.Logger.")) && !t.keepLog || f == "verifYield" {
				return "" // logging / yield hooks: no effect on the decision
			}
			return "DCall " + q(t.render(c))
		}
	case *ast.ReturnStmt:
		if len(x.Results) == 0 {
			if t.inGo {
				return "DBreak"
			}
			return "DReturn " + q("")
		}
		if len(x.Results) == 1 {
			if id, ok := x.Results[0].(*ast.Ident); ok && id.Name == "nil" {
				return "DReturn " + q("nil")
			}
			if c, ok := x.Results[0].(*ast.CallExpr); ok && t.render(c.Fun) == "fmt.Errorf" {
				// return fmt.Errorf(...): an error value
				return "DReturn " + q("error")
			}
			return "DReturn " + q(t.render(x.Results[0]))
		}
		if len(x.Results) > 1 {
			var rs []string
			for _, r := range x.Results {
				rs = append(rs, t.render(r))
			}
			return "DReturn " + q(strings.Join(rs, ", "))
		}
	}
	w := &skelWalker{fset: t.g.fset}
	_ = w
	return "DOther " + q(fmt.Sprintf("%T", s))
}

// decisionFunc returns the Coq term (list dstmt) of a function body.
func decisionFunc(rel, fn string, drop ...string) string {
	fd := funcDecl(rel, fn)
	if fd == nil || fd.Body == nil {
		die("function %s not found in %s (decision translation)", fn, rel)
	}
	t := &decTr{g: load(rel), dropAssignFrom: map[string]bool{}}
	for _, d := range drop {
		if d == "@opaque-go" {
			t.opaqueGo = true
			continue
		}
		if d == "@keep-log" {
			t.keepLog = true
			continue
		}
		t.dropAssignFrom[d] = true
	}
	return t.stmts(fd.Body.List)
}

// optionClosure: the body of the closure `return func(o interface{}) error { ... }` an option
// constructor returns; statements of the constructor in front of the return (argument checks that
// run when the option is CREATED) are kept, in a DCall marker list, ahead of the closure's.
func optionClosure(rel, fn string) string {
	fd := funcDecl(rel, fn)
	if fd == nil || fd.Body == nil {
		die("function %s not found in %s (option translation)", fn, rel)
	}
	t := &decTr{g: load(rel), dropAssignFrom: map[string]bool{}}
	n := len(fd.Body.List)
	if n >= 1 {
		if rs, ok := fd.Body.List[n-1].(*ast.ReturnStmt); ok && len(rs.Results) == 1 {
			if fl, ok := rs.Results[0].(*ast.FuncLit); ok {
				pre := ""
				if n > 1 {
					pre = "DCall \"constructor prologue\"; " + strings.TrimSuffix(strings.TrimPrefix(t.stmts(fd.Body.List[:n-1]), "["), "]") + "; DCall \"closure\"; "
				}
				return "[" + pre + strings.TrimPrefix(t.stmts(fl.Body.List), "[")
			}
		}
	}
	return "[DOther " + q("not a closure-returning constructor") + "]"
}

// optionLoops: every top-level `for ... range` statement of a function, translated.
func optionLoops(rel, fn string) []string {
	fd := funcDecl(rel, fn)
	if fd == nil || fd.Body == nil {
		die("function %s not found in %s (option loops)", fn, rel)
	}
	t := &decTr{g: load(rel), dropAssignFrom: map[string]bool{}}
	var out []string
	for _, s := range fd.Body.List {
		if r, ok := s.(*ast.RangeStmt); ok {
			out = append(out, t.stmt(r))
		}
	}
	return out
}

// paramNames: the parameter names of a function, in order.
func paramNames(rel, fn string) []string {
	fd := funcDecl(rel, fn)
	if fd == nil {
		die("function %s not found in %s (parameters)", fn, rel)
	}
	var out []string
	for _, f := range fd.Type.Params.List {
		for _, n := range f.Names {
			out = append(out, n.Name)
		}
	}
	return out
}

// callArgs: the argument texts of the one call of method `callee` inside function fn.
func callArgs(rel, fn, callee string) []string {
	fd := funcDecl(rel, fn)
	if fd == nil || fd.Body == nil {
		die("function %s not found in %s (call arguments)", fn, rel)
	}
	t := &decTr{g: load(rel)}
	var found [][]string
	ast.Inspect(fd.Body, func(n ast.Node) bool {
		if c, ok := n.(*ast.CallExpr); ok {
			if sel, ok := c.Fun.(*ast.SelectorExpr); ok && sel.Sel.Name == callee {
				var as []string
				for _, a := range c.Args {
					as = append(as, t.render(a))
				}
				found = append(found, as)
			}
		}
		return true
	})
	if len(found) != 1 {
		die("%s %s: %d calls of %s, expected one", rel, fn, len(found), callee)
	}
	return found[0]
}

func coqStrList(l []string) string {
	var qs []string
	for _, x := range l {
		qs = append(qs, q(x))
	}
	return "[" + strings.Join(qs, "; ") + "]"
}

// nestedRange: the one `for ... range <over>` statement found anywhere inside function fn, translated alone.
func nestedRange(rel, fn, over string) string {
	fd := funcDecl(rel, fn)
	if fd == nil || fd.Body == nil {
		die("function %s not found in %s (nested range)", fn, rel)
	}
	t := &decTr{g: load(rel), dropAssignFrom: map[string]bool{}}
	var found []string
	ast.Inspect(fd.Body, func(n ast.Node) bool {
		if r, ok := n.(*ast.RangeStmt); ok && t.render(r.X) == over {
			found = append(found, t.stmt(r))
			return false
		}
		return true
	})
	if len(found) != 1 {
		die("%s %s: %d range loops over %s, expected one", rel, fn, len(found), over)
	}
	return found[0]
}

// hasContinue: a `continue` that belongs to this loop (not to a loop nested in it)
func hasContinue(b *ast.BlockStmt) bool {
	found := false
	var walk func(n ast.Node, top bool)
	walk = func(n ast.Node, top bool) {
		ast.Inspect(n, func(m ast.Node) bool {
			switch y := m.(type) {
			case *ast.ForStmt, *ast.RangeStmt:
				if m != n {
					return false
				}
			case *ast.FuncLit:
				return false
			case *ast.BranchStmt:
				if y.Tok == token.CONTINUE && y.Label == nil {
					found = true
				}
			}
			return true
		})
	}
	walk(b, true)
	return found
}
