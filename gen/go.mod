module verif/gen

go 1.20

require gopkg.in/yaml.v3 v3.0.1
