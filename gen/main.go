// Command gen is the translator half of the tie between /repo and the Coq development: it re-reads
// the Go sources and the embedded YAML on every run and rewrites coq/theories/Generated.v —
// constants, literals, every regular expression as a byte-level AST (parsed by Go's own
// regexp/syntax), the platform definitions as records, the advertised name list, inventories, and
// fingerprints of the modelled functions.  It fails loudly when something it expects is gone.
package main

import (
	"bytes"
	"crypto/sha1"
	"encoding/hex"
	"encoding/json"
	"flag"
	"fmt"
	"go/ast"
	"go/parser"
	"go/printer"
	"go/token"
	"os"
	"path/filepath"
	"regexp"
	"regexp/syntax"
	"sort"
	"strconv"
	"strings"
	"unicode"
	"unicode/utf8"

	"gopkg.in/yaml.v3"
)

var repo string

func die(f string, a ...interface{}) {
	fmt.Fprintf(os.Stderr, "gen: "+f+"\n", a...)
	os.Exit(1)
}

// ------------------------------------------------------------------------------------------------
// Go source access

type goFile struct {
	fset *token.FileSet
	f    *ast.File
	path string
}

var fileCache = map[string]*goFile{}

func load(rel string) *goFile {
	if g, ok := fileCache[rel]; ok {
		return g
	}
	fset := token.NewFileSet()
	f, err := parser.ParseFile(fset, filepath.Join(repo, rel), nil, 0)
	if err != nil {
		die("cannot parse %s: %v", rel, err)
	}
	g := &goFile{fset, f, rel}
	fileCache[rel] = g
	return g
}

type val struct {
	kind string // int string bool
	i    int64
	s    string
	b    bool
}

func (g *goFile) consts() map[string]ast.Expr {
	m := map[string]ast.Expr{}
	for _, d := range g.f.Decls {
		gd, ok := d.(*ast.GenDecl)
		if !ok || gd.Tok != token.CONST {
			continue
		}
		for _, s := range gd.Specs {
			vs := s.(*ast.ValueSpec)
			for i, n := range vs.Names {
				if i < len(vs.Values) {
					m[n.Name] = vs.Values[i]
				}
			}
		}
	}
	return m
}

func (g *goFile) eval(e ast.Expr) val {
	switch x := e.(type) {
	case *ast.BasicLit:
		switch x.Kind {
		case token.INT:
			n, err := strconv.ParseInt(strings.ReplaceAll(x.Value, "_", ""), 0, 64)
			if err != nil {
				die("%s: bad int %s", g.path, x.Value)
			}
			return val{kind: "int", i: n}
		case token.STRING:
			s, err := strconv.Unquote(x.Value)
			if err != nil {
				die("%s: bad string %s", g.path, x.Value)
			}
			return val{kind: "string", s: s}
		case token.CHAR:
			s, _ := strconv.Unquote(x.Value)
			r, _ := utf8.DecodeRuneInString(s)
			return val{kind: "int", i: int64(r)}
		}
	case *ast.Ident:
		if x.Name == "true" {
			return val{kind: "bool", b: true}
		}
		if x.Name == "false" {
			return val{kind: "bool", b: false}
		}
		if ce, ok := g.consts()[x.Name]; ok {
			return g.eval(ce)
		}
	case *ast.ParenExpr:
		return g.eval(x.X)
	case *ast.BinaryExpr:
		a, b := g.eval(x.X), g.eval(x.Y)
		if x.Op == token.ADD && a.kind == "string" && b.kind == "string" {
			return val{kind: "string", s: a.s + b.s}
		}
		if a.kind == "int" && b.kind == "int" {
			switch x.Op {
			case token.ADD:
				return val{kind: "int", i: a.i + b.i}
			case token.MUL:
				return val{kind: "int", i: a.i * b.i}
			case token.SUB:
				return val{kind: "int", i: a.i - b.i}
			}
		}
	case *ast.UnaryExpr:
		a := g.eval(x.X)
		if x.Op == token.SUB && a.kind == "int" {
			return val{kind: "int", i: -a.i}
		}
	case *ast.CallExpr: // conversions such as byte(255)
		if len(x.Args) == 1 {
			return g.eval(x.Args[0])
		}
	}
	die("%s: cannot evaluate constant expression at %v", g.path, g.fset.Position(e.Pos()))
	return val{}
}

func constOf(rel, name string) val {
	g := load(rel)
	e, ok := g.consts()[name]
	if !ok {
		die("constant %s not found in %s", name, rel)
	}
	return g.eval(e)
}

func funcDecl(rel, name string) *ast.FuncDecl {
	g := load(rel)
	for _, d := range g.f.Decls {
		fd, ok := d.(*ast.FuncDecl)
		if !ok {
			continue
		}
		n := fd.Name.Name
		if fd.Recv != nil && len(fd.Recv.List) == 1 {
			t := fd.Recv.List[0].Type
			if s, ok := t.(*ast.StarExpr); ok {
				t = s.X
			}
			if id, ok := t.(*ast.Ident); ok {
				n = id.Name + "." + n
			}
		}
		if n == name {
			return fd
		}
	}
	return nil
}

// stringLits returns every string literal (constants resolved) in the function, in source order.
func stringLits(rel, fn string) []string {
	fd := funcDecl(rel, fn)
	if fd == nil {
		die("function %s not found in %s", fn, rel)
	}
	g := load(rel)
	var out []string
	ast.Inspect(fd, func(n ast.Node) bool {
		if bl, ok := n.(*ast.BasicLit); ok && bl.Kind == token.STRING {
			s, _ := strconv.Unquote(bl.Value)
			out = append(out, s)
		}
		return true
	})
	_ = g
	return out
}

// keyedStringLits returns the string literals inside the value of the composite-literal field `key`.
func keyedStringLits(rel, fn, key string) []string {
	fd := funcDecl(rel, fn)
	if fd == nil {
		die("function %s not found in %s", fn, rel)
	}
	var out []string
	ast.Inspect(fd, func(n ast.Node) bool {
		kv, ok := n.(*ast.KeyValueExpr)
		if !ok {
			return true
		}
		if k, ok := kv.Key.(*ast.Ident); ok && k.Name == key {
			ast.Inspect(kv.Value, func(m ast.Node) bool {
				if bl, ok := m.(*ast.BasicLit); ok && bl.Kind == token.STRING {
					s, _ := strconv.Unquote(bl.Value)
					out = append(out, s)
				}
				return true
			})
			return false
		}
		return true
	})
	return out
}

// callArgs returns, for every call of selector/ident `callee` in fn, its first argument evaluated.
func callStringArgs(rel, fn, callee string) []string {
	fd := funcDecl(rel, fn)
	if fd == nil {
		die("function %s not found in %s", fn, rel)
	}
	g := load(rel)
	var out []string
	ast.Inspect(fd, func(n ast.Node) bool {
		ce, ok := n.(*ast.CallExpr)
		if !ok {
			return true
		}
		name := ""
		switch f := ce.Fun.(type) {
		case *ast.SelectorExpr:
			if id, ok := f.X.(*ast.Ident); ok {
				name = id.Name + "." + f.Sel.Name
			}
		case *ast.Ident:
			name = f.Name
		}
		if name == callee && len(ce.Args) >= 1 {
			out = append(out, g.eval(ce.Args[0]).s)
		}
		return true
	})
	return out
}

// keyedRegexes returns field -> pattern for composite literals `field: regexp.MustCompile(x)` in fn.
func keyedRegexes(rel, fn string) map[string]string {
	fd := funcDecl(rel, fn)
	if fd == nil {
		die("function %s not found in %s", fn, rel)
	}
	g := load(rel)
	out := map[string]string{}
	ast.Inspect(fd, func(n ast.Node) bool {
		kv, ok := n.(*ast.KeyValueExpr)
		if !ok {
			return true
		}
		k, ok := kv.Key.(*ast.Ident)
		if !ok {
			return true
		}
		ce, ok := kv.Value.(*ast.CallExpr)
		if !ok {
			return true
		}
		if se, ok := ce.Fun.(*ast.SelectorExpr); ok && se.Sel.Name == "MustCompile" && len(ce.Args) == 1 {
			out[k.Name] = g.eval(ce.Args[0]).s
		}
		return true
	})
	return out
}

func fingerprint(rel, fn string) string {
	fd := funcDecl(rel, fn)
	if fd == nil {
		return "MISSING"
	}
	var buf bytes.Buffer
	_ = printer.Fprint(&buf, token.NewFileSet(), fd)
	h := sha1.Sum(buf.Bytes())
	return hex.EncodeToString(h[:8])
}

// ------------------------------------------------------------------------------------------------
// Coq emission helpers

func coqBytes(s string) string {
	if len(s) == 0 {
		return "[]"
	}
	var sb strings.Builder
	sb.WriteString("[")
	for i := 0; i < len(s); i++ {
		if i > 0 {
			sb.WriteString(";")
		}
		sb.WriteString(strconv.Itoa(int(s[i])))
	}
	sb.WriteString("]")
	return sb.String()
}

func coqBytesList(l []string) string {
	parts := make([]string, len(l))
	for i, s := range l {
		parts[i] = coqBytes(s)
	}
	return "[" + strings.Join(parts, "; ") + "]"
}

func coqBool(b bool) string {
	if b {
		return "true"
	}
	return "false"
}

// ------------------------------------------------------------------------------------------------
// regex -> byte-level AST

type brange struct{ lo, hi byte }
type bseq []brange

func encodeRune(r rune) []byte {
	b := make([]byte, 4)
	n := utf8.EncodeRune(b, r)
	return b[:n]
}

// utf8Seqs splits the rune range [lo,hi] into sequences of byte ranges (the utf8-ranges algorithm).
func utf8Seqs(lo, hi rune, out *[]bseq) {
	if lo > hi {
		return
	}
	// exclude surrogates
	if lo <= 0xDFFF && hi >= 0xD800 {
		if lo < 0xD800 {
			utf8Seqs(lo, 0xD7FF, out)
		}
		if hi > 0xDFFF {
			utf8Seqs(0xE000, hi, out)
		}
		return
	}
	for _, max := range []rune{0x7F, 0x7FF, 0xFFFF} {
		if lo <= max && hi > max {
			utf8Seqs(lo, max, out)
			utf8Seqs(max+1, hi, out)
			return
		}
	}
	if hi <= 0x7F {
		*out = append(*out, bseq{{byte(lo), byte(hi)}})
		return
	}
	for i := uint(1); i < 4; i++ {
		m := rune(1)<<(6*i) - 1
		if lo&^m != hi&^m {
			if lo&m != 0 {
				utf8Seqs(lo, lo|m, out)
				utf8Seqs((lo|m)+1, hi, out)
				return
			}
			if hi&m != m {
				utf8Seqs(lo, (hi&^m)-1, out)
				utf8Seqs(hi&^m, hi, out)
				return
			}
		}
	}
	a, b := encodeRune(lo), encodeRune(hi)
	if len(a) != len(b) {
		die("utf8Seqs: internal length mismatch for %x-%x", lo, hi)
	}
	seq := make(bseq, len(a))
	for i := range a {
		seq[i] = brange{a[i], b[i]}
	}
	*out = append(*out, seq)
}

func coqRanges(rs []brange) string {
	parts := make([]string, len(rs))
	for i, r := range rs {
		parts[i] = fmt.Sprintf("(%d,%d)", r.lo, r.hi)
	}
	return "[" + strings.Join(parts, ";") + "]"
}

// classToCoq turns a rune class (pairs lo,hi) into a byte-level regex.
func classToCoq(pairs []rune) string {
	var seqs []bseq
	hasFFFD := false
	for i := 0; i+1 < len(pairs); i += 2 {
		if pairs[i] <= 0xFFFD && pairs[i+1] >= 0xFFFD {
			hasFFFD = true
		}
		utf8Seqs(pairs[i], pairs[i+1], &seqs)
	}
	var ascii []brange
	var multi []string
	for _, s := range seqs {
		if len(s) == 1 {
			ascii = append(ascii, s[0])
			continue
		}
		t := ""
		for i := len(s) - 1; i >= 0; i-- {
			c := "RCls " + coqRanges([]brange{s[i]})
			if t == "" {
				t = c
			} else {
				t = "RCat (" + c + ") (" + t + ")"
			}
		}
		multi = append(multi, t)
	}
	var alts []string
	if len(ascii) > 0 {
		alts = append(alts, "RCls "+coqRanges(ascii))
	}
	alts = append(alts, multi...)
	if hasFFFD {
		// Go decodes an invalid byte as U+FFFD (width 1); tried after every valid sequence
		alts = append(alts, "RCls [(128,255)]")
	}
	if len(alts) == 0 {
		return "RFail"
	}
	t := alts[len(alts)-1]
	for i := len(alts) - 2; i >= 0; i-- {
		t = "RAlt (" + alts[i] + ") (" + t + ")"
	}
	return t
}

func foldOrbit(r rune) []rune {
	out := []rune{r}
	for f := unicode.SimpleFold(r); f != r; f = unicode.SimpleFold(f) {
		out = append(out, f)
	}
	sort.Slice(out, func(i, j int) bool { return out[i] < out[j] })
	return out
}

type rxCtx struct {
	name    string
	bounded bool // inside a bounded repeat
}

func reToCoq(r *syntax.Regexp, cx *rxCtx) string {
	switch r.Op {
	case syntax.OpNoMatch:
		return "RFail"
	case syntax.OpEmptyMatch:
		return "REps"
	case syntax.OpLiteral:
		t := ""
		for i := len(r.Rune) - 1; i >= 0; i-- {
			var c string
			if r.Flags&syntax.FoldCase != 0 {
				var pairs []rune
				for _, x := range foldOrbit(r.Rune[i]) {
					pairs = append(pairs, x, x)
				}
				c = classToCoq(pairs)
			} else {
				c = classToCoq([]rune{r.Rune[i], r.Rune[i]})
			}
			if t == "" {
				t = c
			} else {
				t = "RCat (" + c + ") (" + t + ")"
			}
		}
		if t == "" {
			return "REps"
		}
		return t
	case syntax.OpCharClass:
		return classToCoq(r.Rune)
	case syntax.OpAnyCharNotNL:
		return classToCoq([]rune{0, 9, 11, unicode.MaxRune})
	case syntax.OpAnyChar:
		return classToCoq([]rune{0, unicode.MaxRune})
	case syntax.OpBeginLine:
		return "RBol"
	case syntax.OpEndLine:
		return "REol"
	case syntax.OpBeginText:
		return "RBot"
	case syntax.OpEndText:
		return "REot"
	case syntax.OpWordBoundary:
		return "RWordB"
	case syntax.OpNoWordBoundary:
		return "RNoWordB"
	case syntax.OpCapture:
		return fmt.Sprintf("RGrp %d%%nat (%s)", r.Cap, reToCoq(r.Sub[0], cx))
	case syntax.OpStar, syntax.OpPlus, syntax.OpQuest, syntax.OpRepeat:
		mn, mx := 0, -1
		switch r.Op {
		case syntax.OpPlus:
			mn = 1
		case syntax.OpQuest:
			mx = 1
		case syntax.OpRepeat:
			mn, mx = r.Min, r.Max
		}
		mxs := "None"
		if mx >= 0 {
			mxs = fmt.Sprintf("(Some %d%%nat)", mx)
		}
		return fmt.Sprintf("RRep (%s) %d%%nat %s %s", reToCoq(r.Sub[0], cx), mn, mxs,
			coqBool(r.Flags&syntax.NonGreedy == 0))
	case syntax.OpConcat:
		t := ""
		for i := len(r.Sub) - 1; i >= 0; i-- {
			c := reToCoq(r.Sub[i], cx)
			if t == "" {
				t = c
			} else {
				t = "RCat (" + c + ") (" + t + ")"
			}
		}
		if t == "" {
			return "REps"
		}
		return t
	case syntax.OpAlternate:
		t := ""
		for i := len(r.Sub) - 1; i >= 0; i-- {
			c := reToCoq(r.Sub[i], cx)
			if t == "" {
				t = c
			} else {
				t = "RAlt (" + c + ") (" + t + ")"
			}
		}
		return t
	}
	die("regex %s: unsupported op %v", cx.name, r.Op)
	return ""
}

type rx struct {
	Name string `json:"name"`
	Src  string `json:"src"`
	coq  string
}

var regexes []rx
var rxSeen = map[string]bool{}

func addRegex(name, src string) string {
	if rxSeen[name] {
		return name
	}
	rxSeen[name] = true
	p, err := syntax.Parse(src, syntax.Perl)
	if err != nil {
		die("regex %s (%q) does not parse: %v", name, src, err)
	}
	regexes = append(regexes, rx{Name: name, Src: src, coq: reToCoq(p, &rxCtx{name: name})})
	return name
}

func ident(s string) string {
	var sb strings.Builder
	for _, c := range s {
		if unicode.IsLetter(c) || unicode.IsDigit(c) {
			sb.WriteRune(c)
		} else {
			sb.WriteRune('_')
		}
	}
	return sb.String()
}

// ------------------------------------------------------------------------------------------------
// platform YAML

type yLevel struct {
	Name           string   `yaml:"name"`
	Pattern        string   `yaml:"pattern"`
	NotContains    []string `yaml:"not-contains"`
	PreviousPriv   string   `yaml:"previous-priv"`
	Deescalate     string   `yaml:"deescalate"`
	Escalate       string   `yaml:"escalate"`
	EscalateAuth   bool     `yaml:"escalate-auth"`
	EscalatePrompt string   `yaml:"escalate-prompt"`
}

type yOpt struct {
	Option string      `yaml:"option"`
	Value  interface{} `yaml:"value"`
}

type yPlatform struct {
	DriverType     string                   `yaml:"driver-type"`
	FailedWhen     []string                 `yaml:"failed-when-contains"`
	OnOpen         []map[string]interface{} `yaml:"on-open"`
	OnClose        []map[string]interface{} `yaml:"on-close"`
	Levels         map[string]*yLevel       `yaml:"privilege-levels"`
	DefaultLevel   string                   `yaml:"default-desired-privilege-level"`
	NetworkOnOpen  []map[string]interface{} `yaml:"network-on-open"`
	NetworkOnClose []map[string]interface{} `yaml:"network-on-close"`
	Options        []*yOpt                  `yaml:"options"`
}

type yDef struct {
	PlatformType string                `yaml:"platform-type"`
	Default      *yPlatform            `yaml:"default"`
	Variants     map[string]*yPlatform `yaml:"variants"`
}

func optStr(m map[string]interface{}, k string) string {
	v, ok := m[k]
	if !ok {
		return "None"
	}
	s, ok := v.(string)
	if !ok {
		return "None"
	}
	return "(Some " + coqBytes(s) + ")"
}

func onxToCoq(ops []map[string]interface{}) string {
	if ops == nil {
		return "None"
	}
	parts := []string{}
	for _, op := range ops {
		t, ok := op["operation"].(string)
		if !ok {
			parts = append(parts, "OpBadType")
			continue
		}
		switch t {
		case "channel.write":
			r, _ := op["redacted"].(bool)
			parts = append(parts, fmt.Sprintf("OpWrite %s %s", optStr(op, "input"), coqBool(r)))
		case "channel.return":
			parts = append(parts, "OpReturn")
		case "acquire-priv":
			parts = append(parts, "OpAcquire "+optStr(op, "target"))
		case "driver.send-command":
			parts = append(parts, "OpSendCommand "+optStr(op, "command"))
		default:
			parts = append(parts, "OpUnknown "+coqBytes(t))
		}
	}
	return "(Some [" + strings.Join(parts, "; ") + "])"
}

func optValToCoq(v interface{}) string {
	switch x := v.(type) {
	case nil:
		return "VNull"
	case int:
		return fmt.Sprintf("VInt (%d)%%Z", x)
	case string:
		return "VStr " + coqBytes(x)
	case bool:
		return "VBool " + coqBool(x)
	case float64:
		return "VFloat " + coqBytes(strconv.FormatFloat(x, 'g', -1, 64))
	case []interface{}:
		parts := make([]string, len(x))
		for i, e := range x {
			parts[i] = optValToCoq(e)
		}
		return "VList [" + strings.Join(parts, "; ") + "]"
	}
	return "VNull"
}

func platformToCoq(file string, tag string, p *yPlatform) (string, string) {
	keys := make([]string, 0, len(p.Levels))
	for k := range p.Levels {
		keys = append(keys, k)
	}
	sort.Strings(keys)
	var lv []string
	var pats []string
	for _, k := range keys {
		l := p.Levels[k]
		if l == nil {
			l = &yLevel{}
		}
		pn := addRegex("pf_"+ident(file)+"_"+tag+"_"+ident(k), l.Pattern)
		ep := "REps"
		if l.EscalatePrompt != "" {
			ep = "rx_" + addRegex("pfesc_"+ident(file)+"_"+tag+"_"+ident(k), l.EscalatePrompt)
		}
		pats = append(pats, l.Pattern)
		lv = append(lv, fmt.Sprintf("(%s, mkLevel %s %s rx_%s %s %s %s %s %s %s %s)", coqBytes(k), coqBytes(l.Name),
			coqBytes(l.Pattern), pn, coqBytesList(l.NotContains), coqBytes(l.PreviousPriv), coqBytes(l.Deescalate),
			coqBytes(l.Escalate), coqBool(l.EscalateAuth), coqBytes(l.EscalatePrompt), ep))
	}
	joined := "RFail"
	if len(pats) > 0 {
		joined = "rx_" + addRegex("pfjoin_"+ident(file)+"_"+tag, strings.Join(pats, "|"))
	}
	var opts []string
	for _, o := range p.Options {
		if o == nil {
			continue
		}
		opts = append(opts, fmt.Sprintf("(%s, %s)", coqBytes(o.Option), optValToCoq(o.Value)))
	}
	s := fmt.Sprintf("mkPlatform %s %s %s %s\n      [%s]\n      %s %s %s [%s]", coqBytes(p.DriverType), coqBytesList(p.FailedWhen),
		onxToCoq(p.OnOpen), onxToCoq(p.OnClose), strings.Join(lv, ";\n       "), coqBytes(p.DefaultLevel),
		onxToCoq(p.NetworkOnOpen), onxToCoq(p.NetworkOnClose), strings.Join(opts, "; "))
	return s, joined
}

// samplePrompt draws a string from the language of a prompt pattern.  `pick(n)` makes the choices
// (alternation branch, class member preference); pick == nil means "first choice everywhere".
// The result is verified with Go's regexp by the caller and re-checked in Coq by the regex engine.
func samplePrompt(r *syntax.Regexp, sb *strings.Builder, pick func(n int) int) {
	ch := func(n int) int {
		if pick == nil || n <= 1 {
			return 0
		}
		return pick(n)
	}
	switch r.Op {
	case syntax.OpLiteral:
		for _, c := range r.Rune {
			if r.Flags&syntax.FoldCase != 0 {
				c = unicode.ToLower(c)
			}
			sb.WriteRune(c)
		}
	case syntax.OpCharClass:
		prefs := []rune{'a', 'r', '1', '-', '~', '#', '>', ' ', '%', '$', '*', '+'}
		var avail []rune
		for _, want := range prefs {
			for i := 0; i+1 < len(r.Rune); i += 2 {
				if r.Rune[i] <= want && want <= r.Rune[i+1] {
					avail = append(avail, want)
					break
				}
			}
		}
		if len(avail) == 0 && len(r.Rune) > 0 {
			avail = []rune{r.Rune[0]}
		}
		if len(avail) > 0 {
			sb.WriteRune(avail[ch(len(avail))])
		}
	case syntax.OpAnyCharNotNL, syntax.OpAnyChar:
		sb.WriteRune([]rune{'x', '~', ' '}[ch(3)])
	case syntax.OpCapture:
		samplePrompt(r.Sub[0], sb, pick)
	case syntax.OpStar, syntax.OpPlus, syntax.OpQuest, syntax.OpRepeat:
		n := 0
		switch r.Op {
		case syntax.OpPlus:
			n = 1 + ch(2)
		case syntax.OpRepeat:
			n = r.Min
			if n == 0 && r.Max > 1 {
				n = 1
			}
			if r.Max < 0 || r.Max > n {
				n += ch(2)
			}
		case syntax.OpStar:
			if r.Sub[0].Op == syntax.OpCharClass && len(r.Sub[0].Rune) > 4 {
				n = 1
			}
		}
		for i := 0; i < n; i++ {
			samplePrompt(r.Sub[0], sb, pick)
		}
	case syntax.OpConcat:
		for _, x := range r.Sub {
			samplePrompt(x, sb, pick)
		}
	case syntax.OpAlternate:
		samplePrompt(r.Sub[ch(len(r.Sub))], sb, pick)
	}
}

// ------------------------------------------------------------------------------------------------

type fpEntry struct {
	File string `json:"file"`
	Func string `json:"func"`
	Hash string `json:"hash"`
}

var modelled = [][2]string{
	{"channel/read.go", "getProcessReadBufSearchDepth"}, {"channel/read.go", "processReadBuf"},
	{"channel/read.go", "Channel.read"}, {"channel/read.go", "Channel.Read"},
	{"channel/read.go", "Channel.ReadUntilFuzzy"}, {"channel/read.go", "Channel.ReadUntilExplicit"},
	{"channel/read.go", "Channel.ReadUntilPrompt"}, {"channel/read.go", "Channel.ReadUntilAnyPrompt"},
	{"channel/channel.go", "Channel.Open"}, {"channel/channel.go", "Channel.Close"},
	{"channel/channel.go", "Channel.processOut"}, {"channel/channel.go", "Channel.GetTimeout"},
	{"channel/sendinput.go", "Channel.SendInputB"}, {"channel/sendinteractive.go", "Channel.sendInteractive"},
	{"channel/sendinteractive.go", "Channel.SendInteractive"}, {"channel/getprompt.go", "Channel.GetPrompt"},
	{"channel/write.go", "Channel.Write"}, {"channel/write.go", "Channel.WriteAndReturn"},
	{"channel/auth.go", "Channel.authenticateSSH"}, {"channel/auth.go", "Channel.authenticateTelnet"},
	{"channel/auth.go", "Channel.AuthenticateSSH"}, {"channel/auth.go", "Channel.AuthenticateTelnet"},
	{"channel/auth.go", "Channel.sshMessageHandler"},
	{"util/bytes.go", "BytesRoughlyContains"}, {"util/bytes.go", "bytesRoughlyContainsIterOutputForInputChar"},
	{"util/bytes.go", "StripANSI"}, {"util/strings.go", "StringContainsAnySubStrs"},
	{"util/queue.go", "Queue.Requeue"}, {"util/queue.go", "Queue.Enqueue"}, {"util/queue.go", "Queue.Dequeue"},
	{"util/queue.go", "Queue.DequeueAll"}, {"util/queue.go", "Queue.getDepth"}, {"util/queue.go", "Queue.GetDepth"},
	{"response/response.go", "Response.Record"}, {"response/multi.go", "MultiResponse.AppendResponse"},
	{"response/netconf.go", "NetconfResponse.Record"}, {"response/netconf.go", "NetconfResponse.record1dot0"},
	{"response/netconf.go", "NetconfResponse.record1dot1"}, {"response/netconf.go", "NetconfResponse.record1dot1Chunks"},
	{"driver/generic/sendcommand.go", "Driver.sendCommand"}, {"driver/generic/sendcommands.go", "Driver.SendCommands"},
	{"driver/generic/sendwithcallbacks.go", "Callback.check"}, {"driver/generic/sendwithcallbacks.go", "Driver.executeCallback"},
	{"driver/generic/sendwithcallbacks.go", "Driver.handleCallbacks"}, {"driver/generic/sendwithcallbacks.go", "Driver.SendWithCallbacks"},
	{"driver/network/acquirepriv.go", "Driver.buildPrivChangeMap"}, {"driver/network/acquirepriv.go", "Driver.determineCurrentPriv"},
	{"driver/network/acquirepriv.go", "Driver.processAcquirePriv"}, {"driver/network/acquirepriv.go", "Driver.escalate"},
	{"driver/network/acquirepriv.go", "Driver.deescalate"}, {"driver/network/acquirepriv.go", "Driver.AcquirePriv"},
	{"driver/network/privilege.go", "Driver.buildPrivGraph"}, {"driver/network/privilege.go", "Driver.buildJoinedPromptPattern"},
	{"driver/network/sendcommand.go", "Driver.SendCommand"}, {"driver/network/sendcommands.go", "Driver.SendCommands"},
	{"driver/network/sendconfigs.go", "Driver.SendConfigs"}, {"driver/network/sendconfig.go", "Driver.SendConfig"},
	{"driver/network/sendinteractive.go", "Driver.SendInteractive"},
	{"driver/netconf/read.go", "Driver.read"}, {"driver/netconf/read.go", "getID"},
	{"driver/netconf/rpc.go", "Driver.sendRPC"}, {"driver/netconf/message.go", "message.serialize"},
	{"driver/netconf/message.go", "ForceSelfClosingTags"},
	{"driver/netconf/capabilities.go", "Driver.getServerCapabilities"}, {"driver/netconf/capabilities.go", "Driver.processServerCapabilities"},
	{"driver/netconf/capabilities.go", "Driver.determineVersion"}, {"driver/netconf/capabilities.go", "Driver.sendClientCapabilities"},
	{"driver/netconf/driver.go", "Driver.Open"}, {"driver/netconf/driver.go", "Driver.Close"},
	{"driver/netconf/driver.go", "Driver.buildPayload"}, {"driver/netconf/driver.go", "Driver.storeMessage"},
	{"driver/netconf/driver.go", "Driver.getMessage"}, {"driver/netconf/driver.go", "NewDriver"},
	{"transport/telnet.go", "Telnet.handleControlCharResponse"}, {"transport/telnet.go", "Telnet.handleControlChars"},
	{"transport/telnet.go", "Telnet.Read"}, {"transport/system.go", "System.buildOpenArgs"},
	{"transport/system.go", "System.Read"}, {"transport/standard.go", "Standard.openBase"}, {"transport/standard.go", "Standard.Read"},
	{"transport/transport.go", "Transport.Close"}, {"transport/transport.go", "Transport.read"},
	{"transport/transport.go", "Transport.InChannelAuthData"},
	{"platform/definition.go", "GetPlatformNames"}, {"platform/definition.go", "Platform.mergeVariant"},
	{"platform/definition.go", "Platform.AsOptions"}, {"platform/options.go", "optionDefinitions.asOptions"},
	{"platform/onx.go", "onXDefinitions.asGenericOnX"}, {"platform/onx.go", "onXDefinitions.asNetworkOnX"},
	{"platform/onx.go", "channelWrite"},
}

func main() {
	out := flag.String("out", "", "Generated.v path")
	inv := flag.String("inv", "", "inventory json path")
	flag.StringVar(&repo, "repo", "/repo", "repository root")
	flag.Parse()
	var w bytes.Buffer
	p := func(f string, a ...interface{}) { fmt.Fprintf(&w, f+"\n", a...) }
	p("(* Generated.v — REGENERATED FROM /repo ON EVERY RUN by /verif/gen. Do not edit. *)")
	p("From Scrapli Require Import Bytes Regex PlatformTypes.")
	p("Open Scope N_scope.")
	p("")
	natC := func(coq, rel, name string) {
		v := constOf(rel, name)
		if v.kind != "int" {
			die("%s in %s is not an integer", name, rel)
		}
		p("Definition %s : nat := %d%%nat.", coq, v.i)
	}
	nC := func(coq, rel, name string) {
		v := constOf(rel, name)
		if v.kind != "int" {
			die("%s in %s is not an integer", name, rel)
		}
		p("Definition %s : N := %d.", coq, v.i)
	}
	zC := func(coq, rel, name string) {
		v := constOf(rel, name)
		p("Definition %s : Z := (%d)%%Z.", coq, v.i)
	}
	sC := func(coq, rel, name string) {
		v := constOf(rel, name)
		if v.kind != "string" {
			die("%s in %s is not a string", name, rel)
		}
		p("Definition %s : bytes := %s.", coq, coqBytes(v.s))
	}
	bC := func(coq, rel, name string) {
		v := constOf(rel, name)
		p("Definition %s : bool := %s.", coq, coqBool(v.b))
	}
	// ---- channel
	nC("default_timeout_ops_seconds", "channel/channel.go", "DefaultTimeoutOpsSeconds")
	nC("default_read_delay_us", "channel/channel.go", "DefaultReadDelayMicroSeconds")
	sC("default_return_char", "channel/channel.go", "DefaultReturnChar")
	natC("default_prompt_search_depth", "channel/channel.go", "DefaultPromptSearchDepth")
	sC("redacted", "channel/channel.go", "redacted")
	nC("read_delay_divisor", "channel/channel.go", "readDelayDivisor")
	natC("input_search_depth_multiplier", "channel/read.go", "inputSearchDepthMultiplier")
	natC("username_seen_max", "channel/auth.go", "usernameSeenMax")
	natC("password_seen_max", "channel/auth.go", "passwordSeenMax")
	natC("passphrase_seen_max", "channel/auth.go", "passphraseSeenMax")
	bC("default_strip_prompt", "channel/operation.go", "defaultStripPrompt")
	bC("default_eager", "channel/operation.go", "defaultEager")
	bC("default_exact", "channel/operation.go", "defaultExact")
	zC("default_op_timeout", "channel/operation.go", "defaultTimeout")
	nC("max_timeout_seconds", "util/constants.go", "MaxTimeout")
	pp := callStringArgs("channel/channel.go", "getPromptPattern", "regexp.MustCompile")
	if len(pp) != 1 {
		die("getPromptPattern: expected one MustCompile")
	}
	addRegex("prompt_pattern", pp[0])
	ap := keyedRegexes("channel/auth.go", "getAuthPatterns")
	for _, k := range []string{"username", "password", "passphrase"} {
		if _, ok := ap[k]; !ok {
			die("auth pattern %s missing", k)
		}
		addRegex(k+"_pattern", ap[k])
	}
	ep := keyedRegexes("channel/auth.go", "getSSHErrorMessagePatterns")
	for _, k := range []string{"offeredOptions", "badConfig"} {
		if _, ok := ep[k]; !ok {
			die("ssh error pattern %s missing", k)
		}
		addRegex("ssh_"+k, ep[k])
	}
	p("Definition ssh_error_literals : list bytes := %s.", coqBytesList(stringLits("channel/auth.go", "Channel.sshMessageHandler")))
	// the top-level switch of sshMessageHandler: per case clause the literals tested with
	// bytes.Contains (in order), whether the clause contains a nested switch (whose literals follow)
	{
		fd := funcDecl("channel/auth.go", "Channel.sshMessageHandler")
		var clauses []string
		found := false
		ast.Inspect(fd, func(n ast.Node) bool {
			sw, ok := n.(*ast.SwitchStmt)
			if !ok || found {
				return !found
			}
			found = true
			for _, st := range sw.Body.List {
				cc := st.(*ast.CaseClause)
				var lits []string
				for _, e := range cc.List {
					ast.Inspect(e, func(m ast.Node) bool {
						if bl, ok := m.(*ast.BasicLit); ok && bl.Kind == token.STRING {
							s, _ := strconv.Unquote(bl.Value)
							lits = append(lits, s)
						}
						return true
					})
				}
				var nested []string
				hasNested := false
				for _, b := range cc.Body {
					ast.Inspect(b, func(m ast.Node) bool {
						if isw, ok := m.(*ast.SwitchStmt); ok {
							hasNested = true
							for _, ist := range isw.Body.List {
								for _, e := range ist.(*ast.CaseClause).List {
									ast.Inspect(e, func(q ast.Node) bool {
										if bl, ok := q.(*ast.BasicLit); ok && bl.Kind == token.STRING {
											s, _ := strconv.Unquote(bl.Value)
											nested = append(nested, s)
										}
										return true
									})
								}
							}
							return false
						}
						return true
					})
				}
				clauses = append(clauses, fmt.Sprintf("(%s, %s, %s)", coqBytesList(lits), coqBool(hasNested), coqBytesList(nested)))
			}
			return false
		})
		if len(clauses) == 0 {
			die("sshMessageHandler: switch not found")
		}
		p("Definition ssh_error_cases : list (list bytes * bool * list bytes) := [%s].", strings.Join(clauses, "; "))
	}
	addRegex("ansi_pattern", constOf("util/bytes.go", "ansi").s)
	// ---- response / netconf
	sC("nc_v1dot0_delim", "response/netconf.go", "v1Dot0Delim")
	sC("nc_xml_header", "response/netconf.go", "xmlHeader")
	natC("nc_max_chunk_size_char_len", "response/netconf.go", "maxChunkSizeCharLen")
	lits := keyedStringLits("response/netconf.go", "NewNetconfResponse", "FailedWhenContains")
	if len(lits) == 0 {
		die("NewNetconfResponse: FailedWhenContains literal list not found")
	}
	p("Definition nc_failed_markers : list bytes := %s.", coqBytesList(lits))
	rp := keyedRegexes("response/netconf.go", "getNetconfPatterns")
	for _, k := range []string{"rpcErrors", "rpcSingleErrors"} {
		if _, ok := rp[k]; !ok {
			die("response netconf pattern %s missing", k)
		}
		addRegex("nc_"+k, rp[k])
	}
	sC("ncd_v1dot0_delim_src", "driver/netconf/driver.go", "v1Dot0Delim")
	sC("ncd_v1dot1_delim_src", "driver/netconf/driver.go", "v1Dot1Delim")
	sC("ncd_v1dot0_cap", "driver/netconf/driver.go", "v1Dot0Cap")
	sC("ncd_v1dot1_cap", "driver/netconf/driver.go", "v1Dot1Cap")
	sC("ncd_v1dot0_caps", "driver/netconf/driver.go", "v1Dot0Caps")
	sC("ncd_v1dot1_caps", "driver/netconf/driver.go", "v1Dot1Caps")
	sC("ncd_V1Dot0", "driver/netconf/driver.go", "V1Dot0")
	sC("ncd_V1Dot1", "driver/netconf/driver.go", "V1Dot1")
	sC("ncd_xml_header", "driver/netconf/driver.go", "xmlHeader")
	sC("ncd_default_namespace", "driver/netconf/driver.go", "defaultNamespace")
	nC("ncd_initial_message_id", "driver/netconf/driver.go", "initialMessageID")
	for _, kv := range [][2]string{{"v1Dot0Delim", "v1Dot0Delim"}, {"v1Dot1Delim", "v1Dot1Delim"}, {"hello", "helloPattern"},
		{"capability", "capabilityPattern"}, {"messageID", "messageIDPattern"}, {"subscriptionID", "subscriptionIDPattern"},
		{"emptyTags", "emptyTagPattern"}, {"sessionID", "sessionID"}} {
		addRegex("ncd_"+kv[0], constOf("driver/netconf/driver.go", kv[1]).s)
	}
	bp := stringLits("driver/netconf/driver.go", "Driver.buildPayload")
	if len(bp) != 1 {
		die("buildPayload: expected one string literal (the base namespace)")
	}
	p("Definition ncd_base_namespace : bytes := %s.", coqBytes(bp[0]))
	sC("ncd_filter_subtree", "driver/netconf/elements.go", "FilterSubtree")
	sC("ncd_filter_xpath", "driver/netconf/elements.go", "FilterXpath")
	p("Definition ncd_defaults_types : list bytes := %s.", coqBytesList([]string{
		constOf("driver/netconf/elements.go", "reportAll").s, constOf("driver/netconf/elements.go", "reportAllTagged").s,
		constOf("driver/netconf/elements.go", "trim").s, constOf("driver/netconf/elements.go", "explicit").s}))
	sC("ncd_default_filter_type", "driver/netconf/operation.go", "defaultFilterType")
	p("Definition ncd_serialize_literals : list bytes := %s.", coqBytesList(stringLits("driver/netconf/message.go", "message.serialize")))
	// ---- telnet
	for _, n := range []string{"iac", "dont", "do", "wont", "will", "sga"} {
		nC("telnet_"+n, "transport/telnet.go", n)
	}
	nC("telnet_ctrl_timeout_divisor", "transport/telnet.go", "controlCharSocketTimeoutDivisor")
	// ---- transport defaults
	nC("tr_default_port", "transport/transport.go", "defaultPort")
	nC("tr_default_timeout_socket_seconds", "transport/transport.go", "defaultTimeoutSocketSeconds")
	nC("tr_default_read_size", "transport/transport.go", "defaultReadSize")
	nC("tr_default_term_height", "transport/transport.go", "defaultTermHeight")
	nC("tr_default_term_width", "transport/transport.go", "defaultTermWidth")
	bC("tr_default_ssh_strict_key", "transport/transport.go", "defaultSSHStrictKey")
	sC("tr_default_transport", "transport/transport.go", "DefaultTransport")
	sC("tr_default_open_bin", "transport/system.go", "defaultOpenBin")
	p("Definition sys_open_args_literals : list bytes := %s.", coqBytesList(stringLits("transport/system.go", "System.buildOpenArgs")))
	p("Definition sys_open_netconf_literals : list bytes := %s.", coqBytesList(stringLits("transport/system.go", "System.openNetconf")))
	// ---- network
	sC("net_default_configuration_priv", "driver/network/sendconfigs.go", "defaultConfigurationPrivLevel")
	sC("net_unknown_priv", "driver/network/acquirepriv.go", "unknownPriv")
	// ---- harness-support patterns (not from the source): prompts of synthetic privilege trees
	for k := 0; k < 9; k++ {
		addRegex(fmt.Sprintf("verif_lvl_%d", k), fmt.Sprintf(`(?im)^[a-z0-9.\-@/:]{1,32}\(l%d\)[#>]$`, k))
	}
	// a pattern that matches every synthetic level prompt: a level that uses it is told apart from the
	// others by its not-contains list only
	addRegex("verif_lvl_any", `(?im)^[a-z0-9.\-@/:]{1,32}\(l\d\)[#>]$`)
	// ---- mergeVariant: the statement list of Platform.mergeVariant as (guard field, assigned field,
	// source field) triples: `if <test on v.G> { p.A = v.S }`.  Anything else in the body is emitted
	// as the triple ("?","?","?") so that the structure theorem fails rather than ignoring it.
	{
		mv := funcDecl("platform/definition.go", "Platform.mergeVariant")
		if mv == nil {
			die("Platform.mergeVariant missing")
		}
		recv, arg := "p", "v"
		if mv.Recv != nil && len(mv.Recv.List) == 1 && len(mv.Recv.List[0].Names) == 1 {
			recv = mv.Recv.List[0].Names[0].Name
		}
		if mv.Type.Params != nil && len(mv.Type.Params.List) == 1 && len(mv.Type.Params.List[0].Names) == 1 {
			arg = mv.Type.Params.List[0].Names[0].Name
		}
		selOf := func(e ast.Expr, base string) string {
			// the field F of `base.F`, looking through len(...) and comparisons
			var f string
			ast.Inspect(e, func(n ast.Node) bool {
				if se, ok := n.(*ast.SelectorExpr); ok {
					if id, ok := se.X.(*ast.Ident); ok && id.Name == base && f == "" {
						f = se.Sel.Name
					}
				}
				return true
			})
			return f
		}
		var triples []string
		for _, st := range mv.Body.List {
			g, a, src := "?", "?", "?"
			if is, ok := st.(*ast.IfStmt); ok && is.Init == nil && is.Else == nil && len(is.Body.List) == 1 {
				if as, ok := is.Body.List[0].(*ast.AssignStmt); ok && len(as.Lhs) == 1 && len(as.Rhs) == 1 && as.Tok == token.ASSIGN {
					if x := selOf(is.Cond, arg); x != "" {
						g = x
					}
					if l, ok := as.Lhs[0].(*ast.SelectorExpr); ok {
						if id, ok := l.X.(*ast.Ident); ok && id.Name == recv {
							a = l.Sel.Name
						}
					}
					if r, ok := as.Rhs[0].(*ast.SelectorExpr); ok {
						if id, ok := r.X.(*ast.Ident); ok && id.Name == arg {
							src = r.Sel.Name
						}
					}
				}
			}
			triples = append(triples, fmt.Sprintf("(%s, %s, %s)", coqBytes(g), coqBytes(a), coqBytes(src)))
		}
		p("Definition merge_variant_clauses : list (bytes * bytes * bytes) := [%s].", strings.Join(triples, "; "))
	}
	// ---- platform names
	g := load("platform/definition.go")
	fd := funcDecl("platform/definition.go", "GetPlatformNames")
	if fd == nil {
		die("GetPlatformNames missing")
	}
	var names []string
	ast.Inspect(fd, func(n ast.Node) bool {
		cl, ok := n.(*ast.CompositeLit)
		if !ok {
			return true
		}
		for _, e := range cl.Elts {
			names = append(names, g.eval(e).s)
		}
		return false
	})
	p("Definition advertised_platforms : list bytes := %s.", coqBytesList(names))
	var optNames []string
	for name := range load("platform/options.go").consts() {
		optNames = append(optNames, name)
	}
	sort.Strings(optNames)
	var optVals []string
	for _, n := range optNames {
		optVals = append(optVals, constOf("platform/options.go", n).s)
	}
	p("Definition platform_option_names : list bytes := %s.", coqBytesList(optVals))
	// ---- option constructor inventory
	var ctorNames []string
	ctorFile := map[string]string{}
	matches, _ := filepath.Glob(filepath.Join(repo, "driver/options/*.go"))
	sort.Strings(matches)
	for _, m := range matches {
		if strings.HasSuffix(m, "_test.go") {
			continue
		}
		rel, _ := filepath.Rel(repo, m)
		for _, d := range load(rel).f.Decls {
			if f, ok := d.(*ast.FuncDecl); ok && f.Recv == nil && strings.HasPrefix(f.Name.Name, "With") {
				ctorNames = append(ctorNames, f.Name.Name)
				ctorFile[f.Name.Name] = rel
			}
		}
	}
	p("Definition option_constructors : list bytes := %s.", coqBytesList(ctorNames))
	// ---- platforms
	files, _ := filepath.Glob(filepath.Join(repo, "assets/platforms/*.yaml"))
	sort.Strings(files)
	var fileNames []string
	var pdefs []string
	var promptTbl []string
	promptsJSON := map[string]map[string]string{}
	for _, f := range files {
		base := strings.TrimSuffix(filepath.Base(f), ".yaml")
		fileNames = append(fileNames, base)
		raw, err := os.ReadFile(f)
		if err != nil {
			die("%v", err)
		}
		var d yDef
		if err := yaml.Unmarshal(raw, &d); err != nil {
			die("yaml %s: %v", f, err)
		}
		if d.Default == nil {
			d.Default = &yPlatform{}
		}
		// canonical prompts of the default definition's levels
		{
			keys := make([]string, 0, len(d.Default.Levels))
			for k := range d.Default.Levels {
				keys = append(keys, k)
			}
			sort.Strings(keys)
			var entries []string
			promptsJSON[base] = map[string]string{}
			for _, k := range keys {
				l := d.Default.Levels[k]
				if l == nil {
					continue
				}
				pr, err := syntax.Parse(l.Pattern, syntax.Perl)
				if err != nil {
					die("platform %s level %s: pattern does not parse: %v", base, k, err)
				}
				re, err := regexp.Compile(l.Pattern)
				if err != nil {
					die("platform %s level %s: pattern does not compile: %v", base, k, err)
				}
				// candidates: the first-choice sample plus pseudo-random ones; keep the one that the
				// fewest OTHER levels also accept (a witness that identifies the level when one exists)
				best, bestScore := "", 1<<30
				for seed := 0; seed < 96; seed++ {
					var pick func(n int) int
					if seed > 0 {
						st := uint32(seed)*2654435761 + 12345
						pick = func(n int) int {
							st = st*1664525 + 1013904223
							return int((st >> 16) % uint32(n))
						}
					}
					var sb strings.Builder
					samplePrompt(pr, &sb, pick)
					cand := sb.String()
					if !re.MatchString(cand) || strings.ContainsAny(cand, "\r") {
						continue
					}
					bad := false
					for _, nc := range l.NotContains {
						if strings.Contains(cand, nc) {
							bad = true
						}
					}
					if bad {
						continue
					}
					score := 0
					for k2, l2 := range d.Default.Levels {
						if k2 == k || l2 == nil {
							continue
						}
						r2, e2 := regexp.Compile(l2.Pattern)
						if e2 != nil || !r2.MatchString(cand) {
							continue
						}
						hit := false
						for _, nc := range l2.NotContains {
							if strings.Contains(cand, nc) {
								hit = true
							}
						}
						if !hit {
							score++
						}
					}
					if score < bestScore || (score == bestScore && (len(cand) < len(best) || (len(cand) == len(best) && cand < best))) {
						best, bestScore = cand, score
					}
				}
				if bestScore == 1<<30 {
					die("platform %s level %s: could not derive a canonical prompt from %q", base, k, l.Pattern)
				}
				cand := best
				entries = append(entries, fmt.Sprintf("(%s, %s)", coqBytes(k), coqBytes(cand)))
				promptsJSON[base][k] = cand
			}
			promptTbl = append(promptTbl, fmt.Sprintf("(%s, [%s])", coqBytes(base), strings.Join(entries, "; ")))
		}
		ds, dj := platformToCoq(base, "default", d.Default)
		vkeys := make([]string, 0, len(d.Variants))
		for k := range d.Variants {
			vkeys = append(vkeys, k)
		}
		sort.Strings(vkeys)
		var vs []string
		for _, k := range vkeys {
			v := d.Variants[k]
			if v == nil {
				v = &yPlatform{}
			}
			s, _ := platformToCoq(base, "var_"+ident(k), v)
			vs = append(vs, fmt.Sprintf("(%s, %s)", coqBytes(k), s))
		}
		pdefs = append(pdefs, fmt.Sprintf("  mkPlatformDef %s %s\n     (%s)\n     [%s] (%s)", coqBytes(base), coqBytes(d.PlatformType), ds, strings.Join(vs, ";\n"), dj))
	}
	p("Definition embedded_platform_files : list bytes := %s.", coqBytesList(fileNames))
	// regexes first (platforms reference them)
	var rb bytes.Buffer
	for _, r := range regexes {
		fmt.Fprintf(&rb, "Definition rx_%s_src : bytes := %s.\n", r.Name, coqBytes(r.Src))
		fmt.Fprintf(&rb, "Definition rx_%s : re :=\n  %s.\n", r.Name, r.coq)
	}
	p("%s", rb.String())
	var tbl []string
	for _, r := range regexes {
		tbl = append(tbl, fmt.Sprintf("(%s, rx_%s)", coqBytes(r.Name), r.Name))
	}
	p("Definition regex_table : list (bytes * re) :=\n  [%s].", strings.Join(tbl, ";\n   "))
	p("Definition platform_defs : list platform_def := [\n%s].", strings.Join(pdefs, ";\n"))
	p("Definition platform_prompts : list (bytes * list (bytes * bytes)) := [\n  %s].", strings.Join(promptTbl, ";\n  "))
	// fingerprints
	var fps []fpEntry
	for _, m := range modelled {
		fps = append(fps, fpEntry{m[0], m[1], fingerprint(m[0], m[1])})
	}
	// write-if-changed
	old, _ := os.ReadFile(*out)
	if !bytes.Equal(old, w.Bytes()) {
		if err := os.WriteFile(*out, w.Bytes(), 0o644); err != nil {
			die("%v", err)
		}
		fmt.Println("Generated.v rewritten")
	} else {
		fmt.Println("Generated.v unchanged")
	}
	// synchronisation skeletons of the shutdown protocol (C07): a file of their own, next to
	// Generated.v, so that a change there does not rebuild the whole development
	{
		var sw bytes.Buffer
		fmt.Fprintf(&sw, "(* GeneratedSkel.v — REGENERATED FROM /repo ON EVERY RUN by /verif/gen (gen/skel.go). Do not edit. *)\n")
		fmt.Fprintf(&sw, "From Scrapli Require Import Bytes.\nFrom Coq Require Import List.\nImport ListNotations.\n\n")
		var ents []string
		for _, sf := range skeletonFuncs {
			var ts []string
			for _, t := range skeletonOf(sf[1], sf[2]) {
				if strings.ContainsAny(t, "\"\\") {
					die("skeleton token with a quote: %s", t)
				}
				ts = append(ts, "bs \""+t+"\"")
			}
			ents = append(ents, fmt.Sprintf("  (* %s %s *)\n  (bs \"%s\",\n   [%s])", sf[1], sf[2], sf[0], strings.Join(ts, ";\n    ")))
		}
		fmt.Fprintf(&sw, "Definition sync_skeleton : list (bytes * list bytes) := [\n%s].\n", strings.Join(ents, ";\n"))
		var oents []string
		for _, sf := range openFuncs {
			var ts []string
			for _, t := range skeletonOfD(sf[1], sf[2], true) {
				if strings.ContainsAny(t, "\"\\") {
					die("skeleton token with a quote: %s", t)
				}
				ts = append(ts, "bs \""+t+"\"")
			}
			oents = append(oents, fmt.Sprintf("  (* %s %s *)\n  (bs \"%s\",\n   [%s])", sf[1], sf[2], sf[0], strings.Join(ts, ";\n    ")))
		}
		fmt.Fprintf(&sw, "\n(* the Open functions (C10: the transport is closed in every failure case) *)\nDefinition open_skeleton : list (bytes * list bytes) := [\n%s].\n", strings.Join(oents, ";\n"))
		// decision functions, statement by statement (gen/decide.go; interpreted by Decide.v)
		fmt.Fprintf(&sw, "\nFrom Scrapli Require Import DecideLang.\nFrom Coq Require Import String.\nOpen Scope string_scope.\n")
		fmt.Fprintf(&sw, "(* driver/netconf/capabilities.go Driver.determineVersion *)\nDefinition determine_version_code : list dstmt :=\n  %s.\n",
			decisionFunc("driver/netconf/capabilities.go", "Driver.determineVersion", "getNetconfPatterns"))
		fmt.Fprintf(&sw, "(* channel/channel.go Channel.GetTimeout *)\nDefinition get_timeout_code : list dstmt :=\n  %s.\n",
			decisionFunc("channel/channel.go", "Channel.GetTimeout"))
		fmt.Fprintf(&sw, "(* driver/generic/sendwithcallbacks.go Callback.check *)\nDefinition callback_check_code : list dstmt :=\n  %s.\n",
			decisionFunc("driver/generic/sendwithcallbacks.go", "Callback.check"))
		fmt.Fprintf(&sw, "(* transport/telnet.go Telnet.handleControlCharResponse *)\nDefinition telnet_handle_code : list dstmt :=\n  %s.\n",
			decisionFunc("transport/telnet.go", "Telnet.handleControlCharResponse"))
		fmt.Fprintf(&sw, "(* transport/standard.go Standard.openBase *)\nDefinition standard_open_base_code : list dstmt :=\n  %s.\n",
			decisionFunc("transport/standard.go", "Standard.openBase"))
		fmt.Fprintf(&sw, "(* driver/network/acquirepriv.go Driver.processAcquirePriv *)\nDefinition process_acquire_priv_code : list dstmt :=\n  %s.\n",
			decisionFunc("driver/network/acquirepriv.go", "Driver.processAcquirePriv"))
		fmt.Fprintf(&sw, "(* util/strings.go StringContainsAnySubStrs *)\nDefinition string_contains_any_code : list dstmt :=\n  %s.\n",
			decisionFunc("util/strings.go", "StringContainsAnySubStrs"))
		fmt.Fprintf(&sw, "(* response/response.go Response.Record *)\nDefinition response_record_code : list dstmt :=\n  %s.\n",
			decisionFunc("response/response.go", "Response.Record"))
		fmt.Fprintf(&sw, "(* driver/generic/sendcommands.go Driver.SendCommands *)\nDefinition send_commands_code : list dstmt :=\n  %s.\n",
			decisionFunc("driver/generic/sendcommands.go", "Driver.SendCommands"))
		fmt.Fprintf(&sw, "(* response/multi.go MultiResponse.AppendResponse *)\nDefinition append_response_code : list dstmt :=\n  %s.\n",
			decisionFunc("response/multi.go", "MultiResponse.AppendResponse"))
		fmt.Fprintf(&sw, "(* driver/generic/sendcommand.go Driver.sendCommand *)\nDefinition send_command_code : list dstmt :=\n  %s.\n",
			decisionFunc("driver/generic/sendcommand.go", "Driver.sendCommand"))
		fmt.Fprintf(&sw, "(* driver/network/sendconfig.go Driver.SendConfig *)\nDefinition send_config_code : list dstmt :=\n  %s.\n",
			decisionFunc("driver/network/sendconfig.go", "Driver.SendConfig"))
		// driver/options/*.go (C19): the closure every option constructor returns, statement by statement
		var oc []string
		for _, n := range ctorNames {
			oc = append(oc, fmt.Sprintf("  (%s,\n   %s)", q(n), optionClosure(ctorFile[n], n)))
		}
		fmt.Fprintf(&sw, "(* driver/options/*.go (C19): the closures *)\nDefinition option_code : list (string * list dstmt) := [\n%s].\n", strings.Join(oc, ";\n"))
		fmt.Fprintf(&sw, "(* driver/network/acquirepriv.go Driver.determineCurrentPriv *)\nDefinition determine_current_priv_code : list dstmt :=\n  %s.\n",
			decisionFunc("driver/network/acquirepriv.go", "Driver.determineCurrentPriv"))
		fmt.Fprintf(&sw, "(* channel/read.go getProcessReadBufSearchDepth *)\nDefinition search_depth_code : list dstmt :=\n  %s.\n",
			decisionFunc("channel/read.go", "getProcessReadBufSearchDepth"))
		fmt.Fprintf(&sw, "(* channel/read.go processReadBuf *)\nDefinition process_read_buf_code : list dstmt :=\n  %s.\n",
			decisionFunc("channel/read.go", "processReadBuf"))
		fmt.Fprintf(&sw, "(* driver/netconf/message.go message.serialize, its parameters, and the arguments of its one call in Driver.sendRPC *)\nDefinition serialize_code : list dstmt :=\n  %s.\nDefinition serialize_params : list string := %s.\nDefinition serialize_call_args : list string := %s.\n",
			decisionFunc("driver/netconf/message.go", "message.serialize"),
			coqStrList(paramNames("driver/netconf/message.go", "message.serialize")),
			coqStrList(callArgs("driver/netconf/rpc.go", "Driver.sendRPC", "serialize")))
		fmt.Fprintf(&sw, "(* driver/netconf/capabilities.go Driver.ServerHasCapability *)\nDefinition server_has_capability_code : list dstmt :=\n  %s.\n",
			decisionFunc("driver/netconf/capabilities.go", "Driver.ServerHasCapability"))
		fmt.Fprintf(&sw, "(* channel/sendinteractive.go Channel.sendInteractive *)\nDefinition send_interactive_code : list dstmt :=\n  %s.\n",
			decisionFunc("channel/sendinteractive.go", "Channel.sendInteractive"))
		fmt.Fprintf(&sw, "(* channel/sendinput.go Channel.SendInputB *)\nDefinition send_input_code : list dstmt :=\n  %s.\n",
			decisionFunc("channel/sendinput.go", "Channel.SendInputB"))
		fmt.Fprintf(&sw, "(* driver/generic/sendwithcallbacks.go Driver.executeCallback *)\nDefinition execute_callback_code : list dstmt :=\n  %s.\n",
			decisionFunc("driver/generic/sendwithcallbacks.go", "Driver.executeCallback"))
		fmt.Fprintf(&sw, "(* driver/generic/sendwithcallbacks.go Driver.handleCallbacks: the scan over the callbacks *)\nDefinition callback_scan_code : dstmt :=\n  %s.\n",
			nestedRange("driver/generic/sendwithcallbacks.go", "Driver.handleCallbacks", "callbacks"))
		fmt.Fprintf(&sw, "(* driver/network: SendCommand, SendCommands, SendConfigs *)\nDefinition net_send_command_code : list dstmt :=\n  %s.\nDefinition net_send_commands_code : list dstmt :=\n  %s.\nDefinition net_send_configs_code : list dstmt :=\n  %s.\n",
			decisionFunc("driver/network/sendcommand.go", "Driver.SendCommand"),
			decisionFunc("driver/network/sendcommands.go", "Driver.SendCommands"),
			decisionFunc("driver/network/sendconfigs.go", "Driver.SendConfigs"))
		fmt.Fprintf(&sw, "(* driver/network/acquirepriv.go Driver.AcquirePriv *)\nDefinition acquire_priv_code : list dstmt :=\n  %s.\n",
			decisionFunc("driver/network/acquirepriv.go", "Driver.AcquirePriv"))
		fmt.Fprintf(&sw, "(* driver/network/acquirepriv.go Driver.escalate, Driver.deescalate *)\nDefinition escalate_code : list dstmt :=\n  %s.\nDefinition deescalate_code : list dstmt :=\n  %s.\n",
			decisionFunc("driver/network/acquirepriv.go", "Driver.escalate"), decisionFunc("driver/network/acquirepriv.go", "Driver.deescalate"))
		fmt.Fprintf(&sw, "(* channel/auth.go Channel.authenticateSSH, Channel.authenticateTelnet *)\nDefinition auth_ssh_code : list dstmt :=\n  %s.\nDefinition auth_telnet_code : list dstmt :=\n  %s.\n",
			decisionFunc("channel/auth.go", "Channel.authenticateSSH"), decisionFunc("channel/auth.go", "Channel.authenticateTelnet"))
		fmt.Fprintf(&sw, "(* driver/netconf/driver.go Driver.storeMessage, Driver.getMessage *)\nDefinition store_message_code : list dstmt :=\n  %s.\nDefinition get_message_code : list dstmt :=\n  %s.\n",
			decisionFunc("driver/netconf/driver.go", "Driver.storeMessage"), decisionFunc("driver/netconf/driver.go", "Driver.getMessage"))
		fmt.Fprintf(&sw, "(* driver/netconf/rpc.go Driver.sendRPC (the polling goroutine as one effect) *)\nDefinition send_rpc_code : list dstmt :=\n  %s.\n",
			decisionFunc("driver/netconf/rpc.go", "Driver.sendRPC", "@opaque-go"))
		fmt.Fprintf(&sw, "(* channel/channel.go Channel.Open *)\nDefinition channel_open_code : list dstmt :=\n  %s.\n",
			decisionFunc("channel/channel.go", "Channel.Open"))
		fmt.Fprintf(&sw, "(* channel/channel.go Channel.processOut *)\nDefinition process_out_code : list dstmt :=\n  %s.\n",
			decisionFunc("channel/channel.go", "Channel.processOut"))
		fmt.Fprintf(&sw, "(* driver/netconf: buildFilterElem, buildDefaultsElem, buildGetElem, buildGetConfigElem *)\nDefinition nc_filter_elem_code : list dstmt :=\n  %s.\nDefinition nc_defaults_elem_code : list dstmt :=\n  %s.\nDefinition nc_get_elem_code : list dstmt :=\n  %s.\nDefinition nc_get_config_elem_code : list dstmt :=\n  %s.\n",
			decisionFunc("driver/netconf/elements.go", "Driver.buildFilterElem"), decisionFunc("driver/netconf/elements.go", "Driver.buildDefaultsElem"),
			decisionFunc("driver/netconf/get.go", "Driver.buildGetElem"), decisionFunc("driver/netconf/getconfig.go", "Driver.buildGetConfigElem"))
		fmt.Fprintf(&sw, "(* driver/network/privilege.go Driver.buildPrivGraph, buildJoinedPromptPattern, UpdatePrivileges *)\nDefinition build_priv_graph_code : list dstmt :=\n  %s.\nDefinition build_joined_code : list dstmt :=\n  %s.\nDefinition update_privileges_code : list dstmt :=\n  %s.\n",
			decisionFunc("driver/network/privilege.go", "Driver.buildPrivGraph"), decisionFunc("driver/network/privilege.go", "Driver.buildJoinedPromptPattern"), decisionFunc("driver/network/privilege.go", "Driver.UpdatePrivileges"))
		fmt.Fprintf(&sw, "(* channel/write.go Channel.Write, WriteReturn, WriteAndReturn (the debug message is an effect here) *)\nDefinition chan_write_code : list dstmt :=\n  %s.\nDefinition chan_write_return_code : list dstmt :=\n  %s.\nDefinition chan_write_and_return_code : list dstmt :=\n  %s.\n",
			decisionFunc("channel/write.go", "Channel.Write", "@keep-log"), decisionFunc("channel/write.go", "Channel.WriteReturn", "@keep-log"), decisionFunc("channel/write.go", "Channel.WriteAndReturn", "@keep-log"))
		fmt.Fprintf(&sw, "(* channel/read.go Channel.read (the read loop), Channel.Read, Channel.ReadAll *)\nDefinition chan_read_loop_code : list dstmt :=\n  %s.\nDefinition chan_read_code : list dstmt :=\n  %s.\nDefinition chan_read_all_code : list dstmt :=\n  %s.\n",
			decisionFunc("channel/read.go", "Channel.read"), decisionFunc("channel/read.go", "Channel.Read"), decisionFunc("channel/read.go", "Channel.ReadAll"))
		fmt.Fprintf(&sw, "(* driver/netconf/read.go Driver.read (the NETCONF read loop) *)\nDefinition nc_read_code : list dstmt :=\n  %s.\n",
			decisionFunc("driver/netconf/read.go", "Driver.read", "getNetconfPatterns"))
		fmt.Fprintf(&sw, "(* transport/standard.go Standard.openSession, Standard.Close *)\nDefinition std_open_session_code : list dstmt :=\n  %s.\nDefinition std_close_code : list dstmt :=\n  %s.\n",
			decisionFunc("transport/standard.go", "Standard.openSession"), decisionFunc("transport/standard.go", "Standard.Close"))
		fmt.Fprintf(&sw, "(* response/netconf.go NetconfResponse.record1dot1Chunks, record1dot1, Record *)\nDefinition record_chunks_code : list dstmt :=\n  %s.\nDefinition record11_code : list dstmt :=\n  %s.\nDefinition nc_record_code : list dstmt :=\n  %s.\nDefinition record10_code : list dstmt :=\n  %s.\nDefinition record_rpc_errors_code : list dstmt :=\n  %s.\n",
			decisionFunc("response/netconf.go", "NetconfResponse.record1dot1Chunks"), decisionFunc("response/netconf.go", "NetconfResponse.record1dot1"),
			decisionFunc("response/netconf.go", "NetconfResponse.Record"), decisionFunc("response/netconf.go", "NetconfResponse.record1dot0"),
			decisionFunc("response/netconf.go", "NetconfResponse.recordRPCErrors", "getNetconfPatterns"))
		{
			var ru []string
			for _, fn := range []string{"Channel.ReadUntilFuzzy", "Channel.ReadUntilExplicit", "Channel.ReadUntilPrompt", "Channel.ReadUntilAnyPrompt"} {
				ru = append(ru, fmt.Sprintf("  (%s,\n   %s)", q(fn), decisionFunc("channel/read.go", fn)))
			}
			fmt.Fprintf(&sw, "(* channel/read.go: the read-until functions *)\nDefinition read_until_code : list (string * list dstmt) := [\n%s].\n", strings.Join(ru, ";\n"))
		}
		// the loops that apply an option list to an object (C19)
		var ol []string
		for _, lf := range [][2]string{{"driver/generic/driver.go", "NewDriver"}, {"driver/network/driver.go", "NewDriver"}, {"driver/netconf/driver.go", "NewDriver"},
			{"transport/factory.go", "NewTransport"}, {"transport/transport.go", "NewArgs"}, {"transport/transport.go", "NewSSHArgs"},
			{"transport/transport.go", "NewTelnetArgs"}, {"channel/channel.go", "NewChannel"}} {
			loops := optionLoops(lf[0], lf[1])
			if len(loops) != 1 {
				die("%s %s: %d range loops, expected the one option loop", lf[0], lf[1], len(loops))
			}
			ol = append(ol, fmt.Sprintf("  (%s,\n   %s)", q(lf[0]+" "+lf[1]), loops[0]))
		}
		fmt.Fprintf(&sw, "(* the option loops of the constructors (C19) *)\nDefinition option_loops : list (string * dstmt) := [\n%s].\n", strings.Join(ol, ";\n"))
		// util/queue.go (C20): every method, statement by statement
		var qents []string
		for _, fn := range []string{"NewQueue", "Queue.Requeue", "Queue.Enqueue", "Queue.Dequeue", "Queue.DequeueAll", "Queue.getDepth", "Queue.GetDepth"} {
			qents = append(qents, fmt.Sprintf("  (%s,\n   %s)", q(fn), decisionFunc("util/queue.go", fn)))
		}
		fmt.Fprintf(&sw, "(* util/queue.go (C20) *)\nDefinition queue_code : list (string * list dstmt) := [\n%s].\n", strings.Join(qents, ";\n"))
		sp := filepath.Join(filepath.Dir(*out), "GeneratedSkel.v")
		olds, _ := os.ReadFile(sp)
		if !bytes.Equal(olds, sw.Bytes()) {
			if err := os.WriteFile(sp, sw.Bytes(), 0o644); err != nil {
				die("%v", err)
			}
			fmt.Println("GeneratedSkel.v rewritten")
		}
	}
	if *inv != "" {
		_ = os.MkdirAll(filepath.Dir(*inv), 0o755)
		j, _ := json.MarshalIndent(map[string]interface{}{"fingerprints": fps, "regexes": regexes,
			"advertised": names, "files": fileNames, "option_constructors": ctorNames, "platform_prompts": promptsJSON}, "", " ")
		_ = os.WriteFile(*inv, j, 0o644)
	}
}
