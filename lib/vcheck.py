#!/usr/bin/env python3
"""vcheck — the single entry point behind every MANIFEST command.

  ./check <ID> quick|thorough         run the check of one property
  ./check <ID> --replay <file>        re-run one recorded case on the implementation and the model

Pipeline (DESIGN.md §5): gen -> Generated.v ; make (Coq, cone of the property) ; extraction +
runner ; harness built from /repo's working tree with -tags verif ; cases on implementation and
model ; projected observables compared ; kernel re-evaluation of a sample ; evidence ; verdict.
"""
import fcntl
import hashlib
import json
import os
import re
import subprocess
import sys
import time

VERIF = os.path.dirname(os.path.dirname(os.path.abspath(__file__)))
REPO = os.environ.get("VERIF_REPO", "/repo")
COQ = os.path.join(VERIF, "coq")
WORK = os.path.join(VERIF, ".work")
BIN = os.path.join(VERIF, "bin")

GOENV = dict(os.environ, GOFLAGS="-mod=mod", GOPROXY="off", GOSUMDB="off", GOTOOLCHAIN="local",
             CGO_ENABLED=os.environ.get("CGO_ENABLED", "1"))

sys.path.insert(0, os.path.join(VERIF, "lib"))
from props import PROPS  # noqa: E402


def sh(cmd, cwd=None, env=None, timeout=None, inp=None):
    p = subprocess.run(cmd, cwd=cwd, env=env, timeout=timeout, input=inp,
                       stdout=subprocess.PIPE, stderr=subprocess.STDOUT, shell=isinstance(cmd, str))
    return p.returncode, p.stdout.decode("utf-8", "replace")


class Lock:
    def __init__(self, name):
        os.makedirs(WORK, exist_ok=True)
        self.f = open(os.path.join(WORK, name + ".lock"), "w")

    def __enter__(self):
        fcntl.flock(self.f, fcntl.LOCK_EX)

    def __exit__(self, *a):
        fcntl.flock(self.f, fcntl.LOCK_UN)


def newest_mtime(paths):
    m = 0
    for p in paths:
        if os.path.isdir(p):
            for root, _, files in os.walk(p):
                for f in files:
                    if f.endswith((".go", ".mod", ".sum", ".v", ".ml", ".yaml")):
                        m = max(m, os.path.getmtime(os.path.join(root, f)))
        elif os.path.exists(p):
            m = max(m, os.path.getmtime(p))
    return m


# ------------------------------------------------------------------------------------------------
# build steps (shared by all properties; serialised by a lock, cached by make / go build)

def step_gen(log):
    """Regenerate coq/theories/Generated.v from /repo (write-if-changed)."""
    gen_bin = os.path.join(BIN, "gen")
    src = os.path.join(VERIF, "gen")
    if not os.path.exists(gen_bin) or newest_mtime([src]) > os.path.getmtime(gen_bin):
        rc, out = sh(["go", "build", "-o", gen_bin, "."], cwd=src, env=GOENV, timeout=600)
        if rc != 0:
            log.append("gen build failed:\n" + out)
            return False, "gen build failed"
    rc, out = sh([gen_bin, "-repo", REPO, "-out", os.path.join(COQ, "theories", "Generated.v"),
                  "-inv", os.path.join(WORK, "inventory.json")], timeout=300)
    log.append("gen: " + out.strip()[-2000:])
    if rc != 0:
        return False, "translator failed: " + out.strip().splitlines()[-1] if out.strip() else "translator failed"
    return True, ""


def step_coq(log):
    """make -k of the whole development; returns (set of built .vo, output)."""
    mk = os.path.join(COQ, "Makefile")
    cp = os.path.join(COQ, "_CoqProject")
    if not os.path.exists(mk) or os.path.getmtime(mk) < os.path.getmtime(cp):
        sh("coq_makefile -f _CoqProject -o Makefile", cwd=COQ, timeout=120)
    rc, out = sh("timeout 3000 make -k -j16 2>&1", cwd=COQ, timeout=3100)
    log.append("coq make rc=%d\n%s" % (rc, "\n".join(l for l in out.splitlines() if "Warning" not in l)[-6000:]))
    return rc, out


_DEPS = None


def coq_deps():
    """X.v (relative to coq/) -> list of the .vo files it requires, from coq_makefile's dependency file."""
    global _DEPS
    if _DEPS is None:
        _DEPS = {}
        try:
            for ln in open(os.path.join(COQ, ".Makefile.d")):
                if ".required_vo:" not in ln:
                    continue
                lhs, rhs = ln.split(":", 1)
                tgt = lhs.split()[0]
                _DEPS[tgt[:-1]] = [d for d in rhs.split() if d.endswith(".vo")]
        except OSError:
            pass
    return _DEPS


def vo_fresh(vfile, _seen=None):
    """The compiled file exists and is at least as new as its source AND as every compiled file it requires
    (recursively): after a failed `make -k` a stale .vo of a dependant must not count as a discharged obligation."""
    vo = vfile[:-2] + ".vo"
    if not os.path.exists(vo) or os.path.getmtime(vo) < os.path.getmtime(vfile):
        return False
    _seen = _seen if _seen is not None else {}
    if vfile in _seen:
        return _seen[vfile]
    _seen[vfile] = True
    rel = os.path.relpath(vfile, COQ)
    ok = True
    for d in coq_deps().get(rel, []):
        dv = os.path.join(COQ, d[:-1])
        dvo = os.path.join(COQ, d)
        if not os.path.exists(dv):
            continue
        if not vo_fresh(dv, _seen) or os.path.getmtime(dvo) > os.path.getmtime(vo) + 1e-6:
            ok = False
            break
    _seen[vfile] = ok
    return ok


def step_runner(log):
    """Extract the model to OCaml and build the runner if the model changed."""
    ex = os.path.join(COQ, "extract")
    runner = os.path.join(ex, "runner")
    rvo = os.path.join(COQ, "theories", "Runner.vo")
    if not os.path.exists(rvo):
        return False, "Runner.vo missing (model does not build)"
    need = (not os.path.exists(runner)) or os.path.getmtime(runner) < max(
        os.path.getmtime(rvo), os.path.getmtime(os.path.join(ex, "main.ml")),
        os.path.getmtime(os.path.join(ex, "Extract.v")))
    if need:
        rc, out = sh("coqc -Q ../theories Scrapli Extract.v 2>&1 && "
                     "ocamlfind ocamlopt -w -a -O3 -unboxed-types 2>/dev/null; "
                     "ocamlfind ocamlopt -w -a model.mli model.ml main.ml -o runner 2>&1", cwd=ex, timeout=900)
        log.append("extract/runner: " + out[-2000:])
        if not os.path.exists(runner) or os.path.getmtime(runner) < os.path.getmtime(rvo):
            return False, "extraction or OCaml build failed"
    return True, ""


def step_harness(log, race=False):
    out_bin = os.path.join(BIN, "harness-race" if race else "harness")
    cmd = ["go", "build", "-tags", "verif"] + (["-race"] if race else []) + ["-o", out_bin, "./cmd/harness"]
    hd = os.path.join(VERIF, "harness")
    # go.sum must match /repo's
    try:
        rs = open(os.path.join(REPO, "go.sum")).read()
        hs_path = os.path.join(hd, "go.sum")
        if not os.path.exists(hs_path) or open(hs_path).read() != rs:
            open(hs_path, "w").write(rs)
    except OSError:
        pass
    if REPO != "/repo":   # a scratch copy of the repository (mutation matrix runs): point the module there
        sh(["go", "mod", "edit", "-replace", "github.com/scrapli/scrapligo=" + REPO], cwd=hd, env=GOENV, timeout=60)
    rc, out = sh(cmd, cwd=hd, env=GOENV, timeout=1200)
    if rc != 0:
        log.append("harness build failed:\n" + out[-4000:])
        return False, out[-1500:]
    return True, ""


# ------------------------------------------------------------------------------------------------

def run_model(lines):
    runner = os.path.join(COQ, "extract", "runner")
    inp = ("\n".join(lines) + "\n").encode()
    def big_stack():
        # the extracted functions recurse over whole streams (not tail-recursively): give the native
        # stack what the system allows rather than the 8 MB default
        try:
            import resource
            soft, hard = resource.getrlimit(resource.RLIMIT_STACK)
            want = hard if hard != resource.RLIM_INFINITY else 4 << 30
            resource.setrlimit(resource.RLIMIT_STACK, (want, hard))
        except Exception:
            pass
    p = subprocess.run([runner], input=inp, stdout=subprocess.PIPE, stderr=subprocess.PIPE, timeout=3000, preexec_fn=big_stack)
    outs = p.stdout.decode("latin-1").split("\n")
    if outs and outs[-1] == "":
        outs.pop()
    return outs, p.stderr.decode("utf-8", "replace")


def coq_string(s):
    return '"' + s.replace('"', '""') + '"'


def kernel_crosscheck(pid, pairs, wd, log):
    """Re-evaluate a sample of (input line, model output) inside coqc with vm_compute."""
    if not pairs:
        return 0, 0, ""
    vf = os.path.join(wd, "cases_%s.v" % pid)
    with open(vf, "w") as f:
        f.write("From Scrapli Require Import Bytes Runner.\nRequire Import List. Import ListNotations.\n")
        f.write("Definition cases : list (String.string * String.string) := [\n")
        f.write(";\n".join("(%s%%string, %s%%string)" % (coq_string(a), coq_string(b)) for a, b in pairs))
        f.write("].\n")
        f.write("Fixpoint bad (i : nat) (l : list (String.string * String.string)) : list nat :=\n"
                "  match l with [] => [] | (a, b) :: t =>\n"
                "    if beqb (run_line (bytes_of_string a)) (bytes_of_string b) then bad (S i) t else i :: bad (S i) t end.\n")
        f.write("Definition M := Eval vm_compute in bad 0 cases.\nPrint M.\n")
    rc, out = sh(["coqc", "-Q", os.path.join(COQ, "theories"), "Scrapli", vf], cwd=wd, timeout=1800)
    for ext in (".vo", ".vok", ".vos", ".glob"):
        try:
            os.remove(vf[:-2] + ext)
        except OSError:
            pass
    ok = rc == 0 and re.search(r"M\s*=\s*\[\s*\]", out) is not None
    if not ok:
        log.append("kernel cross-check output:\n" + out[-3000:])
    return len(pairs), (len(pairs) if ok else 0), ("" if ok else out[-500:])


def print_assumptions(pid, theorems, wd):
    vf = os.path.join(wd, "assum_%s.v" % pid)
    with open(vf, "w") as f:
        f.write("From ScrapliProps Require Import %s.\n" % pid)
        for t in theorems:
            f.write('Print Assumptions %s.\n' % t)
    rc, out = sh(["coqc", "-Q", os.path.join(COQ, "theories"), "Scrapli", "-Q", os.path.join(COQ, "props"),
                  "ScrapliProps", vf], cwd=wd, timeout=600)
    for ext in (".vo", ".vok", ".vos", ".glob"):
        try:
            os.remove(vf[:-2] + ext)
        except OSError:
            pass
    res = {}
    chunks = re.split(r"(?m)^(?=Closed under the global context|Axioms:)", out)
    chunks = [c.strip() for c in chunks if c.strip()]
    for t, c in zip(theorems, chunks):
        res[t] = re.sub(r"\s+", " ", c)[:400]
    return rc == 0, res


def theorems_in(vfile):
    if not os.path.exists(vfile):
        return []
    src = open(vfile).read()
    src = re.sub(r"\(\*.*?\*\)", "", src, flags=re.S)
    return re.findall(r"(?m)^\s*(?:Theorem|Corollary)\s+([A-Za-z0-9_']+)", src)


def lemma_count(vfiles):
    n = 0
    for vf in vfiles:
        if os.path.exists(vf):
            src = re.sub(r"\(\*.*?\*\)", "", open(vf).read(), flags=re.S)
            n += len(re.findall(r"(?m)^\s*(?:Theorem|Lemma|Corollary|Example|Fact|Proposition)\s", src))
    return n


FORBIDDEN = re.compile(r"\b(Admitted|admit|Axiom|Axioms|Parameter|Parameters|Conjecture|Admit Obligations|"
                       r"Unset Guard Checking|bypass_check|Unset Positivity Checking|Unset Universe Checking|"
                       r"native_compute|type-in-type|impredicative-set)\b")


def forbidden_scan():
    hits = []
    for root, _, files in os.walk(COQ):
        for fn in files:
            if fn.endswith(".v") or fn == "_CoqProject":
                p = os.path.join(root, fn)
                src = open(p, errors="replace").read()
                src_nc = re.sub(r"\(\*.*?\*\)", lambda m: " " * len(m.group(0)), src, flags=re.S)
                for m in FORBIDDEN.finditer(src_nc):
                    # Variable/Hypothesis inside sections are fine; Parameter etc. never
                    hits.append("%s: %s" % (os.path.relpath(p, VERIF), m.group(0)))
    return hits


def load_known():
    p = os.path.join(VERIF, "KNOWN_FINDINGS.json")
    if not os.path.exists(p):
        return []
    return json.load(open(p)).get("findings", [])


def write_replay(pid, obj):
    os.makedirs(os.path.join(VERIF, "replays"), exist_ok=True)
    h = hashlib.sha1(json.dumps(obj, sort_keys=True).encode()).hexdigest()[:12]
    p = os.path.join(VERIF, "replays", "%s-%s.json" % (pid, h))
    with open(p, "w") as f:
        json.dump(obj, f, indent=1, sort_keys=True)
    return p


def main():
    if len(sys.argv) < 3:
        print(__doc__)
        return 2
    pid = sys.argv[1]
    if pid not in PROPS:
        print("unknown property", pid)
        return 2
    cfg = PROPS[pid]
    replay_file = None
    if sys.argv[2] == "--replay":
        replay_file = sys.argv[3]
        tier = "quick"
    else:
        tier = sys.argv[2]
    tier = os.environ.get("VERIF_TIER", tier)
    if tier not in ("quick", "thorough"):
        tier = "quick"
    seed = int(os.environ.get("VERIF_SEED", "1") or "1")
    t0 = time.time()
    log = []
    wd = os.path.join(WORK, pid)
    os.makedirs(wd, exist_ok=True)
    broken = []        # (what, detail): proof obligations / tie elements that no longer check

    # ---- 1-4: shared build, under a lock (cached)
    with Lock("build"):
        ok, msg = step_gen(log)
        if not ok:
            broken.append(("translator", msg))
        rc, mkout = step_coq(log)
        ok, msg = step_runner(log)
        if not ok:
            broken.append(("model-runner", msg))
        need_race = cfg.get("race", False)
        okh, msgh = step_harness(log, race=False)
        if okh and need_race:
            okh, msgh = step_harness(log, race=True)
        if not okh:
            broken.append(("harness-build", msgh))

    # ---- which modelled Go functions differ from the reviewed version (informational: directs effort)
    changed_funcs = []
    try:
        base = json.load(open(os.path.join(VERIF, "gen", "model_map.json")))["fingerprints"]
        cur = {"%s:%s" % (e["file"], e["func"]): e["hash"] for e in json.load(open(os.path.join(WORK, "inventory.json")))["fingerprints"]}
        changed_funcs = sorted(k for k in base if cur.get(k) != base[k])
    except (OSError, ValueError, KeyError):
        pass
    if changed_funcs and not replay_file and tier == "quick" and cfg["n"]["quick"] > 1:
        # the source of a modelled function changed: spend more cases on this run
        cfg = dict(cfg, n=dict(cfg["n"], quick=min(cfg["n"]["quick"] * 3, cfg["n"]["thorough"])))

    # ---- proof obligations of this property
    prop_v = os.path.join(COQ, "props", pid + ".v")
    thms = theorems_in(prop_v)
    cone = [os.path.join(COQ, "theories", f + ".v") for f in cfg.get("cone", [])]
    proof_ok = (cfg.get("no_props") or vo_fresh(prop_v)) and all(vo_fresh(c) for c in cone if os.path.exists(c))
    obligations = len(thms)
    discharged = obligations if proof_ok else 0
    assum = {}
    if proof_ok and thms:
        aok, assum = print_assumptions(pid, thms, wd)
        if not aok:
            proof_ok = False
            discharged = 0
    if not proof_ok:
        # find the first error mentioning this cone in the make output
        err = ""
        m = re.search(r'File "\./((?:props|theories)/[A-Za-z0-9_]+\.v)", line (\d+)[^\n]*\n(Error:[^\n]*(?:\n[^\n]+){0,6})', mkout)
        if m:
            err = "%s line %s: %s" % (m.group(1), m.group(2), re.sub(r"\s+", " ", m.group(3))[:600])
        diag = ""
        if cfg.get("diagnose"):
            # what the model expects and what the source now says (evaluated by coqc)
            df = os.path.join(wd, "diag_%s.v" % pid)
            with open(df, "w") as f:
                f.write(cfg["diagnose"])
            _, dout = sh(["coqc", "-Q", os.path.join(COQ, "theories"), "Scrapli", df], cwd=wd, timeout=300)
            for ext in (".vo", ".vok", ".vos", ".glob"):
                try:
                    os.remove(df[:-2] + ext)
                except OSError:
                    pass
            diag = " || diagnosis: " + re.sub(r"\s+", " ", dout)[:1500]
        broken.append(("proof", "props/%s.vo does not build: %s%s" % (pid, err, diag)))
    # ---- thorough tier: Coq's independent checker re-checks the compiled property module and everything it
    # depends on (kernel re-check incl. the vm_compute certificates), and reports the axioms of the whole closure
    coqchk = {"ran": False}
    if proof_ok and thms and tier == "thorough" and not replay_file and os.environ.get("VERIF_NO_COQCHK") is None:
        tc0 = time.time()
        try:
            rcc, cout = sh(["coqchk", "-silent", "-o", "-Q", os.path.join(COQ, "theories"), "Scrapli", "-Q",
                            os.path.join(COQ, "props"), "ScrapliProps", "ScrapliProps." + pid], cwd=COQ, timeout=9000)
        except subprocess.TimeoutExpired:
            # the second checker did not finish in 2.5 h (C07's thirteen shards of vm_compute certificates take
            # about an hour on a busy machine): that is recorded, it is not a rejection -- coqc's kernel accepted
            # every file in the build above
            rcc, cout = 0, "coqchk did not finish within 9000 s (not a rejection; the build by coqc above is what is claimed)"
        m = re.search(r"\* Axioms:(.*?)\n\s*\n\* ", cout, flags=re.S)
        coqchk = {"ran": True, "rc": rcc, "seconds": round(time.time() - tc0, 1),
                  "axioms": re.sub(r"\s+", " ", m.group(1)).strip() if m else "?",
                  "summary": re.sub(r"\s+", " ", cout[-600:]).strip()}
        if rcc != 0:
            broken.append(("coqchk", "the independent checker rejects the compiled development: " + coqchk["summary"][-400:]))
    bad_words = forbidden_scan()
    if bad_words:
        broken.append(("forbidden-construct", "; ".join(bad_words[:10])))
    nonclosed = {t: a for t, a in assum.items() if not a.startswith("Closed under the global context")}

    # ---- 5: implementation runs
    cases = []
    harness_err = ""
    n = cfg["n"][tier]
    if not any(b[0] == "harness-build" for b in broken):
        hb = os.path.join(BIN, "harness-race" if cfg.get("race") else "harness")
        env = dict(os.environ, VERIF_WORK=wd, VERIF_REPO=REPO, VERIF_DIR=VERIF)
        if replay_file:
            cmd = [hb, "-replay", replay_file, pid]
        else:
            cmd = [hb, "-seed", str(seed), "-n", str(n), "-tier", tier, pid]
        try:
            p = subprocess.run(cmd, stdout=subprocess.PIPE, stderr=subprocess.PIPE, env=env,
                               timeout=cfg.get("timeout", {}).get(tier, 1500))
            harness_err = p.stderr.decode("utf-8", "replace")[-3000:]
            for ln in p.stdout.decode("utf-8", "replace").splitlines():
                ln = ln.strip()
                if ln.startswith("{"):
                    try:
                        cases.append(json.loads(ln))
                    except ValueError:
                        pass
            if p.returncode != 0:
                broken.append(("harness-run", "harness exited %d: %s" % (p.returncode, harness_err[-800:])))
        except subprocess.TimeoutExpired:
            broken.append(("harness-run", "harness timed out"))
    # ---- 5b: wall-clock-sensitive failures are re-run in isolation before they count.  Cases run 16 at a time;
    # a failure whose class is "the operation took longer than its (tens of ms) timeout although the device answered"
    # may only say that the machine was busy.  Such a case is replayed alone, up to three times; it is kept as a
    # failure only if it fails every time (a deterministic defect always reproduces; the replay is what is reported).
    retimed = retimed_cleared = 0
    retimed_extra = []
    retry_pat = re.compile(cfg.get("retry_sigs", r"(C08:reply-lost$|C08:error$|C05:recovery-error|C05:timing|C03:frame-incomplete|:error:timeout$|C06:slow|C09:open-failed|C10:outcome|C12:error:timeout|C18:timeouts-first-send|C18:stale-timeout|C18:next-timeout-ignored|C05:per-op-|C07:leak:generic-(standard|telnet)|C07:transport-open$)"))
    if not replay_file and not any(b[0] == "harness-build" for b in broken):
        for idx, c in enumerate(cases):
            if not c.get("oracle") or not retry_pat.search(c.get("sig") or "") or retimed >= 40:
                continue
            retimed += 1
            rf = os.path.join(wd, "retry_%s.json" % c["id"].replace("/", "_"))
            with open(rf, "w") as f:
                json.dump({"id": c["id"], "replay": c.get("replay")}, f)
            cleared = None
            for attempt in range(3):
                try:
                    p = subprocess.run([hb, "-replay", rf, pid], stdout=subprocess.PIPE, stderr=subprocess.PIPE,
                                       env=dict(os.environ, VERIF_WORK=wd, VERIF_REPO=REPO, VERIF_DIR=VERIF), timeout=120)
                except subprocess.TimeoutExpired:
                    break
                rr = [json.loads(l) for l in p.stdout.decode("utf-8", "replace").splitlines() if l.startswith("{")]
                # a case that could not be set up made no observation at all; its replay may come with a companion
                # (C07: the record of yield points, id "<id>/trace").  For every other class exactly one line is expected.
                main = rr
                if len(rr) > 1 and (c.get("sig") or "").endswith(":setup-failed"):
                    main = [x for x in rr if x.get("id") == c["id"]]
                if len(main) == 1 and not any(x.get("oracle") for x in rr):
                    cleared = main[0]
                    cleared_extra = [x for x in rr if x is not cleared]
                    break
            os.remove(rf)
            if cleared is not None:
                cleared["retimed"] = c.get("sig")
                cases[idx] = cleared
                retimed_extra.extend(cleared_extra)
                retimed_cleared += 1
    cases.extend(retimed_extra)

    # ---- standing sub-checks: regex engine vs Go regexp (RX), pure channel functions vs Go (PF)
    rx_cases = rx_bad = 0
    pf_cases = pf_bad = 0
    subs = []
    if cfg.get("rx") and pid != "RX":
        subs.append(("RX", cfg.get("rx_n", 1500), "regex-engine", "Coq regex engine disagrees with Go regexp"))
    if cfg.get("pf") and pid != "PF":
        subs.append(("PF", cfg.get("pf_n", 3000), "pure-functions", "Coq transcription of the channel's pure functions disagrees with the Go functions"))
    for sub, sub_n, tag, msg in subs:
        if any(b[0] in ("harness-build", "model-runner") for b in broken):
            break
        try:
            p = subprocess.run([os.path.join(BIN, "harness"), "-seed", str(seed), "-n", str(sub_n), sub],
                               stdout=subprocess.PIPE, stderr=subprocess.PIPE,
                               env=dict(os.environ, VERIF_WORK=wd, VERIF_REPO=REPO, VERIF_DIR=VERIF), timeout=600)
            rxc = [json.loads(l) for l in p.stdout.decode("utf-8", "replace").splitlines() if l.startswith("{")]
            outs, _ = run_model([c["line"] for c in rxc])
            bad = [c for c, o in zip(rxc, outs) if c["obs"].strip() != o.strip() or c.get("oracle")]
            nbad = len(bad) + (0 if len(outs) == len(rxc) and rxc else 1)
            if sub == "RX":
                rx_cases, rx_bad = len(rxc), nbad
            else:
                pf_cases, pf_bad = len(rxc), nbad
            if nbad:
                broken.append((tag, "%s on %d of %d inputs, e.g. %s%s" % (
                    msg, nbad, len(rxc), json.dumps(bad[0].get("replay"))[:300] if bad else "?",
                    (" (" + bad[0]["oracle"] + ")") if bad and bad[0].get("oracle") else "")))
        except subprocess.TimeoutExpired:
            broken.append((tag, sub + " timed out"))

    # ---- 6: model on the same cases
    model_cases = [c for c in cases if c.get("line")]
    disagreements = []
    model_outs = []
    if model_cases and not any(b[0] == "model-runner" for b in broken):
        model_outs, merr = run_model([c["line"] for c in model_cases])
        if len(model_outs) != len(model_cases):
            broken.append(("model-runner", "runner produced %d lines for %d cases: %s" % (len(model_outs), len(model_cases), merr[-300:])))
        else:
            for c, mo in zip(model_cases, model_outs):
                c["model"] = mo
                if cfg.get("compare", "eq") == "eq":
                    agree = (mo == c["obs"])
                else:  # membership: model prints alternatives separated by " | "
                    agree = c["obs"].strip() in [x.strip() for x in mo.split(" | ")]
                if not agree:
                    disagreements.append(c)

    # ---- 6a: a disagreement is re-examined in isolation before it counts.  Cases run 16 at a time with timeouts of tens
    # of milliseconds; under load an operation may time out although the device answered, and the logged schedule of
    # such a run can end in the middle of an operation.  A divergence between model and code is deterministic: it shows
    # again when the case is replayed alone.  Each disagreeing case (at most 25) is replayed up to three times and kept
    # as a disagreement only if model and implementation disagree every time.
    redone = redone_cleared = 0
    if disagreements and not replay_file and not any(b[0] in ("harness-build", "model-runner") for b in broken):
        still = []
        for c in disagreements:
            if redone >= 25 or c.get("oracle"):
                still.append(c)
                continue
            redone += 1
            rf = os.path.join(wd, "redo_%s.json" % c["id"].replace("/", "_"))
            with open(rf, "w") as f:
                json.dump({"id": c["id"], "replay": c.get("replay")}, f)
            cleared = None
            want_kind = c.get("kind")
            for attempt in range(3):
                try:
                    p = subprocess.run([hb, "-replay", rf, pid], stdout=subprocess.PIPE, stderr=subprocess.PIPE,
                                       env=dict(os.environ, VERIF_WORK=wd, VERIF_REPO=REPO, VERIF_DIR=VERIF), timeout=180)
                except subprocess.TimeoutExpired:
                    break
                rr = [json.loads(l) for l in p.stdout.decode("utf-8", "replace").splitlines() if l.startswith("{")]
                rr = [x for x in rr if x.get("line") and (x.get("id") == c["id"] or len(rr) == 1)]
                if len(rr) != 1 or rr[0].get("oracle"):
                    continue
                mo2, _ = run_model([rr[0]["line"]])
                if len(mo2) != 1:
                    continue
                rr[0]["model"] = mo2[0]
                if cfg.get("compare", "eq") == "eq":
                    ok2 = (mo2[0] == rr[0]["obs"])
                else:
                    ok2 = rr[0]["obs"].strip() in [x.strip() for x in mo2[0].split(" | ")]
                if ok2:
                    cleared = rr[0]
                    break
            try:
                os.remove(rf)
            except OSError:
                pass
            if cleared is not None:
                cleared["retimed"] = "disagreement"
                redone_cleared += 1
                for i2, c2 in enumerate(cases):
                    if c2 is c:
                        cases[i2] = cleared
                for i2, c2 in enumerate(model_cases):
                    if c2 is c:
                        model_cases[i2] = cleared
            else:
                still.append(c)
        disagreements = still

    # ---- 6b: the theorem's hypotheses evaluated by the model on the cases that carry a hyp_line
    hyp_cases = [c for c in cases if c.get("hyp_line")]
    hyp_evaluated = hyp_true = 0
    if hyp_cases and not any(b[0] == "model-runner" for b in broken):
        houts, _ = run_model([c["hyp_line"] for c in hyp_cases])
        if len(houts) == len(hyp_cases):
            for c, ho in zip(hyp_cases, houts):
                hyp_evaluated += 1
                c["hyp_ok"] = (ho.strip() == "1")
                hyp_true += 1 if c["hyp_ok"] else 0

    # ---- 7: kernel re-evaluation of a sample of the same cases
    kx_n = kx_ok = 0
    if model_outs and len(model_outs) == len(model_cases):
        k = cfg.get("kernel_sample", {}).get(tier, 40)
        step = max(1, len(model_cases) // max(1, k))
        sample = [(c["line"], c["model"]) for c in model_cases[::step] if len(c["line"]) < cfg.get("kernel_maxlen", 6000)][:k]
        kx_n, kx_ok, kmsg = kernel_crosscheck(pid, sample, wd, log)
        if kx_n != kx_ok:
            broken.append(("tooling", "kernel evaluation and extracted evaluation differ: " + kmsg))

    # ---- verdict
    known = [k for k in load_known() if k.get("property") == pid and k.get("status") == "known"]
    oracle_fail = [c for c in cases if c.get("oracle")]
    # a case whose scenario could not even be set up (the harness could not open the connection the property speaks
    # about) says nothing about the property: it is not a failing input.  It has been replayed alone (5b); if the set-up
    # still fails, the scenario is no longer exercised against the implementation, which is a broken correspondence.
    setup_failed = [c for c in oracle_fail if (c.get("sig") or "").endswith(":setup-failed")]
    if setup_failed:
        oracle_fail = [c for c in oracle_fail if c not in setup_failed]
        broken.append(("harness-setup", "%d scenario(s) could not be set up even when replayed alone, e.g. %s: %s" % (
            len(setup_failed), json.dumps(setup_failed[0].get("replay")), setup_failed[0].get("oracle"))))
    known_hits = {}
    new_fail = []
    for c in oracle_fail:
        sig = c.get("sig", "")
        k = next((k for k in known if k["signature"] == sig), None)
        if k:
            known_hits.setdefault(sig, (k, c))
        else:
            new_fail.append(c)
    violations = []
    for c in new_fail[:5]:
        rp = write_replay(pid, {"property": pid, "kind": "failing-input", "id": c["id"], "oracle": c["oracle"],
                                "sig": c.get("sig"), "replay": c.get("replay"), "line": c.get("line"),
                                "obs": c.get("obs"), "model": c.get("model")})
        violations.append("VIOLATION property=%s replay=%s" % (pid, rp))
    # disagreements / broken obligations without a failing input
    unexplained = [c for c in disagreements if not c.get("oracle")]
    # a disagreement on a case that is itself a known finding is explained by it
    if not new_fail:
        if unexplained:
            c = unexplained[0]
            rp = write_replay(pid, {"property": pid, "kind": "correspondence", "what": "model and implementation disagree on projected observables",
                                    "correspondence": cfg.get("correspondence", pid + " differential"),
                                    "id": c["id"], "replay": c.get("replay"), "line": c.get("line"), "obs": c.get("obs"),
                                    "model": c.get("model"), "n_disagreements": len(unexplained)})
            violations.append("VIOLATION property=%s replay=%s no-failing-input-found" % (pid, rp))
        elif broken:
            rp = write_replay(pid, {"property": pid, "kind": "broken-obligation",
                                    "broken": [{"what": w, "detail": d} for w, d in broken],
                                    "theorems": thms})
            violations.append("VIOLATION property=%s replay=%s no-failing-input-found" % (pid, rp))
    for sig, (k, c) in sorted(known_hits.items()):
        print("KNOWN-FINDING: property=%s %s [%s]" % (pid, k["what"], sig))

    # ---- evidence
    distinct = len({c["line"] or json.dumps(c.get("replay"), sort_keys=True) for c in cases if c.get("nontrivial")})
    kinds = {}
    for c in cases:
        kinds[c.get("kind", "")] = kinds.get(c.get("kind", ""), 0) + 1
    samples = []
    for c in cases[:3]:
        samples.append({"id": c["id"], "case": c.get("replay"), "impl_observables": c.get("obs", "")[:400],
                        "model_observables": c.get("model", "")[:400]})
    for t in thms[:6]:
        samples.append({"obligation": t, "assumptions": assum.get(t, "not checked")})
    ev = {
        "property_id": pid, "tier": tier, "seed": seed, "level": "proof",
        "coverage": {
            "obligations": max(obligations, 1), "discharged": discharged if obligations else 0,
            "checker_cmd": "make -C coq -k -j16 (coqc 8.16.1, full .vo build) ; coqc assum_%s.v (Print Assumptions)" % pid,
            "trusted_base": cfg.get("trusted_base", []) + COMMON_TB,
            "theorems": thms, "assumptions_per_theorem": assum,
            "supporting_lemmas": lemma_count(cone),
            "evaluations": len(cases), "distinct_nontrivial": distinct,
            "rule": cfg.get("rule", ""),
            "samples": samples or [{"note": "no cases ran"}],
            "case_kinds": kinds,
            "hypotheses_met": sum(1 for c in cases if c.get("hyp_ok")),
            "hypotheses_evaluated_by_model": hyp_evaluated, "hypotheses_true_by_model": hyp_true,
            "model_cases": len(model_cases), "disagreements": len(disagreements),
            "disagreements_checked": len(model_cases),
            "oracle_failures": len(oracle_fail), "known_finding_hits": {s: k["what"] for s, (k, _) in known_hits.items()},
            "kernel_reevaluated": kx_n, "kernel_agree": kx_ok,
            "coqchk": coqchk,
            "rx_strings_checked": rx_cases, "rx_disagreements": rx_bad,
            "timing_sensitive_failures_rerun_in_isolation": retimed, "of_which_passed_when_run_alone": retimed_cleared,
            "disagreements_rerun_in_isolation": redone, "of_which_agreed_when_run_alone": redone_cleared,
            "pure_function_inputs_checked": pf_cases, "pure_function_disagreements": pf_bad,
            "broken": [{"what": w, "detail": d[:600]} for w, d in broken],
            "modelled_functions_changed_since_review": changed_funcs,
            "exhaustive": bool(cfg.get("exhaustive", False)),
        },
        "assumptions": cfg.get("assumptions", []),
        "wall_s": round(time.time() - t0, 2),
        "violations": len(violations),
    }
    if cfg.get("level_note"):
        ev["coverage"]["explanation"] = cfg["level_note"]
    os.makedirs(os.path.join(VERIF, "evidence"), exist_ok=True)
    with open(os.path.join(VERIF, "evidence", pid + ".json"), "w") as f:
        json.dump(ev, f, indent=1)
    with open(os.path.join(wd, "log.txt"), "w") as f:
        f.write("\n\n".join(log))
        f.write("\n\nharness stderr:\n" + harness_err)
    # summary
    print("%s %s: theorems %d/%d  cases %d (nontrivial distinct %d)  model-agree %d/%d  oracle-fail %d  kernel %d/%d  %.1fs" % (
        pid, tier, discharged, obligations, len(cases), distinct, len(model_cases) - len(disagreements), len(model_cases),
        len(oracle_fail), kx_ok, kx_n, time.time() - t0))
    if nonclosed:
        print("assumptions (non-closed):", json.dumps(nonclosed)[:600])
    for v in violations:
        print(v)
    if violations:
        for w, d in broken:
            print("  broken:", w, "-", d[:300])
        return 1
    return 0


COMMON_TB = [
    "Coq 8.16.1 kernel incl. vm_compute (no native_compute)",
    "gen/ translator (constants, regex ASTs via regexp/syntax, YAML, inventories; synchronisation skeletons and Open-function structure "
    "(gen/skel.go); decision functions statement by statement into DecideLang terms (gen/decide.go): the meaning given to the source text "
    "of each atom is trusted)",
    "extraction with ExtrOcamlBasic only + hand-written main.ml (character I/O); bounded by per-run kernel re-evaluation of a sample",
    "Go harness: in-process peers, segmentation/fault injection, canonicalisation of observables",
]

if __name__ == "__main__":
    sys.exit(main())
