#!/bin/sh
# lib/run_seeded.sh <seeded-id> [check ids...] : apply /verif/seeded/<id>/patch.diff to /repo, run the given checks
# (default: the property in meta.json), undo the change.  Prints the verdict lines.
set -u
ID="$1"; shift
DIR=/verif/seeded/$ID
[ -f "$DIR/patch.diff" ] || { echo "no patch for $ID"; exit 2; }
CHECKS="$*"
[ -n "$CHECKS" ] || CHECKS=$(python3 -c "import json;print(json.load(open('$DIR/meta.json'))['property'])")
git -C /repo apply "$DIR/patch.diff" || { echo "patch does not apply"; exit 2; }
for c in $CHECKS; do
  /verif/check "$c" quick 2>&1 | grep -E "VIOLATION|KNOWN-FINDING|quick:|broken" | head -8
done
git -C /repo checkout -- . 
git -C /repo status --short | head -3
