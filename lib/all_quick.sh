#!/bin/sh
# lib/all_quick.sh [ids...] : run the quick tier of every registered check (or the given ones), one line each.
cd "$(dirname "$0")/.." || exit 2
IDS="$*"
[ -n "$IDS" ] || IDS=$(python3 -c "import json;print(' '.join(c['property_id'] for c in json.load(open('MANIFEST.json'))['checks']))")
for p in $IDS; do
  ./check $p quick 2>&1 | grep -E "^VIOLATION|quick:|broken" | cut -c1-220
done
