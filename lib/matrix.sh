#!/bin/sh
# lib/matrix.sh <seeded-id>[:check,check...] ...   -- mutation matrix on a SCRATCH copy of the repository.
# Meant for `vp run --with-repo -- lib/matrix.sh C01b C02b:C02,C08 ...` (VP_RUN_REPO = snapshot of /repo's HEAD; the
# working directory is a snapshot of /verif, so neither /repo nor /verif is touched).  For each seeded change: apply
# the patch to the scratch repository, run the quick tier of the property's check (or the listed ones), restore.
set -u
export GOFLAGS=-mod=mod GOPROXY=off GOSUMDB=off GOTOOLCHAIN=local
export VERIF_REPO="${VP_RUN_REPO:-${VERIF_REPO:-}}"
[ -n "$VERIF_REPO" ] && [ "$VERIF_REPO" != /repo ] || { echo "matrix.sh needs a scratch repository (VERIF_REPO or vp run --with-repo)"; exit 2; }
HERE="$(cd "$(dirname "$0")/.." && pwd)"
cd "$HERE" || exit 2
./setup.sh > .work-setup.log 2>&1 || { echo "setup failed"; tail -20 .work-setup.log; exit 2; }
echo "== baseline (unchanged scratch tree)"
for spec in "$@"; do
  id="${spec%%:*}"
  P=$(python3 -c "import json;print(json.load(open('/verif/seeded/$id/meta.json'))['property'])" 2>/dev/null || echo "${id%?}")
  echo "$P"
done | sort -u | while read -r P; do ./check "$P" quick 2>&1 | grep -E "^VIOLATION|quick:|broken" | cut -c1-200; done
for spec in "$@"; do
  id="${spec%%:*}"; checks=""
  case "$spec" in *:*) checks=$(echo "${spec#*:}" | tr ',' ' ');; esac
  D=/verif/seeded/$id
  [ -f "$D/patch.diff" ] || { echo "== $id: no patch"; continue; }
  [ -n "$checks" ] || checks=$(python3 -c "import json;print(json.load(open('$D/meta.json'))['property'])" 2>/dev/null || echo "${id%?}")
  echo "== $id ($checks)"
  git -C "$VERIF_REPO" apply "$D/patch.diff" || { echo "patch does not apply"; continue; }
  for c in $checks; do
    ./check "$c" quick 2>&1 | grep -E "^VIOLATION|KNOWN-FINDING|quick:|broken" | cut -c1-260 | head -8
    for r in $(ls -t replays/$c-*.json 2>/dev/null | head -2); do python3 -c "
import json,sys
d=json.load(open('$r')); print('   replay', d.get('kind'), (d.get('oracle') or d.get('what') or json.dumps(d.get('broken')))[:300])"; done
    rm -f replays/$c-*.json
  done
  git -C "$VERIF_REPO" checkout -- . ; git -C "$VERIF_REPO" clean -fdq
done
echo "== matrix done"
