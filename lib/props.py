"""Per-property configuration of the check driver (lib/vcheck.py)."""

RX_TB = "Coq regex engine (Regex.v) agrees with Go regexp: checked by the RX differential on every regex-dependent run"

PROPS = {
    "RX": {
        "no_props": True,
        "n": {"quick": 3000, "thorough": 60000},
        "cone": ["Bytes", "Regex", "Generated"],
        "rule": "per generated regex: strings sampled from the pattern's own language, concatenated/mutated; "
                "ops match/find/group1/remove-all/split-after/find-all; non-trivial = the pattern matched",
        "kernel_sample": {"quick": 30, "thorough": 100},
    },
    "C02": {
        "n": {"quick": 2500, "thorough": 150000},
        "cone": ["Bytes", "Regex", "Generated", "Netconf", "NetconfLemmas"],
        "rule": "NetconfResponse.Record on raw bytes under recover(): well-formed stream = generated payloads (multi-byte UTF-8, '#', digits, "
                "LF, ']]>' and rpc-error variants at chunk edges) x random partitions (incl. 1-byte chunks) x surrounding whitespace; malformed "
                "stream = truncations, size mutations (negative/alpha/oversize/empty), dropped terminator, junk at marker positions, over-long "
                "size headers, raw random over '#\\n0-9-+a<>' and a fixed boundary corpus; non-trivial = input longer than 8 bytes",
        "level_text": "Theorems over the model of record1dot0/record1dot1Chunks/Record: the cursor-level transcription of the Go loop (every "
                      "index and slice a checked access) refines the functional decoder and never panics; every RFC 6242 encoding of any "
                      "chunk list decodes to exactly the trimmed payload; every listed malformation yields a parse error; an accepted result "
                      "is a subsequence of the input. Tied to the code by differential runs of Record on generated well-formed and malformed "
                      "frames and a model-free RFC 6242 reference decoder.",
        "level_note": "Trusted: Coq kernel; generated constants (header, delimiter, max size length, marker list); extraction + main.ml; "
                      "harness generators. Read-loop message delimiting (segmentation into reads) is exercised end-to-end under C08/C09.",
        "assumptions": ["payloads are XML documents (declaration, if any, first); 1.0 payloads do not contain the ']]>]]>' delimiter"],
    },
    "C13": {
        "n": {"quick": 400, "thorough": 20000},
        "cone": ["Bytes", "Generic", "GenericLemmas"],
        "rule": "random command lists (1-10) with failure strings planted at none/first/middle/last/several outputs, "
                "driver-level x operation-level failure lists, stop-on-failed on/off, SendCommands / SendCommand-each / "
                "SendCommandsFromFile through generic.Driver over the simulated transport; non-trivial = some response "
                "failed and more than one command",
        "trusted_base": ["exchange with the device abstracted as (command, output) pairs in the C13 theorems; "
                         "the exchange itself is C01's subject"],
        "level_text": "Theorems C13_failed_iff/_failed_first/_precedence/_multi/_nostop/_stop/_collapse over the model of "
                      "Response.Record, MultiResponse.AppendResponse, sendCommand/SendCommands and SendConfig's collapse hold for all "
                      "outputs, lists and command sequences (list induction, no bound); the model is tied to the code by running "
                      "generic.Driver end-to-end against a simulated device and comparing failed flags, matched strings, aggregate, "
                      "response count and the lines the device received.",
        "level_note": "Trusted: Coq kernel; extraction (ExtrOcamlBasic) + main.ml; Go harness and its CLI device. The exchange with "
                      "the device is abstracted as (command, output) pairs here; C01 covers the exchange.",
        "assumptions": ["failure strings are non-empty (an empty string masks later ones in Go's scan; hypothesis of C13_failed_iff)"],
    },
}
