"""Per-property configuration of the check driver (lib/vcheck.py)."""

RX_TB = "Coq regex engine (Regex.v) agrees with Go regexp: checked by the RX differential on every regex-dependent run"

PROPS = {
    "RX": {
        "no_props": True,
        "n": {"quick": 3000, "thorough": 60000},
        "cone": ["Bytes", "Regex", "Generated"],
        "rule": "per generated regex: strings sampled from the pattern's own language, concatenated/mutated; "
                "ops match/find/group1/remove-all/split-after/find-all; non-trivial = the pattern matched",
        "kernel_sample": {"quick": 30, "thorough": 100},
    },
    "C01": {
        "n": {"quick": 220, "thorough": 12000},
        "cone": ["Bytes", "BytesLemmas", "Regex", "Generated", "Channel", "Session", "SessionLemmas", "Replay"],
        "rx": True,
        "kernel_sample": {"quick": 6, "thorough": 20}, "kernel_maxlen": 2500,
        "rule": "generic.Driver SendCommands / SendCommand over the simulated transport and a CLI echo device: prompts drawn from the default "
                "pattern's language, 1-8 commands, outputs with blank lines, trailing spaces, CRLF/LF, SGR/cursor escape atoms, multi-byte "
                "UTF-8 and long lines; echo verbatim / wrapped with filler; read sizes and per-read segmentation lists (1 byte .. whole burst); "
                "read delays; search depths 120..10000; strip/keep prompt; exact/fuzzy. The transport logs every read size and every write with "
                "the device's reaction; the model replays that schedule and must reproduce every result and every write. Non-trivial = more "
                "than one command; hypotheses_true_by_model counts the cases on which the model evaluated session_ok (the theorem's "
                "hypothesis) to true.",
        "level_text": "Theorems C01_cli_alignment / C01_progress / C01_schedule_independent hold for every schedule (every cut of the device "
                      "stream into reads, every interleaving of reader and operation), every command list and every device script meeting the "
                      "property's preconditions (session_ok), proved by an invariant over the interpreter of the transcribed programs "
                      "(phase lemma + session induction, unbounded). The interpreter is tied to channel/*.go and driver/generic by replaying "
                      "the logged schedule of each real run and comparing all results and writes; the theorem's hypotheses are evaluated on "
                      "the generated cases by the regex engine.",
        "level_note": "Partial in one respect: escape-sequence removal is excluded from the theorem (hypothesis: no ESC byte) and covered by the "
                      "correspondence only. Trusted: kernel, generated prompt/ANSI regex ASTs + RX check, extraction, harness device and "
                      "transport log.",
        "assumptions": ["device emits in reaction to writes only (causality)", "cuts never fall inside an escape sequence (harness transport delivers escape atoms whole)"],
    },
    "C02": {
        "n": {"quick": 2500, "thorough": 150000},
        "cone": ["Bytes", "Regex", "Generated", "Netconf", "NetconfLemmas"],
        "rule": "NetconfResponse.Record on raw bytes under recover(): well-formed stream = generated payloads (multi-byte UTF-8, '#', digits, "
                "LF, ']]>' and rpc-error variants at chunk edges) x random partitions (incl. 1-byte chunks) x surrounding whitespace; malformed "
                "stream = truncations, size mutations (negative/alpha/oversize/empty), dropped terminator, junk at marker positions, over-long "
                "size headers, raw random over '#\\n0-9-+a<>' and a fixed boundary corpus; non-trivial = input longer than 8 bytes",
        "level_text": "Theorems over the model of record1dot0/record1dot1Chunks/Record: the cursor-level transcription of the Go loop (every "
                      "index and slice a checked access) refines the functional decoder and never panics; every RFC 6242 encoding of any "
                      "chunk list decodes to exactly the trimmed payload; every listed malformation yields a parse error; an accepted result "
                      "is a subsequence of the input. Tied to the code by differential runs of Record on generated well-formed and malformed "
                      "frames and a model-free RFC 6242 reference decoder.",
        "level_note": "Trusted: Coq kernel; generated constants (header, delimiter, max size length, marker list); extraction + main.ml; "
                      "harness generators. Read-loop message delimiting (segmentation into reads) is exercised end-to-end under C08/C09.",
        "assumptions": ["payloads are XML documents (declaration, if any, first); 1.0 payloads do not contain the ']]>]]>' delimiter"],
    },
    "C15": {
        "n": {"quick": 250, "thorough": 4000},
        "cone": ["Telnet", "TelnetLemmas"],
        "rule": "real transport.Telnet against a loopback TCP server: openings drawn from the RFC 854 token grammar (option negotiations with all "
                "four verbs x option codes incl. SGA, two-byte commands NOP/GA/..., escaped IAC, banner data) x random TCP segmentations; compared: "
                "bytes the server received, bytes returned by the first reads; non-trivial = opening has a negotiation and data",
        "level_text": "Theorem C15_negotiation: for every token sequence the byte-at-a-time parser answers each option request exactly once with the "
                      "RFC answer, ends outside control mode and buffers exactly the data bytes in order (induction over tokens, all option codes, "
                      "unbounded). The model is tied to transport/telnet.go by running the real transport over loopback TCP.",
        "level_note": "Trusted: kernel, generated telnet constants, extraction, harness TCP peer. Subnegotiation (IAC SB ... IAC SE) is outside "
                      "the property's grammar and the model. The timeout that ends the negotiation phase is runtime behaviour (observed, not proved).",
    },
    "C20": {
        "n": {"quick": 150, "thorough": 1500},
        "race": True,
        "cone": ["Queue", "QueueLemmas"],
        "rule": "all sequential histories over {enqueue, dequeue, dequeue-all, requeue, depth} up to length 5 (thorough: 7) plus random ones "
                "to length 14, each run on util.Queue and on the Coq model (projected: consumer's net stream, chunks held, nil returns, "
                "depths, panic); plus producer/consumer stress runs under the race detector across GOMAXPROCS 1/2/4/16 with the "
                "consumer cycling through a random mix of the four consumer operations; non-trivial = history of >= 3 operations or a stress run",
        "level_text": "Theorems C20_* hold for every chunk list, every consumer program and every interleaving (inductive invariant over the "
                      "small-step model of util/queue.go at lock/mailbox granularity; data-generic, unbounded): lossless FIFO with put-backs, no "
                      "panic, depth = chunks held, no deadlock, termination measure. Tied to the code by sequential histories (exhaustive to a "
                      "bound) compared with the model and by concurrent stress under -race with the property as oracle.",
        "level_note": "Partial in one respect: that sync.RWMutex and a 1-slot buffered channel implement the modelled lock/mailbox semantics is the "
                      "Go runtime's; the concurrent runs observe the real thing but cannot force its interleavings.",
    },
    "C03": {
        "n": {"quick": 250, "thorough": 6000},
        "cone": ["Bytes", "BytesLemmas", "Regex", "Generated", "Netconf", "NetconfLemmas", "NcSession"],
        "rx": True,
        "rule": "netconf.Driver over the simulated transport against a NETCONF server model whose request parser is a strict RFC 6242 / "
                "end-of-message decoder: sessions of 1-12 requests over all operations (get, get-config, edit-config, copy/delete-config, "
                "lock/unlock, validate, commit variants, discard, raw rpc) with multi-byte / attribute / namespace / empty-element arguments, "
                "x {1.0,1.1} x {force self-closing} x {exclude header} x {echoing transport} x read segmentations; compared with the model: "
                "every byte written, Input, FramedInput, result; non-trivial = more than one request",
        "level_text": "Theorems: the frame built by serialize is what the strict RFC 6242 decoder (independent definition) inverts, for every "
                      "message and for whole sessions with the two returns (exact byte counts, end-of-chunks marker), 1.0 framing splits at "
                      "the marker, FramedInput = frame(Input); request templates carry the caller's arguments (NcSessionLemmas). The hand-written "
                      "XML templates are tied to encoding/xml by byte-for-byte comparison of every request the real driver writes.",
        "level_note": "Trusted: kernel; generated constants and the emptyTags regex AST; extraction; harness server model. encoding/xml is an "
                      "oracle whose output the templates are compared with on every case. Force-self-closing is modelled with the regex engine "
                      "and compared differentially; no general theorem about it yet.",
        "assumptions": ["argument strings are valid UTF-8 without XML-invalid control characters (encoding/xml would substitute U+FFFD)"],
    },
    "C13": {
        "n": {"quick": 400, "thorough": 20000},
        "cone": ["Bytes", "Generic", "GenericLemmas"],
        "rule": "random command lists (1-10) with failure strings planted at none/first/middle/last/several outputs, "
                "driver-level x operation-level failure lists, stop-on-failed on/off, SendCommands / SendCommand-each / "
                "SendCommandsFromFile through generic.Driver over the simulated transport; non-trivial = some response "
                "failed and more than one command",
        "trusted_base": ["exchange with the device abstracted as (command, output) pairs in the C13 theorems; "
                         "the exchange itself is C01's subject"],
        "level_text": "Theorems C13_failed_iff/_failed_first/_precedence/_multi/_nostop/_stop/_collapse over the model of "
                      "Response.Record, MultiResponse.AppendResponse, sendCommand/SendCommands and SendConfig's collapse hold for all "
                      "outputs, lists and command sequences (list induction, no bound); the model is tied to the code by running "
                      "generic.Driver end-to-end against a simulated device and comparing failed flags, matched strings, aggregate, "
                      "response count and the lines the device received.",
        "level_note": "Trusted: Coq kernel; extraction (ExtrOcamlBasic) + main.ml; Go harness and its CLI device. The exchange with "
                      "the device is abstracted as (command, output) pairs here; C01 covers the exchange.",
        "assumptions": ["failure strings are non-empty (an empty string masks later ones in Go's scan; hypothesis of C13_failed_iff)"],
    },
}
