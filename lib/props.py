"""Per-property configuration of the check driver (lib/vcheck.py)."""


RX_TB = ("Coq regex engine (Regex.v): proved sound and, fuel permitting, complete for the declarative matching relation RegexLemmas.matches "
         "(rx_match_iff); that the generated ASTs mean what Go's regexp means is checked by the RX differential on every regex-dependent run")

NC_RULE = ("netconf.Driver over the simulated transport against a NETCONF server model (strict RFC 6242 / end-of-message request parser; per-request "
           "behaviour reply now / after the client's timeout / never; echoing or not; 1.0/1.1; reply chunkings incl. ones that split the message-id "
           "attribute; read segmentations that never merge two server messages). The transport log (every read with its bytes, every write, call "
           "boundaries, observed deadlines) is replayed by the model; compared: open outcome (version, capabilities, session-id), per call the "
           "message-id, Input, FramedInput, result, failure kind, and every byte written.")

PROPS = {
    "RX": {
        "no_props": True,
        "n": {"quick": 3000, "thorough": 60000},
        "cone": ["Bytes", "Regex", "Generated"],
        "rule": "per generated regex: strings sampled from the pattern's own language, concatenated/mutated; "
                "ops match/find/group1/remove-all/split-after/find-all; non-trivial = the pattern matched",
        "kernel_sample": {"quick": 30, "thorough": 100},
    },
    "C01": {
        "pf": True,
        "n": {"quick": 220, "thorough": 12000},
        "cone": ["Bytes", "BytesLemmas", "Regex", "Generated", "Channel", "Session", "SessionLemmas", "Replay", "DecideLang", "GeneratedSkel", "WindowSrc", "SendInputSrc", "InteractiveSrcDefs", "PlatformTypes", "DecideLemmas", "ReadUntilSrc", "ChanReadSrc", "ProcessOutSrc"],
        "rx": True,
        "kernel_sample": {"quick": 6, "thorough": 20}, "kernel_maxlen": 2500,
        "rule": "generic.Driver SendCommands / SendCommand over the simulated transport and a CLI echo device: prompts drawn from the default "
                "pattern's language, 1-8 commands, outputs with blank lines, trailing spaces, CRLF/LF, SGR/cursor escape atoms, multi-byte "
                "UTF-8 and long lines; echo verbatim / wrapped with filler; read sizes and per-read segmentation lists (1 byte .. whole burst); "
                "read delays; search depths 120..10000; strip/keep prompt; exact/fuzzy. The transport logs every read size and every write with "
                "the device's reaction; the model replays that schedule and must reproduce every result and every write. Non-trivial = more "
                "than one command; hypotheses_true_by_model counts the cases on which the model evaluated session_ok (the theorem's "
                "hypothesis) to true. A quarter of the commands end in a run of one byte; one segmentation class delivers everything but the last byte, then the last byte alone. Standing sub-check PF: the channel's pure functions (BytesRoughlyContains, processReadBuf, processOut, per-read normalisation) against their Coq transcriptions on 3000 inputs.",
        "level_text": "Theorems C01_cli_alignment / C01_progress / C01_schedule_independent hold for every schedule (every cut of the device "
                      "stream into reads, every interleaving of reader and operation), every command list and every device script meeting the "
                      "property's preconditions (session_ok), proved by an invariant over the interpreter of the transcribed programs "
                      "(phase lemma + session induction, unbounded). The interpreter is tied to channel/*.go and driver/generic by replaying "
                      "the logged schedule of each real run and comparing all results and writes; the theorem's hypotheses are evaluated on "
                      "the generated cases by the regex engine.",
        "level_note": "Partial in one respect: escape-sequence removal is excluded from the theorem (hypothesis: no ESC byte) and covered by the "
                      "correspondence only. Trusted: kernel, generated prompt/ANSI regex ASTs + RX check, extraction, harness device and "
                      "transport log.",
        "assumptions": ["device emits in reaction to writes only (causality)", "cuts never fall inside an escape sequence (harness transport delivers escape atoms whole)"],
    },
    "C02": {
        "rx": True,
        "n": {"quick": 2500, "thorough": 150000},
        "cone": ["Bytes", "Regex", "Generated", "Netconf", "NetconfLemmas", "NcSession", "NcSessionLemmas", "NcSegLemmas", "BytesLemmas", "Channel", "PlatformTypes", "DecideLang", "GeneratedSkel", "RecordSrc", "RecordSrcOk", "NcReadSrc"],
        "rule": "NetconfResponse.Record on raw bytes under recover(): well-formed stream = generated payloads (multi-byte UTF-8, '#', digits, "
                "LF, ']]>' and rpc-error variants at chunk edges) x random partitions (incl. 1-byte chunks) x surrounding whitespace; malformed "
                "stream = truncations, size mutations (negative/alpha/oversize/empty), dropped terminator, junk at marker positions, over-long "
                "size headers, raw random over '#\\n0-9-+a<>' and a fixed boundary corpus; non-trivial = input longer than 8 bytes. Plus n/40 (>= 40) whole sessions "
                "through netconf.Driver (replies on time, chunkings that keep the message-id in one chunk, echoing or not, the reply sharing a read with the echo of "
                "its request or the WHOLE exchange arriving in one read followed by silence, random read segmentations), replayed by the session model.",
        "level_text": "Theorems over the model of record1dot0/record1dot1Chunks/Record: the cursor-level transcription of the Go loop (every "
                      "index and slice a checked access) refines the functional decoder and never panics; every RFC 6242 encoding of any "
                      "chunk list decodes to exactly the trimmed payload; every listed malformation yields a parse error; an accepted result "
                      "is a subsequence of the input. Tied to the code by differential runs of Record on generated well-formed and malformed "
                      "frames and a model-free RFC 6242 reference decoder.",
        "level_note": "C02_wellformed_10 (1.0 framing, no hypothesis on the payload), C02_split_independent and C02_reply_any_split_11/_10: the read loop "
                      "files a message identically for every cut into reads at which no proper prefix matches the delimiter pattern, and the call with that "
                      "message-id returns exactly the payload. Trusted: Coq kernel; generated constants (header, delimiter, max size length, marker list) and "
                      "delimiter regex ASTs + RX; extraction + main.ml; harness generators.",
        "assumptions": ["payloads are XML documents (declaration, if any, first); 1.0 payloads do not contain the ']]>]]>' delimiter"],
    },
    "C15": {
        "n": {"quick": 250, "thorough": 4000},
        "cone": ["Telnet", "TelnetLemmas", "DecideLang", "GeneratedSkel", "DecideTel", "Bytes", "Generated", "PlatformTypes", "Regex"],
        "rule": "real transport.Telnet against a loopback TCP server: openings drawn from the RFC 854 token grammar (option negotiations with all "
                "four verbs x option codes incl. SGA, two-byte commands NOP/GA/..., escaped IAC, banner data) x random TCP segmentations; compared: "
                "bytes the server received, bytes returned by the first reads; non-trivial = opening has a negotiation and data A quarter of the cases first open a connection that ends inside a telnet command on the SAME transport object, then the opening under test on a new connection.",
        "level_text": "Theorem C15_negotiation: for every token sequence the byte-at-a-time parser answers each option request exactly once with the "
                      "RFC answer, ends outside control mode and buffers exactly the data bytes in order (induction over tokens, all option codes, "
                      "unbounded). The model is tied to transport/telnet.go by running the real transport over loopback TCP.",
        "level_note": "C15_handle_is_source: handleControlCharResponse is translated statement by statement from the Go AST on every run and proved to act on (control buffer, data, replies) exactly as the model for every buffer and byte. Trusted: kernel, generated telnet constants, extraction, harness TCP peer. Subnegotiation (IAC SB ... IAC SE) is outside "
                      "the property's grammar and the model. The timeout that ends the negotiation phase is runtime behaviour (observed, not proved).",
    },
    "C19": {
        "n": {"quick": 300, "thorough": 8000},
        "cone": ["Bytes", "Generated", "Options", "OptionsRun", "OptionsLemmas", "DecideLang", "GeneratedSkel", "DecideLemmas", "OptionsSrc", "OptionsSrcOk", "PlatformTypes", "Regex"],
        "diagnose": "From Scrapli Require Import Bytes OptionsSrc.\nFrom Coq Require Import String List.\nEval vm_compute in failing_options.\n",
        "rule": "random subsets + permutations + duplicates of all 45 option constructors with valid and invalid values through generic / network / "
                "NETCONF NewDriver and through platform.NewPlatform with a generated YAML definition carrying an options block (every option name "
                "the platform package recognises, values of the documented YAML type; plus ill-typed values as a separate stream) combined with user "
                "options for the same settings; compared with the model: canonical dump of 43 public settings (regexes by source, funcs/loggers by "
                "count, durations in ns), error class, panic; non-trivial = more than one option",
        "level_text": "C19_options_are_source / C19_option_loops_are_source: the closure of every option constructor and the eight loops that apply an option list, AS TRANSLATED FROM THE SOURCE ON THIS RUN, assert the object, assign the fields and stop at the first real error exactly as the model says (for every list of outcomes). Theorems C19_* (22) over the model of the option closures and the constructors' application passes hold for ALL option lists: "
                      "build is one fold in list order per object, last-wins for overwrite settings, additive settings accumulate, frame (unnamed "
                      "settings keep defaults), adjacent-swap permutation, invalid value rejected at any position, ignored options raise no error, "
                      "user options override platform options, every recognised platform option with a well-typed value takes effect without panic. "
                      "The inventory of constructors/platform option names is regenerated from the source and checked against the model "
                      "(check_inventory), so an unmodelled option breaks the tie. Tied to the code by dumping the real drivers' settings.",
        "level_note": "Derived settings are modelled as derived (prompt pattern under network/NETCONF is overridden by the constructor, as the code "
                      "documents). Trusted: kernel, generated inventories/defaults, extraction, harness dump.",
    },
    "C20": {
        "n": {"quick": 150, "thorough": 1500},
        "race": True,
        "cone": ["Queue", "QueueLemmas", "DecideLang", "GeneratedSkel", "QueueSrc", "QueueSrcOk", "ChanOpenSrc"],
        "diagnose": "From Scrapli Require Import QueueSrc.\nFrom Coq Require Import String List.\nOpen Scope string_scope.\nEval vm_compute in (map (fun n => (n, q_run n false)) (\"Queue.Enqueue\" :: \"Queue.Requeue\" :: \"Queue.Dequeue\" :: \"Queue.DequeueAll\" :: \"Queue.getDepth\" :: \"Queue.GetDepth\" :: nil)).\n",
        "rule": "all sequential histories over {enqueue, dequeue, dequeue-all, requeue, depth} up to length 5 (thorough: 7) plus random ones "
                "to length 14, each run on util.Queue and on the Coq model (projected: consumer's net stream, chunks held, nil returns, "
                "depths, panic); plus producer/consumer stress runs under the race detector across GOMAXPROCS 1/2/4/16 with the "
                "consumer cycling through a random mix of the four consumer operations; non-trivial = history of >= 3 operations or a stress run",
        "level_text": "C20_queue_is_source: every method of util/queue.go AS TRANSLATED FROM THE SOURCE ON THIS RUN performs, in order, "
                      "exactly the lock / mailbox / slice / depth actions the model's transitions stand for. "
                      "Theorems C20_* hold for every chunk list, every consumer program and every interleaving (inductive invariant over the "
                      "small-step model of util/queue.go at lock/mailbox granularity; data-generic, unbounded): lossless FIFO with put-backs, no "
                      "panic, depth = chunks held, no deadlock, termination measure. Tied to the code by sequential histories (exhaustive to a "
                      "bound) compared with the model and by concurrent stress under -race with the property as oracle.",
        "level_note": "Partial in one respect: that sync.RWMutex and a 1-slot buffered channel implement the modelled lock/mailbox semantics is the "
                      "Go runtime's; the concurrent runs observe the real thing but cannot force its interleavings.",
    },
    "C03": {
        "n": {"quick": 250, "thorough": 6000},
        "cone": ["Bytes", "BytesLemmas", "Regex", "Generated", "Netconf", "NetconfLemmas", "NcSession", "NcSessionLemmas", "NcSegLemmas", "NcExtraLemmas", "DecideLang", "GeneratedSkel", "SerializeSrc", "NcBuildSrc", "Channel", "PlatformTypes"],
        "rx": True,
        "rule": "netconf.Driver over the simulated transport against a NETCONF server model whose request parser is a strict RFC 6242 / "
                "end-of-message decoder: sessions of 1-12 requests over all operations (get, get-config, edit-config, copy/delete-config, "
                "lock/unlock, validate, commit variants, discard, raw rpc) with multi-byte / attribute / namespace / empty-element arguments, "
                "x {1.0,1.1} x {force self-closing} x {exclude header} x {echoing transport} x read segmentations; compared with the model: "
                "every byte written, Input, FramedInput, result; non-trivial = more than one request",
        "level_text": "Theorems: the frame built by serialize is what the strict RFC 6242 decoder (independent definition) inverts, for every "
                      "message and for whole sessions with the two returns (exact byte counts, end-of-chunks marker), 1.0 framing splits at "
                      "the marker, FramedInput = frame(Input); request templates carry the caller's arguments (NcSessionLemmas). The hand-written "
                      "XML templates are tied to encoding/xml by byte-for-byte comparison of every request the real driver writes.",
        "level_note": "Trusted: kernel; generated constants and the emptyTags regex AST; extraction; harness server model. encoding/xml is an "
                      "oracle whose output the templates are compared with on every case. Every operation's payload is given as an explicit term of the caller's arguments "
                      "(C03_get .. C03_commit, C03_every_payload_in_rpc); force-self-closing: C03_force_option_local (the forced message is exactly the rewriting of the unforced one) "
                      "and C03_force_option_noop (no empty element pair: unchanged); what the rewriting does to a pair is the regex engine's (compared differentially).",
        "assumptions": ["argument strings are valid UTF-8 without XML-invalid control characters (encoding/xml would substitute U+FFFD)"],
    },
    "C04": {
        "pf": True,
        "n": {"quick": 250, "thorough": 8000},
        "cone": ["Bytes", "BytesLemmas", "Regex", "Generated", "Channel", "Network", "NetworkAbs", "NetworkLemmas", "NetworkTwins", "NetworkHistory", "NetworkHistoryLemmas", "Replay", "DecideLang", "GeneratedSkel", "DecideLemmas", "DecidePA", "DecideLemmas", "NetworkSrc", "PlatformTypes", "AcquireSrc", "EscalateSrc", "PrivGraphSrc"],
        "rx": True,
        "rule": "network.Driver over the simulated transport against a privilege-tree device: random rooted labelled trees of 1-6 levels (with and "
                "without authenticated edges, with/without secondary secret), every kind of start mode / default level, histories of 1-6 operations "
                "mixing SendCommand, SendCommands, SendConfigs (default 'configuration' or explicit level) and AcquirePriv (incl. unknown targets), "
                "read segmentations. The transport log is replayed by the model of driver/network (programs over the Channel interpreter); compared: "
                "per-call outcome/result, every write (with redaction of the secret), the cached level. Oracle: device (mode, line) log = commands of "
                "the BFS tree path then the operation's lines, final mode = target. Non-trivial = more than one level. A third of the trees have twin sibling leaves with one prompt pattern (as IOS-XR configuration / configuration-exclusive), acquire targets biased to the twins; sessions never start in a twin.",
        "level_text": "C04_history / _commands_at_default / _configs_at_config_level: for EVERY history of SendCommand(s) (with its cached-level shortcut), SendConfigs and AcquirePriv whose own lines do not change the device's mode, from any start mode with an accurate or not-yet-set cache, every acquire succeeds and each operation's lines are logged AT the default desired level (commands) / the configuration or requested level (configs), preceded by exactly the tree path's commands; C04_inert_needed shows the hypothesis cannot be dropped (the library trusts its cached level: known finding F25). C04_acquire_twins / _acquire_many_twins generalise C04_acquire to trees in which several LEAF levels share one prompt (IOS-XR, Junos "
                      "configuration variants): with an accurate cached level (or an unambiguous mode) every acquire of a session reaches its target along the "
                      "tree path and re-establishes the cache invariant; side condition found by the proof: no level called UNKNOWN may be a prompt-twin. "
                      "Theorems C04_tree_path / _tree_path_unique / _dfs_order_irrelevant / _acquire / _unknown_target: for every well-formed privilege tree, "
                      "every iteration order of Go's maps, every (current, target) pair: the DFS returns the unique tree path and the acquire loop drives "
                      "the device along it with exactly the path's commands (graph induction + loop invariant, unbounded). The transcription of "
                      "driver/network/*.go is tied to the code by replaying the logged schedule of real sessions.",
        "level_note": "C04_process_acquire_is_source: processAcquirePriv is translated statement by statement from the Go AST on every run and its interpretation is proved equal to the model's process_acquire for every map, cached level, target and prompt. The navigation theorem is stated at the level of whole exchanges (NetworkAbs); the refinement from exchanges to byte-level reads is "
                      "C01's phase lemma and is not yet composed with it mechanically. Hypotheses: prompts identify levels uniquely, sibling commands "
                      "distinct, no level named by the empty string (found by the proof).",
        "assumptions": [],
    },
    "C05": {
        "pf": True,
        "n": {"quick": 220, "thorough": 6000},
        "compare": "member",
        "cone": ["Bytes", "Regex", "Generated", "Channel", "Network", "Replay", "SessionLemmas", "Netconf", "NcSession", "NcSessionLemmas", "NcSegLemmas", "NcExtraLemmas", "DecideLang", "GeneratedSkel", "DecideGT", "InteractiveSrcDefs", "SendInputSrc", "BytesLemmas", "ChanTrace", "ChanTraceLemmas", "PlatformTypes", "Session", "RpcSrc", "DecideLemmas", "ReadUntilSrc"],
        "rx": True,
        "rule": "CLI sessions (generic SendCommand / GetPrompt / SendInteractive, network SendCommand with an implicit privilege change, AcquirePriv) "
                "with the device going silent after byte k of the exchange: k from a dry run of the same case, every k of one small exchange "
                "exhaustively plus random k; connection-wide 60 ms and per-operation 35 ms (over a 2 s connection-wide) timeouts; after the error the "
                "device resumes and the next command runs (recovery clause, for stalls after the return was sent). The logged schedule (with the "
                "observed deadline) is replayed by the model. Oracle: timeout (privilege for the implicit change) within [timeout, timeout+250 ms], "
                "never success with a result other than the dry run's, next command's result = its own. NETCONF: a third of the cases are NETCONF sessions (1.0/1.1, "
                "all chunkings but the message-id-splitting ones) in which some RPC is answered after the client's timeout or never and later RPCs "
                "on time: timeout for that RPC, own reply for every later one (replayed by the NcSession model); NETCONF open timeouts under C09.",
        "level_text": "Model: every read-until carries its deadline continuation (Channel.Until c k h); a Deadline event at a read-until yields the timeout "
                      "error through every enclosing handler (so a failed implicit privilege change is a privilege error), and a finished operation "
                      "consumes nothing more (SessionLemmas.failed_is_final, deadline_at_until: proved for all schedules). Tied to the code by "
                      "replaying real stalled sessions incl. recovery.",
        "level_note": "Partial: 'within timeout plus slack' is wall-clock; proved as 'fails at the deadline event, consumes nothing afterwards', measured "
                      "on every case. NETCONF: C05_rpc_timeout (deadline of an RPC -> timeout error even if the reply was filed meanwhile) and C05_rpc_next_request_fresh_id (the id advances all the same).",
    },
    "C06": {
        "pf": True,
        "n": {"quick": 220, "thorough": 6000},
        "compare": "member",
        "cone": ["Bytes", "Regex", "Generated", "Channel", "Network", "Replay", "SessionLemmas", "Netconf", "NcSession", "NcSessionLemmas", "NcSegLemmas", "NcExtraLemmas", "DecideLang", "GeneratedSkel", "InteractiveSrcDefs", "SendInputSrc", "BytesLemmas", "ChanTrace", "ChanTraceLemmas", "ChannelLemmas", "PlatformTypes", "Session", "RpcSrc", "DecideLemmas", "ReadUntilSrc", "ChanReadSrc", "WriteSrc"],
        "rx": True,
        "rule": "the same CLI sessions with the transport reporting end-of-stream / a persistent read error after byte k, or failing a write; the "
                "model prints every legal outcome of the race between the loss and the operation's consumption of already-queued chunks (the "
                "implementation tests the error hand-off and the exited flag before the queue) and the implementation's outcome must be one of "
                "them. Oracle: an error of connection/transport class promptly (< 600 ms with a 1.5 s timeout), never success with output other "
                "than the dry run's, every later operation fails, the process survives (Close returns). Also: callback sends as the operation in flight; idle losses after unsolicited device output (log line + prompt already queued) followed by GetPrompt or a command. NETCONF: the stream ends or fails between two RPCs while writes still succeed (half-open): EVERY later RPC must report a connection/transport error promptly (replayed by the session model).",
        "level_text": "Model: reader EOF/error states and the operation's read-until taking its error continuation (Channel.step Eof/Ioerr), with the "
                      "same all-schedule lemmas as C05; tied to the code by replaying real sessions with injected losses (membership in the model's "
                      "legal-outcome set).",
        "level_note": "Partial: 'promptly' is wall-clock (measured); write failures are outside the operation language (oracle only); NETCONF error "
                      "forwarding: C06_rpc_error (a forwarded transport error fails the RPC in flight, winning over timer and reply) plus the C07 scenarios and C08 sessions. No-panic for shutdown: C07.",
    },
    "C07": {
        "n": {"quick": 60, "thorough": 1500},
        "race": True,
        "compare": "member",
        "cone": ["Conc", "Close", "CloseDefs", "CloseLemmas", "CloseRun", "GeneratedSkel", "CloseSkel", "CloseSkelOk", "DecideLang", "StdCloseSrc", "ChanReadSrc"] + ["CloseShard%02d" % i for i in range(13)],
        "diagnose": "From Scrapli Require Import CloseSkel.\nFrom Coq Require Import String List.\nOpen Scope string_scope.\nEval vm_compute in show_failing.\n",
        "kernel_sample": {"quick": 4, "thorough": 12}, "kernel_maxlen": 1500,
        "retry_sigs": r"(C07:leak|C07:hang|C07:setup-failed$)",
        "timeout": {"quick": 1500, "thorough": 6000},
        "rule": "every case runs in a child process built with the race detector: generic / network (with and without an on-close hook) / NETCONF driver "
                "over the simulated transport, connection armed in one of the states idle, reader parked in the read, EOF seen, error pending on the "
                "hand-off, data arriving, error arriving, after an operation, second Close; what a blocked transport read does on close: EOF / error / stays "
                "blocked; read delays 1 us .. 1 ms (grace period of Close), jitter before Close.  The scenario table exhaustively first; then, through the "
                "yield points of the `verif` build tag, every pair (reader-side point, closer-side point) is parked and released in both orders (forced "
                "interleavings); then random cases.  Observed: panic / process death, Close returned, transport closed, second Close returned, goroutines "
                "left (runtime.NumGoroutine after settling), race detector reports, and the record of yield points passed since Close was called.  "
                "Compared with the model: the outcome (returned, closed, goroutines left) must be one of the outcomes of the model's quiescent reachable "
                "states for that scenario (CloseRun.run_outcomes), and the yield-point record must be accepted by the model as a possible record of one of "
                "its runs (CloseRun.accepts_hooks: arrival semantics with lag).  The synchronisation skeleton of the modelled Go functions is re-extracted "
                "from the source on every run and compared inside Coq with the skeleton of the model's control-flow graphs (Generated.sync_skeleton, "
                "CloseSkel.skeleton_matches).  A scenario whose connection cannot be set up (Close never called) is no observation: it is replayed "
                "alone, and reported as a broken correspondence without a failing input if it still cannot be set up.  Non-trivial = every case.",
        "level_text": "Theorems C07_* over the protocol model (one instruction per synchronisation-relevant statement of Channel.read / Channel.Read / "
                      "Channel.Close / Transport.read / Transport.Close / netconf Driver.read / Driver.Close / sendRPC and its poller; Go semantics of "
                      "unbuffered channels, close, select, sync.Once, sync.Mutex): for every scenario in scope and EVERY schedule of any length no panic, "
                      "Close can always still return (AG EF) and is loop-free with a step bound, a returned Close has closed the transport, the graceful "
                      "path is entered only after the reader exited, no goroutine is left in any quiescent state (reader excepted for a transport whose read "
                      "stays blocked: witness), no plain access to shared state (race freedom), System transport fd accesses never co-enabled.  Proved by "
                      "reflective reachability (reach + check_closed evaluated by the kernel's VM in 13 shards, lifted to all schedules by "
                      "Conc.closed_covers_all / ef_sound / moves_bounded, which are proved by induction).  The code before the repairs is refuted by witness "
                      "schedules (C07_old_refuted_*, C07_prefix_*).",
        "level_note": "Partial: real goroutine counts, the race detector and durations are runtime observations made by the correspondence runs; scheduler "
                      "fairness and 'the timer of Close eventually fires' are assumed; a transport whose read never unblocks necessarily keeps its reader "
                      "goroutine (C07_reader_remains_if_read_stays_blocked).  Out of scope of the reachability computation: NETCONF with a second Close AND "
                      "an RPC in flight while the connection is also changing (> 10^5 states; covered separately and in the static states).",
        "assumptions": ["Impl.Read / Impl.Close of the transport implementation are atomic and thread-safe (System transport's fd field modelled separately)",
                        "scheduler fairness; time.After eventually fires"],
    },
    "C08": {
        "n": {"quick": 120, "thorough": 5000},
        "cone": ["Bytes", "BytesLemmas", "Regex", "Generated", "Netconf", "NetconfLemmas", "NcSession", "NcSessionLemmas", "NcSegLemmas", "NcExtraLemmas", "Channel", "PlatformTypes", "DecideLang", "GeneratedSkel", "NcStoreSrc", "RpcSrc", "NcReadSrc"],
        "rx": True,
        "rule": NC_RULE + " Histories of 1-25 RPCs with 60 ms timeouts and late replies; non-trivial = more than one request.",
        "level_text": "C08_reply_never_lost / _message_any_split: for any cut of a reply into reads (no boundary making a proper prefix look complete) the call carrying its message-id returns it, other ids' entries untouched. Theorems C08_ids / _own_reply / _own_request / _complete_message_filed / _incomplete_kept / _late_reply_harmless / _no_panic over the "
                      "model of the read loop and RPC wait hold for every operation list and every log (store invariant by induction, unbounded). "
                      "Tied to driver/netconf by replaying the logged schedule of each real session.",
        "level_note": "Hypotheses carried by the theorems: a message's id must be extractable from the framed bytes (see the known finding: a 1.1 chunk "
                      "boundary inside the message-id attribute makes the reply unfileable); reply payloads do not contain the literal '</rpc>'; a buffer never holds two server messages at once (otherwise: known finding F26 -- the echo of a request and "
                      "its reply MAY share a read, generated since mutation round 3). Trusted: "
                      "kernel, generated regex ASTs + RX, extraction, harness server model.",
        "assumptions": ["the model's read loop re-examines its buffer to a fixpoint between two chunk arrivals (the real loop does one examination per read delay); "
                        "the two differ only when a buffer holds more than one server message, which is the known finding F26"],
    },
    "C09": {
        "n": {"quick": 200, "thorough": 5000},
        "cone": ["Bytes", "BytesLemmas", "Regex", "Generated", "Netconf", "NetconfLemmas", "NcSession", "NcSessionLemmas", "DecideLang", "GeneratedSkel", "DecideLemmas", "DecideDV", "DecideLemmas", "CapabilitySrc", "Channel", "PlatformTypes"],
        "rx": True,
        "rule": NC_RULE + " The 4 x 3 table {base:1.0, base:1.1 advertised} x {preferred none/1.0/1.1} exhaustively first, then random extra capabilities "
                "(incl. near-miss URNs), nc: prefix, layouts, session-ids up to 2^64-1, missing / truncated hello; non-trivial = every case.",
        "level_text": "Theorems C09_table / _11_iff (for all capability lists), C09_client_hello (by computation on the generated hello strings with the "
                      "library's own capability pattern), C09_open_spec / _open_complete / _fail_is_netconf_error. Tied to capabilities.go/driver.go by "
                      "replaying real Open calls against generated server hellos.",
        "level_note": "C09_determine_version_is_source: the body of determineVersion is translated statement by statement from the Go AST on every run and its interpretation is proved equal to the model for all capability lists and preferences (incl. the delimiter switch). parse_hello (regex extraction over hello layouts) is exercised differentially, not proved in general. Trusted: kernel, generated "
                      "constants/regex ASTs + RX, extraction, harness.",
    },
    "C14": {
        "n": {"quick": 60, "thorough": 1500},
        "cone": ["Bytes", "BytesLemmas", "Generated", "SshArgs", "SshArgsLemmas", "DecideLang", "GeneratedSkel", "DecideStd", "StdSessionSrc"],
        "rule": "exhaustive table {system, standard, system with real OpenSSH} x {strict (default), not strict} x {known-hosts has the key / another key / "
                "empty / not given} x {password, key, both}, then random ports/users/extra args/config file/netconf; system transport through a stand-in "
                "ssh binary that records argv, standard transport against an in-process x/crypto/ssh server with a fresh host key (and a second server "
                "whose key is in no file, to tell an insecure policy from a checking one); non-trivial = every case Known-hosts kinds include the server key listed as @revoked (alone and next to a matching entry).",
        "level_text": "Theorems C14_* (29) over the model of System.buildOpenArgs (built from the generated literal list, so the source decides the "
                      "strings) and Standard.openBase hold for all settings and strings: strict => yes-option present / no-option absent / known-hosts "
                      "named; argv independent of the password; host/port/user/key/config as configured; policy and auth-method decisions; default "
                      "strict. Tied to the code by argv and server-side observations on the configuration table.",
        "level_note": "C14_std_open_base_is_source: Standard.openBase is translated statement by statement from the Go AST on every run; its interpretation installs the policy and offers the auth methods of the model for every configuration. Partial: that OpenSSH and crypto/ssh ENFORCE the option / callback is runtime behaviour, exercised on the table, not proved.",
    },
    "C16": {
        "n": {"quick": 60, "thorough": 2500},
        # whole sessions over a real ssh process with 700 ms timeouts: a starved run is re-run alone before it counts
        "retry_sigs": r"(C16:session-nc-count|C16:session-nc-result|C16:session-cli|C16:session-open|C16:open-error)",
        "cone": ["Bytes", "Pipes", "PipesLemmas"],
        "kernel_maxlen": 3000,
        "rule": "the three built-in transports against real peers on loopback: transport.Telnet vs a TCP server, transport.Standard vs an in-process "
                "x/crypto/ssh server (shell and netconf subsystem), transport.System vs a stand-in program on a raw pty and vs real /usr/bin/ssh "
                "driving that ssh server; read sizes {1,16,64,333,8192}, payloads around and above the read size (control bytes and 0xFF "
                "over-represented), five split patterns, random interleavings of peer sends and client writes; blocked-read-then-close and "
                "peer-hang-up with a watchdog; about 1/6 of the cases run a whole CLI or NETCONF session over the real transport and over the "
                "simulated ideal pipe and compare. The slices the real Read calls returned are fed to the model as deliveries: it must return "
                "the same slices. Non-trivial = payload larger than the read size or an interleaving. Mode close-silent: the ssh peer stops reading its socket (answers nothing, not even channel close) before the transport is closed.",
        "level_text": "Theorems C16_* (12) over the model of the three Read wrappers and Write: for all read-size sequences, delivery splittings and "
                      "errors every byte is returned exactly once and in order, writes arrive concatenated in order, a read returns 1..n bytes "
                      "(telnet's first read returns the whole negotiation buffer: stated exception), errors are reported without data. Tied to the "
                      "code by running the real transports against loopback peers.",
        "level_note": "Partial: that a blocked fd/session/conn read returns when the transport is closed or the peer goes away, pty line discipline and "
                      "TCP are runtime behaviour: measured on every case (all returned within milliseconds), not proved.",
    },
    "C17": {
        "n": {"quick": 1, "thorough": 1},
        "exhaustive": True,
        "cone": ["Bytes", "Regex", "Generated", "Channel", "Network", "NetworkAbs", "NetworkLemmas", "Platform", "PlatformLemmas", "Replay", "NetworkTwins", "PlatformNav", "PlatformMerge", "RegexLemmas", "PlatformLang", "BytesLemmas", "PlatformTypes", "DecideLang", "GeneratedSkel", "PrivGraphSrc"],
        "rx": True,
        "rule": "exhaustive: every advertised platform name and every embedded definition file (documentation example excluded) is loaded with "
                "platform.NewPlatform / NewPlatformVariant; for network definitions the driver runs against a device built from the definition "
                "itself (modes = levels, prompts = canonical prompts derived by the translator from each level's pattern and re-checked by "
                "the regex engine, commands = the definition's escalate/de-escalate commands): Open runs the on-open steps, every ordered pair "
                "of levels is acquired in turn (6 pairs per case), Close runs the on-close steps; the logged schedule is replayed by the model of "
                "the network driver instantiated with the GENERATED level records. Non-trivial = every case.",
        "level_text": "Theorems C17_names and C17_wf hold by kernel computation over the regenerated definitions (finite exhaustive domain: all "
                      "advertised names, all embedded files); C17_paths lifts well-formedness to the unbounded C04 tree theorems for every "
                      "platform; C17_navigation / _nav_all / _strict_navigation / _start_only_*: for EVERY embedded network platform (checkers evaluated on the regenerated definitions, lifted by reflection lemmas) the hypotheses of the twin-prompt acquire theorem hold with the canonical prompts, hence from any level with an accurate cache every target whose path enters no escalate-less level is reached with exactly the tree path's commands, for every map order; levels without an escalate command (nokia_sros configuration-with-path) are starting points only and provably unreachable as targets. C17_variant states the merge. Tied to platform/*.go and the YAML by loading and driving every definition.",
        "level_note": "Exhaustive over the embedded definitions (exhaustive=true). Authenticated escalation edges are driven with a device that grants "
                      "without asking (the dialogue itself is C12's). User options layered on platform options: C19.",
    },
    "C18": {
        "pf": True,
        "n": {"quick": 250, "thorough": 6000},
        "cone": ["Bytes", "Regex", "Generated", "Channel", "ChanTrace", "ChanTraceLemmas", "Replay", "DecideLang", "GeneratedSkel", "DecideLemmas", "DecideCB", "DecideLemmas", "CallbackSrc", "BytesLemmas", "Network", "PlatformTypes", "Session", "SessionLemmas"],
        "rx": True,
        "rule": "generic.Driver.SendWithCallbacks over the simulated transport and a scripted dialogue device: callback lists (contains / not-contains / "
                "regex / case sensitivity / once / complete / next-timeout / answers written by the callback), dialogues whose texts make several triggers "
                "true in different orders, read segmentations; the transport log is replayed by the model; compared: sequence of (callback index, "
                "argument), result, error class, writes; non-trivial = some callback ran",
        "level_text": "Theorems C18_* over every path of SendWithCallbacks (hence every execution): the trigger is the property's; every callback that "
                      "runs had its trigger true on exactly the output it received and is the first such in list order; no callback runs "
                      "otherwise; once-callbacks run at most once; success = a complete-callback ran and the whole dialogue is returned; otherwise "
                      "timeout. Tied to the code by replaying real runs (sequence of (index, argument), result, error class).",
        "level_note": "C18_check_is_source: Callback.check is translated statement by statement from the Go AST on every run and its interpretation, given the outcomes of its tests, is proved equal to the model's cb_check for every callback and buffer. The recursion of handleCallbacks is bounded by fuel 64 in the model. Trusted: kernel, generated regex ASTs + RX, extraction, harness.",
    },
    "C10": {
        "pf": True,
        "n": {"quick": 240, "thorough": 8000},
        "cone": ["Bytes", "Regex", "Generated", "Channel", "ChanTrace", "ChanTraceLemmas", "Replay", "GeneratedSkel", "OpenSkel", "BytesLemmas", "Network", "PlatformTypes", "Session", "SessionLemmas", "DecideLang", "GeneratedSkel", "AuthSrc"],
        "rx": True,
        "rule": "generic.Driver.Open over a simulated transport that requests in-channel ssh / telnet login, against a scripted login device: "
                "banners, prompt spellings accepted by the patterns, 0-3 rejections, passphrase prompts, ssh client failure messages, silence; "
                "banner lines delivered whole (the property's segmentation restriction), prompts cut bytewise; the logged schedule is replayed by "
                "the model of channel/auth.go + Channel.Open; compared: open error class, every write with its redaction flag, the first read "
                "after open (login bytes kept). Oracle: outcome per the dialogue, credential sent only to its prompt, <= 2 each, transport closed "
                "on failure. Non-trivial = more than one turn. A sixth of the dialogues print a message of the day longer than the prompt search depth before the shell prompt; oracle: everything printed after the last credential is returned by the first read.",
        "level_text": "Theorems C10_* over every path of the login programs (and, by run_has_trace, every execution): credentials sent at most the "
                      "generated maximum, always redacted, only directly after a read on which their prompt pattern matched; success iff the "
                      "shell prompt matched; (max+1)-th prompt -> authentication error; ssh failure message -> connection error; silence -> timeout; "
                      "Open requeues exactly the login bytes. Tied to the code by replaying real login dialogues.",
        "level_note": "Hypothesis of the property: no read boundary makes a banner prefix look like a login prompt (banner lines are whole atoms in "
                      "the harness). The model bounds the login loop by fuel (a hostile device that never matches anything ends in EOperation in "
                      "the model, in a timeout in the code); 'transport closed on failure': observed on every failing login, and C10_open_closes_on_failure "
                      "(dataflow check, by computation, over the structure of the four Open functions re-extracted from the source on every run).",
    },
    "C11": {
        "pf": True,
        "n": {"quick": 240, "thorough": 8000},
        "cone": ["Bytes", "Regex", "Generated", "Channel", "Network", "ChanTrace", "ChanTraceLemmas", "Replay", "BytesLemmas", "PlatformTypes", "Session", "SessionLemmas", "DecideLang", "GeneratedSkel", "WriteSrc", "EscalateSrc"],
        "rx": True,
        "rule": "the login dialogues of C10 and privilege escalations (device asks / grants without asking / refuses) run with a logger at "
                "debug/info/critical and a channel log attached; secrets include format verbs, regex metacharacters, non-ASCII and the literal "
                "'redacted'; every log line and the channel log are searched for every secret; compared with the model: which writes were "
                "logged as redacted. Non-trivial = more than one turn / every escalation. A quarter of the cases make the k-th transport write fail (the link dies while a credential is being sent): log oracle only on those.",
        "level_text": "Noninterference theorems C11_*: programs that differ only in the payload of redacted writes (login with other credentials, "
                      "escalation / AcquirePriv / SendCommand with another secondary secret, interactive sends with other hidden inputs) produce, "
                      "on every schedule, the same visible log (what Channel.Write and the loggers receive) against a device whose reactions do "
                      "not depend on what is typed. Tied to the code by redaction flags of real runs and a substring search of all log output.",
        "level_note": "Assumes the device does not echo secrets (property text). ssh argv independence of the password: C14. Platform on-open steps "
                      "with redacted writes: exercised under C17/C19 sessions.",
    },
    "C12": {
        "pf": True,
        "n": {"quick": 240, "thorough": 8000},
        "cone": ["Bytes", "Regex", "Generated", "Channel", "Network", "ChanTrace", "ChanTraceLemmas", "InteractiveLemmas", "Replay", "DecideLang", "GeneratedSkel", "WindowSrc", "SendInputSrc", "DecideLemmas", "InteractiveSrcDefs", "InteractiveSrc", "InteractiveSrcModel", "InteractiveTie", "BytesLemmas", "PlatformTypes", "Session", "SessionLemmas", "ReadUntilSrc"],
        "rx": True,
        "rule": "SendInteractive dialogues (1-5 events, visible/hidden, with/without expected response, completion patterns) against a scripted "
                "device whose reactions become readable only after a delay (0 / 0.3 / 1.5 ms) so that typing ahead is observable (bytes delivered "
                "at each write are recorded); SendInput with delayed echo, eager and not; privilege escalation against a device that asks for "
                "the secret / grants without asking / refuses. The logged schedule is replayed by the model; compared: result, writes with "
                "redaction flags, cached level. Oracle: input k+1 only after everything up to event k's response was delivered; return after "
                "echo; the secret never arrives at a command prompt.",
        "level_text": "Theorems C12_* over every path (hence every execution): shape of interactive sends (each input only after the read for the "
                      "previous event returned; hidden inputs redacted, no echo read), return only after the echo read, and the secondary secret "
                      "written only directly after a read on which the escalation prompt matched and no completion pattern did.",
        "level_note": "C12_result_whole: a successful interactive send returns processOut of everything its read-untils returned (echo reads included), a failed one the error of the read-until that received it and no partial dialogue; C12_send_input_result / _get_prompt_result likewise. C12_secret_guarded carries the hypothesis that a completion pattern matching the search window also matches the whole buffer "
                      "(true for line-anchored patterns when the window starts at a line boundary); C12_window_refuted shows why.",
    },
    "C13": {
        "n": {"quick": 400, "thorough": 20000},
        "cone": ["Bytes", "Generic", "GenericLemmas", "DecideLang", "GeneratedSkel", "DecideLemmas", "GenericSrc"],
        "rule": "random command lists (1-10) with failure strings planted at none/first/middle/last/several outputs, "
                "driver-level x operation-level failure lists, stop-on-failed on/off, SendCommands / SendCommand-each / "
                "SendCommandsFromFile through generic.Driver over the simulated transport; non-trivial = some response "
                "failed and more than one command Half of the cases first run another operation with its own operation-level list (and sometimes stop-on-failed) on the same driver: nothing of it may carry over.",
        "trusted_base": ["exchange with the device abstracted as (command, output) pairs in the C13 theorems; "
                         "the exchange itself is C01's subject"],
        "level_text": "C13_scan/_record/_append/_send_command_fws/_send_commands/_send_config _is_source: StringContainsAnySubStrs, "
                      "Response.Record, MultiResponse.AppendResponse, sendCommand, SendCommands and SendConfig AS TRANSLATED FROM THE "
                      "SOURCE ON THIS RUN compute the model's scan, failure mark, aggregate, list in force, stop-on-failed loop and collapse, "
                      "for every string, list and failure pattern (induction over the loops). "
                      "Theorems C13_failed_iff/_failed_first/_precedence/_multi/_nostop/_stop/_collapse over the model of "
                      "Response.Record, MultiResponse.AppendResponse, sendCommand/SendCommands and SendConfig's collapse hold for all "
                      "outputs, lists and command sequences (list induction, no bound); the model is tied to the code by running "
                      "generic.Driver end-to-end against a simulated device and comparing failed flags, matched strings, aggregate, "
                      "response count and the lines the device received.",
        "level_note": "Trusted: Coq kernel; extraction (ExtrOcamlBasic) + main.ml; Go harness and its CLI device. The exchange with "
                      "the device is abstracted as (command, output) pairs here; C01 covers the exchange.",
        "assumptions": ["failure strings are non-empty (an empty string masks later ones in Go's scan; hypothesis of C13_failed_iff)"],
    },
}
