#!/bin/sh
# lib/verify_queue.sh <id>... : confirm sub-agents' changes one after the other (each: fresh worktree, suite, demo with/without)
for id in "$@"; do /verif/lib/verify_mutation.sh "$id" /tmp/mut/"$id" > /tmp/mv/"$id".verify.log 2>&1; done
