#!/usr/bin/env python3
"""lib/mkprompts.py : writes /tmp/mut/prompts/<PID>.txt, the instructions for a mutation sub-agent (property text only,
plus one line per earlier seeded change of that property so that it attacks something else)."""
import json, os
ps = {json.loads(l)['id']: json.loads(l) for l in open('/verif/properties.jsonl')}
os.makedirs('/tmp/mut/prompts', exist_ok=True)
earlier = {}
for d in sorted(os.listdir('/verif/seeded')):
    m = '/verif/seeded/%s/meta.json' % d
    if os.path.exists(m):
        j = json.load(open(m)); earlier.setdefault(j['property'], []).append(j['what'])
T = """You are helping test a verification effort for the Go library scrapli/scrapligo (a client library that drives network devices over SSH/telnet CLI and NETCONF). Your job: write ONE realistic, subtle change to the library that BREAKS the property below while the code still compiles and the existing test suite still passes, plus a demonstration that fails with your change and passes without it.

PROPERTY %s - %s
Statement: %s
Quantifier: %s
Why the existing tests cannot settle it: %s
Code anchors: %s

Your scratch git worktree of the repository is /tmp/mut/@ID@ (work ONLY there; never touch /repo or /verif; do not read /verif).
Environment: no network. For every shell call: export GOFLAGS=-mod=mod GOPROXY=off GOSUMDB=off GOTOOLCHAIN=local
The full suite is: cd /tmp/mut/@ID@ && flock /tmp/mut/suite.lock go test -count=1 ./...   (ALWAYS run the full suite through that flock: one test binds a fixed port, parallel suites collide). It takes 1-3 minutes.

Requirements for the change:
- It must look like something a developer could plausibly commit (a refactor slip, an off-by-one, a wrong variable, a dropped statement, a reordered check, a cache that goes stale...), not sabotage, and be small (a few lines, non-test files only).
- It must need something SPECIFIC to manifest: a particular interleaving, a fault at a particular point, a multi-step sequence of operations, an unusual input, or two cooperating sites that each look fine alone. Ordinary single-operation use must still behave correctly, so that a simple smoke test would not notice it.
- Earlier rounds already made the following changes for this property; pick a DIFFERENT clause of the property and different code, and do not re-do any of these: %s
- go build ./... and go vet ./... must pass, and the whole existing suite must pass with your change.

Deliverables, in /tmp/mut/@ID@/.mutation/ :
- patch.diff : `git diff` of your change to the library only (must apply with `git apply` on a clean checkout).
- a demonstration: a Go test file named zz_mutation_demo_test.go placed in the appropriate package directory of the worktree (leave it there, untracked) AND copied into .mutation/ ; it must FAIL with your change and PASS without it, run offline, finish in under 60 s, and need no real device (use a custom transport via options.WithCustomTransport, the file transport, in-process fakes...).
- demo_cmd.txt : the exact shell command that runs only your demonstration, as its last line, e.g.  cd /tmp/mut/@ID@ && go test -count=1 -run TestMutationDemo ./channel/
- notes.md : what you changed, which clause of the property breaks, why the existing tests do not notice, and exactly what it needs in order to manifest.
Verify everything yourself before finishing: suite passes with the change; demo fails with the change; reverse-apply the patch and check that the demo passes without it; then leave the worktree WITH your change applied and the demo file in place. In your final answer state the one-paragraph summary of the change and what it needs to manifest."""
for pid, p in ps.items():
    txt = T % (pid, p['title'], p['statement'], p['quantifier']['text'], p['why_tests_cant'],
               json.dumps(p['anchors']['files']) + " ; mechanisms: " + "; ".join(m['name'] + " (" + m['where'] + ")" for m in p['anchors']['mechanism']),
               " | ".join(earlier.get(pid, ["(none)"])))
    open('/tmp/mut/prompts/%s.txt' % pid, 'w').write(txt)
print("prompts written")
