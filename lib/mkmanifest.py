#!/usr/bin/env python3
"""Writes /verif/MANIFEST.json from lib/props.py (single source for the per-property texts)."""
import json, os, sys
VERIF = os.path.dirname(os.path.dirname(os.path.abspath(__file__)))
sys.path.insert(0, os.path.join(VERIF, "lib"))
from props import PROPS
ALL = ["C%02d" % i for i in range(1, 21)]
checks, na = [], []
for pid in ALL:
    cfg = PROPS.get(pid)
    if cfg and not cfg.get("unclaimed") and not os.path.exists(os.path.join(VERIF, "coq", "props", pid + ".v")):
        cfg = dict(cfg, unclaimed="model and correspondence harness exist and run; the property theorems (coq/props/%s.v) are still being proved, so the check is not registered yet" % pid)
    if not cfg or cfg.get("unclaimed"):
        na.append({"property_id": pid, "reason": (cfg or {}).get("unclaimed", "check not built yet in this round (model/theorems under construction); see DESIGN.md section 6-" + pid)})
        continue
    checks.append({
        "property_id": pid,
        "quick_cmd": "./check %s quick" % pid,
        "thorough_cmd": "./check %s thorough" % pid,
        "evidence_file": "/verif/evidence/%s.json" % pid,
        "replay_cmd_template": "./check %s --replay {path}" % pid,
        "engine": "rocq-model+correspondence",
        "level_claimed": {"category": "proof", "text": cfg["level_text"], "design_ref": "DESIGN.md section 6, " + pid},
        "level_note": cfg["level_note"],
        "technique": cfg.get("technique", "machine-checked proof in Rocq (Coq 8.16) over an executable model + differential correspondence with the Go implementation"),
    })
hooks_commits = []
try:
    hooks_commits = [l.strip() for l in open(os.path.join(VERIF, "hooks_commits.txt")) if l.strip()]
except OSError:
    pass
m = {
    "version": 1,
    "setup_cmd": "./setup.sh",
    "hooks": {
        "guard": "verif",
        "enable": "go build -tags verif (harness module with replace github.com/scrapli/scrapligo => /repo)",
        "baseline_off_cmd": "cd /repo && GOFLAGS=-mod=mod go test -json -vet=off -count=1 -timeout 25m ./...",
        "source_commits": hooks_commits,
        "add_only": True,
    },
    "engines": [{"name": "rocq-model+correspondence", "path": "/verif/coq, /verif/gen, /verif/harness, /verif/lib/vcheck.py",
                 "serves_properties": [c["property_id"] for c in checks],
                 "kind_free_text": "Coq 8.16.1 development (models + theorems), Go translator regenerating Generated.v from /repo, "
                                   "extracted OCaml model runner, Go differential harness built from /repo with -tags verif"}],
    "checks": checks,
    "not_applicable": na,
    "notes": "One entry point ./check <ID> <tier>. Known findings in /verif/KNOWN_FINDINGS.json. See DESIGN.md.",
}
json.dump(m, open(os.path.join(VERIF, "MANIFEST.json"), "w"), indent=1)
print("MANIFEST.json: %d checks, %d not_applicable" % (len(checks), len(na)))
