#!/bin/sh
# lib/verify_mutation.sh <id> <dir with .mutation/>  : independent confirmation of a seeded change in a fresh scratch
# worktree (suite passes with the change, demo fails with it and passes without), then files it under /verif/seeded/<id>/.
set -u
ID="$1"; SRC="$2/.mutation"
export GOFLAGS=-mod=mod GOPROXY=off GOSUMDB=off GOTOOLCHAIN=local
W=/tmp/mv/$ID
rm -rf "$W"; git -C /repo worktree prune; git -C /repo worktree add -q "$W" HEAD || exit 2
cd "$W" || exit 2
git apply "$SRC/patch.diff" || { echo "PATCH-DOES-NOT-APPLY"; exit 2; }
go build ./... || { echo "BUILD-FAILS"; exit 2; }
SUITE=$(flock /tmp/mut/suite.lock go test -count=1 ./... 2>&1 | grep -v "no test files" | grep -v "^ok" | head -5)
[ -z "$SUITE" ] && echo "suite: pass with the change" || { echo "SUITE-FAILS-WITH-CHANGE: $SUITE"; }
# demo
DEMOS=$(ls "$SRC" | grep -E "_test.go$|\.go$" | grep -v patch)
CMD=$(cat "$SRC/demo_cmd.txt" | grep -v "^#" | grep -v '^$' | tail -1 | sed "s#/tmp/mut/[A-Za-z0-9]*#$W#g")
echo "demo cmd: $CMD"
for f in $DEMOS; do
  # place the demo where the author had it (path recorded in demo_cmd or notes); default: search original worktree
  ORIG=$(cd "$2" && git status --short | grep "$f" | awk '{print $2}' | head -1)
  [ -n "$ORIG" ] && mkdir -p "$(dirname "$ORIG")" && cp "$SRC/$f" "$ORIG"
done
sh -c "$CMD" > /tmp/mv/$ID.with.log 2>&1; RC1=$?
git apply -R "$SRC/patch.diff"
sh -c "$CMD" > /tmp/mv/$ID.without.log 2>&1; RC2=$?
echo "demo with change rc=$RC1 ; without change rc=$RC2"
cd /; git -C /repo worktree remove --force "$W"
if [ "$RC1" != 0 ] && [ "$RC2" = 0 ] && [ -z "$SUITE" ]; then
  mkdir -p /verif/seeded/$ID; cp "$SRC"/* /verif/seeded/$ID/; echo CONFIRMED
else
  echo NOT-CONFIRMED; tail -5 /tmp/mv/$ID.with.log; tail -5 /tmp/mv/$ID.without.log
fi
