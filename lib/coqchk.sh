#!/bin/sh
# lib/coqchk.sh [ids...] : re-check the compiled property modules (and everything they depend on) with Coq's
# independent checker (6 at a time); one line per property: id, seconds, exit code, axioms reported.
cd /verif/coq || exit 2
IDS="$*"; [ -n "$IDS" ] || IDS="C01 C02 C03 C04 C05 C06 C07 C08 C09 C10 C11 C12 C13 C14 C15 C16 C17 C18 C19 C20"
printf '%s\n' $IDS | xargs -P 6 -I{} sh -c '
  t0=$(date +%s)
  out=$(timeout 9000 coqchk -silent -o -Q theories Scrapli -Q props ScrapliProps ScrapliProps.{} 2>&1); rc=$?
  ax=$(printf "%s\n" "$out" | awk "/\\* Axioms:/{f=1;sub(/.*Axioms: */,\"\");print;next} /^\\* /{f=0} f" | tr -s " \n" " ")
  echo "{} $(( $(date +%s) - t0 ))s rc=$rc axioms=[$ax]"'
