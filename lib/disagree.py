#!/usr/bin/env python3
"""lib/disagree.py <PID> [n] [harness-binary] : run the harness + model runner and classify disagreements (debug aid)."""
import json, subprocess, collections, os, sys
pid = sys.argv[1]; n = sys.argv[2] if len(sys.argv) > 2 else '60'
hb = sys.argv[3] if len(sys.argv) > 3 else 'bin/harness'
env = dict(os.environ, VERIF_WORK='/verif/.work/' + pid, VERIF_REPO='/repo', VERIF_DIR='/verif')
p = subprocess.run([hb, '-seed', os.environ.get('VERIF_SEED', '1'), '-n', n, '-tier', 'quick', pid], stdout=subprocess.PIPE, env=env)
cases = [json.loads(l) for l in p.stdout.decode().splitlines() if l.startswith('{')]
mc = [c for c in cases if c.get('line')]
r = subprocess.run(['coq/extract/runner'], input=('\n'.join(c['line'] for c in mc) + '\n').encode(), stdout=subprocess.PIPE)
outs = r.stdout.decode('latin-1').split('\n')
k = collections.Counter(); ex = {}
for c, o in zip(mc, outs):
    if c['obs'].strip() not in [x.strip() for x in o.split(' | ')] and c['obs'] != o:
        key = (c.get('kind'), c['obs'][:80], o[:80])
        k[key] += 1; ex.setdefault(key, c['line'])
print(len(cases), 'cases', len(mc), 'model cases', sum(k.values()), 'disagreements; oracle failures:', sum(1 for c in cases if c.get('oracle')))
for key, cnt in sorted(k.items(), key=lambda x: -x[1]):
    print(cnt, key, '\n    ', ex[key][:400])
for c in cases:
    if c.get('oracle'): print('ORACLE', c['id'], c.get('sig'), c['oracle'][:200]); 
