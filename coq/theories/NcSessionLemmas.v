(* NcSessionLemmas.v — machine-checked facts about the NETCONF driver model (NcSession.v) and the
   request / version side of Netconf.v: version decision table (C09), message ids and reply
   matching (C08), request content (C03).  No axioms; Print Assumptions at the end. *)
From Scrapli Require Import Bytes BytesLemmas Regex PlatformTypes Generated Channel Netconf NetconfLemmas NcSession.
From Coq Require Import ZifyBool ZifyN ZifyNat.
Open Scope N_scope.

(* ================================================================================================
   A. Version decision table (C09) *)

Definition spec_version (has10 has11 : bool) (p : pref) : option ncver :=
  match p with
  | Pref10 => if has10 then Some V10 else None
  | Pref11 => if has11 then Some V11 else None
  | _ => if has11 then Some V11 else if has10 then Some V10 else None
  end.

Theorem version_table : forall caps p,
  determine_version caps p = spec_version (has_cap ncd_v1dot0_cap caps) (has_cap ncd_v1dot1_cap caps) p.
Proof.
  intros caps p. unfold determine_version, spec_version.
  destruct (has_cap ncd_v1dot1_cap caps), (has_cap ncd_v1dot0_cap caps), p; reflexivity.
Qed.

Theorem version_11_iff : forall caps p,
  determine_version caps p = Some V11 <-> (has_cap ncd_v1dot1_cap caps = true /\ p <> Pref10).
Proof.
  intros caps p. rewrite version_table. unfold spec_version.
  destruct (has_cap ncd_v1dot1_cap caps), (has_cap ncd_v1dot0_cap caps), p;
    split; try (intros [H1 H2]); try intros H; try discriminate; try congruence;
    try (split; [reflexivity|discriminate]).
Qed.

Theorem client_hello_caps : forall v,
  map (fun m => cap_bytes (snd m) 1 (client_hello v)) (rx_find_all rx_ncd_capability (client_hello v))
  = [match v with V10 => ncd_v1dot0_cap | V11 => ncd_v1dot1_cap end]
  /\ is_suffix nc_v1dot0_delim (client_hello v) = true.
Proof. intros [|]; split; vm_compute; reflexivity. Qed.

Theorem open_spec : forall hb p v caps sid ch,
  nc_open hb p = OpenOk v caps sid ch ->
  exists osid, parse_hello hb = HelloOk caps osid /\ determine_version caps p = Some v /\ ch = client_hello v.
Proof.
  intros hb p v caps sid ch H. unfold nc_open in H.
  destruct (parse_hello hb) as [caps' osid| |]; try discriminate.
  destruct (determine_version caps' p) as [v'|] eqn:Hd; try discriminate.
  inversion H; subst. exists osid. auto.
Qed.

Theorem open_spec_sid : forall hb p v caps sid ch,
  nc_open hb p = OpenOk v caps sid ch ->
  exists osid, parse_hello hb = HelloOk caps osid /\ sid = match osid with Some z => z | None => 0%Z end.
Proof.
  intros hb p v caps sid ch H. unfold nc_open in H.
  destruct (parse_hello hb) as [caps' osid| |]; try discriminate.
  destruct (determine_version caps' p) as [v'|] eqn:Hd; try discriminate.
  inversion H; subst. exists osid. auto.
Qed.

Theorem open_complete : forall hb p caps osid v,
  parse_hello hb = HelloOk caps osid -> determine_version caps p = Some v ->
  nc_open hb p = OpenOk v caps (match osid with Some z => z | None => 0%Z end) (client_hello v).
Proof. intros hb p caps osid v H1 H2. unfold nc_open. rewrite H1, H2. reflexivity. Qed.

Theorem open_never_other : forall hb p, nc_open hb p <> OpenOther.
Proof.
  intros hb p. unfold nc_open.
  destruct (parse_hello hb) as [caps' osid| |]; try discriminate.
  destruct (determine_version caps' p); discriminate.
Qed.

(* ================================================================================================
   B. Message ids and reply matching (C08) *)

(* --- the read loop --- *)

Definition store_wf (st : store) : Prop := forall j b, In (j, b) st -> message_id_of b = j /\ j <> 0%Z.

Lemma store_wf_nil : store_wf [].
Proof. intros j b []. Qed.

Lemma store_wf_cons (st : store) (b : bytes) :
  store_wf st -> message_id_of b <> 0%Z -> store_wf ((message_id_of b, b) :: st).
Proof.
  intros Hwf Hne j b' [Heq|Hin]; [inversion Heq; subst; auto|auto].
Qed.

(* one pass of the loop: the buffer either stays (no delimiter), is cut after the delimiter (echo of
   our own rpc), or is filed under its message-id and reset *)
Lemma nc_examine_cases (v : ncver) (b : bytes) (st : store) :
  (rx_match (delim_re v) b = false /\ nc_examine v b st = (RdKeep b st, false)) \/
  (rx_match (delim_re v) b = true /\ contains END_RPC b = true /\
     ((exists rest, nc_examine v b st = (RdKeep rest st, true)) \/ nc_examine v b st = (RdPanic, true))) \/
  (rx_match (delim_re v) b = true /\ contains END_RPC b = false /\ message_id_of b = 0%Z /\
     nc_examine v b st = (RdKeep [] st, true)) \/
  (rx_match (delim_re v) b = true /\ contains END_RPC b = false /\ message_id_of b <> 0%Z /\
     nc_examine v b st = (RdKeep [] ((message_id_of b, b) :: st), true)).
Proof.
  unfold nc_examine.
  destruct (rx_match (delim_re v) b); [|left; auto].
  right. destruct (contains END_RPC b).
  - left. split; [reflexivity|split; [reflexivity|]].
    destruct (rx_after_first (delim_re v) b) as [rest|]; [left; exists rest; reflexivity|right; reflexivity].
  - right. destruct (Z.eqb_spec (message_id_of b) 0) as [H0|H0].
    + left. auto.
    + right. auto.
Qed.

Lemma nc_settle_wf : forall fuel v b st b' st',
  store_wf st -> nc_settle fuel v b st = RdKeep b' st' -> store_wf st'.
Proof.
  induction fuel as [|f IH]; intros v b st b' st' Hwf H; cbn [nc_settle] in H.
  - inversion H; subst; exact Hwf.
  - destruct (nc_examine_cases v b st) as [[_ E]|[[_ [_ [[rest E]|E]]]|[[_ [_ [_ E]]]|[_ [_ [Hne E]]]]]];
      rewrite E in H.
    + inversion H; subst; exact Hwf.
    + eapply IH; eauto.
    + discriminate.
    + eapply IH; eauto.
    + eapply IH; [|exact H]. apply store_wf_cons; assumption.
Qed.

Theorem store_wf_chunk : forall v b st chunk b' st',
  store_wf st -> nc_read_chunk v b st chunk = RdKeep b' st' -> store_wf st'.
Proof. intros v b st chunk b' st' Hwf H. unfold nc_read_chunk in H. eapply nc_settle_wf; eauto. Qed.

Lemma empty_no_delim : forall v, rx_match (delim_re v) [] = false.
Proof. intros [|]; vm_compute; reflexivity. Qed.

Theorem complete_message_filed : forall v b st chunk id,
  rx_match (delim_re v) (b ++ chunk) = true ->
  contains END_RPC (b ++ chunk) = false ->
  message_id_of (b ++ chunk) = id -> id <> 0%Z ->
  rx_match (delim_re v) [] = false ->
  exists st', nc_read_chunk v b st chunk = RdKeep [] st' /\ store_get st' id = Some (b ++ chunk).
Proof.
  intros v b st chunk id Hm Hc Hid Hne He.
  exists ((id, b ++ chunk) :: st). split.
  - unfold nc_read_chunk. cbn [nc_settle]. unfold nc_examine at 1. rewrite Hm, Hc, Hid.
    destruct (Z.eqb_spec id 0) as [H0|_]; [contradiction|].
    unfold nc_examine. rewrite He. reflexivity.
  - cbn [store_get]. rewrite Z.eqb_refl. reflexivity.
Qed.

(* the same without the side condition, for the two concrete delimiters *)
Corollary complete_message_filed' : forall v b st chunk id,
  rx_match (delim_re v) (b ++ chunk) = true ->
  contains END_RPC (b ++ chunk) = false ->
  message_id_of (b ++ chunk) = id -> id <> 0%Z ->
  exists st', nc_read_chunk v b st chunk = RdKeep [] st' /\ store_get st' id = Some (b ++ chunk).
Proof. intros. apply complete_message_filed; try assumption. apply empty_no_delim. Qed.

Theorem incomplete_kept : forall v b st chunk,
  rx_match (delim_re v) (b ++ chunk) = false -> nc_read_chunk v b st chunk = RdKeep (b ++ chunk) st.
Proof.
  intros v b st chunk Hm. unfold nc_read_chunk. cbn [nc_settle]. unfold nc_examine. rewrite Hm. reflexivity.
Qed.

(* --- the store --- *)

Ltac splits := repeat match goal with |- _ /\ _ => split end.

Lemma store_get_In : forall st i b, store_get st i = Some b -> In (i, b) st.
Proof.
  induction st as [|[j c] t IH]; intros i b H; cbn [store_get] in H; [discriminate|].
  destruct (Z.eqb_spec i j) as [->|_].
  - inversion H; subst. left; reflexivity.
  - right. auto.
Qed.

Lemma store_del_In : forall st i j b, In (j, b) (store_del st i) -> In (j, b) st.
Proof.
  induction st as [|[k c] t IH]; intros i j b H; cbn [store_del] in H; [exact H|].
  destruct (i =? k)%Z.
  - right. eauto.
  - destruct H as [H|H]; [left; exact H|right; eauto].
Qed.

Lemma store_wf_del (st : store) (i : Z) : store_wf st -> store_wf (store_del st i).
Proof. intros Hwf j b Hin. apply Hwf. eapply store_del_In; eauto. Qed.

Lemma store_get_del_other : forall st i j, j <> i -> store_get (store_del st i) j = store_get st j.
Proof.
  induction st as [|[k c] t IH]; intros i j Hne; [reflexivity|]. cbn [store_del store_get].
  destruct (Z.eqb_spec i k) as [->|Hik].
  - destruct (Z.eqb_spec j k) as [->|_]; [contradiction|]. auto.
  - cbn [store_get]. destruct (j =? k)%Z; auto.
Qed.

Lemma store_get_del_same : forall st i, store_get (store_del st i) i = None.
Proof.
  induction st as [|[k c] t IH]; intros i; [reflexivity|]. cbn [store_del].
  destruct (Z.eqb_spec i k) as [->|Hik]; [auto|].
  cbn [store_get]. destruct (Z.eqb_spec i k); [contradiction|auto].
Qed.

(* the read loop only ever adds bindings *)
Lemma nc_settle_get_mono : forall fuel v b st b' st' j,
  nc_settle fuel v b st = RdKeep b' st' -> store_get st j <> None -> store_get st' j <> None.
Proof.
  induction fuel as [|f IH]; intros v b st b' st' j H Hj; cbn [nc_settle] in H.
  - inversion H; subst; exact Hj.
  - destruct (nc_examine_cases v b st) as [[_ E]|[[_ [_ [[rest E]|E]]]|[[_ [_ [_ E]]]|[_ [_ [Hne E]]]]]];
      rewrite E in H.
    + inversion H; subst; exact Hj.
    + eapply IH; eauto.
    + discriminate.
    + eapply IH; eauto.
    + eapply IH; [exact H|]. cbn [store_get]. destruct (j =? message_id_of b)%Z; [discriminate|exact Hj].
Qed.

(* --- run_segment invariants --- *)

Lemma apply_chunk_inv (s : nst) (c : bytes) :
  n_ver (apply_chunk s c) = n_ver s /\ n_force (apply_chunk s c) = n_force s /\
  n_xh (apply_chunk s c) = n_xh s /\ n_next_id (apply_chunk s c) = n_next_id s /\
  (n_panic s = true -> n_panic (apply_chunk s c) = true) /\
  (store_wf (n_store s) -> store_wf (n_store (apply_chunk s c))) /\
  (forall j, store_get (n_store s) j <> None -> store_get (n_store (apply_chunk s c)) j <> None).
Proof.
  unfold apply_chunk.
  destruct (nc_read_chunk (n_ver s) (n_buf s) (n_store s) c) as [b st|] eqn:E; cbn;
    splits; auto.
  - intros Hwf. eapply store_wf_chunk; eauto.
  - intros j Hj. unfold nc_read_chunk in E. eapply nc_settle_get_mono; eauto.
Qed.

Lemma run_segment_inv : forall seg s dl er s' dl' er',
  run_segment s seg dl er = (s', dl', er') ->
  n_ver s' = n_ver s /\ n_force s' = n_force s /\ n_xh s' = n_xh s /\ n_next_id s' = n_next_id s /\
  (n_panic s = true -> n_panic s' = true) /\
  (store_wf (n_store s) -> store_wf (n_store s')) /\
  (forall j, store_get (n_store s) j <> None -> store_get (n_store s') j <> None).
Proof.
  induction seg as [|e t IH]; intros s dl er s' dl' er' H; cbn [run_segment] in H.
  - inversion H; subst. splits; auto.
  - destruct e as [c|w| | |].
    + apply IH in H. destruct (apply_chunk_inv s c) as (A1 & A2 & A3 & A4 & A5 & A6 & A7).
      destruct H as (B1 & B2 & B3 & B4 & B5 & B6 & B7).
      splits; try congruence; auto.
    + apply IH in H. cbn in H. exact H.
    + apply IH in H. exact H.
    + apply IH in H. exact H.
    + apply IH in H. exact H.
Qed.

Lemma run_segment_ver : forall seg s dl er, n_ver (fst (fst (run_segment s seg dl er))) = n_ver s.
Proof.
  intros seg s dl er. destruct (run_segment s seg dl er) as [[s' dl'] er'] eqn:E.
  apply run_segment_inv in E. cbn. tauto.
Qed.

(* --- one call --- *)

Lemma record_fast_no_panic (v : ncver) (raw : bytes) : record_fast v raw <> RecPanic.
Proof. rewrite <- record_refines. apply record_no_panic. Qed.

Definition out_id (o : rpc_out) : option Z :=
  match o with
  | ROk id _ _ _ _ _ => Some id
  | RTimeout id | RError id | RNoReply id => Some id
  | RBuildErr | RPanic => None
  end.

Definition has_id (o : rpc_out) : bool := match out_id o with Some _ => true | None => false end.

(* an outcome consumed a message id unless the request failed to build *)
Definition consumed_id (o : rpc_out) : bool := match o with RBuildErr => false | _ => true end.

Definition builds (o : nc_op) : bool := match op_payload o with BOk _ => true | BErr => false end.
Definition built (ops : list nc_op) : list nc_op := filter builds ops.

(* complete case analysis of one call *)
Lemma do_rpc_cases (s : nst) (o : nc_op) (seg : list nlev) (s' : nst) (r : rpc_out) :
  do_rpc s o seg = (s', r) ->
  n_ver s' = n_ver s /\ n_force s' = n_force s /\ n_xh s' = n_xh s /\
  (n_panic s = true -> n_panic s' = true) /\
  (store_wf (n_store s) -> store_wf (n_store s')) /\
  (forall j, j <> Z.of_N (n_next_id s) -> store_get (n_store s) j <> None -> store_get (n_store s') j <> None) /\
  ( (op_payload o = BErr /\ r = RBuildErr /\ n_next_id s' = n_next_id s) \/
    (exists p, op_payload o = BOk p /\ n_next_id s' = n_next_id s + 1 /\
       ( (r = RPanic /\ n_panic s' = true) \/
         (n_panic s' = false /\
            ( r = RError (Z.of_N (n_next_id s)) \/ r = RTimeout (Z.of_N (n_next_id s)) \/
              r = RNoReply (Z.of_N (n_next_id s)) \/
              (exists rawmsg res rpce pe,
                 r = ROk (Z.of_N (n_next_id s))
                         (ser_raw (serialize (n_ver s) (n_force s) (n_xh s) (n_next_id s) p))
                         (ser_framed (serialize (n_ver s) (n_force s) (n_xh s) (n_next_id s) p))
                         res rpce pe /\
                 (store_wf (n_store s) -> message_id_of rawmsg = Z.of_N (n_next_id s)) /\
                 record_fast (n_ver s) rawmsg = RecOut res rpce pe /\
                 store_get (n_store s') (Z.of_N (n_next_id s)) = None) ) ) ) ) ).
Proof.
  unfold do_rpc. intros H.
  destruct (op_payload o) as [p|] eqn:Hp.
  - set (s1 := mkN (n_ver s) (n_force s) (n_xh s) (n_buf s) (n_store s) (n_next_id s + 1) (n_writes s) (n_panic s)) in *.
    destruct (run_segment s1 seg false false) as [[s2 dl] er] eqn:E.
    apply run_segment_inv in E. cbn [s1 n_ver n_force n_xh n_next_id n_panic n_store] in E.
    destruct E as (B1 & B2 & B3 & B4 & B5 & B6 & B7).
    destruct (n_panic s2) eqn:Hpan.
    { apply pair_equal_spec in H; destruct H as [Hs Hr]; subst s' r. splits; auto.
      right. exists p. splits; auto. }
    destruct er.
    { apply pair_equal_spec in H; destruct H as [Hs Hr]; subst s' r. splits; auto; try congruence; try (intros Hx; specialize (B5 Hx); congruence).
      right. exists p. splits; auto. }
    destruct dl.
    { apply pair_equal_spec in H; destruct H as [Hs Hr]; subst s' r. splits; auto; try congruence; try (intros Hx; specialize (B5 Hx); congruence).
      right. exists p. splits; auto. }
    destruct (store_get (n_store s2) (Z.of_N (n_next_id s))) as [raw|] eqn:Hget.
    2:{ apply pair_equal_spec in H; destruct H as [Hs Hr]; subst s' r. splits; auto; try congruence; try (intros Hx; specialize (B5 Hx); congruence).
        right. exists p. splits; auto. right. split; [first [assumption|reflexivity]|]. auto. }
    destruct (record_fast (n_ver s2) raw) as [res rpce pe|] eqn:Hrec;
      [|exfalso; eapply record_fast_no_panic; eauto].
    apply pair_equal_spec in H; destruct H as [Hs Hr]; subst s' r. cbn [n_ver n_force n_xh n_panic n_store n_next_id].
    splits; auto; try congruence; try (intros Hx; specialize (B5 Hx); congruence).
    + intros Hwf. apply store_wf_del. auto.
    + intros j Hj Hg. rewrite store_get_del_other by assumption. auto.
    + right. exists p. splits; auto. right. split; [first [assumption|reflexivity]|].
      right. right. right. exists raw, res, rpce, pe. splits.
      * reflexivity.
      * intros W. apply store_get_In in Hget. apply (B6 W _ _ Hget).
      * congruence.
      * apply store_get_del_same.
  - destruct (run_segment s seg false false) as [[s2 dl] er] eqn:E.
    apply run_segment_inv in E. destruct E as (B1 & B2 & B3 & B4 & B5 & B6 & B7).
    apply pair_equal_spec in H; destruct H as [Hs Hr]; subst s' r. cbn [fst]. splits; auto.
Qed.

Lemma run_segment_ver' : forall seg s dl er s' dl' er',
  run_segment s seg dl er = (s', dl', er') -> n_ver s' = n_ver s.
Proof. intros. eapply run_segment_inv; eauto. Qed.

Lemma do_rpc_ver (s : nst) (o : nc_op) (seg : list nlev) (s' : nst) (r : rpc_out) :
  do_rpc s o seg = (s', r) -> n_ver s' = n_ver s.
Proof. intros H. apply do_rpc_cases in H. tauto. Qed.

(* every call that returns a reply returns one whose own message-id is the call's id *)
Theorem own_reply : forall s o seg s' id raw framed res rpce pe,
  store_wf (n_store s) ->
  do_rpc s o seg = (s', ROk id raw framed res rpce pe) ->
  id = Z.of_N (n_next_id s) /\
  exists rawmsg, message_id_of rawmsg = id /\ record_fast (n_ver s) rawmsg = RecOut res rpce pe /\
                 store_wf (n_store s').
Proof.
  intros s o seg s' id raw framed res rpce pe Hwf H.
  apply do_rpc_cases in H. destruct H as (_ & _ & _ & _ & W & _ & [[_ [Hr _]]|[p [_ [_ Hc]]]]).
  - discriminate.
  - destruct Hc as [[Hr _]|[_ [Hr|[Hr|[Hr|(rawmsg & res' & rpce' & pe' & Hr & Hid & Hrec & _)]]]]];
      try discriminate.
    injection Hr as -> _ _ -> -> ->. split; [reflexivity|].
    exists rawmsg. auto.
Qed.

(* ... and it also tells what was sent: the raw and framed input are this call's own request *)
Theorem own_reply_request : forall s o seg s' id raw framed res rpce pe,
  do_rpc s o seg = (s', ROk id raw framed res rpce pe) ->
  exists p, op_payload o = BOk p /\
    raw = ser_raw (serialize (n_ver s) (n_force s) (n_xh s) (n_next_id s) p) /\
    framed = ser_framed (serialize (n_ver s) (n_force s) (n_xh s) (n_next_id s) p) /\
    store_get (n_store s') id = None.
Proof.
  intros s o seg s' id raw framed res rpce pe H.
  apply do_rpc_cases in H. destruct H as (_ & _ & _ & _ & _ & _ & [[_ [Hr _]]|[p [Hp [_ Hc]]]]).
  - discriminate.
  - destruct Hc as [[Hr _]|[_ [Hr|[Hr|[Hr|(rawmsg & res' & rpce' & pe' & Hr & _ & _ & Hdel)]]]]];
      try discriminate.
    injection Hr as -> -> -> _ _ _. exists p. auto.
Qed.

(* a store entry is only ever removed by the call with that id *)
Theorem late_reply_harmless : forall s o seg s' r j,
  do_rpc s o seg = (s', r) ->
  store_get (n_store s) j <> None -> j <> Z.of_N (n_next_id s) ->
  store_get (n_store s') j <> None.
Proof.
  intros s o seg s' r j H Hj Hne. apply do_rpc_cases in H.
  destruct H as (_ & _ & _ & _ & _ & K & _). auto.
Qed.

(* --- a sequence of calls --- *)

Lemma run_rpcs_cons (s : nst) (o : nc_op) (ops : list nc_op) (seg : list nlev) (segs : list (list nlev)) :
  run_rpcs s (o :: ops) (seg :: segs) =
  (fst (run_rpcs (fst (do_rpc s o seg)) ops segs), snd (do_rpc s o seg) :: snd (run_rpcs (fst (do_rpc s o seg)) ops segs)).
Proof.
  cbn [run_rpcs]. destruct (do_rpc s o seg) as [s1 r]. cbn [fst snd].
  destruct (run_rpcs s1 ops segs) as [s2 rs]. reflexivity.
Qed.

Lemma run_rpcs_inv : forall ops s segs s' outs,
  run_rpcs s ops segs = (s', outs) ->
  (ops = [] \/ segs = []) /\ s' = s /\ outs = [] \/
  exists o ops' seg segs' s1 r rs,
    ops = o :: ops' /\ segs = seg :: segs' /\ do_rpc s o seg = (s1, r) /\
    run_rpcs s1 ops' segs' = (s', rs) /\ outs = r :: rs.
Proof.
  intros [|o ops'] s [|seg segs'] s' outs H; cbn [run_rpcs] in H;
    try (left; inversion H; subst; auto; fail).
  right. destruct (do_rpc s o seg) as [s1 r] eqn:E1. destruct (run_rpcs s1 ops' segs') as [s2 rs] eqn:E2.
  inversion H; subst. exists o, ops', seg, segs', s1, r, rs. auto.
Qed.

(* once the read loop has panicked no further call returns anything *)
Lemma run_rpcs_panicked : forall ops s segs s' outs,
  n_panic s = true -> run_rpcs s ops segs = (s', outs) ->
  Forall (fun o => o = RPanic \/ o = RBuildErr) outs.
Proof.
  induction ops as [|o ops IH]; intros s segs s' outs Hp H;
    apply run_rpcs_inv in H;
    destruct H as [(_ & _ & ->)|(o' & ops' & seg & segs' & s1 & r & rs & Ho & -> & Hd & Hr & ->)];
    try constructor; try discriminate.
  - injection Ho as <- <-. apply do_rpc_cases in Hd.
    destruct Hd as (_ & _ & _ & Hpan & _ & _ & [[_ [-> _]]|[p [_ [_ [[-> _]|[Hnp _]]]]]]); auto.
    rewrite (Hpan Hp) in Hnp. discriminate.
  - injection Ho as <- <-. apply IH in Hr; [exact Hr|].
    apply do_rpc_cases in Hd. destruct Hd as (_ & _ & _ & Hpan & _). auto.
Qed.

Lemma no_id_filter (outs : list rpc_out) :
  Forall (fun o => o = RPanic \/ o = RBuildErr) outs -> filter has_id outs = [].
Proof.
  induction 1 as [|o t [->| ->] _ IH]; [reflexivity| |]; cbn [filter has_id out_id]; exact IH.
Qed.

Lemma seq_ids_shift (n : N) (m : nat) :
  Some (Z.of_N n) :: map (fun k => Some (Z.of_N (n + 1 + N.of_nat k))) (seq 0 m)
  = map (fun k => Some (Z.of_N (n + N.of_nat k))) (seq 0 (S m)).
Proof.
  cbn [seq map]. f_equal; [f_equal; f_equal; lia|].
  rewrite <- seq_shift, map_map. apply map_ext. intros k. f_equal. f_equal. lia.
Qed.

(* C08: ids are unique, strictly increasing by one from the first request, and consumed only by
   requests that were actually built.
   Decision on RPanic: [do_rpc] returns RPanic only after consuming an id (so [consumed_id RPanic =
   true] and the counter accounts for it) but the outcome carries no id ([out_id RPanic = None]).
   The id-bearing outcomes nevertheless form a gap-free run because a panic is sticky: after the
   first RPanic every later outcome is RPanic or RBuildErr (see [panic_sticky]). *)
Theorem ids_increase : forall s ops segs s' outs,
  run_rpcs s ops segs = (s', outs) ->
  map out_id (filter has_id outs)
    = map (fun k => Some (Z.of_N (n_next_id s + N.of_nat k))) (seq 0 (length (filter has_id outs)))
  /\ n_next_id s' = n_next_id s + N.of_nat (length (built (firstn (length outs) ops)))
  /\ n_next_id s' = n_next_id s + N.of_nat (length (filter consumed_id outs))
  /\ length outs = Nat.min (length ops) (length segs)
  /\ map builds (firstn (length outs) ops) = map consumed_id outs.
Proof.
  intros s ops; revert s. induction ops as [|o ops IH]; intros s segs s' outs H;
    apply run_rpcs_inv in H;
    destruct H as [(Hnil & -> & ->)|(o' & ops' & seg & segs' & s1 & r & rs & Ho & -> & Hd & Hr & ->)];
    try discriminate.
  - cbn. splits; try reflexivity; try lia.
  - cbn [length firstn filter built map seq]. splits; try reflexivity; try lia.
    destruct Hnil as [Hn| ->]; [discriminate|]. cbn [length]. lia.
  - injection Ho as <- <-.
    pose proof Hr as Hr'. apply IH in Hr'. destruct Hr' as (I1 & I2 & I3 & I4 & I5).
    pose proof Hd as Hd'. apply do_rpc_cases in Hd'.
    destruct Hd' as (_ & _ & _ & _ & _ & _ & [[Hp [-> Hn]]|[p [Hp [Hn Hc]]]]).
    + (* build error: no id consumed *)
      assert (Hb : builds o = false) by (unfold builds; rewrite Hp; reflexivity).
      cbn [length firstn filter has_id out_id consumed_id map]. unfold built in *. cbn [filter].
      rewrite Hb. rewrite Hn in *. splits; auto; try lia. f_equal; assumption.
    + assert (Hcons : consumed_id r = true).
      { destruct Hc as [[-> _]|[_ [->|[->|[->|(? & ? & ? & ? & -> & _)]]]]]; reflexivity. }
      assert (Hcommon :
        n_next_id s' = n_next_id s + N.of_nat (length (built (firstn (length (r :: rs)) (o :: ops)))) /\
        n_next_id s' = n_next_id s + N.of_nat (length (filter consumed_id (r :: rs))) /\
        length (r :: rs) = Nat.min (length (o :: ops)) (length (seg :: segs')) /\
        map builds (firstn (length (r :: rs)) (o :: ops)) = map consumed_id (r :: rs)).
      { assert (Hb : builds o = true) by (unfold builds; rewrite Hp; reflexivity).
        cbn [length firstn filter map]. unfold built in *. cbn [filter].
        rewrite Hb, Hcons. cbn [length]. rewrite Hn in *. splits; try lia. f_equal; assumption. }
      split; [|exact Hcommon].
      destruct Hc as [[-> Hpan]|[_ Hr2]].
      * (* panic: no id shown, and none afterwards *)
        cbn [filter has_id out_id]. rewrite (no_id_filter rs); [reflexivity|].
        eapply run_rpcs_panicked; eauto.
      * assert (Hid : out_id r = Some (Z.of_N (n_next_id s))).
        { destruct Hr2 as [->|[->|[->|(? & ? & ? & ? & -> & _)]]]; reflexivity. }
        assert (Hh : has_id r = true) by (unfold has_id; rewrite Hid; reflexivity).
        cbn [filter]. rewrite Hh. cbn [map length].
        rewrite Hid, I1, Hn. apply seq_ids_shift.
Qed.

(* positionwise form: the id of any id-bearing outcome is the first id plus the number of earlier
   outcomes that consumed one (so ids are pairwise distinct and strictly increasing) *)
Theorem ids_positionwise : forall ops s segs s' outs,
  run_rpcs s ops segs = (s', outs) ->
  forall pre o post z, outs = pre ++ o :: post -> out_id o = Some z ->
  z = Z.of_N (n_next_id s + N.of_nat (length (filter consumed_id pre))).
Proof.
  induction ops as [|o ops IH]; intros s segs s' outs H pre x post z Hsplit Hz;
    apply run_rpcs_inv in H;
    destruct H as [(_ & _ & ->)|(o' & ops' & seg & segs' & s1 & r & rs & Ho & -> & Hd & Hr & ->)];
    try discriminate; try (destruct pre; discriminate).
  injection Ho as <- <-.
  apply do_rpc_cases in Hd. destruct Hd as (_ & _ & _ & _ & _ & _ & Hd).
  destruct pre as [|y pre]; cbn [app] in Hsplit; injection Hsplit as <- ->.
  - cbn [filter length]. rewrite N.add_0_r.
    destruct Hd as [[_ [-> _]]|[p [_ [_ [[-> _]|[_ [->|[->|[->|(? & ? & ? & ? & -> & _)]]]]]]]]];
      cbn [out_id] in Hz; congruence.
  - rewrite (IH _ _ _ _ Hr pre x post z eq_refl Hz). cbn [filter].
    destruct Hd as [[_ [-> Hn]]|[p [_ [Hn Hc]]]].
    + cbn [consumed_id]. rewrite Hn. reflexivity.
    + assert (Hcons : consumed_id r = true).
      { destruct Hc as [[-> _]|[_ [->|[->|[->|(? & ? & ? & ? & -> & _)]]]]]; reflexivity. }
      rewrite Hcons, Hn. cbn [length]. f_equal. lia.
Qed.

Theorem panic_sticky : forall ops s segs s' outs,
  run_rpcs s ops segs = (s', outs) ->
  forall pre post, outs = pre ++ RPanic :: post -> Forall (fun o => o = RPanic \/ o = RBuildErr) post.
Proof.
  induction ops as [|o ops IH]; intros s segs s' outs H pre post Hsplit;
    apply run_rpcs_inv in H;
    destruct H as [(_ & _ & ->)|(o' & ops' & seg & segs' & s1 & r & rs & Ho & -> & Hd & Hr & ->)];
    try discriminate; try (destruct pre; discriminate).
  injection Ho as <- <-.
  destruct pre as [|y pre]; cbn [app] in Hsplit; injection Hsplit as -> ->.
  - apply do_rpc_cases in Hd. destruct Hd as (_ & _ & _ & _ & _ & _ & Hd).
    destruct Hd as [[_ [Habs _]]|[p [_ [_ [[_ Hpan]|[_ [Habs|[Habs|[Habs|(? & ? & ? & ? & Habs & _)]]]]]]]]];
      try discriminate.
    eapply run_rpcs_panicked; eauto.
  - eapply IH; eauto.
Qed.

(* --- whole sessions --- *)

Lemma run_rpcs_own : forall ops s segs s' outs,
  store_wf (n_store s) -> run_rpcs s ops segs = (s', outs) ->
  Forall (fun o => match o with
                   | ROk id _ _ res rpce pe =>
                       exists rawmsg, message_id_of rawmsg = id /\ record_fast (n_ver s) rawmsg = RecOut res rpce pe
                   | _ => True end) outs.
Proof.
  induction ops as [|o ops IH]; intros s segs s' outs Hwf H;
    apply run_rpcs_inv in H;
    destruct H as [(_ & _ & ->)|(o' & ops' & seg & segs' & s1 & r & rs & Ho & -> & Hd & Hr & ->)];
    try constructor; try discriminate.
  - destruct r as [id raw framed res rpce pe| | | | |]; auto.
    destruct (own_reply _ _ _ _ _ _ _ _ _ _ Hwf Hd) as (_ & rawmsg & H1 & H2 & _). exists rawmsg. auto.
  - injection Ho as <- <-.
    pose proof (do_rpc_ver _ _ _ _ _ Hd) as Hv. rewrite <- Hv. eapply IH; [|exact Hr].
    apply do_rpc_cases in Hd. destruct Hd as (_ & _ & _ & _ & W & _). auto.
Qed.

Theorem own_reply_session_strong : forall v force xh ops log s outs,
  nc_session v force xh ops log = (s, outs) ->
  Forall (fun o => match o with
                   | ROk id _ _ res rpce pe =>
                       exists rawmsg, message_id_of rawmsg = id /\ record_fast v rawmsg = RecOut res rpce pe
                   | _ => True end) outs.
Proof.
  intros v force xh ops log s outs H. unfold nc_session in H.
  destruct (split_calls log []) as [|seg0 segs]; [inversion H; constructor|].
  destruct (run_segment _ seg0 false false) as [[s1 dl] er] eqn:E.
  apply run_segment_inv in E. cbn [n_ver n_store] in E. destruct E as (Hv & _ & _ & _ & _ & W & _).
  rewrite <- Hv. eapply run_rpcs_own; [|exact H]. apply W, store_wf_nil.
Qed.

Theorem own_reply_session : forall v force xh ops log s outs,
  nc_session v force xh ops log = (s, outs) ->
  Forall (fun o => match o with
                   | ROk id _ _ res _ _ =>
                       exists rawmsg, message_id_of rawmsg = id /\
                                      exists rpce pe, record_fast v rawmsg = RecOut res rpce pe
                   | _ => True end) outs.
Proof.
  intros v force xh ops log s outs H. apply own_reply_session_strong in H.
  eapply Forall_impl; [|exact H]. intros [id raw framed res rpce pe| | | | |]; auto.
  intros (rawmsg & H1 & H2). exists rawmsg. split; [exact H1|]. exists rpce, pe. exact H2.
Qed.

(* ids of a whole session start at the generated initial id *)
Theorem session_ids : forall v force xh ops log s outs,
  nc_session v force xh ops log = (s, outs) ->
  map out_id (filter has_id outs)
    = map (fun k => Some (Z.of_N (ncd_initial_message_id + N.of_nat k))) (seq 0 (length (filter has_id outs)))
  /\ n_next_id s = ncd_initial_message_id + N.of_nat (length (built (firstn (length outs) ops))).
Proof.
  intros v force xh ops log s outs H. unfold nc_session in H.
  destruct (split_calls log []) as [|seg0 segs]; [inversion H; cbn; split; [reflexivity|lia]|].
  destruct (run_segment _ seg0 false false) as [[s1 dl] er] eqn:E.
  apply run_segment_inv in E. cbn [n_next_id] in E. destruct E as (_ & _ & _ & Hn & _).
  apply ids_increase in H. rewrite Hn in H. tauto.
Qed.

(* --- the panic branch of the read loop is unreachable ---
   nc_examine models `ss[1]` after Split(b, 2) as a possible index panic, but it is only evaluated
   when the delimiter matched, and then Split always yields two pieces. *)
Lemma after_first_of_match (r : re) (b : bytes) :
  rx_match r b = true -> exists rest, rx_after_first r b = Some rest.
Proof.
  unfold rx_match, rx_after_first. destruct (rx_search r b) as [| |st e c]; try discriminate.
  intros _. eexists. reflexivity.
Qed.

Lemma nc_settle_no_panic : forall fuel v b st, nc_settle fuel v b st <> RdPanic.
Proof.
  induction fuel as [|f IH]; intros v b st; cbn [nc_settle]; [discriminate|].
  unfold nc_examine. destruct (rx_match (delim_re v) b) eqn:Hm; [|discriminate].
  destruct (contains END_RPC b).
  - destruct (after_first_of_match _ _ Hm) as [rest ->]. apply IH.
  - apply IH.
Qed.

Theorem read_loop_no_panic : forall v b st chunk, nc_read_chunk v b st chunk <> RdPanic.
Proof. intros. apply nc_settle_no_panic. Qed.

Lemma apply_chunk_panic (s : nst) (c : bytes) : n_panic (apply_chunk s c) = n_panic s.
Proof.
  unfold apply_chunk. destruct (nc_read_chunk (n_ver s) (n_buf s) (n_store s) c) eqn:E; [reflexivity|].
  exfalso. eapply read_loop_no_panic; eauto.
Qed.

Lemma run_segment_panic : forall seg s dl er s' dl' er',
  run_segment s seg dl er = (s', dl', er') -> n_panic s' = n_panic s.
Proof.
  induction seg as [|e t IH]; intros s dl er s' dl' er' H; cbn [run_segment] in H.
  - inversion H; subst. reflexivity.
  - destruct e as [c|w| | |]; apply IH in H; [rewrite H; apply apply_chunk_panic|exact H..].
Qed.

Lemma do_rpc_panic (s : nst) (o : nc_op) (seg : list nlev) (s' : nst) (r : rpc_out) :
  do_rpc s o seg = (s', r) -> n_panic s' = n_panic s.
Proof.
  unfold do_rpc. intros H. destruct (op_payload o) as [p|].
  - destruct (run_segment _ seg false false) as [[s2 dl] er] eqn:E.
    apply run_segment_panic in E. cbn [n_panic] in E.
    destruct (n_panic s2) eqn:Hpan;
      [|destruct er; [|destruct dl; [|destruct (store_get _ _);
                                       [destruct (record_fast _ _)|]]]];
      apply pair_equal_spec in H; destruct H as [<- _]; cbn [n_panic]; congruence.
  - destruct (run_segment s seg false false) as [[s2 dl] er] eqn:E.
    apply run_segment_panic in E. apply pair_equal_spec in H; destruct H as [<- _]. exact E.
Qed.

Lemma run_rpcs_no_panic : forall ops s segs s' outs,
  n_panic s = false -> run_rpcs s ops segs = (s', outs) -> ~ In RPanic outs /\ n_panic s' = false.
Proof.
  induction ops as [|o ops IH]; intros s segs s' outs Hp H;
    apply run_rpcs_inv in H;
    destruct H as [(_ & -> & ->)|(o' & ops' & seg & segs' & s1 & r & rs & Ho & -> & Hd & Hr & ->)];
    try discriminate; try (split; [intros []|exact Hp]).
  injection Ho as <- <-.
  pose proof (do_rpc_panic _ _ _ _ _ Hd) as Hp1. rewrite Hp in Hp1.
  destruct (IH _ _ _ _ Hp1 Hr) as [Hno Hp2]. split; [|exact Hp2].
  intros [->|Hin]; [|contradiction].
  apply do_rpc_cases in Hd. destruct Hd as (_ & _ & _ & _ & _ & _ & Hd).
  destruct Hd as [[_ [Habs _]]|[p [_ [_ [[_ Hpan]|[_ [Habs|[Habs|[Habs|(? & ? & ? & ? & Habs & _)]]]]]]]]];
    try discriminate. congruence.
Qed.

Theorem session_no_panic : forall v force xh ops log s outs,
  nc_session v force xh ops log = (s, outs) -> ~ In RPanic outs.
Proof.
  intros v force xh ops log s outs H. unfold nc_session in H.
  destruct (split_calls log []) as [|seg0 segs]; [inversion H; intros []|].
  destruct (run_segment _ seg0 false false) as [[s1 dl] er] eqn:E.
  apply run_segment_panic in E. cbn [n_panic] in E.
  eapply run_rpcs_no_panic; eauto.
Qed.

(* consequently, in a session every outcome that consumed an id shows it, and the shown ids are
   exactly initial, initial+1, ... — one per built request *)
Theorem session_ids_exact : forall v force xh ops log s outs,
  nc_session v force xh ops log = (s, outs) ->
  map out_id (filter consumed_id outs)
    = map (fun k => Some (Z.of_N (ncd_initial_message_id + N.of_nat k)))
          (seq 0 (length (built (firstn (length outs) ops)))).
Proof.
  intros v force xh ops log s outs H.
  pose proof (session_no_panic _ _ _ _ _ _ _ H) as Hno.
  assert (Hf : filter consumed_id outs = filter has_id outs).
  { clear H. induction outs as [|o t IH]; [reflexivity|]. cbn [filter].
    rewrite IH by (intros Hin; apply Hno; right; exact Hin).
    destruct o; try reflexivity. exfalso. apply Hno. left. reflexivity. }
  destruct (session_ids _ _ _ _ _ _ _ H) as [H1 H2].
  unfold nc_session in H.
  destruct (split_calls log []) as [|seg0 segs]; [inversion H; reflexivity|].
  destruct (run_segment _ seg0 false false) as [[s1 dl] er] eqn:E.
  apply run_segment_inv in E. cbn [n_next_id] in E. destruct E as (_ & _ & _ & Hn & _).
  apply ids_increase in H. destruct H as (_ & J2 & J3 & _).
  rewrite Hf, H1. f_equal. f_equal. rewrite <- Hf. lia.
Qed.

(* ================================================================================================
   C. Request content (C03) *)

Lemma beqb_refl (a : bytes) : beqb a a = true.
Proof. induction a as [|x a IH]; [reflexivity|]. cbn [beqb]. rewrite N.eqb_refl, IH. reflexivity. Qed.

Lemma beqb_true_eq : forall a b, beqb a b = true -> a = b.
Proof.
  induction a as [|x a IH]; intros [|y b] H; cbn [beqb] in H; try discriminate; [reflexivity|].
  apply andb_true_iff in H. destruct H as [H1 H2]. apply N.eqb_eq in H1. f_equal; auto.
Qed.

(* an element contains its inner text verbatim *)
Lemma elem_inner (name attrs inner : bytes) :
  exists pre post, elem name attrs inner = pre ++ inner ++ post.
Proof.
  exists ([LT] ++ name ++ attrs ++ [GT]), ([LT; SLASH] ++ name ++ [GT]).
  unfold elem. repeat rewrite <- app_assoc. reflexivity.
Qed.

Theorem edit_config_content : forall t c p,
  op_payload (OEditConfig t c) = BOk p ->
  p = elem (bs "edit-config") [] (datastore (bs "target") t ++ c).
Proof. intros t c p H. cbn [op_payload] in H. congruence. Qed.

Corollary edit_config_carries_config : forall t c p,
  op_payload (OEditConfig t c) = BOk p -> exists pre post, p = pre ++ c ++ post.
Proof.
  intros t c p H. apply edit_config_content in H. subst p.
  destruct (elem_inner (bs "edit-config") [] (datastore (bs "target") t ++ c)) as (pre & post & E).
  exists (pre ++ datastore (bs "target") t), post. rewrite E. repeat rewrite <- app_assoc. reflexivity.
Qed.

Corollary edit_config_carries_target : forall t c p,
  op_payload (OEditConfig t c) = BOk p -> exists pre post, p = pre ++ elem t [] [] ++ post.
Proof.
  intros t c p H. apply edit_config_content in H. subst p.
  destruct (elem_inner (bs "edit-config") [] (datastore (bs "target") t ++ c)) as (pre & post & E).
  destruct (elem_inner (bs "target") [] (elem t [] [])) as (pre2 & post2 & E2).
  exists (pre ++ pre2), (post2 ++ c ++ post). rewrite E. unfold datastore. rewrite E2.
  repeat rewrite <- app_assoc. reflexivity.
Qed.

Lemma filter_subtree_nonempty : ncd_filter_subtree <> [].
Proof. discriminate. Qed.

Theorem get_config_content : forall s f ft dt p,
  op_payload (OGetConfig s f ft dt) = BOk p ->
  exists fe de,
    p = elem (bs "get-config") [] (datastore (bs "source") s ++ fe ++ de) /\
    (f <> [] -> ft = ncd_filter_subtree -> fe = elem (bs "filter") (attr (bs "type") ft) f) /\
    (dt <> [] -> de = elem (bs "with-defaults") (attr (bs "xmlns") ncd_default_namespace) dt /\
                 existsb (beqb dt) ncd_defaults_types = true) /\
    (dt = [] -> de = []).
Proof.
  intros s f ft dt p H. cbn [op_payload] in H.
  destruct (filter_elem f ft) as [fe|] eqn:Hf; [|discriminate].
  destruct (defaults_elem dt) as [de|] eqn:Hd; [|discriminate].
  exists fe, de. split; [congruence|]. split; [|split].
  - intros Hne ->. unfold filter_elem in Hf. destruct f as [|x f]; [contradiction|].
    pose proof filter_subtree_nonempty as Hs. destruct ncd_filter_subtree as [|y ft] eqn:Eft; [contradiction|].
    rewrite <- Eft in *. rewrite beqb_refl in Hf. congruence.
  - intros Hne. unfold defaults_elem in Hd. destruct dt as [|x dt]; [contradiction|].
    destruct (existsb (beqb (x :: dt)) ncd_defaults_types); [|discriminate]. split; congruence.
  - intros ->. cbn [defaults_elem] in Hd. congruence.
Qed.

(* the remaining filter / defaults cases of get-config, for completeness *)
Theorem get_config_filter_cases : forall s f ft dt p,
  op_payload (OGetConfig s f ft dt) = BOk p ->
  exists fe de,
    p = elem (bs "get-config") [] (datastore (bs "source") s ++ fe ++ de) /\
    ((f = [] \/ ft = []) -> fe = []) /\
    (f <> [] -> ft <> [] ->
       (ft = ncd_filter_subtree /\ fe = elem (bs "filter") (attr (bs "type") ft) f) \/
       (ft = ncd_filter_xpath /\ fe = elem (bs "filter") (attr (bs "type") ft ++ attr (bs "select") f) [])).
Proof.
  intros s f ft dt p H. cbn [op_payload] in H.
  destruct (filter_elem f ft) as [fe|] eqn:Hf; [|discriminate].
  destruct (defaults_elem dt) as [de|] eqn:Hd; [|discriminate].
  exists fe, de. split; [congruence|]. unfold filter_elem in Hf. split.
  - intros [-> | ->]; [congruence|]. destruct f; congruence.
  - intros Hf0 Hft0. destruct f as [|x f]; [contradiction|]. destruct ft as [|y ft]; [contradiction|].
    destruct (beqb (y :: ft) ncd_filter_subtree) eqn:E1.
    + left. split; [apply beqb_true_eq; exact E1|congruence].
    + destruct (beqb (y :: ft) ncd_filter_xpath) eqn:E2; [|discriminate].
      right. split; [apply beqb_true_eq; exact E2|congruence].
Qed.

Theorem copy_config_content : forall s t p,
  op_payload (OCopyConfig s t) = BOk p ->
  p = elem (bs "copy-config") [] (datastore (bs "target") t ++ datastore (bs "source") s).
Proof. intros s t p H. cbn [op_payload] in H. congruence. Qed.

Theorem delete_config_content : forall t p,
  op_payload (ODeleteConfig t) = BOk p -> p = elem (bs "delete-config") [] (datastore (bs "target") t).
Proof. intros t p H. cbn [op_payload] in H. congruence. Qed.

Theorem lock_content : forall t p,
  op_payload (OLock t) = BOk p -> p = elem (bs "lock") [] (datastore (bs "target") t).
Proof. intros t p H. cbn [op_payload] in H. congruence. Qed.

Theorem unlock_content : forall t p,
  op_payload (OUnlock t) = BOk p -> p = elem (bs "unlock") [] (datastore (bs "target") t).
Proof. intros t p H. cbn [op_payload] in H. congruence. Qed.

Theorem validate_content : forall s p,
  op_payload (OValidate s) = BOk p -> p = elem (bs "validate") [] (datastore (bs "source") s).
Proof. intros s p H. cbn [op_payload] in H. congruence. Qed.

Theorem raw_content : forall p, op_payload (ORaw p) = BOk p.
Proof. reflexivity. Qed.

(* the datastore name appears verbatim as an empty element *)
Lemma datastore_carries (w ds : bytes) : exists pre post, datastore w ds = pre ++ elem ds [] [] ++ post.
Proof. unfold datastore. apply elem_inner. Qed.

(* which operations can fail to build: only get / get-config (bad filter type or defaults type) *)
Theorem build_error_only_get : forall o,
  op_payload o = BErr -> (exists f ft, o = OGet f ft) \/ (exists s f ft dt, o = OGetConfig s f ft dt).
Proof.
  intros [f ft|s f ft dt|t c|s t|t|t|t|s|c tmo p pid| |p] H; cbn [op_payload] in H; try discriminate; eauto 6.
Qed.

Theorem rpc_wrapper : forall id p,
  exists attrs, rpc_xml id p = elem (bs "rpc") attrs p /\
                attrs = attr (bs "xmlns") ncd_base_namespace ++ attr (bs "message-id") (print_dec id).
Proof. intros id p. eexists. split; reflexivity. Qed.

Lemma xml_escape_digits (s : bytes) : Forall (fun b => is_digit b = true) s -> xml_escape s = s.
Proof.
  induction 1 as [|b t Hb _ IH]; [reflexivity|]. unfold xml_escape in *. cbn [flat_map]. rewrite IH.
  apply is_digit_range in Hb. unfold xml_escape_byte.
  repeat match goal with |- context [?x =? ?y] => destruct (N.eqb_spec x y); [lia|] end. reflexivity.
Qed.

Lemma xml_escape_print_dec (n : N) : xml_escape (print_dec n) = print_dec n.
Proof. apply xml_escape_digits, print_dec_digits. Qed.

(* the message-id attribute round-trips through the decimal printer *)
Corollary rpc_wrapper_id : forall id p,
  exists pre post, rpc_xml id p = pre ++ print_dec id ++ post /\ parse_dec (print_dec id) = Some id.
Proof.
  intros id p.
  exists ([LT] ++ bs "rpc" ++ attr (bs "xmlns") ncd_base_namespace ++ [SP] ++ bs "message-id" ++ [61; QUOT]),
         ([QUOT] ++ [GT] ++ p ++ [LT; SLASH] ++ bs "rpc" ++ [GT]).
  split; [|apply parse_print_dec].
  unfold rpc_xml, elem. unfold attr at 2. rewrite xml_escape_print_dec.
  repeat rewrite <- app_assoc. reflexivity.
Qed.

Theorem serialize_wire : forall v f xh id p,
  ser_framed (serialize v f xh id p) = frame v (ser_raw (serialize v f xh id p)).
Proof. reflexivity. Qed.

Theorem header_option_local : forall v id p,
  ser_raw (serialize v false false id p) = ncd_xml_header ++ ser_raw (serialize v false true id p).
Proof. reflexivity. Qed.

Theorem force_option_off : forall v xh id p,
  ser_raw (serialize v false xh id p) = (if xh then [] else ncd_xml_header) ++ rpc_xml id p.
Proof. intros v [|] id p; reflexivity. Qed.

Theorem wire_11_decodes : forall f xh id p,
  let s := serialize V11 f xh id p in
  ser_raw s <> [] -> N.of_nat (length (ser_raw s)) <= max_chunk ->
  forall rest, strict_decode11 ([10] ++ ser_framed s ++ [10] ++ rest) = Some (ser_raw s, rest).
Proof.
  intros f xh id p s Hne Hmax rest. subst s. rewrite serialize_wire. apply frame11_strict; assumption.
Qed.

(* without ForceSelfClosingTags the message is never empty, so only the size bound remains *)
Corollary wire_11_decodes_noforce : forall xh id p,
  let s := serialize V11 false xh id p in
  N.of_nat (length (ser_raw s)) <= max_chunk ->
  forall rest, strict_decode11 ([10] ++ ser_framed s ++ [10] ++ rest) = Some (ser_raw s, rest).
Proof.
  intros xh id p s Hmax rest. apply wire_11_decodes; [|exact Hmax].
  rewrite force_option_off. unfold rpc_xml, elem. intros Habs.
  apply app_eq_nil in Habs. destruct Habs as [_ Habs]. discriminate.
Qed.

Theorem wire_10_splits : forall f xh id p,
  let s := serialize V10 f xh id p in
  (forall i, (i < length (ser_raw s))%nat ->
             is_prefix nc_v1dot0_delim (skipn i (ser_raw s ++ nc_v1dot0_delim)) = false) ->
  forall rest, split_eom (ser_framed s ++ rest) = Some (ser_raw s, rest).
Proof. intros f xh id p s Hno rest. subst s. rewrite serialize_wire. apply frame10_split. exact Hno. Qed.

Lemma rpc_writes_length (v : ncver) (framed : bytes) :
  length (rpc_writes v framed) = match v with V10 => 2%nat | V11 => 3%nat end.
Proof. destruct v; reflexivity. Qed.

Theorem session_ids_writes : forall v f xh ops id,
  length (session_writes v f xh id ops)
  = (match v with V10 => 2 | V11 => 3 end
     * length (filter (fun o => match op_payload o with BOk _ => true | BErr => false end) ops))%nat.
Proof.
  intros v f xh ops. induction ops as [|o ops IH]; intros id; cbn [session_writes filter].
  - cbn [length]. lia.
  - destruct (op_payload o) as [p|].
    + rewrite app_length, rpc_writes_length, IH. cbn [length]. lia.
    + apply IH.
Qed.

(* the framed requests of a session carry consecutive ids: the k-th built operation is serialized
   with id + k *)
Fixpoint expected_writes (v : ncver) (f xh : bool) (id : N) (payloads : list bytes) : list bytes :=
  match payloads with
  | [] => []
  | p :: t => rpc_writes v (ser_framed (serialize v f xh id p)) ++ expected_writes v f xh (id + 1) t
  end.

Definition payloads_of (ops : list nc_op) : list bytes :=
  flat_map (fun o => match op_payload o with BOk p => [p] | BErr => [] end) ops.

Theorem session_writes_ids : forall v f xh ops id,
  session_writes v f xh id ops = expected_writes v f xh id (payloads_of ops).
Proof.
  intros v f xh ops. induction ops as [|o ops IH]; intros id; [reflexivity|].
  cbn [session_writes payloads_of flat_map]. destruct (op_payload o) as [p|].
  - cbn [app expected_writes]. f_equal. apply IH.
  - cbn [app]. apply IH.
Qed.

(* ================================================================================================
   Non-vacuity: closed instances checked by computation *)

Definition sample_reply (id : String.string) : bytes :=
  bs "<rpc-reply message-id=""" ++ bs id ++ bs """><ok/></rpc-reply>]]>]]>".
Arguments sample_reply id%string.

Example filed_instance :
  nc_read_chunk V10 [] [] (sample_reply "101") = RdKeep [] [(101%Z, sample_reply "101")].
Proof. vm_compute. reflexivity. Qed.

(* a late reply to an abandoned request (101 timed out) stays in the store under its own id and is
   not handed to the next call (102), which gets its own reply *)
Example late_reply_instance :
  snd (nc_session V10 false false [ORaw (bs "<a/>"); ORaw (bs "<b/>")]
         [NCall; NDeadline; NCall; NR (sample_reply "101"); NR (sample_reply "102")])
  = [RTimeout 101;
     ROk 102 (ser_raw (serialize V10 false false 102 (bs "<b/>")))
             (ser_framed (serialize V10 false false 102 (bs "<b/>")))
             (bs "<rpc-reply message-id=""102""><ok/></rpc-reply>") false false]
  /\ store_get (n_store (fst (nc_session V10 false false [ORaw (bs "<a/>"); ORaw (bs "<b/>")]
         [NCall; NDeadline; NCall; NR (sample_reply "101"); NR (sample_reply "102")]))) 101 <> None.
Proof. split; vm_compute; [reflexivity|discriminate]. Qed.

Print Assumptions version_table.
Print Assumptions version_11_iff.
Print Assumptions client_hello_caps.
Print Assumptions open_spec.
Print Assumptions open_spec_sid.
Print Assumptions open_complete.
Print Assumptions open_never_other.
Print Assumptions ids_increase.
Print Assumptions ids_positionwise.
Print Assumptions panic_sticky.
Print Assumptions store_wf_chunk.
Print Assumptions own_reply.
Print Assumptions own_reply_request.
Print Assumptions own_reply_session.
Print Assumptions own_reply_session_strong.
Print Assumptions late_reply_harmless.
Print Assumptions empty_no_delim.
Print Assumptions complete_message_filed.
Print Assumptions complete_message_filed'.
Print Assumptions incomplete_kept.
Print Assumptions read_loop_no_panic.
Print Assumptions session_no_panic.
Print Assumptions session_ids.
Print Assumptions session_ids_exact.
Print Assumptions edit_config_content.
Print Assumptions edit_config_carries_config.
Print Assumptions edit_config_carries_target.
Print Assumptions get_config_content.
Print Assumptions get_config_filter_cases.
Print Assumptions copy_config_content.
Print Assumptions delete_config_content.
Print Assumptions lock_content.
Print Assumptions unlock_content.
Print Assumptions validate_content.
Print Assumptions raw_content.
Print Assumptions build_error_only_get.
Print Assumptions rpc_wrapper.
Print Assumptions rpc_wrapper_id.
Print Assumptions serialize_wire.
Print Assumptions header_option_local.
Print Assumptions force_option_off.
Print Assumptions wire_11_decodes.
Print Assumptions wire_11_decodes_noforce.
Print Assumptions wire_10_splits.
Print Assumptions session_ids_writes.
Print Assumptions session_writes_ids.
Print Assumptions filed_instance.
Print Assumptions late_reply_instance.
