(* Close.v — the shutdown protocol of scrapligo as systems of the interleaving kernel (Conc.v), C07.

   One instruction per synchronisation-relevant statement of the Go code; the label of an
   instruction names the statement it stands BEFORE (a yield hook placed there records exactly
   that label).  Code sites (file, function) are listed in [label_site] below.

   FIXED code (HEAD of /repo):
     channel/read.go     Channel.read   -> [reader_code]
     channel/read.go     Channel.Read   -> inlined in [consumer_code] / [ncreader_code]
     channel/channel.go  Channel.Close  -> [closer_code]
     transport/transport.go Transport.read / Transport.Close(force) -> inlined (labels tread.x / tclose.x)
     driver/netconf/driver.go Driver.Close -> [closer_code NETCONF] (nclose.done_once first)
     driver/netconf/read.go   Driver.read  -> [ncreader_code]
     driver/netconf/rpc.go    sendRPC wait -> [rpc_code] + its polling goroutine [poller_code]
   ORIGINAL code (git cc33fde): [old_*] at the end of the file.

   Abstractions: chunks and error values carry no information (the queue is C20's model); the
   connection is the variable NET (quiet / data available / empty read available / EOF / error;
   EOF and error are sticky) changed by an environment thread; Impl.Read / Impl.Close are atomic
   (the transport implementation is assumed thread-safe, which Transport.Close(force=true) relies
   on by design); what a read does once the transport is closed is the parameter [tcb]. *)
From Scrapli Require Import Conc.
From Coq Require Import List Arith Bool.
Import ListNotations.

(* ---------- labels ---------- *)

Inductive label :=
(* channel/read.go: Channel.read *)
| L_read_check_done | L_read_check_done2 | L_read_send_errs | L_read_sleep | L_read_enqueue
| L_read_defer_exited
(* transport/transport.go: Transport.read *)
| L_tread_lock | L_tread_impl_read | L_tread_unlock
(* channel/channel.go: Channel.Close *)
| L_close_done_once | L_close_select | L_close_return
(* transport/transport.go: Transport.Close *)
| L_tclose_lock | L_tclose_impl_close | L_tclose_unlock
(* channel/read.go: Channel.Read and its callers ReadUntil... *)
| L_chread_errs | L_chread_exited | L_chread_dequeue | L_op_ctx_check | L_op_return
(* driver/netconf *)
| L_nclose_done_once | L_nclose_channel_close | L_ncread_check_done | L_ncread_send_errs | L_ncread_sleep
| L_rpc_go_poller | L_rpc_select | L_rpc_cancel
| L_poll_ctx_err | L_poll_get_message | L_poll_send_done | L_poll_defer_close_done
(* original code only *)
| L_oread_send_errs | L_oread_defer_flag
| L_oclose_close_errs | L_oclose_read_flag | L_oclose_go_sender | L_oclose_close_ch | L_oclose_select
| L_osender_send_done | L_osender_defer_close_ch
| L_ochread_read_flag | L_onclose_send_done | L_oncread_send_errs
(* transport/system.go (the field System.fd) *)
| L_sys_load_fd | L_sys_fd_nil
| L_sys_rfd_lock | L_sys_rfd_unlock | L_sys_wfd_lock | L_sys_wfd_unlock | L_sys_fd_close.

Definition all_labels : list label :=
  [ L_read_check_done; L_read_check_done2; L_read_send_errs; L_read_sleep; L_read_enqueue;
    L_read_defer_exited; L_tread_lock; L_tread_impl_read; L_tread_unlock;
    L_close_done_once; L_close_select; L_close_return;
    L_tclose_lock; L_tclose_impl_close; L_tclose_unlock;
    L_chread_errs; L_chread_exited; L_chread_dequeue; L_op_ctx_check; L_op_return;
    L_nclose_done_once; L_nclose_channel_close; L_ncread_check_done; L_ncread_send_errs; L_ncread_sleep;
    L_rpc_go_poller; L_rpc_select; L_rpc_cancel;
    L_poll_ctx_err; L_poll_get_message; L_poll_send_done; L_poll_defer_close_done;
    L_oread_send_errs; L_oread_defer_flag;
    L_oclose_close_errs; L_oclose_read_flag; L_oclose_go_sender; L_oclose_close_ch; L_oclose_select;
    L_osender_send_done; L_osender_defer_close_ch;
    L_ochread_read_flag; L_onclose_send_done; L_oncread_send_errs;
    L_sys_load_fd; L_sys_fd_nil;
    L_sys_rfd_lock; L_sys_rfd_unlock; L_sys_wfd_lock; L_sys_wfd_unlock; L_sys_fd_close ].

Definition label_id (l : label) : nat :=
  match l with
  | L_read_check_done => 0 | L_read_check_done2 => 1 | L_read_send_errs => 2 | L_read_sleep => 3
  | L_read_enqueue => 4 | L_read_defer_exited => 5 | L_tread_lock => 6 | L_tread_impl_read => 7
  | L_tread_unlock => 8 | L_close_done_once => 9 | L_close_select => 10 | L_close_return => 11
  | L_tclose_lock => 12 | L_tclose_impl_close => 13 | L_tclose_unlock => 14 | L_chread_errs => 15
  | L_chread_exited => 16 | L_chread_dequeue => 17 | L_op_ctx_check => 18 | L_op_return => 19
  | L_nclose_done_once => 20 | L_ncread_check_done => 21 | L_ncread_send_errs => 22
  | L_ncread_sleep => 23 | L_rpc_go_poller => 24 | L_rpc_select => 25 | L_rpc_cancel => 26
  | L_poll_ctx_err => 27 | L_poll_get_message => 28 | L_poll_send_done => 29
  | L_poll_defer_close_done => 30 | L_oread_send_errs => 31 | L_oread_defer_flag => 32
  | L_oclose_close_errs => 33 | L_oclose_read_flag => 34 | L_oclose_go_sender => 35
  | L_oclose_close_ch => 36 | L_oclose_select => 37 | L_osender_send_done => 38
  | L_osender_defer_close_ch => 39 | L_ochread_read_flag => 40 | L_onclose_send_done => 41
  | L_oncread_send_errs => 42 | L_sys_load_fd => 43 | L_sys_fd_nil => 44
  | L_nclose_channel_close => 45 | L_sys_rfd_lock => 46 | L_sys_rfd_unlock => 47
  | L_sys_wfd_lock => 48 | L_sys_wfd_unlock => 49 | L_sys_fd_close => 50
  end.
Definition label_eqb (a b : label) : bool := Nat.eqb (label_id a) (label_id b).

(* ---------- channels and variables ---------- *)

Definition CH_DONE : chan := 0.     (* Channel.done *)
Definition CH_EXITED : chan := 1.   (* Channel.exited *)
Definition CH_ERRS : chan := 2.     (* Channel.Errs *)
Definition CH_NDONE : chan := 3.    (* netconf Driver.done *)
Definition CH_NERRS : chan := 4.    (* netconf Driver.errs *)
Definition CH_RDONE : chan := 5.    (* sendRPC's local `done` *)
Definition CH_CTXDONE : chan := 6.  (* sendRPC's ctx.Done(), closed (once) by cancel() *)
Definition NCHANS := 7.

Definition V_IMPLLOCK : var := 0.   (* Transport.implLock *)
Definition V_DONEONCE : var := 1.   (* Channel.doneOnce *)
Definition V_EXITEDONCE : var := 2. (* Channel.exitedOnce *)
Definition V_NDONEONCE : var := 3.  (* netconf Driver.doneOnce *)
Definition V_NET : var := 4.        (* the connection as seen by Impl.Read *)
Definition V_TCLOSED : var := 5.    (* Impl.Close has been called *)
Definition V_CTX : var := 6.        (* sendRPC's ctx cancelled (cancel() is idempotent: a Once) *)
Definition NVARS := 7.

Definition NET_QUIET := 0.   (* nothing to read: Impl.Read blocks *)
Definition NET_DATA := 1.    (* bytes available *)
Definition NET_EOF := 2.     (* peer closed the stream (sticky) *)
Definition NET_ERR := 3.     (* transport error (sticky) *)
Definition NET_EMPTY := 4.   (* Impl.Read would return 0 bytes, nil *)

(* what Impl.Read does once the transport has been closed *)
Inductive tcb := TcEOF | TcErr | TcBlock.

Definition Lb (l : label) (i : instr) : option label * instr := (Some l, i).
Definition Sil (i : instr) : option label * instr := (None, i).
Definition absent : code label := [Sil IExit].

(* ---------- fixed code: CFGs ---------- *)

(* program points of Channel.read *)
Definition R_CHECK := 0.  Definition R_LOCK := 1.  Definition R_IMPL := 2.
Definition R_UNL_DATA := 3. Definition R_UNL_EMPTY := 4. Definition R_UNL_EOF := 5.
Definition R_UNL_ERR := 6. Definition R_ENQ := 7. Definition R_CHECK2_EOF := 8.
Definition R_CHECK2_ERR := 9. Definition R_SEND := 10. Definition R_SLEEP := 11.
Definition R_DEFER := 12. Definition R_EXIT := 13.

Definition impl_read_alts (tc : tcb) : list (list (var * nat) * list (var * nat) * pc) :=
  [ ([(V_TCLOSED, 0); (V_NET, NET_DATA)], [(V_NET, NET_QUIET)], R_UNL_DATA);
    ([(V_TCLOSED, 0); (V_NET, NET_EMPTY)], [(V_NET, NET_QUIET)], R_UNL_EMPTY);
    ([(V_TCLOSED, 0); (V_NET, NET_EOF)], [], R_UNL_EOF);
    ([(V_TCLOSED, 0); (V_NET, NET_ERR)], [], R_UNL_ERR) ] ++
  match tc with
  | TcEOF => [([(V_TCLOSED, 1)], [], R_UNL_EOF)]
  | TcErr => [([(V_TCLOSED, 1)], [], R_UNL_ERR)]
  | TcBlock => []
  end.

Definition reader_code (tc : tcb) : code label :=
  [ (* 0  select { case <-c.done: return; default: } *)
    Lb L_read_check_done (ISelect [(Rcv CH_DONE, R_DEFER)] (SDefault R_LOCK));
    (* 1  c.t.Read() -> Transport.read: t.implLock.Lock() *)
    Lb L_tread_lock (ILock V_IMPLLOCK R_IMPL);
    (* 2  t.Impl.Read(n): blocks while the connection is quiet *)
    Lb L_tread_impl_read (IAtomic (impl_read_alts tc));
    (* 3-6  deferred t.implLock.Unlock(); the result of the read is kept in the program point *)
    Lb L_tread_unlock (IUnlock V_IMPLLOCK R_ENQ);
    Lb L_tread_unlock (IUnlock V_IMPLLOCK R_SLEEP);
    Lb L_tread_unlock (IUnlock V_IMPLLOCK R_CHECK2_EOF);
    Lb L_tread_unlock (IUnlock V_IMPLLOCK R_CHECK2_ERR);
    (* 7  c.Q.Enqueue(b) *)
    Lb L_read_enqueue (ISleep R_SLEEP);
    (* 8  err == io.EOF: second done-check, then `return` either way *)
    Lb L_read_check_done2 (ISelect [(Rcv CH_DONE, R_DEFER)] (SDefault R_DEFER));
    (* 9  other error: second done-check *)
    Lb L_read_check_done2 (ISelect [(Rcv CH_DONE, R_DEFER)] (SDefault R_SEND));
    (* 10 select { case c.Errs <- err: ; case <-c.done: return } *)
    Lb L_read_send_errs (ISelect [(Snd CH_ERRS, R_SLEEP); (Rcv CH_DONE, R_DEFER)] SBlock);
    (* 11 time.Sleep(c.ReadDelay); continue *)
    Lb L_read_sleep (ISleep R_CHECK);
    (* 12 deferred c.exitedOnce.Do(func() { close(c.exited) }) *)
    Lb L_read_defer_exited (IOnceClose V_EXITEDONCE CH_EXITED R_EXIT);
    (* 13 *) Sil IExit ].

(* Channel.Close (CLI) / Driver.Close (NETCONF: close(d.done) once first) *)
Definition C_RETURN_CLI := 6.
Definition C_RETURN_NC := 8.

Definition closer_tail (b : nat) : code label :=
  [ (* b+0  c.doneOnce.Do(func() { close(c.done) }) *)
    Lb L_close_done_once (IOnceClose V_DONEONCE CH_DONE (b + 1));
    (* b+1  select { case <-c.exited: ..Close(false) ; case <-time.After(..): ..Close(true) } *)
    Lb L_close_select (ISelect [(Rcv CH_EXITED, b + 2)] (STimer (b + 5)));
    (* b+2..b+4  Transport.Close(false): Lock; Impl.Close(); deferred Unlock *)
    Lb L_tclose_lock (ILock V_IMPLLOCK (b + 3));
    Lb L_tclose_impl_close (IAtomicWrite V_TCLOSED 1 (b + 4));
    Lb L_tclose_unlock (IUnlock V_IMPLLOCK (b + 6));
    (* b+5  Transport.Close(true): Impl.Close() without the lock *)
    Lb L_tclose_impl_close (IAtomicWrite V_TCLOSED 1 (b + 6));
    (* b+6  Close has returned *)
    Lb L_close_return IExit ].

Definition closer_code (netconf : bool) : code label :=
  if netconf then
    [ (* d.doneOnce.Do(func() { close(d.done) }) *)
      Lb L_nclose_done_once (IOnceClose V_NDONEONCE CH_NDONE 1);
      (* err := d.Channel.Close(): the call itself (a no-op step) *)
      Lb L_nclose_channel_close (ISleep 2) ] ++ closer_tail 2
  else closer_tail 0.

Definition closer_return (netconf : bool) : pc := if netconf then C_RETURN_NC else C_RETURN_CLI.

(* an operation in flight (ReadUntilPrompt & co.) polling Channel.Read *)
Definition consumer_code : code label :=
  [ (* 0  select { case <-ctx.Done(): return nil, ctx.Err(); default: } -- may expire any time *)
    Lb L_op_ctx_check (IEnv [4; 1]);
    (* 1  Channel.Read: select { case err := <-c.Errs: return nil, err; default: } *)
    Lb L_chread_errs (ISelect [(Rcv CH_ERRS, 4)] (SDefault 2));
    (* 2  select { case <-c.exited: return nil, ErrConnectionError; default: } *)
    Lb L_chread_exited (ISelect [(Rcv CH_EXITED, 4)] (SDefault 3));
    (* 3  b := c.Q.Dequeue(): nil (sleep, loop) / data, pattern not yet seen (loop) / seen (return);
          the caller's time.Sleep(c.ReadDelay) touches nothing shared and is fused into this step *)
    Lb L_chread_dequeue (IEnv [0; 4]);
    (* 4 *) Lb L_op_return IExit ].

(* netconf Driver.read *)
Definition N_SEND := 4.
Definition N_EXIT := 6.
Definition ncreader_code : code label :=
  [ (* 0  select { case <-d.done: return; default: } *)
    Lb L_ncread_check_done (ISelect [(Rcv CH_NDONE, N_EXIT)] (SDefault 1));
    (* 1-3  rb, err := d.Channel.Read() *)
    Lb L_chread_errs (ISelect [(Rcv CH_ERRS, N_SEND)] (SDefault 2));
    Lb L_chread_exited (ISelect [(Rcv CH_EXITED, N_SEND)] (SDefault 3));
    Lb L_chread_dequeue (ISleep 5);
    (* 4  select { case d.errs <- err: ; case <-d.done: return } *)
    Lb L_ncread_send_errs (ISelect [(Snd CH_NERRS, 5); (Rcv CH_NDONE, N_EXIT)] SBlock);
    (* 5  time.Sleep(d.Channel.ReadDelay) *)
    Lb L_ncread_sleep (ISleep 0);
    (* 6 *) Sil IExit ].

(* sendRPC after the write: spawn the poller, wait, deferred cancel() *)
Definition T_POLLER : tid := 6.
Definition rpc_code : code label :=
  [ (* 0  go func() { defer close(done); ... }() *)
    Lb L_rpc_go_poller (IGo T_POLLER 1);
    (* 1  select { case err = <-d.errs: ; case <-timer.C: ; case data := <-done: } *)
    Lb L_rpc_select (ISelect [(Rcv CH_NERRS, 2); (Rcv CH_RDONE, 2)] (STimer 2));
    (* 2  deferred cancel(): closes ctx.Done() (once) *)
    Lb L_rpc_cancel (IOnceClose V_CTX CH_CTXDONE 3);
    (* 3 *) Lb L_op_return IExit ].

(* the polling goroutine of sendRPC.  `ctx.Err() != nil` holds exactly when ctx.Done() is closed:
   a non-blocking receive from it.  [prefix = true] is the code before commit e29178e (final send
   not watching the context), [prefix = false] the repaired code. *)
Definition P_SEND := 3.
Definition poller_code_gen (prefix : bool) : code label :=
  [ (* 0 *) Sil IIdle;
    (* 1  if ctx.Err() != nil { return } *)
    Lb L_poll_ctx_err (ISelect [(Rcv CH_CTXDONE, 4)] (SDefault 2));
    (* 2  data = d.getMessage(m.MessageID): found (break) or not (decided by the environment);
          the 5 microsecond time.Sleep before the next round is fused into this step *)
    Lb L_poll_get_message (IEnv [P_SEND; 1]);
    (* 3  repaired: select { case done <- data: case <-ctx.Done(): }     before: done <- data *)
    Lb L_poll_send_done
       (if prefix then ISend CH_RDONE 4
        else ISelect [(Snd CH_RDONE, 4); (Rcv CH_CTXDONE, 4)] SBlock);
    (* 4  deferred close(done) *)
    Lb L_poll_defer_close_done (IClose CH_RDONE 5);
    (* 5 *) Sil IExit ].
Definition poller_code : code label := poller_code_gen false.
Definition prefix_poller_code : code label := poller_code_gen true.

(* the environment: changes the connection while the transport is open and quiet *)
Definition env_code (allowed : list nat) : code label :=
  [ Sil (IAtomic (map (fun x => ([(V_TCLOSED, 0); (V_NET, NET_QUIET)], [(V_NET, x)], 0)) allowed)) ].

(* ---------- scenarios ---------- *)

Inductive kind := CLI | NETCONF.
Inductive cstate :=
| StIdle            (* reader cycling: reads return nothing / block *)
| StBlocked         (* reader parked inside Impl.Read (holding implLock), connection silent *)
| StEOF             (* the peer closed the stream, the reader has seen EOF and is gone *)
| StIOErr           (* transport error: reader parked handing the error over on Errs *)
| StDataArriving    (* reader parked in the read, data may arrive at any moment *)
| StErrorArriving   (* reader parked in the read, an error may arrive at any moment *)
| StEOFArriving     (* reader parked in the read, EOF may arrive at any moment *)
| StAny.            (* from the start of the read loop, the environment may do anything *)

Record scenario := mkSc {
  sc_kind : kind;
  sc_state : cstate;
  sc_tc : tcb;
  sc_second : bool;   (* a second Close call (sequential or concurrent with the first) *)
  sc_user : bool      (* CLI: an operation in flight polling Channel.Read; NETCONF: an RPC waiting *)
}.

Definition is_nc (k : kind) : bool := match k with NETCONF => true | CLI => false end.

(* thread ids *)
Definition T_READER : tid := 0.
Definition T_CLOSER1 : tid := 1.
Definition T_CLOSER2 : tid := 2.
Definition T_USER : tid := 3.     (* CLI: consumer; NETCONF: Driver.read *)
Definition T_ENV : tid := 4.
Definition T_RPC : tid := 5.
(* T_POLLER = 6 *)

Definition env_allowed (st : cstate) : list nat :=
  match st with
  | StIdle => [NET_EMPTY]
  | StBlocked | StEOF | StIOErr => []
  | StDataArriving => [NET_DATA]
  | StErrorArriving => [NET_ERR]
  | StEOFArriving => [NET_EOF]
  | StAny => [NET_DATA; NET_EMPTY; NET_EOF; NET_ERR]
  end.

Definition reader_pc0 (st : cstate) : pc :=
  match st with
  | StIdle => R_CHECK
  | StBlocked | StDataArriving | StErrorArriving | StEOFArriving => R_IMPL
  | StEOF => R_EXIT
  | StIOErr => R_SEND
  | StAny => R_CHECK
  end.

Definition ncreader_pc0 (st : cstate) : pc :=
  match st with
  | StEOF | StIOErr => N_SEND   (* Channel.Read has failed; parked on d.errs <- err *)
  | _ => 0
  end.

Definition net0 (st : cstate) : nat :=
  match st with StEOF => NET_EOF | StIOErr => NET_ERR | _ => NET_QUIET end.
Definition lock0 (st : cstate) : nat :=
  match st with StBlocked | StDataArriving | StErrorArriving | StEOFArriving => 1 | _ => 0 end.
Definition exited0 (st : cstate) : nat := match st with StEOF => 1 | _ => 0 end.
(* error pending: the reader is parked in its hand-off select (CLI and NETCONF) and, for NETCONF,
   so is Driver.read; after EOF the reader is gone and (NETCONF) Driver.read is parked likewise *)
Definition rparked0 (st : cstate) : nat := match st with StIOErr => 1 | _ => 0 end.
Definition parked0 (st : cstate) : nat := match st with StIOErr | StEOF => 1 | _ => 0 end.

Definition sys_gen (prefix : bool) (sc : scenario) : sys label :=
  let nc := is_nc (sc_kind sc) in
  let st := sc_state sc in
  mkSys
    [ reader_code (sc_tc sc);
      closer_code nc;
      (if sc_second sc then closer_code nc else absent);
      (if nc then ncreader_code else if sc_user sc then consumer_code else absent);
      env_code (env_allowed st);
      (if nc && sc_user sc then rpc_code else absent);
      (if nc && sc_user sc then poller_code_gen prefix else absent) ]
    (mkState
       [ reader_pc0 st; 0; 0; (if nc then ncreader_pc0 st else 0); 0; 0; 0 ]
       [ rparked0 st; 0; 0; (if nc then parked0 st else 0); 0; 0; 0 ]
       [ 0; exited0 st; 0; 0; 0; 0; 0 ]
       [ lock0 st; 0; exited0 st; 0; net0 st; 0; 0 ]
       0).

(* the current code *)
Definition sys_of (sc : scenario) : sys label := sys_gen false sc.
(* the code before commit e29178e (sendRPC's poller) *)
Definition prefix_sys_of (sc : scenario) : sys label := sys_gen true sc.

Definition all_kinds := [CLI; NETCONF].
Definition all_states :=
  [StIdle; StBlocked; StEOF; StIOErr; StDataArriving; StErrorArriving; StEOFArriving; StAny].
Definition all_tcs := [TcEOF; TcErr; TcBlock].
Definition all_bools := [false; true].

Definition all_scenarios : list scenario :=
  flat_map (fun k => flat_map (fun st => flat_map (fun tc => flat_map (fun b2 =>
    map (fun u => mkSc k st tc b2 u) all_bools) all_bools) all_tcs) all_states) all_kinds.

Lemma all_scenarios_complete : forall sc, In sc all_scenarios.
Proof.
  intros [k st tc b2 u]. unfold all_scenarios.
  apply in_flat_map; exists k; split; [destruct k; simpl; tauto|].
  apply in_flat_map; exists st; split; [destruct st; simpl; tauto|].
  apply in_flat_map; exists tc; split; [destruct tc; simpl; tauto|].
  apply in_flat_map; exists b2; split; [destruct b2; simpl; tauto|].
  apply in_map_iff; exists u; split; [reflexivity|destruct u; simpl; tauto].
Qed.

(* ---------- observations on states ---------- *)

Definition exited_at (sy : sys label) (s : state) (t : tid) : bool :=
  match instr_at sy s t with IExit => true | _ => false end.

Definition closers_returned (sc : scenario) (s : state) : bool :=
  exited_at (sys_of sc) s T_CLOSER1 && exited_at (sys_of sc) s T_CLOSER2.

Definition some_closer_returned (sc : scenario) (s : state) : bool :=
  let r := closer_return (is_nc (sc_kind sc)) in
  Nat.eqb (pc_of s T_CLOSER1) r || (sc_second sc && Nat.eqb (pc_of s T_CLOSER2) r).

Definition transport_closed (s : state) : bool := Nat.eqb (var_of s V_TCLOSED) 1.

(* the goroutines the library itself starts for the connection *)
Definition lib_threads (sc : scenario) : list tid :=
  T_READER :: (if is_nc (sc_kind sc) then [T_USER] else []).
(* everybody who is not the environment (closers, user-side callers, the RPC poller) *)
Definition all_threads : list tid := [T_READER; T_CLOSER1; T_CLOSER2; T_USER; T_RPC; T_POLLER].

Definition reader_in_read (s : state) : bool := Nat.eqb (pc_of s T_READER) R_IMPL.

(* ---------- ORIGINAL code (cc33fde) ---------- *)

Definition OCH_DONE : chan := 0.
Definition OCH_ERRS : chan := 1.
Definition OCH_CH1 : chan := 2.     (* `ch` of the first Close call *)
Definition OCH_CH2 : chan := 3.     (* `ch` of the second Close call *)
Definition OCH_NDONE : chan := 4.
Definition OCH_NERRS : chan := 5.

Definition OV_IMPLLOCK : var := 0.
Definition OV_FLAG : var := 1.      (* Channel.readLoopExited: a plain bool *)
(* V_NET = 4 and V_TCLOSED = 5 as above *)

Definition old_impl_read_alts (tc : tcb) := impl_read_alts tc.

Definition old_reader_code (tc : tcb) : code label :=
  [ Lb L_read_check_done (ISelect [(Rcv OCH_DONE, R_DEFER)] (SDefault R_LOCK));
    Lb L_tread_lock (ILock OV_IMPLLOCK R_IMPL);
    Lb L_tread_impl_read (IAtomic (old_impl_read_alts tc));
    Lb L_tread_unlock (IUnlock OV_IMPLLOCK R_ENQ);
    Lb L_tread_unlock (IUnlock OV_IMPLLOCK R_SLEEP);
    Lb L_tread_unlock (IUnlock OV_IMPLLOCK R_CHECK2_EOF);
    Lb L_tread_unlock (IUnlock OV_IMPLLOCK R_CHECK2_ERR);
    Lb L_read_enqueue (ISleep R_SLEEP);
    Lb L_read_check_done2 (ISelect [(Rcv OCH_DONE, R_DEFER)] (SDefault R_DEFER));
    Lb L_read_check_done2 (ISelect [(Rcv OCH_DONE, R_DEFER)] (SDefault R_SEND));
    (* 10 c.Errs <- err *)
    Lb L_oread_send_errs (ISend OCH_ERRS R_SLEEP);
    Lb L_read_sleep (ISleep R_CHECK);
    (* 12 deferred c.readLoopExited = true *)
    Lb L_oread_defer_flag (IPlainWrite OV_FLAG 1 R_EXIT);
    Sil IExit ].

Definition old_closer_tail (b : nat) (ch : chan) (sender : tid) : code label :=
  [ (* b+0  close(c.Errs) *)
    Lb L_oclose_close_errs (IClose OCH_ERRS (b + 1));
    (* b+1  if !c.readLoopExited *)
    Lb L_oclose_read_flag (IPlainRead OV_FLAG [b + 2; b + 3]);
    (* b+2  go func() { defer close(ch); c.done <- struct{}{} }() *)
    Lb L_oclose_go_sender (IGo sender (b + 4));
    (* b+3  else: close(ch) *)
    Lb L_oclose_close_ch (IClose ch (b + 4));
    (* b+4  select { case <-ch: ..Close(false); case <-time.After(..): ..Close(true) } *)
    Lb L_oclose_select (ISelect [(Rcv ch, b + 5)] (STimer (b + 8)));
    Lb L_tclose_lock (ILock OV_IMPLLOCK (b + 6));
    Lb L_tclose_impl_close (IAtomicWrite V_TCLOSED 1 (b + 7));
    Lb L_tclose_unlock (IUnlock OV_IMPLLOCK (b + 9));
    Lb L_tclose_impl_close (IAtomicWrite V_TCLOSED 1 (b + 9));
    Lb L_close_return IExit ].

Definition old_closer_code (netconf : bool) (ch : chan) (sender : tid) : code label :=
  if netconf then
    [ (* d.done <- true *)
      Lb L_onclose_send_done (ISend OCH_NDONE 1);
      Lb L_nclose_channel_close (ISleep 2) ] ++ old_closer_tail 2 ch sender
  else old_closer_tail 0 ch sender.

Definition old_sender_code (ch : chan) : code label :=
  [ Sil IIdle;
    (* c.done <- struct{}{} *)
    Lb L_osender_send_done (ISend OCH_DONE 2);
    (* deferred close(ch) *)
    Lb L_osender_defer_close_ch (IClose ch 3);
    Sil IExit ].

Definition old_consumer_code : code label :=
  [ Lb L_op_ctx_check (IEnv [4; 1]);
    Lb L_chread_errs (ISelect [(Rcv OCH_ERRS, 4)] (SDefault 2));
    (* if c.readLoopExited { return nil, ErrConnectionError } *)
    Lb L_ochread_read_flag (IPlainRead OV_FLAG [3; 4]);
    Lb L_chread_dequeue (IEnv [0; 4]);
    Lb L_op_return IExit ].

Definition old_ncreader_code : code label :=
  [ Lb L_ncread_check_done (ISelect [(Rcv OCH_NDONE, N_EXIT)] (SDefault 1));
    Lb L_chread_errs (ISelect [(Rcv OCH_ERRS, N_SEND)] (SDefault 2));
    Lb L_ochread_read_flag (IPlainRead OV_FLAG [3; N_SEND]);
    Lb L_chread_dequeue (ISleep 5);
    (* 4  d.errs <- err *)
    Lb L_oncread_send_errs (ISend OCH_NERRS 5);
    Lb L_ncread_sleep (ISleep 0);
    Sil IExit ].

Definition T_SENDER1 : tid := 5.
Definition T_SENDER2 : tid := 6.

Definition old_flag0 (st : cstate) : nat := match st with StEOF => 1 | _ => 0 end.

Definition old_sys_of (sc : scenario) : sys label :=
  let nc := is_nc (sc_kind sc) in
  let st := sc_state sc in
  mkSys
    [ old_reader_code (sc_tc sc);
      old_closer_code nc OCH_CH1 T_SENDER1;
      (if sc_second sc then old_closer_code nc OCH_CH2 T_SENDER2 else absent);
      (if nc then old_ncreader_code else if sc_user sc then old_consumer_code else absent);
      env_code (env_allowed st);
      old_sender_code OCH_CH1;
      (if sc_second sc then old_sender_code OCH_CH2 else absent) ]
    (mkState
       [ reader_pc0 st; 0; 0; (if nc then ncreader_pc0 st else 0); 0; 0; 0 ]
       [ rparked0 st; 0; 0; (if nc then parked0 st else 0); 0; 0; 0 ]
       [ 0; 0; 0; 0; 0; 0 ]
       [ lock0 st; old_flag0 st; 0; 0; net0 st; 0; 0 ]
       0).

Definition old_closer_return (netconf : bool) : pc := if netconf then 11 else 9.
Definition old_closers_returned (sc : scenario) (s : state) : bool :=
  exited_at (old_sys_of sc) s T_CLOSER1 && exited_at (old_sys_of sc) s T_CLOSER2.

(* ---------- the System transport's `fd` field (transport/system.go) ----------

   Impl.Read / Impl.Close are atomic in [sys_of]: the transport implementation is taken to be
   thread-safe.  The default System transport has a field `fd` that System.Read loads and
   System.Close assigns, and Transport.Close(true) — the forced path — calls System.Close WITHOUT
   implLock while the reader may be in, or about to enter, System.Read.

   [prefix_system_sys]: the code before commit 985cf8a — `t.fd.Read(b)` / `err := t.fd.Close();
   t.fd = nil` with the field accessed plainly.
   [system_sys]: the current code — the field is only touched inside getFd / setFd under the mutex
   `fdLock` (held just around the field access, never around the blocking call); Close does
   `t.setFd(nil).Close()`: first the field is swapped to nil, then the old file is closed; a Read
   that loads nil fails at once (a nil *os.File returns ErrInvalid). *)
Definition V_FD : var := 7.        (* 0 = the open file, 1 = nil *)
Definition V_FDLOCK : var := 8.
Definition R_LOAD_FD := 14.

Definition reader_body (tc : tcb) (after_lock : pc) : code label :=
  [ Lb L_read_check_done (ISelect [(Rcv CH_DONE, R_DEFER)] (SDefault R_LOCK));
    Lb L_tread_lock (ILock V_IMPLLOCK after_lock);
    Lb L_tread_impl_read (IAtomic (impl_read_alts tc));       (* the blocking fd.Read(b) *)
    Lb L_tread_unlock (IUnlock V_IMPLLOCK R_ENQ);
    Lb L_tread_unlock (IUnlock V_IMPLLOCK R_SLEEP);
    Lb L_tread_unlock (IUnlock V_IMPLLOCK R_CHECK2_EOF);
    Lb L_tread_unlock (IUnlock V_IMPLLOCK R_CHECK2_ERR);
    Lb L_read_enqueue (ISleep R_SLEEP);
    Lb L_read_check_done2 (ISelect [(Rcv CH_DONE, R_DEFER)] (SDefault R_DEFER));
    Lb L_read_check_done2 (ISelect [(Rcv CH_DONE, R_DEFER)] (SDefault R_SEND));
    Lb L_read_send_errs (ISelect [(Snd CH_ERRS, R_SLEEP); (Rcv CH_DONE, R_DEFER)] SBlock);
    Lb L_read_sleep (ISleep R_CHECK);
    Lb L_read_defer_exited (IOnceClose V_EXITEDONCE CH_EXITED R_EXIT);
    Sil IExit ].

(* before 985cf8a *)
Definition prefix_system_reader_code (tc : tcb) : code label :=
  reader_body tc R_LOAD_FD ++
  [ (* 14  System.Read: the field t.fd is loaded (then the read on it blocks) *)
    Lb L_sys_load_fd (IPlainRead V_FD [R_IMPL; R_IMPL]) ].

Definition prefix_system_closer_code : code label :=
  [ Lb L_close_done_once (IOnceClose V_DONEONCE CH_DONE 1);
    Lb L_close_select (ISelect [(Rcv CH_EXITED, 2)] (STimer 5));
    Lb L_tclose_lock (ILock V_IMPLLOCK 3);
    Lb L_tclose_impl_close (IAtomicWrite V_TCLOSED 1 7);      (* t.fd.Close(), graceful *)
    Lb L_tclose_unlock (IUnlock V_IMPLLOCK 6);
    Lb L_tclose_impl_close (IAtomicWrite V_TCLOSED 1 8);      (* t.fd.Close(), forced *)
    Lb L_close_return IExit;
    (* 7, 8  System.Close: t.fd = nil *)
    Lb L_sys_fd_nil (IPlainWrite V_FD 1 4);
    Lb L_sys_fd_nil (IPlainWrite V_FD 1 6) ].

(* current code *)
Definition system_reader_code (tc : tcb) : code label :=
  reader_body tc R_LOAD_FD ++
  [ (* 14  getFd: t.fdLock.Lock() *)
    Lb L_sys_rfd_lock (ILock V_FDLOCK 15);
    (* 15  return t.fd (still a plain access — now inside the critical section) *)
    Lb L_sys_load_fd (IPlainRead V_FD [16; 17]);
    (* 16  deferred t.fdLock.Unlock(); the file is open: go on to the blocking Read *)
    Lb L_sys_rfd_unlock (IUnlock V_FDLOCK R_IMPL);
    (* 17  deferred t.fdLock.Unlock(); nil file: Read returns ErrInvalid at once *)
    Lb L_sys_rfd_unlock (IUnlock V_FDLOCK R_UNL_ERR) ].

(* System.Close = t.setFd(nil).Close(), from program point b on, continuing at [next] *)
Definition system_close_body (b next : pc) : code label :=
  [ (* setFd: t.fdLock.Lock() *)
    Lb L_sys_wfd_lock (ILock V_FDLOCK (b + 1));
    (* old := t.fd; t.fd = fd *)
    Lb L_sys_fd_nil (IPlainWrite V_FD 1 (b + 2));
    (* deferred t.fdLock.Unlock() *)
    Lb L_sys_wfd_unlock (IUnlock V_FDLOCK (b + 3));
    (* (old).Close() *)
    Lb L_sys_fd_close (IAtomicWrite V_TCLOSED 1 next) ].

Definition S_RETURN := 6.
Definition system_closer_code : code label :=
  [ Lb L_close_done_once (IOnceClose V_DONEONCE CH_DONE 1);
    Lb L_close_select (ISelect [(Rcv CH_EXITED, 2)] (STimer 5));
    Lb L_tclose_lock (ILock V_IMPLLOCK 3);
    Lb L_tclose_impl_close (ISleep 7);       (* the call t.Impl.Close(), graceful *)
    Lb L_tclose_unlock (IUnlock V_IMPLLOCK S_RETURN);
    Lb L_tclose_impl_close (ISleep 11);      (* the call t.Impl.Close(), forced *)
    Lb L_close_return IExit ]
  ++ system_close_body 7 4 ++ system_close_body 11 S_RETURN.

Definition system_init : state :=
  mkState [ R_CHECK; 0; 0; 0; 0; 0; 0 ] [ 0; 0; 0; 0; 0; 0; 0 ] [ 0; 0; 0; 0; 0; 0; 0 ]
          [ 0; 0; 0; 0; NET_QUIET; 0; 0; 0; 0 ] 0.

Definition system_sys (tc : tcb) (second : bool) : sys label :=
  mkSys
    [ system_reader_code tc; system_closer_code;
      (if second then system_closer_code else absent);
      absent; env_code [NET_DATA]; absent; absent ]
    system_init.

Definition prefix_system_sys (tc : tcb) (second : bool) : sys label :=
  mkSys
    [ prefix_system_reader_code tc; prefix_system_closer_code;
      (if second then prefix_system_closer_code else absent);
      absent; env_code [NET_DATA]; absent; absent ]
    system_init.
