(* TelnetLemmas.v — proofs about Telnet.v (C15). *)
From Scrapli Require Import Bytes Regex PlatformTypes Generated Telnet.
Open Scope N_scope.

Lemma fold_handle_app (a b : bytes) (s : tstate) :
  fold_left handle (a ++ b) s = fold_left handle b (fold_left handle a s).
Proof. apply fold_left_app. Qed.

(* the generated constants are the RFC values (re-checked whenever Generated.v changes) *)
Lemma consts : telnet_iac = 255 /\ telnet_dont = 254 /\ telnet_do = 253 /\ telnet_wont = 252
               /\ telnet_will = 251 /\ telnet_sga = 3.
Proof. repeat split; reflexivity. Qed.

Ltac consts_in_goal :=
  destruct consts as (Hi & Hdn & Hdo & Hwn & Hwl & Hsg);
  unfold handle, is_verb; cbn [t_ctrl t_data t_replies app];
  rewrite ?Hi, ?Hdn, ?Hdo, ?Hwn, ?Hwl, ?Hsg.

Ltac neq_false c k := assert (c =? k = false) as -> by (apply N.eqb_neq; assumption || lia).

Lemma h_iac d r : handle (mkT [] d r) 255 = mkT [255] d r.
Proof. consts_in_goal. reflexivity. Qed.
Lemma h_data d r b : b <> 255 -> handle (mkT [] d r) b = mkT [] (d ++ [b]) r.
Proof. intros H. consts_in_goal. neq_false b 255. reflexivity. Qed.
Lemma h_verb d r v : handle (mkT [255] d r) (verb_byte v) = mkT [255; verb_byte v] d r.
Proof. consts_in_goal. destruct v; reflexivity. Qed.
Lemma h_esc d r : handle (mkT [255] d r) 255 = mkT [] (d ++ [255]) r.
Proof. consts_in_goal. reflexivity. Qed.
Lemma h_cmd d r c : c <> 255 -> c <> 251 -> c <> 252 -> c <> 253 -> c <> 254 ->
  handle (mkT [255] d r) c = mkT [] d r.
Proof.
  intros. consts_in_goal. neq_false c 253. neq_false c 254. neq_false c 251. neq_false c 252.
  neq_false c 255. reflexivity.
Qed.
Lemma h_opt d r v o : handle (mkT [255; verb_byte v] d r) o = mkT [] d (r ++ spec_reply (TNeg v o)).
Proof.
  consts_in_goal. destruct v; cbn [verb_byte spec_reply]; cbn -[N.eqb app]; reflexivity.
Qed.

Lemma token_step (t : token) (d : bytes) (r : list bytes) : token_ok t ->
  fold_left handle (render t) (mkT [] d r) = mkT [] (d ++ spec_data t) (r ++ spec_reply t).
Proof.
  destruct t as [b | | v o | c]; cbn [token_ok render spec_data spec_reply fold_left]; intros Hok.
  - rewrite h_data by exact Hok. now rewrite app_nil_r.
  - rewrite h_iac, h_esc. now rewrite app_nil_r.
  - rewrite h_iac, h_verb, h_opt. now rewrite app_nil_r.
  - destruct Hok as (H5 & H1 & H2 & H3 & H4). rewrite h_iac, h_cmd by assumption. now rewrite !app_nil_r.
Qed.

Lemma tokens_run : forall toks d r, Forall token_ok toks ->
  fold_left handle (flat_map render toks) (mkT [] d r)
  = mkT [] (d ++ flat_map spec_data toks) (r ++ flat_map spec_reply toks).
Proof.
  induction toks as [|t toks IH]; intros d r Hok; cbn [flat_map].
  - now rewrite !app_nil_r.
  - inversion Hok as [|? ? Ht Hts]; subst.
    rewrite fold_handle_app, token_step by exact Ht. rewrite IH by exact Hts.
    now rewrite <- !app_assoc.
Qed.

Theorem negotiation_correct : forall toks, Forall token_ok toks ->
  run_telnet (flat_map render toks) = mkT [] (flat_map spec_data toks) (flat_map spec_reply toks).
Proof. intros toks Hok. unfold run_telnet, t_init. now rewrite tokens_run. Qed.

(* what was wrong before the fix: data after a two-byte command is swallowed *)
Example unfixed_swallows_data :
  t_data (fold_left handle_unfixed (flat_map render [TCmd 241; TData 104; TData 105]) t_init) = []
  /\ t_data (run_telnet (flat_map render [TCmd 241; TData 104; TData 105])) = [104; 105].
Proof. split; vm_compute; reflexivity. Qed.
