(* SessionLemmas.v — proofs about Session.v / Channel.v's interpreter:
   Part 1: the generic read-until phase lemma (any device, any program, all fault-free schedules);
   Part 2: safety and liveness of CLI sessions (send_commands_prog against a scripted device). *)
From Scrapli Require Import Bytes BytesLemmas Regex PlatformTypes Generated Channel Session.
Local Open Scope nat_scope.

(* ------------------------------------------------------------------------------------------ *)
(* Small byte-string facts                                                                     *)
(* ------------------------------------------------------------------------------------------ *)

Lemma mem_byte_app (x : N) (a b : bytes) : mem_byte x (a ++ b) = mem_byte x a || mem_byte x b.
Proof.
  induction a as [|y a IH]; cbn [mem_byte app]; [reflexivity|].
  rewrite IH. now rewrite orb_assoc.
Qed.

Lemma mem_byte_filter_false (x : N) (f : N -> bool) (b : bytes) :
  mem_byte x b = false -> mem_byte x (filter f b) = false.
Proof.
  induction b as [|y b IH]; cbn [mem_byte filter]; [reflexivity|].
  intros H. apply orb_false_iff in H. destruct H as [H1 H2].
  destruct (f y); cbn [mem_byte]; [rewrite H1, (IH H2); reflexivity | exact (IH H2)].
Qed.

Lemma mem_byte_firstn_false (x : N) (n : nat) (b : bytes) :
  mem_byte x b = false -> mem_byte x (firstn n b) = false.
Proof.
  intros H. rewrite <- (firstn_skipn n b), mem_byte_app in H.
  apply orb_false_iff in H. tauto.
Qed.

Lemma mem_byte_skipn_false (x : N) (n : nat) (b : bytes) :
  mem_byte x b = false -> mem_byte x (skipn n b) = false.
Proof.
  intros H. rewrite <- (firstn_skipn n b), mem_byte_app in H.
  apply orb_false_iff in H. tauto.
Qed.

Lemma drop_cr_app (a b : bytes) : drop_cr (a ++ b) = drop_cr a ++ drop_cr b.
Proof. unfold drop_cr. apply filter_app. Qed.

Lemma normalize_chunk_noesc (b : bytes) : mem_byte 27 b = false -> normalize_chunk b = drop_cr b.
Proof.
  intros H. unfold normalize_chunk.
  assert (E : mem_byte 27 (drop_cr b) = false) by (apply mem_byte_filter_false; exact H).
  rewrite E. reflexivity.
Qed.

Lemma concat_snoc {A} (q : list (list A)) (c : list A) : concat (q ++ [c]) = concat q ++ c.
Proof. rewrite concat_app. cbn [concat]. now rewrite app_nil_r. Qed.

Lemma run_app {D R} (feed : D -> bytes -> D * bytes) (cfg : chan_cfg) (a b : list ev) (s : @sys D R) :
  run feed cfg (a ++ b) s = run feed cfg b (run feed cfg a s).
Proof. unfold run. apply fold_left_app. Qed.

Lemma fault_free_app (a b : list ev) : fault_free (a ++ b) = fault_free a && fault_free b.
Proof. unfold fault_free. apply forallb_app. Qed.

Lemma fault_free_cons (e : ev) (l : list ev) :
  fault_free (e :: l) = true -> (e = Op \/ exists n, e = Rd n) /\ fault_free l = true.
Proof.
  unfold fault_free. cbn [forallb]. intros H. apply andb_true_iff in H. destruct H as [H1 H2].
  split; [|exact H2]. destruct e; try discriminate; [right; eexists; reflexivity | left; reflexivity].
Qed.

Lemma fault_free_repeat_op (n : nat) : fault_free (repeat Op n) = true.
Proof. induction n as [|n IH]; [reflexivity|]. cbn [repeat]. unfold fault_free in *. cbn [forallb]. exact IH. Qed.

(* phase_ok, unpacked *)
Lemma phase_ok_spec (cfg : chan_cfg) (c : cond) (T : bytes) (lo : nat) :
  phase_ok cfg c T lo = true ->
  0 < lo <= length T /\
  (forall j, j < lo -> cond_holds cfg c (firstn j T) = false) /\
  (forall j, lo <= j <= length T -> cond_holds cfg c (firstn j T) = true).
Proof.
  unfold phase_ok, prefixes_false, prefixes_true. intros H.
  apply andb_true_iff in H. destruct H as [H Ht].
  apply andb_true_iff in H. destruct H as [H Hf].
  apply andb_true_iff in H. destruct H as [Hle Hlt].
  apply Nat.leb_le in Hle. apply Nat.ltb_lt in Hlt.
  rewrite forallb_forall in Hf, Ht.
  split; [lia|]. split.
  - intros j Hj. specialize (Hf j). rewrite in_seq in Hf.
    apply negb_true_iff. apply Hf. lia.
  - intros j Hj. apply Ht. rewrite in_seq. lia.
Qed.

(* ------------------------------------------------------------------------------------------ *)
(* PART 1 — the generic phase lemma                                                            *)
(* ------------------------------------------------------------------------------------------ *)

Section Phase.
  Variable D : Type.
  Variable feed : D -> bytes -> D * bytes.
  Variable R : Type.
  Variable cfg : chan_cfg.
  Variable c : cond.
  Variable k : bytes -> prog R.
  Variable h : err -> prog R.   (* error continuation of the read-until (unused by Rd/Op) *)
  Variable T : bytes.           (* the normalised stream the phase sees *)
  Variable lo : nat.
  Variable d : D.
  Variable wl : list (bytes * bool).
  Variable nt : list (N * bytes).

  (* still inside the read-until *)
  Definition in_phase (s : @sys D R) : Prop :=
    s_pc s = Until c k h /\ s_dev s = d /\ s_wlog s = wl /\ s_notes s = nt /\ s_reader s = RRun /\
    s_acc s ++ concat (s_queue s) ++ drop_cr (s_pending s) = T /\
    mem_byte 27 (s_pending s) = false /\
    length (s_acc s) < lo.

  (* the read-until has just returned the first [j] bytes of the stream *)
  Definition exited (j : nat) (s : @sys D R) : Prop :=
    lo <= j <= length T /\
    exists p q,
      s = set_pc (mkSys d p q [] (k (firstn j T)) wl nt RRun) (k (firstn j T)) /\
      concat q ++ drop_cr p = skipn j T /\
      mem_byte 27 p = false.

  Hypothesis Hok : phase_ok cfg c T lo = true.

  Lemma phase_step (s : @sys D R) (e : ev) :
    in_phase s -> (e = Op \/ exists n, e = Rd n) ->
    in_phase (step feed cfg s e) \/ exists j, exited j (step feed cfg s e).
  Proof.
    destruct (phase_ok_spec _ _ _ _ Hok) as (Hlo & Hfalse & Htrue).
    intros (Hpc & Hd & Hw & Hn & Hr & Hst & Hesc & Hacc) [He | [n He]]; subst e.
    - (* Op *)
      destruct s as [dev pend q acc pc wlog notes rd]. cbn [s_pc s_dev s_wlog s_notes s_reader s_acc s_queue s_pending] in *.
      subst pc dev wlog notes rd. cbn [step s_pc s_reader s_queue s_acc s_dev s_pending s_wlog s_notes].
      destruct q as [|chunk q'].
      + left. unfold in_phase. cbn [s_pc s_dev s_wlog s_notes s_reader s_acc s_queue s_pending]. tauto.
      + cbn [concat] in Hst.
        assert (Hpre : firstn (length (acc ++ chunk)) T = acc ++ chunk).
        { rewrite <- Hst. rewrite <- app_assoc. rewrite (app_assoc acc chunk). apply firstn_len_app. }
        assert (Hlen : length (acc ++ chunk) <= length T).
        { rewrite <- Hst. rewrite !app_length. lia. }
        destruct (cond_holds cfg c (acc ++ chunk)) eqn:Hc.
        * right. exists (length (acc ++ chunk)). split.
          { split; [|exact Hlen].
            destruct (Nat.lt_ge_cases (length (acc ++ chunk)) lo) as [Hlt|Hge]; [|exact Hge].
            specialize (Hfalse _ Hlt). rewrite Hpre, Hc in Hfalse. discriminate. }
          exists pend, q'. rewrite Hpre. split; [reflexivity|]. split; [|exact Hesc].
          rewrite <- Hst. rewrite <- app_assoc. rewrite (app_assoc acc chunk).
          symmetry. apply skipn_len_app.
        * left. unfold in_phase. cbn [s_pc s_dev s_wlog s_notes s_reader s_acc s_queue s_pending].
          repeat split; try reflexivity; try assumption.
          { rewrite <- Hst. now rewrite <- !app_assoc. }
          { destruct (Nat.lt_ge_cases (length (acc ++ chunk)) lo) as [Hlt|Hge]; [exact Hlt|].
            assert (Ht : cond_holds cfg c (firstn (length (acc ++ chunk)) T) = true) by (apply Htrue; lia).
            rewrite Hpre, Hc in Ht. discriminate. }
    - (* Rd n *)
      destruct s as [dev pend q acc pc wlog notes rd]. cbn [s_pc s_dev s_wlog s_notes s_reader s_acc s_queue s_pending] in *.
      subst pc dev wlog notes rd. left. cbn [step s_reader s_pending].
      destruct pend as [|b0 pend']; [unfold in_phase; cbn [s_pc s_dev s_wlog s_notes s_reader s_acc s_queue s_pending]; tauto|].
      set (pend := b0 :: pend') in *. set (m := Nat.max 1 n).
      cbn [s_dev s_queue s_acc s_pc s_wlog s_notes s_reader].
      assert (Hnorm : normalize_chunk (firstn m pend) = drop_cr (firstn m pend))
        by (apply normalize_chunk_noesc, mem_byte_firstn_false, Hesc).
      rewrite Hnorm.
      assert (Hsplit : drop_cr pend = drop_cr (firstn m pend) ++ drop_cr (skipn m pend)).
      { rewrite <- drop_cr_app. now rewrite firstn_skipn. }
      unfold in_phase. cbn [s_pc s_dev s_wlog s_notes s_reader s_acc s_queue s_pending].
      repeat split; try reflexivity; try assumption.
      + rewrite <- Hst, Hsplit.
        destruct (drop_cr (firstn m pend)) as [|b1 ch] eqn:E; [reflexivity|].
        f_equal. etransitivity; [apply f_equal2; [apply concat_snoc | reflexivity]|].
        now rewrite <- app_assoc.
      + apply mem_byte_skipn_false, Hesc.
  Qed.

  (* an exited state stays what it is only up to what the continuation does; [phase_run] splits
     the schedule at the exit point *)
  Theorem phase_run (sched : list ev) (s : @sys D R) :
    fault_free sched = true -> in_phase s ->
    in_phase (run feed cfg sched s) \/
    exists pre post j s',
      sched = pre ++ post /\ run feed cfg pre s = s' /\ exited j s' /\
      run feed cfg sched s = run feed cfg post s'.
  Proof.
    revert s. induction sched as [|e sched IH]; intros s Hff Hin.
    - left. exact Hin.
    - apply fault_free_cons in Hff. destruct Hff as [He Hff].
      destruct (phase_step s e Hin He) as [Hin' | [j Hex]].
      + destruct (IH _ Hff Hin') as [Hl | (pre & post & j & s' & Hs & Hpre & Hex & Hrun)].
        * left. exact Hl.
        * right. exists (e :: pre), post, j, s'. subst sched.
          split; [reflexivity|]. split; [exact Hpre|]. split; [exact Hex | exact Hrun].
      + right. exists [e], sched, j, (step feed cfg s e).
        split; [reflexivity|]. split; [reflexivity|]. split; [exact Hex | reflexivity].
  Qed.

  (* liveness of a phase: read everything that is pending in one chunk, then step the operation *)
  Lemma until_op_shape (s : @sys D R) :
    s_pc s = Until c k h -> s_reader s = RRun ->
    s_pending (step feed cfg s Op) = s_pending s /\
    length (s_queue (step feed cfg s Op)) = pred (length (s_queue s)).
  Proof.
    intros Hpc Hr. cbn [step]. rewrite Hpc, Hr.
    destruct (s_queue s) as [|chunk q'] eqn:Eq; [split; [reflexivity | now rewrite Eq]|].
    destruct (cond_holds cfg c (s_acc s ++ chunk)).
    - unfold set_pc. cbn [s_notes s_dev s_pending s_queue s_acc s_wlog s_reader].
      destruct (skip_notes _ (k (s_acc s ++ chunk)) (s_notes s)). split; reflexivity.
    - split; reflexivity.
  Qed.

  Lemma phase_drain (n : nat) : forall s : @sys D R,
    in_phase s -> s_pending s = [] -> length (s_queue s) <= n ->
    exists m j, exited j (run feed cfg (repeat Op m) s).
  Proof.
    destruct (phase_ok_spec _ _ _ _ Hok) as (Hlo & _ & _).
    assert (Hne : forall s : @sys D R, in_phase s -> s_pending s = [] -> s_queue s <> []).
    { intros s (_ & _ & _ & _ & _ & Hst & _ & Hacc) Hp Hq. rewrite Hq, Hp in Hst.
      cbn [concat drop_cr filter app] in Hst. rewrite app_nil_r in Hst. rewrite Hst in Hacc. lia. }
    induction n as [|n IH]; intros s Hin Hp Hq.
    - exfalso. apply (Hne s Hin Hp). destruct (s_queue s); [reflexivity | cbn [length] in Hq; lia].
    - destruct (phase_step s Op Hin (or_introl eq_refl)) as [Hin' | [j Hex]].
      + assert (Hqne : s_queue s <> []) by (apply Hne; assumption).
        destruct Hin as (Hpc & _ & _ & _ & Hr & _).
        destruct (until_op_shape s Hpc Hr) as [Hp' Hq'].
        destruct (IH (step feed cfg s Op) Hin') as (m & j & Hex).
        * rewrite Hp'. exact Hp.
        * rewrite Hq'. destruct (s_queue s); [congruence | cbn [length pred] in *; lia].
        * exists (S m), j. exact Hex.
      + exists 1, j. exact Hex.
  Qed.

  Theorem phase_live (s : @sys D R) :
    in_phase s ->
    exists sched j, fault_free sched = true /\ exited j (run feed cfg sched s).
  Proof.
    intros Hin.
    destruct (phase_step s (Rd (length (s_pending s))) Hin (or_intror (ex_intro _ _ eq_refl)))
      as [Hin' | [j Hex]].
    - assert (Hp : s_pending (step feed cfg s (Rd (length (s_pending s)))) = []).
      { destruct Hin as (_ & _ & _ & _ & Hr & _). cbn [step]. rewrite Hr.
        destruct (s_pending s) as [|b0 p'] eqn:E; [exact E|]. cbn [s_pending].
        apply skipn_all2. lia. }
      destruct (phase_drain _ _ Hin' Hp (Nat.le_refl _)) as (m & j & Hex).
      exists (Rd (length (s_pending s)) :: repeat Op m), j. split; [|exact Hex].
      change (fault_free (repeat Op m) = true). apply fault_free_repeat_op.
    - exists [Rd (length (s_pending s))], j. split; [reflexivity | exact Hex].
  Qed.
End Phase.

(* the phase lemma in the form "start of a read-until": the remaining stream is what is queued
   plus what is pending *)
Lemma phase_enter (D R : Type) (cfg : chan_cfg) (c : cond) (k : bytes -> prog R) (h : err -> prog R) (lo : nat) (s : @sys D R) :
  s_pc s = Until c k h -> s_reader s = RRun -> s_acc s = [] -> mem_byte 27 (s_pending s) = false ->
  phase_ok cfg c (concat (s_queue s) ++ drop_cr (s_pending s)) lo = true ->
  in_phase D R c k h (concat (s_queue s) ++ drop_cr (s_pending s)) lo (s_dev s) (s_wlog s) (s_notes s) s.
Proof.
  intros Hpc Hr Ha Hesc Hok. destruct (phase_ok_spec _ _ _ _ Hok) as (Hlo & _).
  unfold in_phase. rewrite Ha. cbn [app length]. repeat split; try assumption; try reflexivity. lia.
Qed.

Theorem phase_lemma (D : Type) (feed : D -> bytes -> D * bytes) (R : Type) (cfg : chan_cfg)
        (c : cond) (k : bytes -> prog R) (h : err -> prog R) (lo : nat) (s : @sys D R) (sched : list ev) :
  s_pc s = Until c k h -> s_reader s = RRun -> s_acc s = [] -> mem_byte 27 (s_pending s) = false ->
  let T := concat (s_queue s) ++ drop_cr (s_pending s) in
  phase_ok cfg c T lo = true ->
  fault_free sched = true ->
  in_phase D R c k h T lo (s_dev s) (s_wlog s) (s_notes s) (run feed cfg sched s) \/
  exists pre post j s',
    sched = pre ++ post /\ run feed cfg pre s = s' /\
    exited D R k T lo (s_dev s) (s_wlog s) (s_notes s) j s' /\
    run feed cfg sched s = run feed cfg post s'.
Proof.
  intros Hpc Hr Ha Hesc T Hok Hff.
  apply (phase_run D feed R cfg c k h T lo (s_dev s) (s_wlog s) (s_notes s) Hok sched s Hff).
  apply (phase_enter D R cfg c k h lo s); assumption.
Qed.

(* ------------------------------------------------------------------------------------------ *)
(* Deadlines and finished programs (generic; used by the timeout / failure properties)         *)
(* ------------------------------------------------------------------------------------------ *)

Section Final.
  Variable D : Type.
  Variable feed : D -> bytes -> D * bytes.
  Variable R : Type.
  Variable cfg : chan_cfg.

  Definition finished (p : prog R) : Prop :=
    match p with Ret _ | Fail _ => True | _ => False end.

  (* a deadline at a read-until: the buffer is dropped and the error continuation runs *)
  Lemma deadline_at_until (s : @sys D R) c k h :
    s_pc s = Until c k h ->
    step feed cfg s Deadline =
    set_pc (mkSys (s_dev s) (s_pending s) (s_queue s) [] (h ETimeout) (s_wlog s) (s_notes s) (s_reader s))
           (h ETimeout).
  Proof. intros H. cbn [step]. rewrite H. reflexivity. Qed.

  (* ... in particular when the continuation fails outright (every program of Channel.v passes
     [Fail], possibly under [bind]s, which still computes to a [Fail]) *)
  Lemma deadline_at_until_fail (s : @sys D R) c k h e :
    s_pc s = Until c k h -> h ETimeout = Fail e ->
    step feed cfg s Deadline =
    mkSys (s_dev s) (s_pending s) (s_queue s) [] (Fail e) (s_wlog s) (s_notes s) (s_reader s) /\
    outcome (step feed cfg s Deadline) = Some (inr e).
  Proof.
    intros H He. rewrite (deadline_at_until s c k h H), He. split; reflexivity.
  Qed.

  (* a deadline anywhere else is ignored *)
  Lemma deadline_elsewhere (s : @sys D R) :
    (forall c k h, s_pc s <> Until c k h) -> step feed cfg s Deadline = s.
  Proof.
    intros H. cbn [step]. destruct (s_pc s) as [r|e|b red k|c k h|t d k|qb qk] eqn:E; try reflexivity.
    exfalso. exact (H c k h eq_refl).
  Qed.

  (* an operation step at a finished program does nothing (consumes nothing from the queue) *)
  Lemma op_at_ret (s : @sys D R) r : s_pc s = Ret r -> step feed cfg s Op = s.
  Proof. intros H. cbn [step]. rewrite H. reflexivity. Qed.

  Lemma op_at_fail (s : @sys D R) e : s_pc s = Fail e -> step feed cfg s Op = s.
  Proof. intros H. cbn [step]. rewrite H. reflexivity. Qed.

  Lemma op_at_finished (s : @sys D R) : finished (s_pc s) -> step feed cfg s Op = s.
  Proof.
    intros H. destruct (s_pc s) as [r|e|b red k|c k h|t d k|qb qk] eqn:E; cbn [finished] in H; try contradiction.
    - exact (op_at_ret s r E).
    - exact (op_at_fail s e E).
  Qed.

  (* one step (ANY event, faults included) at a finished program: everything the operation owns
     is frozen; the queue can only grow (by reader steps) *)
  Lemma finished_step (s : @sys D R) (e : ev) :
    finished (s_pc s) ->
    s_pc (step feed cfg s e) = s_pc s /\ s_dev (step feed cfg s e) = s_dev s /\
    s_wlog (step feed cfg s e) = s_wlog s /\ s_notes (step feed cfg s e) = s_notes s /\
    s_acc (step feed cfg s e) = s_acc s /\
    exists q', s_queue (step feed cfg s e) = s_queue s ++ q'.
  Proof.
    intros H.
    assert (Hnil : exists q' : list bytes, s_queue s = s_queue s ++ q') by (exists []; now rewrite app_nil_r).
    destruct e as [n| | | |].
    - cbn [step]. destruct (s_reader s); try (repeat split; try reflexivity; exact Hnil).
      destruct (s_pending s) as [|b0 p0]; [repeat split; try reflexivity; exact Hnil|].
      cbn [s_pc s_dev s_wlog s_notes s_acc s_queue]. repeat split; try reflexivity.
      destruct (normalize_chunk (firstn (Nat.max 1 n) (b0 :: p0))) as [|b1 ch]; [exact Hnil|].
      eexists. reflexivity.
    - rewrite (op_at_finished s H). repeat split; try reflexivity; exact Hnil.
    - cbn [step]. destruct (s_pc s) as [r|e|b red k|c k h|t d k|qb qk] eqn:E; cbn [finished] in H; try contradiction;
        (repeat split; try reflexivity; try exact E; exact Hnil).
    - cbn [step s_pc s_dev s_wlog s_notes s_acc s_queue]. repeat split; try reflexivity; exact Hnil.
    - cbn [step]. destruct (s_reader s); cbn [s_pc s_dev s_wlog s_notes s_acc s_queue];
        (repeat split; try reflexivity; exact Hnil).
  Qed.

  Lemma finished_run (sched : list ev) : forall s : @sys D R,
    finished (s_pc s) ->
    s_pc (run feed cfg sched s) = s_pc s /\ s_dev (run feed cfg sched s) = s_dev s /\
    s_wlog (run feed cfg sched s) = s_wlog s /\ s_notes (run feed cfg sched s) = s_notes s /\
    s_acc (run feed cfg sched s) = s_acc s /\
    exists q', s_queue (run feed cfg sched s) = s_queue s ++ q'.
  Proof.
    induction sched as [|e sched IH]; intros s H.
    - repeat split; try reflexivity. exists []. now rewrite app_nil_r.
    - destruct (finished_step s e H) as (Hpc & Hd & Hw & Hn & Ha & q1 & Hq).
      assert (H' : finished (s_pc (step feed cfg s e))) by (rewrite Hpc; exact H).
      destruct (IH _ H') as (Hpc' & Hd' & Hw' & Hn' & Ha' & q2 & Hq').
      change (run feed cfg (e :: sched) s) with (run feed cfg sched (step feed cfg s e)).
      rewrite Hpc', Hd', Hw', Hn', Ha', Hq', Hpc, Hd, Hw, Hn, Ha, Hq.
      repeat split; try reflexivity. exists (q1 ++ q2). now rewrite app_assoc.
  Qed.

  (* a failed operation stays failed with the same error, whatever happens next.  (The schedule
     hypothesis is not needed — it holds for Eof / Ioerr events too, see [finished_run] — but is
     kept in the form the properties state it.) *)
  Theorem failed_is_final (s : @sys D R) (e : err) (sched : list ev) :
    s_pc s = Fail e ->
    (forall x, In x sched -> x = Op \/ x = Deadline \/ exists n, x = Rd n) ->
    s_pc (run feed cfg sched s) = Fail e /\
    outcome (run feed cfg sched s) = Some (inr e) /\
    s_wlog (run feed cfg sched s) = s_wlog s /\ s_notes (run feed cfg sched s) = s_notes s /\
    exists q', s_queue (run feed cfg sched s) = s_queue s ++ q'.
  Proof.
    intros H _.
    assert (Hf : finished (s_pc s)) by (rewrite H; exact I).
    destruct (finished_run sched s Hf) as (Hpc & _ & Hw & Hn & _ & Hq).
    rewrite H in Hpc. unfold outcome. rewrite Hpc. repeat split; assumption.
  Qed.

  Theorem returned_is_final (s : @sys D R) (r : R) (sched : list ev) :
    s_pc s = Ret r ->
    s_pc (run feed cfg sched s) = Ret r /\ outcome (run feed cfg sched s) = Some (inl r).
  Proof.
    intros H.
    assert (Hf : finished (s_pc s)) by (rewrite H; exact I).
    destruct (finished_run sched s Hf) as (Hpc & _).
    rewrite H in Hpc. unfold outcome. rewrite Hpc. split; reflexivity.
  Qed.
End Final.

(* ------------------------------------------------------------------------------------------ *)
(* PART 2 — sessions                                                                           *)
(* ------------------------------------------------------------------------------------------ *)

(* ---------- the session program, unfolded to its explicit Write/Until chain ---------- *)

Definition Fk (r : bytes) : list bytes -> prog (list bytes) := fun rs => Ret (r :: rs).
Definition Hk (cfg : chan_cfg) (o : op_opts) (rest : list bytes) : bytes -> prog (list bytes) :=
  fun r => Note TAG_RESULT r (bind (send_commands_prog cfg o rest) (Fk r)).
(* [wrapl [f1; f2; ...] p = bind (bind (bind p f1) f2) ...]: the pending continuations of the
   enclosing SendCommands frames, innermost first (no functional extensionality needed) *)
Definition wrapl (fs : list (list bytes -> prog (list bytes))) (p : prog (list bytes)) : prog (list bytes) :=
  fold_left (fun p f => bind p f) fs p.
Definition K2 (cfg : chan_cfg) (o : op_opts) : bytes -> prog bytes :=
  fun nb => Ret (process_out cfg nb (o_strip o)).
Definition K1 (cfg : chan_cfg) (o : op_opts) : bytes -> prog bytes :=
  fun _ => Write (c_ret cfg) false (Until (prompt_cond cfg o) (K2 cfg o) Fail).

Definition skips (o : op_opts) (c : bytes) : bool :=
  match c with [] => true | _ => false end.

Lemma scp_cons (cfg : chan_cfg) (o : op_opts) (c : bytes) (rest : list bytes) :
  send_commands_prog cfg o (c :: rest) = bind (send_input cfg c o) (Hk cfg o rest).
Proof. reflexivity. Qed.

Lemma send_input_eq (cfg : chan_cfg) (o : op_opts) (c : bytes) :
  o_eager o = false -> send_input cfg c o = Write c false (until_echo o c (K1 cfg o)).
Proof. destruct o as [st ea ex im co]. cbn [o_eager]. intros ->. reflexivity. Qed.

Lemma until_echo_skip {R} (o : op_opts) (c : bytes) (k : bytes -> prog R) :
  skips o c = true -> until_echo o c k = k [].
Proof. unfold skips, until_echo. destruct c; intros H; try discriminate; reflexivity. Qed.

Lemma until_echo_noskip {R} (o : op_opts) (c : bytes) (k : bytes -> prog R) :
  skips o c = false -> until_echo o c k = Until (echo_cond o c) k Fail.
Proof. unfold skips, until_echo. destruct c; intros H; try discriminate; reflexivity. Qed.

Lemma wrapl_write fs b r k : wrapl fs (Write b r k) = Write b r (wrapl fs k).
Proof.
  revert k. induction fs as [|f fs IH]; intros k; [reflexivity|].
  change (wrapl fs (Write b r (bind k f)) = Write b r (wrapl fs (bind k f))). apply IH.
Qed.

Lemma wrapl_note fs t d k : wrapl fs (Note t d k) = Note t d (wrapl fs k).
Proof.
  revert k. induction fs as [|f fs IH]; intros k; [reflexivity|].
  change (wrapl fs (Note t d (bind k f)) = Note t d (wrapl fs (bind k f))). apply IH.
Qed.

Lemma wrapl_until fs c (k : bytes -> prog (list bytes)) (h : err -> prog (list bytes)) :
  wrapl fs (Until c k h) = Until c (fun rb => wrapl fs (k rb)) (fun e => wrapl fs (h e)).
Proof.
  revert k h. induction fs as [|f fs IH]; intros k h; [reflexivity|].
  change (wrapl fs (Until c (fun rb => bind (k rb) f) (fun e => bind (h e) f))
          = Until c (fun rb => wrapl fs (bind (k rb) f)) (fun e => wrapl fs (bind (h e) f))).
  apply (IH (fun rb => bind (k rb) f) (fun e => bind (h e) f)).
Qed.

(* the error continuation of both read-untils of an exchange, seen through the enclosing frames *)
Definition Hfail (cfg : chan_cfg) (o : op_opts) (fs : list (list bytes -> prog (list bytes))) (rest : list bytes)
  : err -> prog (list bytes) :=
  fun e => wrapl fs (bind (Fail e) (Hk cfg o rest)).

Lemma wrapl_ret rr l : wrapl (map Fk rr) (Ret l) = Ret (rev rr ++ l).
Proof.
  revert l. induction rr as [|r rr IH]; intros l; [reflexivity|].
  change (wrapl (map Fk rr) (Ret (r :: l)) = Ret (rev (r :: rr) ++ l)).
  rewrite IH. cbn [rev]. now rewrite <- app_assoc.
Qed.

Lemma pc_cmd cfg o fs c rest :
  o_eager o = false ->
  wrapl fs (send_commands_prog cfg o (c :: rest)) =
  Write c false (wrapl fs (bind (until_echo o c (K1 cfg o)) (Hk cfg o rest))).
Proof.
  intros He. rewrite scp_cons, (send_input_eq cfg o c He).
  change (bind (Write c false (until_echo o c (K1 cfg o))) (Hk cfg o rest))
    with (Write c false (bind (until_echo o c (K1 cfg o)) (Hk cfg o rest))).
  apply wrapl_write.
Qed.

Lemma pc_ret cfg o fs rest buf :
  wrapl fs (bind (K1 cfg o buf) (Hk cfg o rest)) =
  Write (c_ret cfg) false
        (Until (prompt_cond cfg o) (fun nb => wrapl fs (bind (K2 cfg o nb) (Hk cfg o rest)))
               (Hfail cfg o fs rest)).
Proof.
  change (bind (K1 cfg o buf) (Hk cfg o rest))
    with (Write (c_ret cfg) false (Until (prompt_cond cfg o) (fun nb => bind (K2 cfg o nb) (Hk cfg o rest))
                                         (fun e => bind (Fail e) (Hk cfg o rest)))).
  rewrite wrapl_write, wrapl_until. reflexivity.
Qed.

Lemma pc_res cfg o fs rest nb :
  wrapl fs (bind (K2 cfg o nb) (Hk cfg o rest)) =
  Note TAG_RESULT (process_out cfg nb (o_strip o))
       (wrapl (Fk (process_out cfg nb (o_strip o)) :: fs) (send_commands_prog cfg o rest)).
Proof.
  change (bind (K2 cfg o nb) (Hk cfg o rest))
    with (Note TAG_RESULT (process_out cfg nb (o_strip o))
               (bind (send_commands_prog cfg o rest) (Fk (process_out cfg nb (o_strip o))))).
  rewrite wrapl_note. reflexivity.
Qed.

(* ---------- interpreter helpers on explicit states ---------- *)

Definition not_note {R} (p : prog R) : Prop := match p with Note _ _ _ => False | _ => True end.

Lemma set_pc_id {D R} (d : D) pe q a (pc0 p : prog R) wl nt r :
  not_note p -> set_pc (mkSys d pe q a pc0 wl nt r) p = mkSys d pe q a p wl nt r.
Proof. destruct p; cbn [not_note]; intros H; try reflexivity. contradiction. Qed.

Lemma set_pc_note {D R} (d : D) pe q a (pc0 : prog R) wl nt r t dd k :
  set_pc (mkSys d pe q a pc0 wl nt r) (Note t dd k) = set_pc (mkSys d pe q a pc0 wl (nt ++ [(t, dd)]) r) k.
Proof. reflexivity. Qed.

Lemma step_op_write {D R} (feed : D -> bytes -> D * bytes) cfg (s : @sys D R) b red k :
  s_pc s = Write b red k ->
  step feed cfg s Op =
  let '(d', out) := feed (s_dev s) b in
  set_pc (mkSys d' (s_pending s ++ out) (s_queue s) (s_acc s) k (s_wlog s ++ [(b, red)]) (s_notes s) (s_reader s)) k.
Proof. intros H. cbn [step]. rewrite H. reflexivity. Qed.

(* a reader step on an explicit running state: the normalised stream is unchanged *)
Lemma step_rd {D R} (feed : D -> bytes -> D * bytes) cfg (d : D) p q a (pc : prog R) wl nt n :
  mem_byte 27 p = false ->
  exists p' q',
    step feed cfg (mkSys d p q a pc wl nt RRun) (Rd n) = mkSys d p' q' a pc wl nt RRun /\
    concat q' ++ drop_cr p' = concat q ++ drop_cr p /\ mem_byte 27 p' = false.
Proof.
  intros Hesc. cbn [step s_reader s_pending].
  destruct p as [|b0 p0]; [exists [], q; repeat split; reflexivity|].
  set (p := b0 :: p0) in *. set (m := Nat.max 1 n).
  cbn [s_dev s_queue s_acc s_pc s_wlog s_notes s_reader].
  rewrite (normalize_chunk_noesc (firstn m p)) by (apply mem_byte_firstn_false, Hesc).
  eexists _, _. split; [reflexivity|]. split; [|apply mem_byte_skipn_false, Hesc].
  rewrite <- (firstn_skipn m p) at 3. rewrite drop_cr_app.
  destruct (drop_cr (firstn m p)) as [|b1 ch] eqn:E; [reflexivity|].
  rewrite app_assoc. f_equal. apply concat_snoc.
Qed.

Lemma beqb_eq (a b : bytes) : beqb a b = true -> a = b.
Proof.
  revert b. induction a as [|x a IH]; intros [|y b] H; cbn [beqb] in H; try discriminate; [reflexivity|].
  apply andb_true_iff in H. destruct H as [H1 H2]. apply N.eqb_eq in H1. subst y. f_equal. now apply IH.
Qed.

(* ---------- the hypotheses, unpacked ---------- *)

Definition lo_set (x : exchange) : list bytes := leftovers (drop_cr (x_resp x)) (x_resp_lo x).

Lemma exchange_ok_spec cfg o stales x :
  exchange_ok cfg o stales x = true ->
  (forall st, In st stales ->
     if skips o (x_cmd x) then st ++ drop_cr (x_echo x) = []
     else phase_ok cfg (echo_cond o (x_cmd x)) (st ++ drop_cr (x_echo x)) (length (st ++ drop_cr (x_echo x))) = true) /\
  phase_ok cfg (prompt_cond cfg o) (drop_cr (x_resp x)) (x_resp_lo x) = true /\
  (forall j, x_resp_lo x <= j <= length (drop_cr (x_resp x)) ->
     process_out cfg (firstn j (drop_cr (x_resp x))) (o_strip o) = x_result x) /\
  mem_byte 27 (x_echo x) = false /\ mem_byte 27 (x_resp x) = false /\ o_eager o = false.
Proof.
  unfold exchange_ok. intros H.
  apply andb_true_iff in H. destruct H as [H Heager].
  apply andb_true_iff in H. destruct H as [H Hesc2].
  apply andb_true_iff in H. destruct H as [H Hesc1].
  apply andb_true_iff in H. destruct H as [Hecho H].
  apply andb_true_iff in H. destruct H as [Hresp Hres].
  apply negb_true_iff in Heager, Hesc1, Hesc2.
  rewrite forallb_forall in Hecho, Hres.
  repeat split; try assumption.
  - intros st Hin. specialize (Hecho st Hin). cbv zeta in Hecho. unfold skips.
    destruct (x_cmd x) as [|c0 cs]; try exact Hecho.
    destruct (st ++ drop_cr (x_echo x)); [reflexivity | discriminate].
  - intros j Hj. apply beqb_eq. apply Hres. rewrite in_seq. lia.
Qed.

Lemma session_ok_cons cfg o stales x rest :
  session_ok cfg o stales (x :: rest) = true ->
  exchange_ok cfg o stales x = true /\ session_ok cfg o (lo_set x) rest = true.
Proof. cbn [session_ok]. intros H. apply andb_true_iff in H. exact H. Qed.

Lemma in_leftovers (T : bytes) (lo j : nat) : lo <= j <= length T -> In (skipn j T) (leftovers T lo).
Proof. intros H. unfold leftovers. apply in_map_iff. exists j. split; [reflexivity|]. rewrite in_seq. lia. Qed.

(* ---------- expected writes / notes bookkeeping ---------- *)

Definition ewx (cfg : chan_cfg) (xs : list exchange) : list (bytes * bool) :=
  expected_writes cfg (map x_cmd xs).
Definition notes_of (xs : list exchange) : list (N * bytes) :=
  map (fun x => (TAG_RESULT, x_result x)) xs.
Definition fs_of (xs : list exchange) : list (list bytes -> prog (list bytes)) :=
  map Fk (rev (map x_result xs)).

Lemma ewx_app cfg a b : ewx cfg (a ++ b) = ewx cfg a ++ ewx cfg b.
Proof. unfold ewx, expected_writes. rewrite map_app. apply flat_map_app. Qed.

Lemma ewx_cons cfg x b : ewx cfg (x :: b) = (x_cmd x, false) :: (c_ret cfg, false) :: ewx cfg b.
Proof. reflexivity. Qed.

Lemma ewx_length cfg a : length (ewx cfg a) = 2 * length a.
Proof. induction a as [|x a IH]; [reflexivity|]. rewrite ewx_cons. cbn [length]. rewrite IH. lia. Qed.

Lemma ewx_firstn cfg xs1 x xs2 (i : nat) :
  firstn (2 * length xs1 + i) (ewx cfg (xs1 ++ x :: xs2)) =
  ewx cfg xs1 ++ firstn i ((x_cmd x, false) :: (c_ret cfg, false) :: ewx cfg xs2).
Proof.
  rewrite ewx_app, ewx_cons. rewrite <- (ewx_length cfg xs1). apply firstn_app_2.
Qed.

Lemma notes_of_snoc xs1 x : notes_of (xs1 ++ [x]) = notes_of xs1 ++ [(TAG_RESULT, x_result x)].
Proof. unfold notes_of. now rewrite map_app. Qed.

Lemma fs_of_snoc xs1 x : fs_of (xs1 ++ [x]) = Fk (x_result x) :: fs_of xs1.
Proof. unfold fs_of. rewrite map_app. cbn [map]. rewrite rev_unit. reflexivity. Qed.

Lemma wrapl_fs_ret xs1 : wrapl (fs_of xs1) (Ret []) = Ret (map x_result xs1).
Proof. unfold fs_of. rewrite wrapl_ret, rev_involutive. now rewrite app_nil_r. Qed.

Lemma cons_app_assoc {A} (a : list A) (x : A) (b : list A) : a ++ x :: b = (a ++ [x]) ++ b.
Proof. now rewrite <- app_assoc. Qed.

(* ---------- where the session is ---------- *)

Section Sess.
  Variable cfg : chan_cfg.
  Variable o : op_opts.
  Variable xs : list exchange.

  Notation ssys := (@sys script (list bytes)).

  (* [at_point m s]: [s] is a reachable session state; [m] counts the sub-phases still to go
     (4 per exchange: write command, echo read, write return, response read) *)
  Inductive at_point : nat -> ssys -> Prop :=
  | AtCmd : forall xs1 x xs2 stales p q,
      xs = xs1 ++ x :: xs2 ->
      exchange_ok cfg o stales x = true ->
      session_ok cfg o (lo_set x) xs2 = true ->
      In (concat q ++ drop_cr p) stales ->
      mem_byte 27 p = false ->
      at_point (4 * length xs2 + 4)
        (@mkSys script (list bytes) (bursts_of (x :: xs2)) p q []
               (wrapl (fs_of xs1) (send_commands_prog cfg o (map x_cmd (x :: xs2))))
               (ewx cfg xs1) (notes_of xs1) RRun)
  | AtEcho : forall xs1 x xs2 stales st s,
      xs = xs1 ++ x :: xs2 ->
      exchange_ok cfg o stales x = true ->
      session_ok cfg o (lo_set x) xs2 = true ->
      In st stales ->
      skips o (x_cmd x) = false ->
      in_phase script (list bytes) (echo_cond o (x_cmd x))
               (fun rb => wrapl (fs_of xs1) (bind (K1 cfg o rb) (Hk cfg o (map x_cmd xs2))))
               (Hfail cfg o (fs_of xs1) (map x_cmd xs2))
               (st ++ drop_cr (x_echo x)) (length (st ++ drop_cr (x_echo x)))
               (x_resp x :: bursts_of xs2)
               (ewx cfg xs1 ++ [(x_cmd x, false)]) (notes_of xs1) s ->
      at_point (4 * length xs2 + 3) s
  | AtRet : forall xs1 x xs2 stales p q buf,
      xs = xs1 ++ x :: xs2 ->
      exchange_ok cfg o stales x = true ->
      session_ok cfg o (lo_set x) xs2 = true ->
      concat q ++ drop_cr p = [] ->
      mem_byte 27 p = false ->
      at_point (4 * length xs2 + 2)
        (@mkSys script (list bytes) (x_resp x :: bursts_of xs2) p q []
               (wrapl (fs_of xs1) (bind (K1 cfg o buf) (Hk cfg o (map x_cmd xs2))))
               (ewx cfg xs1 ++ [(x_cmd x, false)]) (notes_of xs1) RRun)
  | AtResp : forall xs1 x xs2 stales s,
      xs = xs1 ++ x :: xs2 ->
      exchange_ok cfg o stales x = true ->
      session_ok cfg o (lo_set x) xs2 = true ->
      in_phase script (list bytes) (prompt_cond cfg o)
               (fun nb => wrapl (fs_of xs1) (bind (K2 cfg o nb) (Hk cfg o (map x_cmd xs2))))
               (Hfail cfg o (fs_of xs1) (map x_cmd xs2))
               (drop_cr (x_resp x)) (x_resp_lo x)
               (bursts_of xs2)
               (ewx cfg xs1 ++ [(x_cmd x, false); (c_ret cfg, false)]) (notes_of xs1) s ->
      at_point (4 * length xs2 + 1) s
  | AtDone : forall p q,
      at_point 0 (@mkSys script (list bytes) [] p q [] (Ret (map x_result xs)) (ewx cfg xs) (notes_of xs) RRun).

  (* entering exchange number |xs1| (or finishing, when nothing is left) *)
  Lemma enter_next xs1 xs2 stales p q :
    xs = xs1 ++ xs2 ->
    session_ok cfg o stales xs2 = true ->
    (xs2 <> [] -> o_eager o = false) ->
    In (concat q ++ drop_cr p) stales ->
    mem_byte 27 p = false ->
    at_point (4 * length xs2)
      (set_pc (mkSys (bursts_of xs2) p q []
                     (wrapl (fs_of xs1) (send_commands_prog cfg o (map x_cmd xs2)))
                     (ewx cfg xs1) (notes_of xs1) RRun)
              (wrapl (fs_of xs1) (send_commands_prog cfg o (map x_cmd xs2)))).
  Proof.
    intros Hxs Hss Hea Hin Hesc. destruct xs2 as [|x xs2].
    - rewrite app_nil_r in Hxs. subst xs1.
      cbn [map send_commands_prog bursts_of flat_map length Nat.mul].
      rewrite wrapl_fs_ret. rewrite set_pc_id by exact I. apply AtDone.
    - apply session_ok_cons in Hss. destruct Hss as [Hex Hss].
      rewrite set_pc_id by (cbn [map]; rewrite pc_cmd by (apply Hea; discriminate); exact I).
      replace (4 * length (x :: xs2)) with (4 * length xs2 + 4) by (cbn [length]; lia).
      apply (AtCmd xs1 x xs2 stales p q); assumption.
  Qed.

  (* the echo read-until returns: everything was consumed *)
  Lemma exit_echo xs1 x xs2 stales st j s' :
    xs = xs1 ++ x :: xs2 ->
    exchange_ok cfg o stales x = true ->
    session_ok cfg o (lo_set x) xs2 = true ->
    exited script (list bytes)
           (fun rb => wrapl (fs_of xs1) (bind (K1 cfg o rb) (Hk cfg o (map x_cmd xs2))))
           (st ++ drop_cr (x_echo x)) (length (st ++ drop_cr (x_echo x)))
           (x_resp x :: bursts_of xs2)
           (ewx cfg xs1 ++ [(x_cmd x, false)]) (notes_of xs1) j s' ->
    at_point (4 * length xs2 + 2) s'.
  Proof.
    intros Hxs Hex Hss (Hj & p & q & Hs & Hst & Hesc). subst s'.
    rewrite set_pc_id by (rewrite pc_ret; exact I).
    apply (AtRet xs1 x xs2 stales p q _ Hxs Hex Hss); [|exact Hesc].
    rewrite Hst. apply skipn_all2. lia.
  Qed.

  (* the response read-until returns: the result is the specified one; next exchange or done *)
  Lemma exit_resp xs1 x xs2 stales j s' :
    xs = xs1 ++ x :: xs2 ->
    exchange_ok cfg o stales x = true ->
    session_ok cfg o (lo_set x) xs2 = true ->
    exited script (list bytes)
           (fun nb => wrapl (fs_of xs1) (bind (K2 cfg o nb) (Hk cfg o (map x_cmd xs2))))
           (drop_cr (x_resp x)) (x_resp_lo x)
           (bursts_of xs2)
           (ewx cfg xs1 ++ [(x_cmd x, false); (c_ret cfg, false)]) (notes_of xs1) j s' ->
    at_point (4 * length xs2) s'.
  Proof.
    intros Hxs Hex Hss (Hj & p & q & Hs & Hst & Hesc). subst s'.
    destruct (exchange_ok_spec _ _ _ _ Hex) as (_ & _ & Hres & _ & _ & Hea).
    rewrite pc_res. rewrite (Hres j Hj). rewrite set_pc_note.
    rewrite <- fs_of_snoc, <- notes_of_snoc.
    replace (ewx cfg xs1 ++ [(x_cmd x, false); (c_ret cfg, false)]) with (ewx cfg (xs1 ++ [x]))
      by (rewrite ewx_app; reflexivity).
    apply (enter_next (xs1 ++ [x]) xs2 (lo_set x) p q).
    - rewrite Hxs. apply cons_app_assoc.
    - exact Hss.
    - intros _. exact Hea.
    - rewrite Hst. apply in_leftovers. exact Hj.
    - exact Hesc.
  Qed.
End Sess.

Section SessStep.
  Variable cfg : chan_cfg.
  Variable o : op_opts.
  Variable xs : list exchange.

  Notation ssys := (@sys script (list bytes)).

  (* one fault-free step preserves [at_point]; the count never increases, and an operation step at
     a write point (even, non-zero count) strictly decreases it *)
  Lemma at_point_step (m : nat) (s : ssys) (e : ev) :
    at_point cfg o xs m s -> (e = Op \/ exists n, e = Rd n) ->
    exists m', m' <= m /\ at_point cfg o xs m' (step sfeed cfg s e) /\
               (e = Op -> (exists n, m = 2 * n + 2) -> m' < m).
  Proof.
    intros Hat He. destruct Hat as
        [xs1 x xs2 stales p q Hxs Hex Hss Hin Hesc
        |xs1 x xs2 stales st s Hxs Hex Hss Hin Hsk Hph
        |xs1 x xs2 stales p q buf Hxs Hex Hss Hst Hesc
        |xs1 x xs2 stales s Hxs Hex Hss Hph
        |p q].
    - (* about to write the command *)
      destruct (exchange_ok_spec _ _ _ _ Hex) as (Hecho & _ & _ & Hesc1 & _ & Hea).
      destruct He as [He | [n He]]; subst e.
      + erewrite step_op_write by (cbn [s_pc map]; apply (pc_cmd cfg o (fs_of xs1) (x_cmd x) (map x_cmd xs2) Hea)).
        cbn [s_dev s_pending s_queue s_acc s_wlog s_notes s_reader bursts_of flat_map app sfeed].
        fold (bursts_of xs2).
        assert (Hstream : concat q ++ drop_cr (p ++ x_echo x) = (concat q ++ drop_cr p) ++ drop_cr (x_echo x))
          by (rewrite drop_cr_app; now rewrite app_assoc).
        assert (Hesc' : mem_byte 27 (p ++ x_echo x) = false)
          by (rewrite mem_byte_app, Hesc, Hesc1; reflexivity).
        specialize (Hecho _ Hin).
        destruct (skips o (x_cmd x)) eqn:Hsk.
        * rewrite (until_echo_skip o (x_cmd x) (K1 cfg o) Hsk).
          rewrite set_pc_id by (rewrite pc_ret; exact I).
          exists (4 * length xs2 + 2). split; [lia|]. split; [|intros _ _; lia].
          apply (AtRet cfg o xs xs1 x xs2 stales _ _ [] Hxs Hex Hss); [|exact Hesc'].
          rewrite Hstream. exact Hecho.
        * rewrite (until_echo_noskip o (x_cmd x) (K1 cfg o) Hsk).
          change (bind (Until (echo_cond o (x_cmd x)) (K1 cfg o) Fail) (Hk cfg o (map x_cmd xs2)))
            with (Until (echo_cond o (x_cmd x)) (fun rb => bind (K1 cfg o rb) (Hk cfg o (map x_cmd xs2)))
                        (fun e => bind (Fail e) (Hk cfg o (map x_cmd xs2)))).
          rewrite wrapl_until. rewrite set_pc_id by exact I.
          exists (4 * length xs2 + 3). split; [lia|]. split; [|intros _ _; lia].
          apply (AtEcho cfg o xs xs1 x xs2 stales (concat q ++ drop_cr p) _ Hxs Hex Hss Hin Hsk).
          destruct (phase_ok_spec _ _ _ _ Hecho) as (Hlo & _).
          unfold in_phase. cbn [s_pc s_dev s_wlog s_notes s_reader s_acc s_queue s_pending app length].
          repeat split; try reflexivity; try assumption; lia.
      + match goal with |- context [step sfeed cfg (mkSys ?d0 p q ?a0 ?pc0 ?wl0 ?nt0 RRun) (Rd n)] =>
          destruct (@step_rd script (list bytes) sfeed cfg d0 p q a0 pc0 wl0 nt0 n Hesc) as (p' & q' & Hs & Hst' & Hesc')
        end.
        rewrite Hs. exists (4 * length xs2 + 4). split; [lia|]. split; [|intros Hc; discriminate].
        apply (AtCmd cfg o xs xs1 x xs2 stales p' q' Hxs Hex Hss); [|exact Hesc'].
        rewrite Hst'. exact Hin.
    - (* echo phase *)
      destruct (exchange_ok_spec _ _ _ _ Hex) as (Hecho & _).
      specialize (Hecho _ Hin). rewrite Hsk in Hecho.
      destruct (phase_step _ sfeed _ cfg _ _ _ _ _ _ _ _ Hecho s e Hph He) as [Hph' | [j Hexit]].
      + exists (4 * length xs2 + 3). split; [lia|]. split; [|intros _ [n Hn]; lia].
        apply (AtEcho cfg o xs xs1 x xs2 stales st _ Hxs Hex Hss Hin Hsk Hph').
      + exists (4 * length xs2 + 2). split; [lia|]. split; [|intros _ [n Hn]; lia].
        apply (exit_echo cfg o xs xs1 x xs2 stales st j _ Hxs Hex Hss Hexit).
    - (* about to write the return *)
      destruct (exchange_ok_spec _ _ _ _ Hex) as (_ & Hresp & _ & _ & Hesc2 & _).
      destruct He as [He | [n He]]; subst e.
      + erewrite step_op_write by (cbn [s_pc]; apply (pc_ret cfg o (fs_of xs1) (map x_cmd xs2) buf)).
        cbn [s_dev s_pending s_queue s_acc s_wlog s_notes s_reader sfeed].
        rewrite set_pc_id by exact I.
        exists (4 * length xs2 + 1). split; [lia|]. split; [|intros _ _; lia].
        apply (AtResp cfg o xs xs1 x xs2 stales _ Hxs Hex Hss).
        destruct (phase_ok_spec _ _ _ _ Hresp) as (Hlo & _).
        unfold in_phase. cbn [s_pc s_dev s_wlog s_notes s_reader s_acc s_queue s_pending app length].
        repeat split; try reflexivity.
        * now rewrite <- app_assoc.
        * rewrite drop_cr_app, app_assoc, Hst. reflexivity.
        * rewrite mem_byte_app, Hesc, Hesc2. reflexivity.
        * lia.
      + match goal with |- context [step sfeed cfg (mkSys ?d0 p q ?a0 ?pc0 ?wl0 ?nt0 RRun) (Rd n)] =>
          destruct (@step_rd script (list bytes) sfeed cfg d0 p q a0 pc0 wl0 nt0 n Hesc) as (p' & q' & Hs & Hst' & Hesc')
        end.
        rewrite Hs. exists (4 * length xs2 + 2). split; [lia|]. split; [|intros Hc; discriminate].
        apply (AtRet cfg o xs xs1 x xs2 stales p' q' buf Hxs Hex Hss); [|exact Hesc'].
        rewrite Hst'. exact Hst.
    - (* response phase *)
      destruct (exchange_ok_spec _ _ _ _ Hex) as (_ & Hresp & _).
      destruct (phase_step _ sfeed _ cfg _ _ _ _ _ _ _ _ Hresp s e Hph He) as [Hph' | [j Hexit]].
      + exists (4 * length xs2 + 1). split; [lia|]. split; [|intros _ [n Hn]; lia].
        apply (AtResp cfg o xs xs1 x xs2 stales _ Hxs Hex Hss Hph').
      + exists (4 * length xs2). split; [lia|]. split; [|intros _ [n Hn]; lia].
        apply (exit_resp cfg o xs xs1 x xs2 stales j _ Hxs Hex Hss Hexit).
    - (* finished *)
      exists 0. split; [lia|]. split; [|intros _ [n Hn]; lia].
      destruct He as [He | [n He]]; subst e.
      + cbn [step s_pc]. apply AtDone.
      + cbn [step s_reader s_pending].
        destruct p as [|b0 p0]; [apply AtDone|]. apply AtDone.
  Qed.
End SessStep.

Section SessMain.
  Variable cfg : chan_cfg.
  Variable o : op_opts.
  Variable xs : list exchange.

  Notation ssys := (@sys script (list bytes)).

  Lemma at_point_run (sched : list ev) : forall (m : nat) (s : ssys),
    fault_free sched = true -> at_point cfg o xs m s ->
    exists m', m' <= m /\ at_point cfg o xs m' (run sfeed cfg sched s).
  Proof.
    induction sched as [|e sched IH]; intros m s Hff Hat.
    - exists m. split; [lia | exact Hat].
    - apply fault_free_cons in Hff. destruct Hff as [He Hff].
      destruct (at_point_step cfg o xs m s e Hat He) as (m1 & Hle1 & Hat1 & _).
      destruct (IH m1 _ Hff Hat1) as (m2 & Hle2 & Hat2).
      exists m2. split; [lia | exact Hat2].
  Qed.

  (* what [at_point] says about the observable part of the state *)
  Lemma at_point_safe (m : nat) (s : ssys) :
    at_point cfg o xs m s ->
    exists k w, k <= length xs /\ 2 * k <= w <= 2 * k + 2 /\ w <= 2 * length xs /\
      s_notes s = map (fun x => (TAG_RESULT, x_result x)) (firstn k xs) /\
      s_wlog s = firstn w (expected_writes cfg (map x_cmd xs)) /\
      (forall e, outcome s <> Some (inr e)) /\
      (forall r, outcome s = Some (inl r) -> k = length xs /\ r = map x_result xs).
  Proof.
    intros Hat. destruct Hat as
        [xs1 x xs2 stales p q Hxs Hex Hss Hin Hesc
        |xs1 x xs2 stales st s Hxs Hex Hss Hin Hsk Hph
        |xs1 x xs2 stales p q buf Hxs Hex Hss Hst Hesc
        |xs1 x xs2 stales s Hxs Hex Hss Hph
        |p q].
    - destruct (exchange_ok_spec _ _ _ _ Hex) as (_ & _ & _ & _ & _ & Hea).
      exists (length xs1), (2 * length xs1 + 0).
      assert (Hlen : length xs = length xs1 + S (length xs2)) by (rewrite Hxs, app_length; reflexivity).
      split; [lia|]. split; [lia|]. split; [lia|].
      cbn [s_notes s_wlog]. fold (ewx cfg xs). rewrite Hxs at 1 2. rewrite firstn_len_app, ewx_firstn.
      split; [reflexivity|]. split; [cbn [firstn]; now rewrite app_nil_r|].
      unfold outcome. cbn [s_pc map]. rewrite (pc_cmd cfg o _ _ _ Hea). split; intros; discriminate.
    - destruct Hph as (Hpc & _ & Hw & Hn & _).
      exists (length xs1), (2 * length xs1 + 1).
      assert (Hlen : length xs = length xs1 + S (length xs2)) by (rewrite Hxs, app_length; reflexivity).
      split; [lia|]. split; [lia|]. split; [lia|].
      rewrite Hn, Hw. fold (ewx cfg xs). rewrite Hxs at 1 2. rewrite firstn_len_app, ewx_firstn.
      split; [reflexivity|]. split; [reflexivity|].
      unfold outcome. rewrite Hpc. split; intros; discriminate.
    - exists (length xs1), (2 * length xs1 + 1).
      assert (Hlen : length xs = length xs1 + S (length xs2)) by (rewrite Hxs, app_length; reflexivity).
      split; [lia|]. split; [lia|]. split; [lia|].
      cbn [s_notes s_wlog]. fold (ewx cfg xs). rewrite Hxs at 1 2. rewrite firstn_len_app, ewx_firstn.
      split; [reflexivity|]. split; [reflexivity|].
      unfold outcome. cbn [s_pc]. rewrite pc_ret. split; intros; discriminate.
    - destruct Hph as (Hpc & _ & Hw & Hn & _).
      exists (length xs1), (2 * length xs1 + 2).
      assert (Hlen : length xs = length xs1 + S (length xs2)) by (rewrite Hxs, app_length; reflexivity).
      split; [lia|]. split; [lia|]. split; [lia|].
      rewrite Hn, Hw. fold (ewx cfg xs). rewrite Hxs at 1 2. rewrite firstn_len_app, ewx_firstn.
      split; [reflexivity|]. split; [reflexivity|].
      unfold outcome. rewrite Hpc. split; intros; discriminate.
    - exists (length xs), (2 * length xs).
      split; [lia|]. split; [lia|]. split; [lia|].
      cbn [s_notes s_wlog]. fold (ewx cfg xs). rewrite firstn_all.
      rewrite <- (ewx_length cfg xs), firstn_all.
      split; [reflexivity|]. split; [reflexivity|].
      unfold outcome. cbn [s_pc]. split; [intros; discriminate|].
      intros r Hr. injection Hr as <-. split; reflexivity.
  Qed.

  (* liveness: read everything pending in one chunk, then step the operation; the count of
     remaining sub-phases strictly decreases *)
  Lemma at_point_advance (m : nat) (s : ssys) :
    at_point cfg o xs m s -> 0 < m ->
    exists frag m', fault_free frag = true /\ m' < m /\ at_point cfg o xs m' (run sfeed cfg frag s).
  Proof.
    intros Hat Hm.
    inversion Hat as
        [xs1 x xs2 stales p q Hxs Hex Hss Hin Hesc Em Es
        |xs1 x xs2 stales st s0 Hxs Hex Hss Hin Hsk Hph Em Es
        |xs1 x xs2 stales p q buf Hxs Hex Hss Hst Hesc Em Es
        |xs1 x xs2 stales s0 Hxs Hex Hss Hph Em Es
        |p q Em Es]; subst m s.
    - destruct (at_point_step cfg o xs _ _ Op Hat (or_introl eq_refl)) as (m' & _ & Hat' & Hlt).
      exists [Op], m'. split; [reflexivity|]. split; [|exact Hat'].
      apply Hlt; [reflexivity|]. exists (2 * length xs2 + 1). lia.
    - destruct (exchange_ok_spec _ _ _ _ Hex) as (Hecho & _).
      specialize (Hecho _ Hin). rewrite Hsk in Hecho.
      destruct (phase_live _ sfeed _ cfg _ _ _ _ _ _ _ _ Hecho _ Hph) as (frag & j & Hff & Hexit).
      exists frag, (4 * length xs2 + 2). split; [exact Hff|]. split; [lia|].
      apply (exit_echo cfg o xs xs1 x xs2 stales st j _ Hxs Hex Hss Hexit).
    - destruct (at_point_step cfg o xs _ _ Op Hat (or_introl eq_refl)) as (m' & _ & Hat' & Hlt).
      exists [Op], m'. split; [reflexivity|]. split; [|exact Hat'].
      apply Hlt; [reflexivity|]. exists (2 * length xs2). lia.
    - destruct (exchange_ok_spec _ _ _ _ Hex) as (_ & Hresp & _).
      destruct (phase_live _ sfeed _ cfg _ _ _ _ _ _ _ _ Hresp _ Hph) as (frag & j & Hff & Hexit).
      exists frag, (4 * length xs2). split; [exact Hff|]. split; [lia|].
      apply (exit_resp cfg o xs xs1 x xs2 stales j _ Hxs Hex Hss Hexit).
    - lia.
  Qed.

  Lemma at_point_live (m : nat) : forall s : ssys,
    at_point cfg o xs m s ->
    exists sched', fault_free sched' = true /\ at_point cfg o xs 0 (run sfeed cfg sched' s).
  Proof.
    induction m as [m IH] using lt_wf_ind. intros s Hat.
    destruct (Nat.eq_0_gt_0_cases m) as [E | Hpos].
    - subst m. exists []. split; [reflexivity | exact Hat].
    - destruct (at_point_advance m s Hat Hpos) as (frag & m' & Hff & Hlt & Hat').
      destruct (IH m' Hlt _ Hat') as (rest & Hff' & Hat'').
      exists (frag ++ rest). split.
      + rewrite fault_free_app, Hff, Hff'. reflexivity.
      + rewrite run_app. exact Hat''.
  Qed.

  Lemma at_point_done (s : ssys) : at_point cfg o xs 0 s -> outcome s = Some (inl (map x_result xs)).
  Proof.
    intros Hat. inversion Hat as [| | | |p q Em Es]; try lia. reflexivity.
  Qed.

  (* the initial state *)
  Lemma session_sys_at_point (start : bytes) :
    mem_byte 27 start = false ->
    session_ok cfg o [drop_cr start] xs = true ->
    at_point cfg o xs (4 * length xs) (session_sys cfg o start xs).
  Proof.
    intros Hesc Hss. unfold session_sys, init_sys.
    apply (enter_next cfg o xs [] xs [drop_cr start] start [] eq_refl Hss).
    - destruct xs as [|x rest]; [congruence|]. intros _.
      apply session_ok_cons in Hss. destruct Hss as [Hex _].
      destruct (exchange_ok_spec _ _ _ _ Hex) as (_ & _ & _ & _ & _ & Hea). exact Hea.
    - left. reflexivity.
    - exact Hesc.
  Qed.
End SessMain.

(* ---------- the session theorems ---------- *)

Theorem session_safe : forall cfg o start xs sched,
  fault_free sched = true -> mem_byte 27 start = false ->
  session_ok cfg o [drop_cr start] xs = true ->
  let st := run sfeed cfg sched (session_sys cfg o start xs) in
  exists k w, (k <= length xs)%nat /\ (2 * k <= w <= 2 * k + 2)%nat /\ (w <= 2 * length xs)%nat /\
    s_notes st = map (fun x => (TAG_RESULT, x_result x)) (firstn k xs) /\
    s_wlog st = firstn w (expected_writes cfg (map x_cmd xs)) /\
    (forall e, outcome st <> Some (inr e)) /\
    (forall r, outcome st = Some (inl r) -> k = length xs /\ r = map x_result xs).
Proof.
  intros cfg o start xs sched Hff Hesc Hss st.
  destruct (at_point_run cfg o xs sched _ _ Hff (session_sys_at_point cfg o xs start Hesc Hss))
    as (m & _ & Hat).
  exact (at_point_safe cfg o xs m st Hat).
Qed.

Theorem session_live : forall cfg o start xs sched,
  fault_free sched = true -> mem_byte 27 start = false ->
  session_ok cfg o [drop_cr start] xs = true ->
  exists sched', fault_free sched' = true /\
    outcome (run sfeed cfg (sched ++ sched') (session_sys cfg o start xs)) = Some (inl (map x_result xs)).
Proof.
  intros cfg o start xs sched Hff Hesc Hss.
  destruct (at_point_run cfg o xs sched _ _ Hff (session_sys_at_point cfg o xs start Hesc Hss))
    as (m & _ & Hat).
  destruct (at_point_live cfg o xs m _ Hat) as (sched' & Hff' & Hdone).
  exists sched'. split; [exact Hff'|]. rewrite run_app. apply (at_point_done cfg o xs _ Hdone).
Qed.

(* ---------- non-vacuity ---------- *)

Definition ex_cfg : chan_cfg := mkCfg 1000 rx_prompt_pattern [10%N] 0%Z.
Definition ex_crlf : bytes := [13%N; 10%N].
Definition ex_start : bytes := bs "r1# ".
(* two exchanges, CRLF line ends, blanks after the prompt (1 resp. 2) *)
Definition ex_x1 : exchange :=
  mkEx (bs "sh a") (bs "sh a") (ex_crlf ++ bs "out1 line" ++ ex_crlf ++ bs "r1# ") 0 14 (bs "out1 line").
Definition ex_x2 : exchange :=
  mkEx (bs "sh b") (bs "sh b") (ex_crlf ++ bs "out2" ++ ex_crlf ++ bs "r1#  ") 0 9 (bs "out2").
Definition ex_xs : list exchange := [ex_x1; ex_x2].

Example ex_session_ok : session_ok ex_cfg default_opts [drop_cr ex_start] ex_xs = true.
Proof. vm_compute. reflexivity. Qed.

Example ex_start_noesc : mem_byte 27 ex_start = false.
Proof. reflexivity. Qed.

(* 1-byte and large reads interleaved with operation steps *)
Definition ex_sched : list ev :=
  [Rd 1; Op; Rd 1; Rd 7; Op; Rd 100; Op;
   Rd 1; Op; Rd 1; Rd 7; Op; Rd 100; Op;
   Rd 1; Op; Rd 1; Rd 7; Op; Rd 100; Op;
   Rd 1; Op; Rd 1; Rd 7; Op; Rd 100; Op].

Example ex_sched_fault_free : fault_free ex_sched = true.
Proof. reflexivity. Qed.

Example ex_run_outcome :
  outcome (run sfeed ex_cfg ex_sched (session_sys ex_cfg default_opts ex_start ex_xs))
  = Some (inl [bs "out1 line"; bs "out2"]).
Proof. vm_compute. reflexivity. Qed.

(* part-way: first result delivered, three writes done, second echo being read byte-wise *)
Example ex_run_midway :
  let st := run sfeed ex_cfg (firstn 20 ex_sched) (session_sys ex_cfg default_opts ex_start ex_xs) in
  (s_notes st, s_wlog st, s_acc st, s_queue st, outcome st)
  = ([(TAG_RESULT, bs "out1 line")],
     [(bs "sh a", false); ([10%N], false); (bs "sh b", false)],
     bs "s", [bs "h b"], None).
Proof. vm_compute. reflexivity. Qed.

(* the theorems apply to the example *)
Example ex_session_live :
  exists sched', fault_free sched' = true /\
    outcome (run sfeed ex_cfg (firstn 20 ex_sched ++ sched') (session_sys ex_cfg default_opts ex_start ex_xs))
    = Some (inl (map x_result ex_xs)).
Proof. apply session_live; [reflexivity | exact ex_start_noesc | exact ex_session_ok]. Qed.

(* regression: the empty-command corner.  With a fuzzy (non-exact) empty command the echo read is
   skipped; a stale tail would then leak into the response phase ("X" + prompt is returned at once
   by the schedule below).  [exchange_ok] rejects such sessions (its [[], false] branch demands an
   empty stale tail as well as an empty echo burst). *)
Definition ex_bad_x : exchange := mkEx [] [] ([10%N] ++ bs "r1#") 4 4 [].
Definition ex_bad_start : bytes := bs "X" ++ [10%N] ++ bs "r1#".
Example ex_bad_rejected : session_ok ex_cfg default_opts [drop_cr ex_bad_start] [ex_bad_x] = false.
Proof. vm_compute. reflexivity. Qed.
Example ex_bad_would_leak :
  outcome (run sfeed ex_cfg [Op; Rd 100; Op; Op] (session_sys ex_cfg default_opts ex_bad_start [ex_bad_x]))
  = Some (inl [bs "X"]).
Proof. vm_compute. reflexivity. Qed.

Print Assumptions failed_is_final.
Print Assumptions deadline_at_until_fail.
Print Assumptions phase_lemma.
Print Assumptions phase_live.
Print Assumptions session_safe.
Print Assumptions session_live.
