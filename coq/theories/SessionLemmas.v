(* SessionLemmas.v — proofs about Session.v / Channel.v's interpreter:
   Part 1: the generic read-until phase lemma (any device, any program, all fault-free schedules);
   Part 2: safety and liveness of CLI sessions (send_commands_prog against a scripted device). *)
From Scrapli Require Import Bytes BytesLemmas Regex PlatformTypes Generated Channel Session.
Local Open Scope nat_scope.

(* ------------------------------------------------------------------------------------------ *)
(* Small byte-string facts                                                                     *)
(* ------------------------------------------------------------------------------------------ *)

Lemma mem_byte_app (x : N) (a b : bytes) : mem_byte x (a ++ b) = mem_byte x a || mem_byte x b.
Proof.
  induction a as [|y a IH]; cbn [mem_byte app]; [reflexivity|].
  rewrite IH. now rewrite orb_assoc.
Qed.

Lemma mem_byte_filter_false (x : N) (f : N -> bool) (b : bytes) :
  mem_byte x b = false -> mem_byte x (filter f b) = false.
Proof.
  induction b as [|y b IH]; cbn [mem_byte filter]; [reflexivity|].
  intros H. apply orb_false_iff in H. destruct H as [H1 H2].
  destruct (f y); cbn [mem_byte]; [rewrite H1, (IH H2); reflexivity | exact (IH H2)].
Qed.

Lemma mem_byte_firstn_false (x : N) (n : nat) (b : bytes) :
  mem_byte x b = false -> mem_byte x (firstn n b) = false.
Proof.
  intros H. rewrite <- (firstn_skipn n b), mem_byte_app in H.
  apply orb_false_iff in H. tauto.
Qed.

Lemma mem_byte_skipn_false (x : N) (n : nat) (b : bytes) :
  mem_byte x b = false -> mem_byte x (skipn n b) = false.
Proof.
  intros H. rewrite <- (firstn_skipn n b), mem_byte_app in H.
  apply orb_false_iff in H. tauto.
Qed.

Lemma drop_cr_app (a b : bytes) : drop_cr (a ++ b) = drop_cr a ++ drop_cr b.
Proof. unfold drop_cr. apply filter_app. Qed.

Lemma normalize_chunk_noesc (b : bytes) : mem_byte 27 b = false -> normalize_chunk b = drop_cr b.
Proof.
  intros H. unfold normalize_chunk.
  assert (E : mem_byte 27 (drop_cr b) = false) by (apply mem_byte_filter_false; exact H).
  rewrite E. reflexivity.
Qed.

Lemma concat_snoc {A} (q : list (list A)) (c : list A) : concat (q ++ [c]) = concat q ++ c.
Proof. rewrite concat_app. cbn [concat]. now rewrite app_nil_r. Qed.

Lemma run_app {D R} (feed : D -> bytes -> D * bytes) (cfg : chan_cfg) (a b : list ev) (s : @sys D R) :
  run feed cfg (a ++ b) s = run feed cfg b (run feed cfg a s).
Proof. unfold run. apply fold_left_app. Qed.

Lemma fault_free_app (a b : list ev) : fault_free (a ++ b) = fault_free a && fault_free b.
Proof. unfold fault_free. apply forallb_app. Qed.

Lemma fault_free_cons (e : ev) (l : list ev) :
  fault_free (e :: l) = true -> (e = Op \/ exists n, e = Rd n) /\ fault_free l = true.
Proof.
  unfold fault_free. cbn [forallb]. intros H. apply andb_true_iff in H. destruct H as [H1 H2].
  split; [|exact H2]. destruct e; try discriminate; [right; eexists; reflexivity | left; reflexivity].
Qed.

Lemma fault_free_repeat_op (n : nat) : fault_free (repeat Op n) = true.
Proof. induction n as [|n IH]; [reflexivity|]. cbn [repeat]. unfold fault_free in *. cbn [forallb]. exact IH. Qed.

(* phase_ok, unpacked *)
Lemma phase_ok_spec (cfg : chan_cfg) (c : cond) (T : bytes) (lo : nat) :
  phase_ok cfg c T lo = true ->
  0 < lo <= length T /\
  (forall j, j < lo -> cond_holds cfg c (firstn j T) = false) /\
  (forall j, lo <= j <= length T -> cond_holds cfg c (firstn j T) = true).
Proof.
  unfold phase_ok, prefixes_false, prefixes_true. intros H.
  apply andb_true_iff in H. destruct H as [H Ht].
  apply andb_true_iff in H. destruct H as [H Hf].
  apply andb_true_iff in H. destruct H as [Hle Hlt].
  apply Nat.leb_le in Hle. apply Nat.ltb_lt in Hlt.
  rewrite forallb_forall in Hf, Ht.
  split; [lia|]. split.
  - intros j Hj. specialize (Hf j). rewrite in_seq in Hf.
    apply negb_true_iff. apply Hf. lia.
  - intros j Hj. apply Ht. rewrite in_seq. lia.
Qed.

(* ------------------------------------------------------------------------------------------ *)
(* PART 1 — the generic phase lemma                                                            *)
(* ------------------------------------------------------------------------------------------ *)

Section Phase.
  Variable D : Type.
  Variable feed : D -> bytes -> D * bytes.
  Variable R : Type.
  Variable cfg : chan_cfg.
  Variable c : cond.
  Variable k : bytes -> prog R.
  Variable T : bytes.           (* the normalised stream the phase sees *)
  Variable lo : nat.
  Variable d : D.
  Variable wl : list (bytes * bool).
  Variable nt : list (N * bytes).

  (* still inside the read-until *)
  Definition in_phase (s : @sys D R) : Prop :=
    s_pc s = Until c k /\ s_dev s = d /\ s_wlog s = wl /\ s_notes s = nt /\ s_reader s = RRun /\
    s_acc s ++ concat (s_queue s) ++ drop_cr (s_pending s) = T /\
    mem_byte 27 (s_pending s) = false /\
    length (s_acc s) < lo.

  (* the read-until has just returned the first [j] bytes of the stream *)
  Definition exited (j : nat) (s : @sys D R) : Prop :=
    lo <= j <= length T /\
    exists p q,
      s = set_pc (mkSys d p q [] (k (firstn j T)) wl nt RRun) (k (firstn j T)) /\
      concat q ++ drop_cr p = skipn j T /\
      mem_byte 27 p = false.

  Hypothesis Hok : phase_ok cfg c T lo = true.

  Lemma phase_step (s : @sys D R) (e : ev) :
    in_phase s -> (e = Op \/ exists n, e = Rd n) ->
    in_phase (step feed cfg s e) \/ exists j, exited j (step feed cfg s e).
  Proof.
    destruct (phase_ok_spec _ _ _ _ Hok) as (Hlo & Hfalse & Htrue).
    intros (Hpc & Hd & Hw & Hn & Hr & Hst & Hesc & Hacc) [He | [n He]]; subst e.
    - (* Op *)
      destruct s as [dev pend q acc pc wlog notes rd]. cbn [s_pc s_dev s_wlog s_notes s_reader s_acc s_queue s_pending] in *.
      subst pc dev wlog notes rd. cbn [step s_pc s_reader s_queue s_acc s_dev s_pending s_wlog s_notes].
      destruct q as [|chunk q'].
      + left. unfold in_phase. cbn [s_pc s_dev s_wlog s_notes s_reader s_acc s_queue s_pending]. tauto.
      + cbn [concat] in Hst.
        assert (Hpre : firstn (length (acc ++ chunk)) T = acc ++ chunk).
        { rewrite <- Hst. rewrite <- app_assoc. rewrite (app_assoc acc chunk). apply firstn_len_app. }
        assert (Hlen : length (acc ++ chunk) <= length T).
        { rewrite <- Hst. rewrite !app_length. lia. }
        destruct (cond_holds cfg c (acc ++ chunk)) eqn:Hc.
        * right. exists (length (acc ++ chunk)). split.
          { split; [|exact Hlen].
            destruct (Nat.lt_ge_cases (length (acc ++ chunk)) lo) as [Hlt|Hge]; [|exact Hge].
            specialize (Hfalse _ Hlt). rewrite Hpre, Hc in Hfalse. discriminate. }
          exists pend, q'. rewrite Hpre. split; [reflexivity|]. split; [|exact Hesc].
          rewrite <- Hst. rewrite <- app_assoc. rewrite (app_assoc acc chunk).
          symmetry. apply skipn_len_app.
        * left. unfold in_phase. cbn [s_pc s_dev s_wlog s_notes s_reader s_acc s_queue s_pending].
          repeat split; try reflexivity; try assumption.
          { rewrite <- Hst. now rewrite <- !app_assoc. }
          { destruct (Nat.lt_ge_cases (length (acc ++ chunk)) lo) as [Hlt|Hge]; [exact Hlt|].
            assert (Ht : cond_holds cfg c (firstn (length (acc ++ chunk)) T) = true) by (apply Htrue; lia).
            rewrite Hpre, Hc in Ht. discriminate. }
    - (* Rd n *)
      destruct s as [dev pend q acc pc wlog notes rd]. cbn [s_pc s_dev s_wlog s_notes s_reader s_acc s_queue s_pending] in *.
      subst pc dev wlog notes rd. left. cbn [step s_reader s_pending].
      destruct pend as [|b0 pend']; [unfold in_phase; cbn [s_pc s_dev s_wlog s_notes s_reader s_acc s_queue s_pending]; tauto|].
      set (pend := b0 :: pend') in *. set (m := Nat.max 1 n).
      cbn [s_dev s_queue s_acc s_pc s_wlog s_notes s_reader].
      assert (Hnorm : normalize_chunk (firstn m pend) = drop_cr (firstn m pend))
        by (apply normalize_chunk_noesc, mem_byte_firstn_false, Hesc).
      rewrite Hnorm.
      assert (Hsplit : drop_cr pend = drop_cr (firstn m pend) ++ drop_cr (skipn m pend)).
      { rewrite <- drop_cr_app. now rewrite firstn_skipn. }
      unfold in_phase. cbn [s_pc s_dev s_wlog s_notes s_reader s_acc s_queue s_pending].
      repeat split; try reflexivity; try assumption.
      + rewrite <- Hst, Hsplit.
        destruct (drop_cr (firstn m pend)) as [|b1 ch] eqn:E; [reflexivity|].
        rewrite concat_snoc. now rewrite <- !app_assoc.
      + apply mem_byte_skipn_false, Hesc.
  Qed.

  (* an exited state stays what it is only up to what the continuation does; [phase_run] splits
     the schedule at the exit point *)
  Theorem phase_run (sched : list ev) (s : @sys D R) :
    fault_free sched = true -> in_phase s ->
    in_phase (run feed cfg sched s) \/
    exists pre post j s',
      sched = pre ++ post /\ run feed cfg pre s = s' /\ exited j s' /\
      run feed cfg sched s = run feed cfg post s'.
  Proof.
    revert s. induction sched as [|e sched IH]; intros s Hff Hin.
    - left. exact Hin.
    - apply fault_free_cons in Hff. destruct Hff as [He Hff].
      destruct (phase_step s e Hin He) as [Hin' | [j Hex]].
      + destruct (IH _ Hff Hin') as [Hl | (pre & post & j & s' & Hs & Hpre & Hex & Hrun)].
        * left. exact Hl.
        * right. exists (e :: pre), post, j, s'. subst sched. repeat split; try assumption.
      + right. exists [e], sched, j, (step feed cfg s e). repeat split; try assumption; reflexivity.
  Qed.

  (* liveness of a phase: read everything that is pending in one chunk, then step the operation *)
  Lemma until_op_shape (s : @sys D R) :
    s_pc s = Until c k -> s_reader s = RRun ->
    s_pending (step feed cfg s Op) = s_pending s /\
    length (s_queue (step feed cfg s Op)) = pred (length (s_queue s)).
  Proof.
    intros Hpc Hr. cbn [step]. rewrite Hpc, Hr.
    destruct (s_queue s) as [|chunk q']; [split; reflexivity|].
    destruct (cond_holds cfg c (s_acc s ++ chunk)).
    - unfold set_pc. cbn [s_notes s_dev s_pending s_queue s_acc s_wlog s_reader].
      destruct (skip_notes D R (k (s_acc s ++ chunk)) (s_notes s)). split; reflexivity.
    - split; reflexivity.
  Qed.

  Lemma phase_drain (n : nat) : forall s : @sys D R,
    in_phase s -> s_pending s = [] -> length (s_queue s) <= n ->
    exists m j, exited j (run feed cfg (repeat Op m) s).
  Proof.
    destruct (phase_ok_spec _ _ _ _ Hok) as (Hlo & _ & _).
    assert (Hne : forall s : @sys D R, in_phase s -> s_pending s = [] -> s_queue s <> []).
    { intros s (_ & _ & _ & _ & _ & Hst & _ & Hacc) Hp Hq. rewrite Hq, Hp in Hst.
      cbn [concat drop_cr filter app] in Hst. rewrite app_nil_r in Hst. rewrite Hst in Hacc. lia. }
    induction n as [|n IH]; intros s Hin Hp Hq.
    - exfalso. apply (Hne s Hin Hp). destruct (s_queue s); [reflexivity | cbn [length] in Hq; lia].
    - destruct (phase_step s Op Hin (or_introl eq_refl)) as [Hin' | [j Hex]].
      + destruct Hin as (Hpc & _ & _ & _ & Hr & _).
        destruct (until_op_shape s Hpc Hr) as [Hp' Hq'].
        assert (Hqne : s_queue s <> []) by (apply Hne; [|exact Hp]; unfold in_phase; tauto).
        destruct (IH (step feed cfg s Op) Hin') as (m & j & Hex).
        * rewrite Hp'. exact Hp.
        * rewrite Hq'. destruct (s_queue s); [congruence | cbn [length pred] in *; lia].
        * exists (S m), j. exact Hex.
      + exists 1, j. exact Hex.
  Qed.

  Theorem phase_live (s : @sys D R) :
    in_phase s ->
    exists sched j, fault_free sched = true /\ exited j (run feed cfg sched s).
  Proof.
    intros Hin.
    destruct (phase_step s (Rd (length (s_pending s))) Hin (or_intror (ex_intro _ _ eq_refl)))
      as [Hin' | [j Hex]].
    - assert (Hp : s_pending (step feed cfg s (Rd (length (s_pending s)))) = []).
      { destruct Hin as (_ & _ & _ & _ & Hr & _). cbn [step]. rewrite Hr.
        destruct (s_pending s) as [|b0 p'] eqn:E; [exact E|]. cbn [s_pending].
        apply skipn_all2. lia. }
      destruct (phase_drain _ _ Hin' Hp (Nat.le_refl _)) as (m & j & Hex).
      exists (Rd (length (s_pending s)) :: repeat Op m), j. split; [|exact Hex].
      change (fault_free (repeat Op m) = true). apply fault_free_repeat_op.
    - exists [Rd (length (s_pending s))], j. split; [reflexivity | exact Hex].
  Qed.
End Phase.
