(* PlatformTypes.v — record types of the platform definitions that gen/ emits into Generated.v *)
From Scrapli Require Import Bytes Regex.

Record level := mkLevel {
  lv_name : bytes; lv_pattern_src : bytes; lv_pattern : re; lv_not_contains : list bytes;
  lv_previous : bytes; lv_deescalate : bytes; lv_escalate : bytes; lv_escalate_auth : bool;
  lv_escalate_prompt_src : bytes; lv_escalate_prompt : re }.

(* one on-open / on-close step; [None] arguments record a missing or wrongly typed value *)
Inductive onx_op :=
| OpWrite (input : option bytes) (redacted : bool)
| OpReturn
| OpAcquire (target : option bytes)
| OpSendCommand (cmd : option bytes)
| OpUnknown (name : bytes)
| OpBadType.

Inductive opt_value :=
| VInt (z : Z) | VStr (s : bytes) | VFloat (src : bytes) | VBool (b : bool)
| VList (l : list opt_value) | VNull.

Record platform := mkPlatform {
  pf_driver_type : bytes; pf_failed_when : list bytes;
  pf_on_open : option (list onx_op); pf_on_close : option (list onx_op);
  pf_levels : list (bytes * level);          (* map key, level; keys sorted *)
  pf_default_level : bytes;
  pf_net_on_open : option (list onx_op); pf_net_on_close : option (list onx_op);
  pf_options : list (bytes * opt_value) }.

Record platform_def := mkPlatformDef {
  pd_file : bytes; pd_type : bytes; pd_default : platform;
  pd_variants : list (bytes * platform);
  pd_joined : re }.
