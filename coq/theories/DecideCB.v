(* DecideCB.v — generic Callback.check as translated from the source = Channel.cb_check (C18). *)
From Scrapli Require Import Bytes Regex PlatformTypes Generated Channel Netconf DecideLang GeneratedSkel.
From Coq Require Import String List Bool ZArith NArith.
Import ListNotations.
Open Scope string_scope.

(* ---------- Callback.check (C18) ---------- *)

Definition is_nilb (l : bytes) : bool := match l with [] => true | _ => false end.

(* the tests Callback.check performs, as booleans *)
Record cb_tests := mkT { t_ins : bool; t_c_empty : bool; t_c_in : bool; t_nc_empty : bool; t_nc_in : bool;
                         t_re_nil : bool; t_re_match : bool }.

Definition cb_envt (t : cb_tests) : denv :=
  mkEnv (fun _ => false)
        (fun a v => (String.eqb a "c.Contains" && String.eqb v """""" && t_c_empty t)
                    || (String.eqb a "c.NotContains" && String.eqb v """""" && t_nc_empty t)
                    || (String.eqb a "c.ContainsRe" && String.eqb v "nil" && t_re_nil t))
        (fun _ => "")
        (fun a => if String.eqb a "c.Insensitive" then Some (t_ins t)
                  else if String.eqb a "bytes.Contains(b, c.contains())" then Some (t_c_in t)
                  else if String.eqb a "bytes.Contains(b, c.notContains())" then Some (t_nc_in t)
                  else if String.eqb a "c.ContainsRe.Match(b)" then Some (t_re_match t)
                  else None)
        (fun _ _ _ => None).

(* result of a run: the boolean returned, and whether b was replaced by its lower-cased form *)
Definition cb_runt (t : cb_tests) : option (bool * bool) :=
  match exec 30 (cb_envt t) callback_check_code [] with
  | Returned s v =>
      let lowered := match sget s "b" with Some x => String.eqb x "bytes.ToLower(b)" | None => false end in
      if String.eqb v "true" then Some (true, lowered)
      else if String.eqb v "false" then Some (false, lowered) else None
  | _ => None
  end.

Definition cb_tests_of (c : callback) (b : bytes) : cb_tests :=
  let b' := if cb_insensitive c then to_lower b else b in
  let lower x := if cb_insensitive c then to_lower x else x in
  mkT (cb_insensitive c)
      (is_nilb (cb_contains c)) (contains (lower (cb_contains c)) b')
      (is_nilb (cb_not_contains c)) (contains (lower (cb_not_contains c)) b')
      (match cb_re c with None => true | Some _ => false end)
      (match cb_re c with Some r => rx_match r b' | None => false end).

Lemma cb_check_tests : forall c b, let t := cb_tests_of c b in
  cb_check c b = ((negb (t_c_empty t) && t_c_in t) && negb (negb (t_nc_empty t) && t_nc_in t))
                 || ((negb (t_re_nil t) && t_re_match t) && negb (negb (t_nc_empty t) && t_nc_in t)).
Proof.
  intros c b. unfold cb_check, cb_tests_of. cbn [t_ins t_c_empty t_c_in t_nc_empty t_nc_in t_re_nil t_re_match].
  destruct (cb_contains c) as [|x1 l1], (cb_not_contains c) as [|x2 l2], (cb_re c) as [r|]; cbn [is_nilb negb andb];
    rewrite ?andb_false_r, ?andb_true_r, ?orb_false_r; reflexivity.
Qed.

Lemma cb_runt_cases : forall t,
  cb_runt t = Some (((negb (t_c_empty t) && t_c_in t) && negb (negb (t_nc_empty t) && t_nc_in t))
                    || ((negb (t_re_nil t) && t_re_match t) && negb (negb (t_nc_empty t) && t_nc_in t)),
                    t_ins t).
Proof. intros [a b c d e f g]. destruct a, b, c, d, e, f, g; reflexivity. Qed.

(* THE TIE: for every callback and every buffer, the source's Callback.check (as translated on
   this run), given the outcomes of its tests, returns what the model returns, and lower-cases the
   buffer exactly for insensitive callbacks *)
Theorem callback_check_is_source : forall c b,
  cb_runt (cb_tests_of c b) = Some (cb_check c b, cb_insensitive c).
Proof. intros c b. rewrite cb_runt_cases, cb_check_tests. reflexivity. Qed.

(* every test the translated code makes is one the environment above was written for (an unknown
   equality would otherwise evaluate to false without notice) *)
Definition callback_check_known : list string := "c.Insensitive" :: "c.Contains == """"" :: "bytes.Contains(b, c.contains())" :: "c.ContainsRe == nil" :: "c.ContainsRe.Match(b)" :: "c.NotContains == """"" :: "bytes.Contains(b, c.notContains())" :: nil.
Lemma callback_check_tests_known : tests_known callback_check_code callback_check_known = true.
Proof. vm_compute. reflexivity. Qed.
