(* SerializeSrc.v — driver/netconf message.serialize as the source has it on this run, CALLED THE WAY
   Driver.sendRPC calls it (parameter list and argument list both read from the source), builds the
   model's Netconf.serialize: XML declaration unless the driver's ExcludeHeader, self-closing
   rewrite exactly when the driver's ForceSelfClosingTags, the raw copy taken before framing, then
   the framing of the selected version (C03). *)
From Scrapli Require Import Bytes Regex PlatformTypes Generated Netconf DecideLang GeneratedSkel.
From Coq Require Import String List Bool NArith.
Import ListNotations.
Open Scope string_scope.

(* the argument a parameter is bound to at the call *)
Fixpoint arg_of (p : string) (ps args : list string) : string :=
  match ps, args with
  | p' :: ps', a :: args' => if String.eqb p p' then a else arg_of p ps' args'
  | _, _ => ""
  end.
Definition bound (p : string) : string := arg_of p serialize_params serialize_call_args.

Definition ser_env (v : ncver) (force xh : bool) : denv :=
  mkEnvX (fun _ => false) (fun _ _ => false)
         (fun f => if String.eqb (bound f) "d.SelectedVersion" then (match v with V10 => "V1Dot0" | V11 => "V1Dot1" end) else "")
         (fun a => if String.eqb (bound a) "d.ExcludeHeader" then Some xh
                   else if String.eqb (bound a) "d.ForceSelfClosingTags" then Some force else None)
         (fun st a b => if String.eqb a "err" && String.eqb b "nil" then Some (Some true) else None)
         (fun _ => O) (fun _ _ => None).

(* what an assignment to msg does to the message so far, as an expression over the marshalled rpc *)
Inductive mexp := MVar | MHeader (e : mexp) | MForce (e : mexp) | MDelim10 (e : mexp) | MChunkHdr (e : mexp) | MChunkEnd (e : mexp).

Definition msg_step (rhs : string) (cur : mexp) : option mexp :=
  if String.eqb rhs "append([]byte(xmlHeader), msg...)" then Some (MHeader cur)
  else if String.eqb rhs "ForceSelfClosingTags(msg)" then Some (MForce cur)
  else if String.eqb rhs "append(msg, []byte(v1Dot0Delim)...)" then Some (MDelim10 cur)
  else if String.eqb rhs "append([]byte(fmt.Sprintf(""#%d\n"", len(msg))), msg...)" then Some (MChunkHdr cur)
  else if String.eqb rhs "append(msg, []byte(""\n##"")...)" then Some (MChunkEnd cur)
  else None.

Fixpoint denote (m0 : bytes) (e : mexp) : bytes :=
  match e with
  | MVar => m0
  | MHeader x => (ncd_xml_header ++ denote m0 x)%list
  | MForce x => force_self_closing (denote m0 x)
  | MDelim10 x => (denote m0 x ++ nc_v1dot0_delim)%list
  | MChunkHdr x => ([HASH] ++ print_dec (N.of_nat (List.length (denote m0 x))) ++ [LF] ++ denote m0 x)%list
  | MChunkEnd x => (denote m0 x ++ [LF; HASH; HASH])%list
  end.

(* replay of the events, oldest first: (message so far, raw copy, framed) *)
Fixpoint replay (evs : list (string * string)) (cur : mexp) (raw framed : option mexp) : option (mexp * mexp) :=
  match evs with
  | []%list => match raw, framed with Some r, Some f => Some (r, f) | _, _ => None end
  | ((k, v) :: rest)%list =>
      if String.eqb k "msg" then match msg_step v cur with Some c => replay rest c raw framed | None => None end
      else if String.eqb k "!call" && String.eqb v "copy(serialized.rawXML, msg)" then replay rest cur (Some cur) framed
      else if String.eqb k "serialized.framedXML" && String.eqb v "msg" then replay rest cur raw (Some cur)
      else if String.eqb k "serialized.rawXML" && String.eqb v "make([]byte, len(msg))" then replay rest cur raw framed
      else if String.eqb k "serialized" && String.eqb v "&serializedInput{}" then replay rest cur raw framed
      else if String.eqb k "!call" && String.eqb v "xml.Marshal(m)" then replay rest cur raw framed
      else None
  end.

(* the two expressions a run builds over m0 = what xml.Marshal(m) yields (the rpc element) *)
Definition ser_run (v : ncver) (force xh : bool) : option (mexp * mexp) :=
  match DecideLang.exec 30 (ser_env v force xh) serialize_code [] with
  | Returned st "serialized, nil" => replay (rev st) MVar None None
  | _ => None
  end.

Definition ser_expected (v : ncver) (force xh : bool) : mexp * mexp :=
  let e1 := if xh then MVar else MHeader MVar in
  let e2 := if force then MForce e1 else e1 in
  (e2, match v with V10 => MDelim10 e2 | V11 => MChunkEnd (MChunkHdr e2) end).

Lemma ser_run_expected : forall v force xh, ser_run v force xh = Some (ser_expected v force xh).
Proof. intros [|] [|] [|]; vm_compute; reflexivity. Qed.

(* THE TIE *)
Theorem serialize_is_source : forall v force xh id payload,
  exists e_raw e_framed, ser_run v force xh = Some (e_raw, e_framed)
    /\ denote (rpc_xml id payload) e_raw = ser_raw (serialize v force xh id payload)
    /\ denote (rpc_xml id payload) e_framed = ser_framed (serialize v force xh id payload).
Proof.
  intros v force xh id payload. rewrite ser_run_expected. do 2 eexists. split; [reflexivity|].
  unfold serialize, ser_expected. cbn [ser_raw ser_framed fst snd].
  destruct v, force, xh; cbn [denote frame]; rewrite <- ?app_assoc; split; reflexivity.
Qed.

(* every test the translated code makes is one the environment above was written for (an unknown
   equality would otherwise evaluate to false without notice) *)
Definition serialize_known : list string := "err == nil" :: "excludeHeader" :: "forceSelfClosingTags" :: "switch v" :: nil.
Lemma serialize_tests_known : tests_known serialize_code serialize_known = true.
Proof. vm_compute. reflexivity. Qed.
