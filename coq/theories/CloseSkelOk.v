(* CloseSkelOk.v -- C07: the synchronisation skeleton regenerated from the source equals the one
   computed from the model's control-flow graphs (definitions and explanation: CloseSkel.v). *)
From Scrapli Require Import Bytes Conc Close GeneratedSkel CloseSkel.
From Coq Require Import List Bool.

Lemma skeleton_matches :
  forallb check_entry expected = true /\ all_functions_expected = true.
Proof. split; vm_compute; reflexivity. Qed.

Lemma skeleton_covers : all_covered = true /\ system_copies_agree = true.
Proof. split; vm_compute; reflexivity. Qed.
