(* PipesLemmas.v — proofs about the transport read/write wrappers of Pipes.v (C16). *)
From Scrapli Require Import Bytes Pipes.
Open Scope nat_scope.

(* ---------- the buffer arithmetic: b[0:n] of a buffer whose first n bytes the kernel filled ---------- *)
Lemma firstn_fill : forall n got, firstn (length got) (fill n got) = got.
Proof.
  intros n got. unfold fill.
  rewrite firstn_app, Nat.sub_diag, firstn_all. simpl. apply app_nil_r.
Qed.

Lemma stream_data_cons_data : forall d t, stream_data (inl d :: t) = d ++ stream_data t.
Proof. reflexivity. Qed.

Lemma stream_data_cons_err : forall e t, stream_data (inr e :: t) = stream_data t.
Proof. reflexivity. Qed.

Lemma stream_data_requeue : forall (r : bytes) t,
  stream_data (match r with [] => t | _ => inl r :: t end) = r ++ stream_data t.
Proof. intros [|x r] t; reflexivity. Qed.

(* one OS-level read: what it hands back plus what it leaves is what was there *)
Lemma os_read_data : forall n st buf k st',
  os_read n st = (OsData buf k, st') ->
  exists d t, st = inl d :: t /\ firstn k buf = firstn n d /\ stream_data st' = skipn n d ++ stream_data t.
Proof.
  intros n [|[d|e] t] buf k st' H; simpl in H; inversion H; subst.
  exists d, t. split; [reflexivity|]. split.
  - apply firstn_fill.
  - destruct (skipn n d); reflexivity.
Qed.

Lemma os_read_err : forall n st buf e st',
  os_read n st = (OsErr buf e, st') -> st = inr e :: st'.
Proof. intros n [|[d|e0] t] buf e st' H; simpl in H; inversion H; subst; reflexivity. Qed.

Lemma os_read_block : forall n st st', os_read n st = (OsBlock, st') -> st = [].
Proof. intros n [|[d|e0] t] st' H; simpl in H; inversion H; reflexivity. Qed.

(* ---------- one transport read ---------- *)
Definition is_block (r : rres) : bool := match r with RBlock => true | _ => false end.

Lemma plain_read_step : forall n s r s',
  (let '(o, st) := os_read n (p_stream s) in
   match o with
   | OsData buf k => (ROk (firstn k buf), with_stream s st)
   | OsErr _ e => (RErr [] e, with_stream s st)
   | OsBlock => (RBlock, s)
   end) = (r, s') ->
  res_data r ++ stream_data (p_stream s') = stream_data (p_stream s)
  /\ p_init s' = p_init s /\ p_inbox s' = p_inbox s /\ (is_block r = true -> s' = s).
Proof.
  intros n s r s' H.
  destruct (os_read n (p_stream s)) as [o st] eqn:E.
  destruct o as [buf k|buf e|]; inversion H; subst; clear H; simpl.
  - apply os_read_data in E. destruct E as (d & t & Hs & Hf & Hd).
    rewrite Hs, Hf, Hd, stream_data_cons_data, app_assoc, firstn_skipn.
    repeat split; auto; discriminate.
  - apply os_read_err in E. rewrite E, stream_data_cons_err. repeat split; auto; discriminate.
  - repeat split; auto.
Qed.

Lemma read_step : forall k n s r s',
  tr_read k n s = (r, s') ->
  res_data r ++ pending k s' = pending k s /\ p_inbox s' = p_inbox s /\ (is_block r = true -> s' = s).
Proof.
  intros k n s r s' H. destruct k; simpl in H.
  - unfold system_read in H.
    destruct (plain_read_step n s r s') as (A & B & C & D).
    { destruct (os_read n (p_stream s)) as [o st]. destruct o; exact H. }
    unfold pending. simpl. auto.
  - unfold standard_read in H.
    destruct (plain_read_step n s r s') as (A & B & C & D).
    { destruct (os_read n (p_stream s)) as [o st]. destruct o; exact H. }
    unfold pending. simpl. auto.
  - unfold telnet_read in H. destruct (p_init s) as [|x ini] eqn:Ei.
    + destruct (plain_read_step n s r s') as (A & B & C & D).
      { destruct (os_read n (p_stream s)) as [o st]. destruct o; exact H. }
      unfold pending. rewrite B, Ei. simpl. auto.
    + inversion H; subst; clear H. unfold pending. simpl. rewrite ?Ei. simpl.
      repeat split; auto; discriminate.
Qed.

Lemma write_step : forall k b s,
  pending k (tr_write k b s) = pending k s /\ p_inbox (tr_write k b s) = p_inbox s ++ b.
Proof. intros k b s. unfold pending, tr_write. simpl. split; reflexivity. Qed.

(* ---------- sessions ---------- *)

(* every byte exactly once, in order: what the reads returned, followed by what is still
   undelivered, is (telnet: the initial buffer followed by) the concatenation of the deliveries —
   for every transport, every interleaving of reads and writes, every read size, every way the
   stream is cut into deliveries, errors anywhere, any length *)
Lemma pipe_reads_concat : forall k ops s rs s',
  run_ops k ops s = (rs, s') -> returned rs ++ pending k s' = pending k s.
Proof.
  intros k ops. induction ops as [|o ops IH]; intros s rs s' H; simpl in H.
  - inversion H; subst. reflexivity.
  - destruct o as [n|b].
    + destruct (tr_read k n s) as [r s1] eqn:E.
      pose proof (read_step k n s r s1 E) as (A & _ & D).
      destruct r as [b0|b0 e|].
      * destruct (run_ops k ops s1) as [rs1 s2] eqn:E2. inversion H; subst; clear H.
        specialize (IH _ _ _ E2). unfold returned in *. simpl.
        rewrite <- app_assoc, IH. exact A.
      * destruct (run_ops k ops s1) as [rs1 s2] eqn:E2. inversion H; subst; clear H.
        specialize (IH _ _ _ E2). unfold returned in *. simpl.
        rewrite <- app_assoc, IH. exact A.
      * inversion H; subst. reflexivity.
    + specialize (IH _ _ _ H). rewrite IH. apply write_step.
Qed.

(* the three instances spelled out *)
Lemma system_reads_concat : forall ops st inbox rs s',
  run_ops KSystem ops (mkPipe [] st inbox) = (rs, s') ->
  returned rs ++ stream_data (p_stream s') = stream_data st.
Proof. intros ops st inbox rs s' H. exact (pipe_reads_concat KSystem ops _ rs s' H). Qed.

Lemma standard_reads_concat : forall ops st inbox rs s',
  run_ops KStandard ops (mkPipe [] st inbox) = (rs, s') ->
  returned rs ++ stream_data (p_stream s') = stream_data st.
Proof. intros ops st inbox rs s' H. exact (pipe_reads_concat KStandard ops _ rs s' H). Qed.

Lemma telnet_reads_concat : forall ops initial st inbox rs s',
  run_ops KTelnet ops (mkPipe initial st inbox) = (rs, s') ->
  returned rs ++ (p_init s' ++ stream_data (p_stream s')) = initial ++ stream_data st.
Proof. intros ops initial st inbox rs s' H. exact (pipe_reads_concat KTelnet ops _ rs s' H). Qed.

(* the peer's inbox is the concatenation of the written slices in order *)
Lemma pipe_writes_concat : forall k ws s,
  p_inbox (fold_left (fun s b => tr_write k b s) ws s) = p_inbox s ++ concat ws.
Proof.
  intros k ws. induction ws as [|b ws IH]; intros s; simpl.
  - symmetry. apply app_nil_r.
  - rewrite IH. simpl. symmetry. apply app_assoc.
Qed.

(* the same inside an interleaved session that did not get stuck in a read: reads do not disturb
   what the peer receives *)
Lemma pipe_ops_inbox : forall k ops s rs s',
  run_ops k ops s = (rs, s') -> blocked rs = false ->
  p_inbox s' = p_inbox s ++ concat (writes_of ops).
Proof.
  intros k ops. induction ops as [|o ops IH]; intros s rs s' H Hb; simpl in H.
  - inversion H; subst. simpl. symmetry. apply app_nil_r.
  - destruct o as [n|b].
    + destruct (tr_read k n s) as [r s1] eqn:E.
      pose proof (read_step k n s r s1 E) as (_ & B & _).
      destruct r as [b0|b0 e|].
      * destruct (run_ops k ops s1) as [rs1 s2] eqn:E2. inversion H; subst; clear H.
        simpl in Hb. rewrite (IH _ _ _ E2 Hb), B. reflexivity.
      * destruct (run_ops k ops s1) as [rs1 s2] eqn:E2. inversion H; subst; clear H.
        simpl in Hb. rewrite (IH _ _ _ E2 Hb), B. reflexivity.
      * inversion H; subst. simpl in Hb. discriminate.
    + rewrite (IH _ _ _ H Hb). simpl. symmetry. apply app_assoc.
Qed.

(* how the stream was cut into deliveries (and which read sizes were used) cannot be seen in the
   bytes: two sessions over streams carrying the same bytes that both read everything returned the
   same bytes *)
Lemma pipe_reads_split_independent : forall k ops1 ops2 s1 s2 rs1 rs2 s1' s2',
  pending k s1 = pending k s2 ->
  run_ops k ops1 s1 = (rs1, s1') -> run_ops k ops2 s2 = (rs2, s2') ->
  pending k s1' = [] -> pending k s2' = [] ->
  returned rs1 = returned rs2.
Proof.
  intros k ops1 ops2 s1 s2 rs1 rs2 s1' s2' Hp H1 H2 E1 E2.
  apply pipe_reads_concat in H1. apply pipe_reads_concat in H2.
  rewrite E1, app_nil_r in H1. rewrite E2, app_nil_r in H2. congruence.
Qed.

(* ---------- single reads ---------- *)

(* a read of n >= 1 from a non-empty delivery returns between 1 and n bytes: the first
   min(n, |d|) bytes of the delivery.  For telnet this holds once the initial buffer is empty. *)
Lemma read_nonempty_le : forall k n s d t r s',
  1 <= n -> p_stream s = inl d :: t -> d <> [] ->
  (k = KTelnet -> p_init s = []) ->
  tr_read k n s = (r, s') ->
  r = ROk (firstn n d) /\ 1 <= length (firstn n d) <= n.
Proof.
  intros k n s d t r s' Hn Hs Hd Hi H.
  assert (L : 1 <= length (firstn n d) <= n).
  { rewrite firstn_length. destruct d as [|x d]; [congruence|]. simpl length. lia. }
  split; [|exact L].
  assert (P : (let '(o, st) := os_read n (p_stream s) in
               match o with
               | OsData buf k => (ROk (firstn k buf), with_stream s st)
               | OsErr _ e => (RErr [] e, with_stream s st)
               | OsBlock => (RBlock, s)
               end) = (r, s') -> r = ROk (firstn n d)).
  { rewrite Hs. simpl. intros Q. inversion Q. rewrite firstn_fill. reflexivity. }
  destruct k; simpl in H.
  - apply P. unfold system_read in H. destruct (os_read n (p_stream s)) as [o st]. destruct o; exact H.
  - apply P. unfold standard_read in H. destruct (os_read n (p_stream s)) as [o st]. destruct o; exact H.
  - apply P. unfold telnet_read in H. rewrite (Hi eq_refl) in H.
    destruct (os_read n (p_stream s)) as [o st]. destruct o; exact H.
Qed.

(* the exception, as the code has it: with bytes buffered during Open, the first telnet Read
   returns ALL of them whatever n is, touches nothing else, and clears the buffer *)
Lemma telnet_initial_read : forall n s,
  p_init s <> [] ->
  telnet_read n s = (ROk (p_init s), mkPipe [] (p_stream s) (p_inbox s)).
Proof. intros n s H. unfold telnet_read. destruct (p_init s); [congruence|reflexivity]. Qed.

Lemma telnet_initial_may_exceed :
  exists n s b s', 1 <= n /\ telnet_read n s = (ROk b, s') /\ n < length b.
Proof.
  exists 1, (mkPipe [104%N; 105%N] [] []), [104%N; 105%N], (mkPipe [] [] []).
  split; [lia|]. split; [reflexivity|]. simpl. lia.
Qed.

(* an OS-level error is reported by the read that meets it, with no data, and only once it is at
   the head of the stream (nothing before it is lost: pipe_reads_concat) *)
Lemma read_error_reported : forall k n s e t,
  p_stream s = inr e :: t -> (k = KTelnet -> p_init s = []) ->
  tr_read k n s = (RErr [] e, with_stream s t).
Proof.
  intros k n s e t Hs Hi. destruct k; simpl.
  - unfold system_read. rewrite Hs. reflexivity.
  - unfold standard_read. rewrite Hs. reflexivity.
  - unfold telnet_read. rewrite (Hi eq_refl), Hs. reflexivity.
Qed.

(* a read blocks only when nothing is buffered and nothing more will be delivered *)
Lemma read_blocks_iff_nothing : forall k n s s',
  tr_read k n s = (RBlock, s') -> p_stream s = [] /\ (k = KTelnet -> p_init s = []).
Proof.
  intros k n s s' H. destruct k; simpl in H.
  - unfold system_read in H. destruct (os_read n (p_stream s)) as [o st] eqn:E.
    destruct o; try discriminate. apply os_read_block in E. split; [exact E|discriminate].
  - unfold standard_read in H. destruct (os_read n (p_stream s)) as [o st] eqn:E.
    destruct o; try discriminate. apply os_read_block in E. split; [exact E|discriminate].
  - unfold telnet_read in H. destruct (p_init s) eqn:Ei; [|discriminate].
    destruct (os_read n (p_stream s)) as [o st] eqn:E.
    destruct o; try discriminate. apply os_read_block in E. split; [exact E|reflexivity].
Qed.
