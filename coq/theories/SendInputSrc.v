(* SendInputSrc.v — channel Channel.SendInputB as translated from the source vs Channel.send_input
   (C01, C05, C06, C12). *)
From Scrapli Require Import Bytes Regex PlatformTypes Generated Channel DecideLang GeneratedSkel.
From Coq Require Import String List Bool Arith.
Import ListNotations.
Open Scope string_scope.

(* ---------- Channel.SendInputB (C01, C05, C06, C12) ----------

   The translated function (its goroutine body inline as a one-iteration loop, a bare return in it
   ending the goroutine) is run for every combination of its option tests and for a failure of
   either read (deadline or loss); the primitives it invokes and what it returns are the model's
   Channel.send_input's, for every configuration, input, options and sequence of read outcomes. *)
From Coq Require Import Lia.
Open Scope nat_scope.
Open Scope list_scope.

Inductive sact := SWrite | SEcho (exact : bool) | SReturn | SPrompt (interim : bool) | SResult.
Inductive outcome := SoOk | SoTimeout | SoErr | SoBad.

(* fail = Some (k, deadline): the k-th read (0 = echo read, 1 = prompt read) fails *)
Definition sin_env (ex eg ie : bool) (fail : option (nat * bool)) : denv :=
  let failing (st : store) (k : nat) (calls : list string) : bool :=
    match fail, st with
    | Some (k', _), ("!call", c) :: _ => Nat.eqb k k' && existsb (String.eqb c) calls
    | _, _ => false
    end in
  mkEnvX (fun _ => false)
         (fun a b => String.eqb a "len(op.InterimPromptPatterns)" && String.eqb b "0" && ie)
         (fun _ => "")
         (fun a => if String.eqb a "op.ExactMatchInput" then Some ex
                   else if String.eqb a "op.Eager" then Some eg
                   else if String.eqb a "errors.Is(r.err, context.DeadlineExceeded)"
                        then Some (match fail with Some (_, dl) => dl | None => false end)
                   else None)
         (fun st a b =>
            if String.eqb b "nil" then
              if String.eqb a "err" then Some (Some (negb (failing st 0 ["readUntilF(ctx, input)"])))
              else if String.eqb a "readErr"
                   then Some (Some (negb (failing st 1 ["c.ReadUntilPrompt(ctx) -> nb, readErr"; "c.ReadUntilAnyPrompt(ctx, prompts) -> nb, readErr"])))
              else if String.eqb a "r.err"
                   then Some (Some (negb (existsb (fun kv => String.eqb (fst kv) "!call"
                                                            && (String.eqb (snd kv) "cr <- &result{b: b, err: err}"
                                                                || String.eqb (snd kv) "cr <- &result{b: b, err: readErr}")) st)))
              else None
            else None)
         (fun x => if String.eqb x "once" then 1 else O)
         (fun _ _ => None).

Definition sin_acts (st : store) : option (list sact) :=
  let exact := match sget st "readUntilF" with
               | Some "c.ReadUntilExplicit" => Some true
               | Some "c.ReadUntilFuzzy" => Some false
               | _ => None
               end in
  let interim_built :=
    existsb (fun kv => String.eqb (fst kv) "prompts" && String.eqb (snd kv) "[]*regexp.Regexp{c.PromptPattern}") st
    && match sget st "prompts" with Some "append(prompts, op.InterimPromptPatterns...)" => true | _ => false end in
  fold_left
    (fun acc kv =>
       match acc with
       | None => None
       | Some l =>
           let k := fst kv in let v := snd kv in
           if String.eqb k "err" && String.eqb v "c.Write(input, false)" then Some (l ++ [SWrite])
           else if String.eqb k "err" && String.eqb v "c.WriteReturn()" then Some (l ++ [SReturn])
           else if String.eqb k "!call" && String.eqb v "readUntilF(ctx, input)"
                then match exact with Some e => Some (l ++ [SEcho e]) | None => None end
           else if String.eqb k "!call" && String.eqb v "c.ReadUntilPrompt(ctx) -> nb, readErr" then Some (l ++ [SPrompt false])
           else if String.eqb k "!call" && String.eqb v "c.ReadUntilAnyPrompt(ctx, prompts) -> nb, readErr"
                then (if interim_built then Some (l ++ [SPrompt true]) else None)
           else if String.eqb k "!call" && String.eqb v "cr <- &result{ b: c.processOut(b, op.StripPrompt), err: nil, }"
                then Some (l ++ [SResult])
           else Some l
       end)
    (rev st) (Some []).

Definition sin_run (ex eg ie : bool) (fail : option (nat * bool)) : option (list sact * outcome) :=
  match DecideLang.exec 40 (sin_env ex eg ie fail) send_input_code [] with
  | Returned st v =>
      match sin_acts st with
      | Some l =>
          Some (l, if String.eqb v "r.b, nil" then SoOk
                   else if String.eqb v "nil, fmt.Errorf( ""%w: channel timeout sending input to device"", util.ErrTimeoutError, )" then SoTimeout
                   else if String.eqb v "nil, r.err" then SoErr else SoBad)
      | None => None
      end
  | _ => None
  end.

Definition sin_expected (ex eg ie : bool) (fail : option (nat * bool)) : list sact * outcome :=
  let cls (dl : bool) := if dl then SoTimeout else SoErr in
  match fail with
  | Some (0, dl) => ([SWrite; SEcho ex], cls dl)
  | Some (1, dl) => if eg then ([SWrite; SEcho ex; SReturn; SResult], SoOk)
                    else ([SWrite; SEcho ex; SReturn; SPrompt (negb ie)], cls dl)
  | _ => ([SWrite; SEcho ex; SReturn] ++ (if eg then [] else [SPrompt (negb ie)]) ++ [SResult], SoOk)
  end.

Definition sin_table_ok : bool :=
  forallb (fun ex => forallb (fun eg => forallb (fun ie => forallb (fun fail =>
     match sin_run ex eg ie fail with
     | Some (l, o) =>
         let '(l', o') := sin_expected ex eg ie fail in
         Nat.eqb (List.length l) (List.length l')
         && forallb (fun p => match fst p, snd p with
                              | SWrite, SWrite | SReturn, SReturn | SResult, SResult => true
                              | SEcho a, SEcho b | SPrompt a, SPrompt b => Bool.eqb a b
                              | _, _ => false
                              end) (combine l l')
         && match o, o' with SoOk, SoOk | SoTimeout, SoTimeout | SoErr, SoErr => true | _, _ => false end
     | None => false
     end)
     [None; Some (0, true); Some (0, false); Some (1, true); Some (1, false); Some (2, true)])
     [true; false]) [true; false]) [true; false].

(* ---- model side ---- *)
From Scrapli Require Import InteractiveSrcDefs.

Inductive rd := ROk (b : bytes) | RDeadline | RLost.

(* the primitives a program invokes, and how it ends, when its reads have the outcomes [rds]
   (a deadline reaches the read's handler as ETimeout, a loss as EConnection) *)
Fixpoint mrun (p : prog bytes) (rds : list rd) {struct p} : list pact * outcome :=
  match p with
  | Ret _ => ([], SoOk)
  | Fail ETimeout => ([], SoTimeout)
  | Fail _ => ([], SoErr)
  | Write b red k => let '(l, o) := mrun k rds in (PW b red :: l, o)
  | Until c k h =>
      let '(l, o) := match rds with
                     | ROk b :: rs => mrun (k b) rs
                     | RDeadline :: _ => mrun (h ETimeout) []
                     | RLost :: _ => mrun (h EConnection) []
                     | [] => mrun (k []) []
                     end in (PU c :: l, o)
  | Note _ _ k => let '(l, o) := mrun k rds in (PNote :: l, o)
  | Requeue _ k => let '(l, o) := mrun k rds in (PRequeue :: l, o)
  end.

Definition is_nil {A} (l : list A) : bool := match l with [] => true | _ => false end.

(* the model skips the echo read for an empty input (ReadUntilFuzzy and ReadUntilExplicit return at once) *)
Definition echo_skipped (o : op_opts) (input : bytes) : bool := is_nil input.

(* which of the source's two reads fails, given the outcomes of the model's reads *)
Definition fail_src (o : op_opts) (input : bytes) (rds : list rd) : option (nat * bool) :=
  if echo_skipped o input then
    match rds with RDeadline :: _ => Some (1, true) | RLost :: _ => Some (1, false) | _ => None end
  else
    match rds with
    | RDeadline :: _ => Some (0, true) | RLost :: _ => Some (0, false)
    | ROk _ :: RDeadline :: _ => Some (1, true) | ROk _ :: RLost :: _ => Some (1, false)
    | _ => None
    end.

Definition sact_pacts (cfg : chan_cfg) (input : bytes) (o : op_opts) (a : sact) : list pact :=
  match a with
  | SWrite => [PW input false]
  | SEcho _ => if echo_skipped o input then [] else [PU (echo_cond o input)]
  | SReturn => [PW (c_ret cfg) false]
  | SPrompt _ => [PU (match o_interim o with [] => CPrompt | ps => CAnyPrompt (c_prompt cfg :: ps) end)]
  | SResult => []
  end.

Theorem send_input_model : forall cfg input o rds,
  mrun (send_input cfg input o) rds
  = (flat_map (sact_pacts cfg input o) (fst (sin_expected (o_exact o) (o_eager o) (is_nil (o_interim o)) (fail_src o input rds))),
     snd (sin_expected (o_exact o) (o_eager o) (is_nil (o_interim o)) (fail_src o input rds))).
Proof.
  intros cfg input [strip eager exact interim complete] rds.
  unfold send_input, until_echo, fail_src, echo_skipped, sin_expected, sact_pacts, echo_skipped, echo_cond.
  cbn [o_exact o_eager o_interim o_strip o_complete].
  destruct input as [|c0 inp], exact, eager, interim as [|p0 ps];
    destruct rds as [|[b1| |] [|[b2| |] rs]]; reflexivity.
Qed.

(* THE TIE *)
Theorem send_input_is_source :
  sin_table_ok = true
  /\ forall cfg input o rds,
       mrun (send_input cfg input o) rds
       = (flat_map (sact_pacts cfg input o) (fst (sin_expected (o_exact o) (o_eager o) (is_nil (o_interim o)) (fail_src o input rds))),
          snd (sin_expected (o_exact o) (o_eager o) (is_nil (o_interim o)) (fail_src o input rds))).
Proof. split; [vm_compute; reflexivity | exact send_input_model]. Qed.

(* every test the translated code makes is one the environment above was written for (an unknown
   equality would otherwise evaluate to false without notice) *)
Definition send_input_known : list string := "op.ExactMatchInput" :: "err == nil" :: "op.Eager" :: "len(op.InterimPromptPatterns) == 0" :: "readErr == nil" :: "r.err == nil" :: "errors.Is(r.err, context.DeadlineExceeded)" :: nil.
Lemma send_input_tests_known : tests_known send_input_code send_input_known = true.
Proof. vm_compute. reflexivity. Qed.
