(* NetworkHistoryLemmas.v — C04, last sentence of the property: "Commands are always executed at
   the default desired level and configuration lines at the configuration (or explicitly requested)
   level, whatever level earlier operations left the device in."

   Theorems about the histories of NetworkHistory.v: every operation of a history (SendCommand(s),
   SendConfigs, AcquirePriv) first brings the device along the unique tree path to the operation's
   level (no command at all when SendCommand's shortcut applies) and its own lines are then logged
   AT that level; the session invariant on d.CurrentPriv ([cache_inv]) is preserved, so operations
   compose.  The hypothesis that user lines are not themselves mode changes ([op_inert]) is
   necessary: [inert_needed], [inert_needed_abs].

   New file; all earlier files are reused unchanged. *)
From Coq Require Import Permutation List Lia Bool Arith.
From Scrapli Require Import Bytes Regex PlatformTypes Generated Channel Network NetworkAbs NetworkLemmas
     NetworkTwins NetworkHistory.
Import ListNotations.
Local Open Scope nat_scope.

(* ================================================================== *)
(* 0. one line on the device                                           *)
(* ================================================================== *)

Lemma nonempty_lines_cons (a : bytes) (t : list bytes) :
  nonempty_lines (a :: t) = nonempty_lines [a] ++ nonempty_lines t.
Proof. unfold nonempty_lines. cbn [filter]. destruct a; reflexivity. Qed.

Lemma nonempty_lines_single (x : bytes) : x <> [] -> nonempty_lines [x] = [x].
Proof. intros Hx. destruct x as [|b t]; [contradiction|reflexivity]. Qed.

(* the log always gains exactly the line (if it is not empty), at the mode it arrived in *)
Lemma dev_line_log (ls : list (bytes * level)) (d : adev) (line : bytes) :
  d_log (dev_line ls d line) = d_log d ++ map (fun l => (d_mode d, l)) (nonempty_lines [line]).
Proof.
  unfold dev_line. destruct line as [|b t].
  - cbn. rewrite app_nil_r. reflexivity.
  - change (nonempty_lines [b :: t]) with [b :: t]. cbn [map].
    destruct (child_by_cmd ls (d_mode d) (b :: t)) as [c|]; [reflexivity|].
    destruct (lookup_level ls (d_mode d)) as [l|]; [|reflexivity].
    match goal with |- context [if ?c then _ else _] => destruct c end; reflexivity.
Qed.

(* the mode change does not depend on the log *)
Lemma dev_line_mode_indep (ls : list (bytes * level)) (d : adev) (line : bytes) :
  d_mode (dev_line ls d line) = d_mode (dev_line ls (mkADev (d_mode d) []) line).
Proof.
  unfold dev_line. cbn [d_mode d_log]. destruct line as [|b t]; [reflexivity|].
  destruct (child_by_cmd ls (d_mode d) (b :: t)) as [c|]; [reflexivity|].
  destruct (lookup_level ls (d_mode d)) as [l|]; [|reflexivity].
  match goal with |- context [if ?c then _ else _] => destruct c end; reflexivity.
Qed.

Lemma dev_line_inert_mode (ls : list (bytes * level)) (d : adev) (line : bytes) :
  line_inert ls (d_mode d) line -> d_mode (dev_line ls d line) = d_mode d.
Proof. intros H. rewrite dev_line_mode_indep. exact H. Qed.

(* inert lines leave the mode where it is and are logged at it *)
Lemma send_lines_inert (ls : list (bytes * level)) (lines : list bytes) : forall d,
  Forall (line_inert ls (d_mode d)) lines ->
  d_mode (send_lines ls d lines) = d_mode d /\
  d_log (send_lines ls d lines) = d_log d ++ map (fun l => (d_mode d, l)) (nonempty_lines lines).
Proof.
  induction lines as [|a t IH]; intros d HF.
  - cbn. rewrite app_nil_r. split; reflexivity.
  - inversion HF as [|? ? Ha Ht]; subst.
    change (send_lines ls d (a :: t)) with (send_lines ls (dev_line ls d a) t).
    pose proof (dev_line_inert_mode ls d a Ha) as Hm.
    pose proof (dev_line_log ls d a) as Hl.
    destruct (IH (dev_line ls d a)) as [I1 I2]; [rewrite Hm; exact Ht|].
    split; [rewrite I1; exact Hm|].
    rewrite I2, Hl, Hm, (nonempty_lines_cons a t), map_app, <- app_assoc. reflexivity.
Qed.

(* ================================================================== *)
(* 1. the cache invariant                                              *)
(* ================================================================== *)

Lemma cache_inv_cache_ok net prompt_of d cached :
  cache_inv net prompt_of d cached -> cache_ok net prompt_of d cached.
Proof. intros [H|[_ H]]; [left; exact H|right; exact H]. Qed.

(* a cache that is a level name names the true mode: SendCommand's shortcut is sound *)
Lemma cache_inv_name net prompt_of d cached :
  cache_inv net prompt_of d cached -> In cached (names (n_levels net)) -> d_mode d = cached.
Proof. intros [H|[Hn _]] Hin; [symmetry; exact H|contradiction]. Qed.

Lemma path_cmds_single (ls : list (bytes * level)) (a : bytes) : path_cmds ls [a] = [].
Proof. reflexivity. Qed.

Lemma expected_log_cons net mode o t :
  expected_log net mode (o :: t) =
  (match tree_path (n_levels net) mode (op_target net o) with
   | Some p => path_cmds (n_levels net) p | None => [] end)
  ++ map (fun l => (op_target net o, l)) (nonempty_lines (op_lines o))
  ++ expected_log net (op_target net o) t.
Proof. reflexivity. Qed.

Lemma expected_log_app net : forall pre mode post,
  expected_log net mode (pre ++ post) =
  expected_log net mode pre ++ expected_log net (last (map (op_target net) pre) mode) post.
Proof.
  induction pre as [|o t IH]; intros mode post.
  - reflexivity.
  - cbn [app map]. rewrite !expected_log_cons, last_cons, IH, <- !app_assoc. reflexivity.
Qed.

(* the level of an operation's own lines is its target *)
Lemma op_level_target net o m : op_level net o = Some m -> op_target net o = m.
Proof. destruct o; cbn; intros H; inversion H; reflexivity. Qed.

(* ================================================================== *)
(* 2. one operation                                                    *)
(* ================================================================== *)
Section Hist.
  Variable net : netcfg.
  Variable prompt_of : bytes -> bytes.
  Hypothesis W : tree_wf (n_levels net) = true.
  Hypothesis NE : ~ In [] (names (n_levels net)).
  Hypothesis OK : orders_ok net.
  Hypothesis PT : prompts_identify_upto_twins net prompt_of.
  Hypothesis UK : unknown_not_twin net prompt_of.
  Hypothesis CO : cmds_ok (n_levels net).
  Hypothesis HD : In (n_default net) (names (n_levels net)).

  (* AcquirePriv to [target], then lines that are inert at [target] *)
  Lemma acquire_then_lines target lines d cached :
    In (d_mode d) (names (n_levels net)) -> In target (names (n_levels net)) ->
    Forall (line_inert (n_levels net) target) lines ->
    cache_inv net prompt_of d cached ->
    exists p d1,
      tree_path (n_levels net) (d_mode d) target = Some p /\
      acquire_priv_abs net prompt_of d cached target = AOk d1 target /\
      d_mode (send_lines (n_levels net) d1 lines) = target /\
      d_log (send_lines (n_levels net) d1 lines) =
        d_log d ++ path_cmds (n_levels net) p ++ map (fun l => (target, l)) (nonempty_lines lines).
  Proof.
    intros Hm Ht HF CI.
    destruct (acquire_reaches_target_twins net prompt_of d cached target W NE OK PT UK CO Hm Ht
                (cache_inv_cache_ok _ _ _ _ CI)) as [p [d1 [H1 [H2 [H3 [H4 _]]]]]].
    exists p, d1. split; [exact H1|]. split; [exact H2|].
    destruct (send_lines_inert (n_levels net) lines d1) as [S1 S2]; [rewrite H3; exact HF|].
    split; [rewrite S1; exact H3|].
    rewrite S2, H4, H3, <- app_assoc. reflexivity.
  Qed.

  Lemma run_aop_step o d cached :
    In (d_mode d) (names (n_levels net)) -> In (op_target net o) (names (n_levels net)) ->
    op_inert net o -> cache_inv net prompt_of d cached ->
    exists d',
      run_aop net prompt_of d cached o = Some (d', op_target net o) /\
      d_mode d' = op_target net o /\
      d_log d' = d_log d
                 ++ (match tree_path (n_levels net) (d_mode d) (op_target net o) with
                     | Some p => path_cmds (n_levels net) p | None => [] end)
                 ++ map (fun l => (op_target net o, l)) (nonempty_lines (op_lines o)).
  Proof.
    intros Hm Ht HI CI. destruct o as [lines|priv lines|t].
    - (* SendCommand(s) *)
      unfold op_inert in HI. cbn [op_level op_lines op_target run_aop] in *.
      destruct (beqb_reflect cached (n_default net)) as [E|E].
      + (* the shortcut: the cache is the default level, hence so is the device *)
        assert (Hmode : d_mode d = n_default net).
        { rewrite <- E. apply (cache_inv_name net prompt_of d cached CI). rewrite E. exact HD. }
        destruct (send_lines_inert (n_levels net) lines d) as [S1 S2]; [rewrite Hmode; exact HI|].
        exists (send_lines (n_levels net) d lines).
        split; [rewrite E; reflexivity|]. split; [rewrite S1; exact Hmode|].
        rewrite S2, Hmode, (tree_path_self _ W _ HD), path_cmds_single. reflexivity.
      + destruct (acquire_then_lines (n_default net) lines d cached Hm Ht HI CI)
          as [p [d1 [H1 [H2 [H3 H4]]]]].
        exists (send_lines (n_levels net) d1 lines). rewrite H2, H1.
        split; [reflexivity|]. split; [exact H3|exact H4].
    - (* SendConfigs *)
      unfold op_inert in HI. cbn [op_level op_lines op_target run_aop] in *.
      destruct (acquire_then_lines (cfg_target priv) lines d cached Hm Ht HI CI)
        as [p [d1 [H1 [H2 [H3 H4]]]]].
      exists (send_lines (n_levels net) d1 lines). rewrite H2, H1.
      split; [reflexivity|]. split; [exact H3|exact H4].
    - (* AcquirePriv *)
      cbn [op_level op_lines op_target run_aop] in *.
      destruct (acquire_then_lines t [] d cached Hm Ht (Forall_nil _) CI)
        as [p [d1 [H1 [H2 [H3 H4]]]]].
      cbn [send_lines fold_left] in H3, H4.
      exists d1. rewrite H2, H1. split; [reflexivity|]. split; [exact H3|exact H4].
  Qed.

  Theorem history_levels_s : forall ops d cached,
    In (d_mode d) (names (n_levels net)) ->
    (forall o, In o ops -> In (op_target net o) (names (n_levels net))) ->
    Forall (op_inert net) ops ->
    cache_inv net prompt_of d cached ->
    exists d' c',
      run_aops net prompt_of d cached ops = Some (d', c') /\
      d_log d' = d_log d ++ expected_log net (d_mode d) ops /\
      d_mode d' = last (map (op_target net) ops) (d_mode d) /\
      cache_inv net prompt_of d' c'.
  Proof.
    induction ops as [|o t IH]; intros d cached Hm Hts HF CI.
    - exists d, cached. cbn [run_aops expected_log map last]. rewrite app_nil_r.
      split; [reflexivity|]. split; [reflexivity|]. split; [reflexivity|exact CI].
    - assert (Ht : In (op_target net o) (names (n_levels net))) by (apply Hts; left; reflexivity).
      inversion HF as [|? ? Ho HFt]; subst.
      destruct (run_aop_step o d cached Hm Ht Ho CI) as [d1 [R1 [R2 R3]]].
      destruct (IH d1 (op_target net o)) as [d' [c' [G1 [G2 [G3 G4]]]]].
      + rewrite R2. exact Ht.
      + intros o' Ho'. apply Hts. right; exact Ho'.
      + exact HFt.
      + left. symmetry. exact R2.
      + exists d', c'. cbn [run_aops map]. rewrite R1. split; [exact G1|].
        split; [|split; [|exact G4]].
        * rewrite G2, R3, R2, expected_log_cons, <- !app_assoc. reflexivity.
        * rewrite G3, R2, last_cons. reflexivity.
  Qed.
End Hist.

(* ================================================================== *)
(* 3. the theorem                                                      *)
(* ================================================================== *)

(* a history of operations from any mode of the tree, with an accurate (or not yet set) cache and
   user lines that are not themselves mode changes: every operation succeeds; the device's log
   gains, per operation, the commands of the tree path to the operation's level (nothing when the
   SendCommand shortcut applies) and then the operation's non-empty lines logged AT THAT LEVEL;
   the device ends at the last operation's level and the invariant holds again *)
Theorem history_levels : forall net prompt_of,
  tree_wf (n_levels net) = true -> ~ In [] (names (n_levels net)) ->
  orders_ok net -> prompts_identify_upto_twins net prompt_of -> unknown_not_twin net prompt_of ->
  cmds_ok (n_levels net) ->
  In (n_default net) (names (n_levels net)) ->
  forall ops d cached,
    In (d_mode d) (names (n_levels net)) ->
    (forall o, In o ops -> In (op_target net o) (names (n_levels net))) ->
    Forall (op_inert net) ops ->
    cache_inv net prompt_of d cached ->
    exists d' c',
      run_aops net prompt_of d cached ops = Some (d', c') /\
      d_log d' = d_log d ++ expected_log net (d_mode d) ops /\
      d_mode d' = last (map (op_target net) ops) (d_mode d) /\
      cache_inv net prompt_of d' c'.
Proof.
  intros net prompt_of W NE OK PT UK CO HD ops d cached Hm Hts HF CI.
  apply history_levels_s; assumption.
Qed.

(* ---------- (a) where an operation's own lines are logged ---------- *)

(* every entry of an operation's own segment of the log carries the operation's level *)
Lemma own_lines_level net o m (e : bytes * bytes) :
  op_level net o = Some m ->
  In e (map (fun l => (op_target net o, l)) (nonempty_lines (op_lines o))) ->
  fst e = m /\ In (snd e) (op_lines o) /\ snd e <> [].
Proof.
  intros Hl Hin. apply in_map_iff in Hin. destruct Hin as [l [E Hin]]. subst e. cbn [fst snd].
  split; [apply op_level_target; exact Hl|].
  unfold nonempty_lines in Hin. apply filter_In in Hin. destruct Hin as [Hin Hne].
  split; [exact Hin|]. intros E0. rewrite E0 in Hne. discriminate Hne.
Qed.

(* any operation [o] of a history [pre ++ o :: post]: the log is
     (old log) ++ (what [pre] logged) ++ (navigation to o's level) ++ (o's lines AT o's level) ++ (what [post] logged) *)
Corollary history_op_segment : forall net prompt_of,
  tree_wf (n_levels net) = true -> ~ In [] (names (n_levels net)) ->
  orders_ok net -> prompts_identify_upto_twins net prompt_of -> unknown_not_twin net prompt_of ->
  cmds_ok (n_levels net) ->
  In (n_default net) (names (n_levels net)) ->
  forall pre o post d cached,
    In (d_mode d) (names (n_levels net)) ->
    (forall o', In o' (pre ++ o :: post) -> In (op_target net o') (names (n_levels net))) ->
    Forall (op_inert net) (pre ++ o :: post) ->
    cache_inv net prompt_of d cached ->
    exists d' c' nav,
      run_aops net prompt_of d cached (pre ++ o :: post) = Some (d', c') /\
      tree_path (n_levels net) (last (map (op_target net) pre) (d_mode d)) (op_target net o) = Some nav /\
      d_log d' = d_log d ++ expected_log net (d_mode d) pre
                 ++ path_cmds (n_levels net) nav
                 ++ map (fun l => (op_target net o, l)) (nonempty_lines (op_lines o))
                 ++ expected_log net (op_target net o) post.
Proof.
  intros net prompt_of W NE OK PT UK CO HD pre o post d cached Hm Hts HF CI.
  destruct (history_levels net prompt_of W NE OK PT UK CO HD (pre ++ o :: post) d cached Hm Hts HF CI)
    as [d' [c' [H1 [H2 _]]]].
  assert (Hlast : In (last (map (op_target net) pre) (d_mode d)) (names (n_levels net))).
  { destruct (last_In (map (op_target net) pre) (d_mode d)) as [E|Hin]; [rewrite <- E; exact Hm|].
    apply in_map_iff in Hin. destruct Hin as [o' [E Ho']]. rewrite <- E. apply Hts.
    apply in_or_app. left; exact Ho'. }
  assert (Ht : In (op_target net o) (names (n_levels net))).
  { apply Hts. apply in_or_app. right; left; reflexivity. }
  destruct (tree_path_spec_strong _ W _ _ Hlast Ht) as [nav [Hnav _]].
  exists d', c', nav. split; [exact H1|]. split; [exact Hnav|].
  rewrite H2, expected_log_app, expected_log_cons, Hnav, <- ?app_assoc. reflexivity.
Qed.

(* the property's sentence.  Commands: the lines of every SendCommand(s) of the history are
   logged at the default desired level ... *)
Corollary commands_at_default : forall net prompt_of,
  tree_wf (n_levels net) = true -> ~ In [] (names (n_levels net)) ->
  orders_ok net -> prompts_identify_upto_twins net prompt_of -> unknown_not_twin net prompt_of ->
  cmds_ok (n_levels net) ->
  In (n_default net) (names (n_levels net)) ->
  forall pre lines post d cached,
    In (d_mode d) (names (n_levels net)) ->
    (forall o', In o' (pre ++ OCmd lines :: post) -> In (op_target net o') (names (n_levels net))) ->
    Forall (op_inert net) (pre ++ OCmd lines :: post) ->
    cache_inv net prompt_of d cached ->
    exists d' c' before nav after,
      run_aops net prompt_of d cached (pre ++ OCmd lines :: post) = Some (d', c') /\
      tree_path (n_levels net) (last (map (op_target net) pre) (d_mode d)) (n_default net) = Some nav /\
      d_log d' = before ++ path_cmds (n_levels net) nav
                 ++ map (fun l => (n_default net, l)) (nonempty_lines lines) ++ after.
Proof.
  intros net prompt_of W NE OK PT UK CO HD pre lines post d cached Hm Hts HF CI.
  destruct (history_op_segment net prompt_of W NE OK PT UK CO HD pre (OCmd lines) post d cached Hm Hts HF CI)
    as [d' [c' [nav [H1 [H2 H3]]]]]. cbn [op_target op_lines] in H2, H3.
  exists d', c', (d_log d ++ expected_log net (d_mode d) pre), nav, (expected_log net (n_default net) post).
  split; [exact H1|]. split; [exact H2|]. rewrite H3, <- !app_assoc. reflexivity.
Qed.

(* ... and configuration lines at the configuration (or explicitly requested) level *)
Corollary configs_at_config_level : forall net prompt_of,
  tree_wf (n_levels net) = true -> ~ In [] (names (n_levels net)) ->
  orders_ok net -> prompts_identify_upto_twins net prompt_of -> unknown_not_twin net prompt_of ->
  cmds_ok (n_levels net) ->
  In (n_default net) (names (n_levels net)) ->
  forall pre priv lines post d cached,
    In (d_mode d) (names (n_levels net)) ->
    (forall o', In o' (pre ++ OCfg priv lines :: post) -> In (op_target net o') (names (n_levels net))) ->
    Forall (op_inert net) (pre ++ OCfg priv lines :: post) ->
    cache_inv net prompt_of d cached ->
    exists d' c' before nav after,
      run_aops net prompt_of d cached (pre ++ OCfg priv lines :: post) = Some (d', c') /\
      tree_path (n_levels net) (last (map (op_target net) pre) (d_mode d)) (cfg_target priv) = Some nav /\
      d_log d' = before ++ path_cmds (n_levels net) nav
                 ++ map (fun l => (cfg_target priv, l)) (nonempty_lines lines) ++ after.
Proof.
  intros net prompt_of W NE OK PT UK CO HD pre priv lines post d cached Hm Hts HF CI.
  destruct (history_op_segment net prompt_of W NE OK PT UK CO HD pre (OCfg priv lines) post d cached Hm Hts HF CI)
    as [d' [c' [nav [H1 [H2 H3]]]]]. cbn [op_target op_lines] in H2, H3.
  exists d', c', (d_log d ++ expected_log net (d_mode d) pre), nav, (expected_log net (cfg_target priv) post).
  split; [exact H1|]. split; [exact H2|]. rewrite H3, <- !app_assoc. reflexivity.
Qed.

(* ================================================================== *)
(* 4. [op_inert] is needed, abstractly                                 *)
(* ================================================================== *)

(* any tree whose default level has a parent: SendCommand of the default level's own de-escalate
   command moves the device to the parent behind the driver's back; d.CurrentPriv still says
   "default", so the next SendCommand takes the shortcut and its line is logged at the PARENT *)
Theorem inert_needed_abs : forall net prompt_of dl x d,
  tree_wf (n_levels net) = true -> ~ In [] (names (n_levels net)) -> cmds_ok (n_levels net) ->
  lookup_level (n_levels net) (n_default net) = Some dl -> lv_previous dl <> [] ->
  x <> [] -> d_mode d = n_default net ->
  exists d',
    run_aops net prompt_of d (n_default net) [OCmd [lv_deescalate dl]; OCmd [x]] = Some (d', n_default net) /\
    d_log d' = d_log d ++ [(n_default net, lv_deescalate dl); (lv_previous dl, x)] /\
    lv_previous dl <> n_default net /\
    ~ op_inert net (OCmd [lv_deescalate dl]).
Proof.
  intros net prompt_of dl x d W NE CO Hl Hprev Hx Hmode.
  assert (HD : In (n_default net) (names (n_levels net))) by (eapply lookup_Some_names; exact Hl).
  assert (Hp : parent (n_levels net) (d_mode d) = Some (lv_previous dl)).
  { rewrite Hmode. apply parent_Some. exists dl. split; [exact Hl|]. split; [reflexivity|exact Hprev]. }
  assert (Hm0 : d_mode d <> []).
  { rewrite Hmode. intros E0. apply NE. rewrite <- E0. exact HD. }
  assert (Hneq : lv_previous dl <> n_default net).
  { intros E. apply (parent_neq _ W _ _ Hp). rewrite Hmode. symmetry; exact E. }
  assert (Hde : lv_deescalate dl <> []).
  { destruct CO as [C1 _]. exact (proj2 (C1 _ _ (lookup_In _ _ _ Hl) Hprev)). }
  (* the device obeys the de-escalate command *)
  assert (Hmove : d_mode (dev_line (n_levels net) d (lv_deescalate dl)) = lv_previous dl).
  { destruct (dev_deescalate net W CO d (lv_previous dl) [] Hm0 Hp) as [cmd [_ Hdl]].
    unfold action_line in Hdl. rewrite Hmode, Hl in Hdl. rewrite Hdl. reflexivity. }
  exists (dev_line (n_levels net) (dev_line (n_levels net) d (lv_deescalate dl)) x).
  split; [|split; [|split; [exact Hneq|]]].
  - cbn [run_aops run_aop]. rewrite beqb_refl'. cbn [send_lines fold_left].
    rewrite beqb_refl'. reflexivity.
  - rewrite dev_line_log, dev_line_log, Hmove, Hmode, !nonempty_lines_single by assumption.
    cbn [map]. rewrite <- app_assoc. reflexivity.
  - unfold op_inert. cbn [op_level op_lines]. intros HF.
    inversion HF as [|? ? Ha _]; subst. unfold line_inert in Ha.
    apply Hneq. rewrite <- Hmove, dev_line_mode_indep, Hmode. exact Ha.
Qed.

(* ================================================================== *)
(* 5. non-vacuity and the concrete refutation                          *)
(* ================================================================== *)
Module HistExample.
  (* exec -> privilege-exec -> configuration (the core of cisco_iosxe), default privilege-exec *)
  Definition lvl := NetworkLemmas.Example.lvl.

  Definition h3_levels : list (bytes * level) :=
    [ lvl "exec" ">" "" "" "";
      lvl "privilege-exec" "r1#" "exec" "disable" "enable";
      lvl "configuration" "(config)#" "privilege-exec" "end" "configure terminal" ]%string.

  Definition h3_net : netcfg :=
    mkNet h3_levels (bs "privilege-exec") [] (mkCfg 1000 REps [10%N] 0%Z) (fun _ l => l) (fun l => l).

  Definition h3_prompt (m : bytes) : bytes :=
    if beqb m (bs "exec") then bs "r1>"
    else if beqb m (bs "privilege-exec") then bs "r1#"
    else if beqb m (bs "configuration") then bs "r1(config)#"
    else [].

  Definition EXEC := bs "exec".
  Definition PRIV := bs "privilege-exec".
  Definition CFG := bs "configuration".

  Lemma h3_tree_wf : tree_wf (n_levels h3_net) = true.
  Proof. vm_compute. reflexivity. Qed.

  Lemma h3_names : names (n_levels h3_net) = [EXEC; PRIV; CFG].
  Proof. reflexivity. Qed.

  Lemma h3_names_nonempty : ~ In [] (names (n_levels h3_net)).
  Proof. cbn. intros [H|[H|[H|[]]]]; discriminate. Qed.

  Lemma h3_orders_ok : orders_ok h3_net.
  Proof. split; intros; apply Permutation_refl. Qed.

  Lemma h3_prompts_identify : prompts_identify h3_net h3_prompt.
  Proof.
    intros m Hm. cbn in Hm. destruct Hm as [H|[H|[H|[]]]]; subst m; vm_compute; reflexivity.
  Qed.

  Lemma h3_upto_twins : prompts_identify_upto_twins h3_net h3_prompt.
  Proof. apply prompts_identify_upto_twins_of_identify. exact h3_prompts_identify. Qed.

  Lemma h3_unknown_not_twin : unknown_not_twin h3_net h3_prompt.
  Proof. apply unknown_not_twin_of_identify. exact h3_prompts_identify. Qed.

  Ltac in_levels H :=
    cbn in H; destruct H as [H|[H|[H|[]]]]; inversion H; subst; clear H.

  Lemma h3_cmds_ok : cmds_ok (n_levels h3_net).
  Proof.
    split; [|split].
    - intros k l H Hp. in_levels H; cbn in *; try contradiction; split; discriminate.
    - intros k1 l1 k2 l2 H1 H2 E Hp Ee. in_levels H1; in_levels H2; cbn in *;
        try reflexivity; try contradiction; try discriminate.
    - intros k l kc lc H1 H2 E. in_levels H1; in_levels H2; cbn in *; try discriminate.
  Qed.

  Lemma h3_default_level : In (n_default h3_net) (names (n_levels h3_net)).
  Proof. cbn. right; left; reflexivity. Qed.

  Lemma h3_cfg_target : cfg_target [] = CFG.
  Proof. vm_compute. reflexivity. Qed.

  (* a session: start in exec with d.CurrentPriv = "UNKNOWN"; a command (implicit acquire of
     privilege-exec), a second command (the shortcut: nothing but the command is sent), a
     SendConfigs with an empty line in it, a command again (back out of configuration), and an
     explicit AcquirePriv of exec *)
  Definition h3_ops : list aop :=
    [ OCmd [bs "show version"];
      OCmd [bs "show ip route"];
      OCfg [] [bs "hostname r2"; []];
      OCmd [bs "show run"];
      OAcq EXEC ].

  Definition h3_start : adev := mkADev EXEC [].

  Lemma h3_start_inv : cache_inv h3_net h3_prompt h3_start net_unknown_priv.
  Proof.
    right. split.
    - cbn. intros [H|[H|[H|[]]]]; discriminate H.
    - vm_compute. reflexivity.
  Qed.

  Lemma h3_targets : forall o, In o h3_ops -> In (op_target h3_net o) (names (n_levels h3_net)).
  Proof.
    intros o Ho. rewrite h3_names. cbn in Ho.
    destruct Ho as [H|[H|[H|[H|[H|[]]]]]]; subst o; cbn [op_target].
    - right; left; reflexivity.
    - right; left; reflexivity.
    - right; right; left; reflexivity.
    - right; left; reflexivity.
    - left; reflexivity.
  Qed.

  Lemma h3_inert : Forall (op_inert h3_net) h3_ops.
  Proof.
    assert (L : forall m lines,
               forallb (fun l => beqb (d_mode (dev_line (n_levels h3_net) (mkADev m []) l)) m) lines = true ->
               Forall (line_inert (n_levels h3_net) m) lines).
    { intros m lines H. rewrite forallb_forall in H. apply Forall_forall. intros l Hl.
      apply beqb_true_iff. exact (H l Hl). }
    unfold h3_ops.
    apply Forall_cons; [unfold op_inert; cbn [op_level op_lines]; apply L; vm_compute; reflexivity|].
    apply Forall_cons; [unfold op_inert; cbn [op_level op_lines]; apply L; vm_compute; reflexivity|].
    apply Forall_cons; [unfold op_inert; cbn [op_level op_lines]; apply L; vm_compute; reflexivity|].
    apply Forall_cons; [unfold op_inert; cbn [op_level op_lines]; apply L; vm_compute; reflexivity|].
    apply Forall_cons; [exact I|].
    apply Forall_nil.
  Qed.

  (* the run itself *)
  Example h3_session :
    run_aops h3_net h3_prompt h3_start net_unknown_priv h3_ops =
    Some (mkADev EXEC [ (EXEC, bs "enable");
                        (PRIV, bs "show version");
                        (PRIV, bs "show ip route");
                        (PRIV, bs "configure terminal");
                        (CFG, bs "hostname r2");
                        (CFG, bs "end");
                        (PRIV, bs "show run");
                        (PRIV, bs "disable") ], EXEC).
  Proof. vm_compute. reflexivity. Qed.

  (* (b) the hypotheses of [history_levels] are satisfiable, and its conclusion is this run *)
  Example h3_session_thm :
    exists d' c',
      run_aops h3_net h3_prompt h3_start net_unknown_priv h3_ops = Some (d', c') /\
      d_log d' = [ (EXEC, bs "enable");
                   (PRIV, bs "show version");
                   (PRIV, bs "show ip route");
                   (PRIV, bs "configure terminal");
                   (CFG, bs "hostname r2");
                   (CFG, bs "end");
                   (PRIV, bs "show run");
                   (PRIV, bs "disable") ] /\
      d_mode d' = EXEC /\
      cache_inv h3_net h3_prompt d' c'.
  Proof.
    destruct (history_levels h3_net h3_prompt h3_tree_wf h3_names_nonempty h3_orders_ok h3_upto_twins
                h3_unknown_not_twin h3_cmds_ok h3_default_level h3_ops h3_start net_unknown_priv)
      as [d' [c' [H1 [H2 [H3 H4]]]]].
    - cbn. left; reflexivity.
    - exact h3_targets.
    - exact h3_inert.
    - exact h3_start_inv.
    - exists d', c'. split; [exact H1|]. split; [|split; [|exact H4]].
      + rewrite H2. vm_compute. reflexivity.
      + rewrite H3. vm_compute. reflexivity.
  Qed.

  (* (c) the hypothesis [op_inert] is needed.  SendCommand "disable" at the default level
     privilege-exec, then SendCommand "show version": all other hypotheses of [history_levels]
     hold, the history runs, but the second command is executed in exec — d.CurrentPriv still
     says privilege-exec, so SendCommand trusts it and does not re-acquire; the conclusions of
     [history_levels] (log, final mode, cache invariant) all fail *)
  Definition bad_ops : list aop := [ OCmd [bs "disable"]; OCmd [bs "show version"] ].
  Definition bad_start : adev := mkADev PRIV [].

  Theorem inert_needed :
    tree_wf (n_levels h3_net) = true /\ ~ In [] (names (n_levels h3_net)) /\
    orders_ok h3_net /\ prompts_identify_upto_twins h3_net h3_prompt /\ unknown_not_twin h3_net h3_prompt /\
    cmds_ok (n_levels h3_net) /\ In (n_default h3_net) (names (n_levels h3_net)) /\
    In (d_mode bad_start) (names (n_levels h3_net)) /\
    (forall o, In o bad_ops -> In (op_target h3_net o) (names (n_levels h3_net))) /\
    cache_inv h3_net h3_prompt bad_start PRIV /\
    ~ Forall (op_inert h3_net) bad_ops /\
    exists d',
      run_aops h3_net h3_prompt bad_start PRIV bad_ops = Some (d', PRIV) /\
      d_log d' = [ (PRIV, bs "disable"); (EXEC, bs "show version") ] /\
      expected_log h3_net (d_mode bad_start) bad_ops = [ (PRIV, bs "disable"); (PRIV, bs "show version") ] /\
      d_mode d' = EXEC /\
      last (map (op_target h3_net) bad_ops) (d_mode bad_start) = PRIV /\
      ~ cache_inv h3_net h3_prompt d' PRIV.
  Proof.
    split; [exact h3_tree_wf|]. split; [exact h3_names_nonempty|]. split; [exact h3_orders_ok|].
    split; [exact h3_upto_twins|]. split; [exact h3_unknown_not_twin|]. split; [exact h3_cmds_ok|].
    split; [exact h3_default_level|].
    split; [cbn; right; left; reflexivity|].
    split.
    { intros o Ho. cbn in Ho. destruct Ho as [H|[H|[]]]; subst o; cbn; right; left; reflexivity. }
    split; [left; reflexivity|].
    split.
    { intros HF. inversion HF as [|? ? Ha _]; subst. unfold op_inert in Ha. cbn [op_level op_lines] in Ha.
      inversion Ha as [|? ? Hl _]; subst. vm_compute in Hl. discriminate Hl. }
    exists (mkADev EXEC [ (PRIV, bs "disable"); (EXEC, bs "show version") ]).
    split; [vm_compute; reflexivity|]. split; [reflexivity|]. split; [vm_compute; reflexivity|].
    split; [reflexivity|]. split; [vm_compute; reflexivity|].
    intros [H|[Hn _]].
    - vm_compute in H. discriminate H.
    - apply Hn. cbn. right; left; reflexivity.
  Qed.

  (* the same through the abstract statement *)
  Example inert_needed_abs_instance :
    exists dl d',
      lookup_level (n_levels h3_net) (n_default h3_net) = Some dl /\
      lv_deescalate dl = bs "disable" /\ lv_previous dl = EXEC /\
      run_aops h3_net h3_prompt bad_start (n_default h3_net) [OCmd [lv_deescalate dl]; OCmd [bs "show version"]]
        = Some (d', n_default h3_net) /\
      d_log d' = d_log bad_start ++ [(n_default h3_net, lv_deescalate dl); (lv_previous dl, bs "show version")].
  Proof.
    assert (E : exists dl, lookup_level (n_levels h3_net) (n_default h3_net) = Some dl /\
                           lv_deescalate dl = bs "disable" /\ lv_previous dl = EXEC)
      by (eexists; split; [vm_compute; reflexivity|split; vm_compute; reflexivity]).
    destruct E as [dl [L1 [L2 L3]]].
    destruct (inert_needed_abs h3_net h3_prompt dl (bs "show version") bad_start
                h3_tree_wf h3_names_nonempty h3_cmds_ok L1) as [d' [H1 [H2 _]]].
    - rewrite L3. discriminate.
    - discriminate.
    - reflexivity.
    - exists dl, d'. repeat split; assumption.
  Qed.
End HistExample.

Print Assumptions history_levels.
Print Assumptions history_op_segment.
Print Assumptions commands_at_default.
Print Assumptions configs_at_config_level.
Print Assumptions inert_needed_abs.
Print Assumptions HistExample.h3_session.
Print Assumptions HistExample.h3_session_thm.
Print Assumptions HistExample.inert_needed.
Print Assumptions HistExample.inert_needed_abs_instance.
