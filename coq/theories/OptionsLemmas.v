(* OptionsLemmas.v — proofs about Options.v (C19). *)
From Scrapli Require Import Bytes Regex PlatformTypes Generated Options.
Open Scope N_scope.

(* ---------- the model covers exactly the constructors of driver/options ---------- *)
Lemma check_inventory_true : check_inventory = true.
Proof. vm_compute. reflexivity. Qed.

Lemma check_platform_inventory_true : check_platform_inventory = true.
Proof. vm_compute. reflexivity. Qed.

Lemma opt_samples_complete : forall o, mem_bytes (opt_name o) modelled_constructors = true.
Proof. destruct o; vm_compute; reflexivity. Qed.

(* ---------- decidable equalities ---------- *)
Lemma field_beq_true f g : field_beq f g = true -> f = g.
Proof. apply internal_field_dec_bl. Qed.
Lemma field_beq_refl f : field_beq f f = true.
Proof. apply internal_field_dec_lb. reflexivity. Qed.
Lemma field_beq_neq f g : f <> g -> field_beq f g = false.
Proof. intros H. destruct (field_beq f g) eqn:E; [apply field_beq_true in E; contradiction | reflexivity]. Qed.
Lemma field_beq_false f g : field_beq f g = false -> f <> g.
Proof. intros E ->. rewrite field_beq_refl in E. discriminate. Qed.

Lemma obj_beq_true a b : obj_beq a b = true -> a = b.
Proof. apply internal_obj_dec_bl. Qed.
Lemma obj_beq_refl a : obj_beq a a = true.
Proof. apply internal_obj_dec_lb. reflexivity. Qed.
Lemma obj_beq_false a b : obj_beq a b = false -> a <> b.
Proof. intros E ->. rewrite obj_beq_refl in E. discriminate. Qed.
Lemma obj_beq_neq a b : a <> b -> obj_beq a b = false.
Proof. intros H. destruct (obj_beq a b) eqn:E; [apply obj_beq_true in E; contradiction | reflexivity]. Qed.

(* ---------- one assignment, seen through [get] ---------- *)
Lemma get_w f w s :
  get f (w_apply w s) = if field_beq f (w_field w) then w_val w (get f s) else get f s.
Proof.
  destruct w as [g v|g v|g v|g v|g v], f as [f|f|f|f]; destruct f, g; reflexivity.
Qed.

(* a record is determined by its fields *)
Ltac use_field H f := let E := fresh "E" in pose proof (H f) as E; simpl in E; injection E as E; subst.
Ltac use_fields H l := match l with ?f :: ?t => use_field H f; use_fields H t | _ => idtac end.
Lemma settings_ext s s' : (forall f, get f s = get f s') -> s = s'.
Proof.
  intros H. destruct s, s'.
  let l := eval unfold all_fields in all_fields in use_fields H l.
  reflexivity.
Qed.

Lemma all_fields_complete f : In f all_fields.
Proof. destruct f as [f|f|f|f]; destruct f; simpl; tauto. Qed.

(* ---------- lists of assignments ---------- *)
Lemma get_apply_writes f ws : forall s, get f (apply_writes ws s) = writes_val f ws (get f s).
Proof.
  unfold apply_writes, writes_val. induction ws as [|w ws IH]; intro s; simpl; [reflexivity|].
  rewrite IH, get_w. reflexivity.
Qed.

Lemma writes_val_notin f ws : (forall w, In w ws -> w_field w <> f) -> forall v, writes_val f ws v = v.
Proof.
  unfold writes_val. induction ws as [|w ws IH]; intros H v; simpl; [reflexivity|].
  rewrite field_beq_neq by (intro E; apply (H w (or_introl eq_refl)); auto).
  apply IH. intros w' Hw'. apply H. right. exact Hw'.
Qed.

(* every assignment of an option is on a field of the object it type-asserts *)
Lemma writes_target o w : In w (opt_writes o) -> field_obj (w_field w) = opt_target o.
Proof.
  destruct o; simpl; try (match goal with r : option _ |- _ => destruct r end; simpl);
    intros H; repeat (destruct H as [H|H]; [subst w; reflexivity|]); contradiction.
Qed.

Lemma writes_val_other_obj f o v : field_obj f <> opt_target o -> writes_val f (opt_writes o) v = v.
Proof.
  intros H. apply writes_val_notin. intros w Hw E. apply H. rewrite <- E. apply writes_target. exact Hw.
Qed.

Lemma names_dec o f : {names o f} + {~ names o f}.
Proof. apply in_dec. apply field_eq_dec. Qed.

Lemma writes_val_unnamed f o v : ~ names o f -> writes_val f (opt_writes o) v = v.
Proof.
  intros H. apply writes_val_notin. intros w Hw E. apply H. unfold names. rewrite <- E.
  apply in_map. exact Hw.
Qed.

(* only WithSystemTransportOpenArgs appends, and nothing assigns ExtraArgs otherwise *)
Definition is_app (w : write) : bool := match w with WApp _ _ => true | _ => false end.

Lemma app_only_extra o w : In w (opt_writes o) -> is_app w = true -> w_field w = FL FExtraArgs.
Proof.
  destruct o; simpl; try (match goal with r : option _ |- _ => destruct r end; simpl);
    intros H; repeat (destruct H as [H|H]; [subst w; simpl; intro; (reflexivity || discriminate)|]); contradiction.
Qed.

Lemma extra_only_app o w : In w (opt_writes o) -> w_field w = FL FExtraArgs -> is_app w = true.
Proof.
  destruct o; simpl; try (match goal with r : option _ |- _ => destruct r end; simpl);
    intros H; repeat (destruct H as [H|H]; [subst w; simpl; intro; (reflexivity || discriminate)|]); contradiction.
Qed.

(* ---------- one pass ---------- *)
Definition fail_on (ob : obj) (o : opt) : option oerr :=
  if negb (pre_ok o) then Some EBadOption
  else if obj_beq (opt_target o) ob then post_err o else None.

Lemma apply_on_char ob o s :
  apply_on ob o s = match fail_on ob o with
                    | Some e => Err e
                    | None => Ok (if obj_beq (opt_target o) ob then apply_writes (opt_writes o) s else s)
                    end.
Proof.
  unfold apply_on, fail_on. destruct (pre_ok o); simpl; [|reflexivity].
  destruct (obj_beq (opt_target o) ob); [|reflexivity]. destruct (post_err o); reflexivity.
Qed.

Lemma pass_app ob l1 l2 : forall s, pass ob (l1 ++ l2) s = bind (pass ob l1 s) (pass ob l2).
Proof.
  induction l1 as [|o l1 IH]; intro s; simpl; [reflexivity|].
  destruct (apply_on ob o s); simpl; auto.
Qed.

Lemma pass_no_panic ob opts : forall s, pass ob opts s <> Panic.
Proof.
  induction opts as [|o t IH]; intro s; simpl; [discriminate|].
  rewrite apply_on_char. destruct (fail_on ob o); simpl; [discriminate|apply IH].
Qed.

Lemma pass_ok_char ob opts : forall s s', pass ob opts s = Ok s' -> forall o, In o opts -> fail_on ob o = None.
Proof.
  induction opts as [|o t IH]; intros s s' H o' Hin; simpl in *; [contradiction|].
  rewrite apply_on_char in H. destruct (fail_on ob o) eqn:F; simpl in H; [discriminate|].
  destruct Hin as [<-|Hin]; [exact F|]. eapply IH; eauto.
Qed.

Lemma pass_ok_intro ob opts : (forall o, In o opts -> fail_on ob o = None) -> forall s, exists s', pass ob opts s = Ok s'.
Proof.
  induction opts as [|o t IH]; intros H s; simpl; [eauto|].
  rewrite apply_on_char, (H o (or_introl eq_refl)); simpl. apply IH. intros o' Ho'. apply H. right. exact Ho'.
Qed.

Lemma pass_err_char ob opts : forall s e, pass ob opts s = Err e -> exists o, In o opts /\ fail_on ob o = Some e.
Proof.
  induction opts as [|o t IH]; intros s e H; simpl in *; [discriminate|].
  rewrite apply_on_char in H. destruct (fail_on ob o) eqn:F; simpl in H.
  - inversion H; subst. exists o. auto.
  - destruct (IH _ _ H) as (o' & Hin & Ho'). exists o'. auto.
Qed.

(* the state after a successful pass: the fields of that object hold the fold of the list's
   assignments to them, every other field is untouched *)
Lemma pass_get ob f opts : forall s s', pass ob opts s = Ok s' ->
  get f s' = if obj_beq (field_obj f) ob then raw_val f opts (get f s) else get f s.
Proof.
  unfold raw_val. induction opts as [|o t IH]; intros s s' H; simpl in *.
  - inversion H; subst. destruct (obj_beq (field_obj f) ob); reflexivity.
  - rewrite apply_on_char in H. destruct (fail_on ob o); simpl in H; [discriminate|].
    rewrite (IH _ _ H). destruct (obj_beq (opt_target o) ob) eqn:T.
    + rewrite get_apply_writes. destruct (obj_beq (field_obj f) ob) eqn:F; [reflexivity|].
      apply writes_val_other_obj. apply obj_beq_true in T. apply obj_beq_false in F. congruence.
    + destruct (obj_beq (field_obj f) ob) eqn:F; [|reflexivity].
      rewrite writes_val_other_obj; [reflexivity|].
      apply obj_beq_true in F. apply obj_beq_false in T. congruence.
Qed.

(* ---------- several passes ---------- *)
Lemma passes_no_panic c obs opts : forall s, passes c obs opts s <> Panic.
Proof.
  induction obs as [|ob t IH]; intro s; simpl; [discriminate|].
  unfold pass_if. destruct (exists_obj c ob); simpl; [|apply IH].
  destruct (pass ob opts s) eqn:P; simpl; [apply IH|discriminate|]. exfalso. exact (pass_no_panic _ _ _ P).
Qed.

Lemma passes_ok_char c obs opts : forall s s', passes c obs opts s = Ok s' ->
  forall ob, In ob obs -> exists_obj c ob = true -> forall o, In o opts -> fail_on ob o = None.
Proof.
  induction obs as [|ob t IH]; intros s s' H ob' Hin Hex o Ho; simpl in *; [contradiction|].
  unfold pass_if in H. destruct Hin as [<-|Hin].
  - rewrite Hex in H. destruct (pass ob opts s) eqn:P; simpl in H; try discriminate.
    eapply pass_ok_char; eauto.
  - destruct (exists_obj c ob).
    + destruct (pass ob opts s) eqn:P; simpl in H; try discriminate. eapply IH; eauto.
    + simpl in H. eapply IH; eauto.
Qed.

Lemma passes_ok_intro c obs opts :
  (forall ob, In ob obs -> exists_obj c ob = true -> forall o, In o opts -> fail_on ob o = None) ->
  forall s, exists s', passes c obs opts s = Ok s'.
Proof.
  induction obs as [|ob t IH]; intros H s; simpl; [eauto|].
  unfold pass_if. destruct (exists_obj c ob) eqn:E.
  - destruct (pass_ok_intro ob opts (H ob (or_introl eq_refl) E) s) as [s1 ->]. simpl.
    apply IH. intros ob' Hin. apply H. right. exact Hin.
  - simpl. apply IH. intros ob' Hin. apply H. right. exact Hin.
Qed.

Lemma passes_err_char c obs opts : forall s e, passes c obs opts s = Err e ->
  exists ob o, In ob obs /\ exists_obj c ob = true /\ In o opts /\ fail_on ob o = Some e.
Proof.
  induction obs as [|ob t IH]; intros s e H; simpl in *; [discriminate|].
  unfold pass_if in H. destruct (exists_obj c ob) eqn:E.
  - destruct (pass ob opts s) eqn:P; simpl in H.
    + destruct (IH _ _ H) as (ob' & o & ? & ? & ? & ?). exists ob', o. auto.
    + inversion H; subst. destruct (pass_err_char _ _ _ _ P) as (o & ? & ?). exists ob, o. auto.
    + discriminate.
  - simpl in H. destruct (IH _ _ H) as (ob' & o & ? & ? & ? & ?). exists ob', o. auto.
Qed.

Lemma passes_get c f opts obs : NoDup obs -> forall s s', passes c obs opts s = Ok s' ->
  get f s' = if existsb (obj_beq (field_obj f)) obs && exists_obj c (field_obj f)
             then raw_val f opts (get f s) else get f s.
Proof.
  induction obs as [|ob t IH]; intros ND s s' H; simpl in *.
  - inversion H; reflexivity.
  - apply NoDup_cons_iff in ND. destruct ND as [Hnot ND]. unfold pass_if in H.
    destruct (obj_beq (field_obj f) ob) eqn:F; simpl.
    + assert (Fe : field_obj f = ob) by (apply obj_beq_true; exact F).
      assert (existsb (obj_beq (field_obj f)) t = false) as Hn.
      { destruct (existsb (obj_beq (field_obj f)) t) eqn:X; [|reflexivity]. exfalso. apply Hnot.
        apply existsb_exists in X. destruct X as (x & Hx & Ex). apply obj_beq_true in Ex. congruence. }
      destruct (exists_obj c ob) eqn:E.
      * destruct (pass ob opts s) as [s1| |] eqn:P; simpl in H; try discriminate.
        rewrite (IH ND _ _ H), Hn. simpl. rewrite (pass_get _ f _ _ _ P), F.
        rewrite Fe, E. reflexivity.
      * simpl in H. rewrite (IH ND _ _ H), Hn. simpl. rewrite Fe, E. reflexivity.
    + destruct (exists_obj c ob) eqn:E.
      * destruct (pass ob opts s) as [s1| |] eqn:P; simpl in H; try discriminate.
        rewrite (IH ND _ _ H). rewrite (pass_get _ f _ _ _ P), F. reflexivity.
      * simpl in H. apply (IH ND _ _ H).
Qed.

(* ---------- the one-fold view ---------- *)
Lemma raw_settled_get_gen f opts : forall s,
  get f (fold_left (fun s o => apply_writes (opt_writes o) s) opts s) = raw_val f opts (get f s).
Proof.
  unfold raw_val. induction opts as [|o t IH]; intro s; simpl; [reflexivity|].
  rewrite IH, get_apply_writes. reflexivity.
Qed.

Lemma raw_settled_get f opts : get f (raw_settled opts) = raw_val f opts (get f defaults).
Proof. apply raw_settled_get_gen. Qed.

Lemma settled_get_gen c f opts : forall s,
  get f (fold_left (fun s o => if exists_obj c (opt_target o) then apply_writes (opt_writes o) s else s) opts s)
  = if exists_obj c (field_obj f) then raw_val f opts (get f s) else get f s.
Proof.
  unfold raw_val. induction opts as [|o t IH]; intro s; simpl.
  - destruct (exists_obj c (field_obj f)); reflexivity.
  - rewrite IH. destruct (exists_obj c (opt_target o)) eqn:T.
    + rewrite get_apply_writes. destruct (exists_obj c (field_obj f)) eqn:F; [reflexivity|].
      apply writes_val_other_obj. intro E. rewrite E in F. congruence.
    + destruct (exists_obj c (field_obj f)) eqn:F; [|reflexivity].
      rewrite writes_val_other_obj; [reflexivity|]. intro E. rewrite E in F. congruence.
Qed.

Lemma settled_get c f opts :
  get f (settled c opts) = if exists_obj c (field_obj f) then raw_val f opts (get f defaults) else get f defaults.
Proof. apply settled_get_gen. Qed.

Definition all_objs : list obj := OGeneric :: OArgs :: later_objs.

Lemma all_objs_nodup : NoDup all_objs.
Proof. repeat constructor; simpl; intuition discriminate. Qed.

Lemma all_objs_complete ob : In ob all_objs.
Proof. destruct ob; simpl; tauto. Qed.

Lemma in_all_objs f : existsb (obj_beq (field_obj f)) all_objs = true.
Proof. destruct (field_obj f); reflexivity. Qed.

(* the three stages of [build] are one [passes] over all objects *)
Lemma chain_passes c opts s1 s2 s3 :
  pass OGeneric opts defaults = Ok s1 -> pass OArgs opts s1 = Ok s2 ->
  passes c later_objs opts s2 = Ok s3 -> passes c all_objs opts defaults = Ok s3.
Proof.
  intros P1 P2 P3. unfold all_objs. cbn [passes]. unfold pass_if at 1. cbn [exists_obj]. rewrite P1.
  cbn [bind]. unfold pass_if at 1. cbn [exists_obj]. rewrite P2. cbn [bind]. exact P3.
Qed.

Lemma chain_settled c opts s3 : passes c all_objs opts defaults = Ok s3 -> s3 = settled c opts.
Proof.
  intros P. apply settings_ext. intro f.
  rewrite (passes_get c f opts all_objs all_objs_nodup _ _ P), in_all_objs, settled_get. reflexivity.
Qed.

Lemma ctx_eq k opts s1 s2 :
  pass OGeneric opts defaults = Ok s1 -> pass OArgs opts s1 = Ok s2 ->
  mkCtx k (getS FTransportType s1) (negb (getN FUserImpl s2 =? 0)) = ctx_of k opts.
Proof.
  intros P1 P2. unfold ctx_of.
  pose proof (pass_get _ (FS FTransportType) _ _ _ P1) as A.
  pose proof (pass_get _ (FN FUserImpl) _ _ _ P2) as B.
  pose proof (pass_get _ (FN FUserImpl) _ _ _ P1) as B1.
  change (obj_beq (field_obj (FS FTransportType)) OGeneric) with true in A.
  change (obj_beq (field_obj (FN FUserImpl)) OArgs) with true in B.
  change (obj_beq (field_obj (FN FUserImpl)) OGeneric) with false in B1.
  cbv iota in A, B, B1.
  rewrite B1 in B. rewrite <- raw_settled_get in A, B. unfold get in A, B.
  congruence.
Qed.

(* closed form of a successful construction *)
Definition spec (k : ctor_kind) (opts : list opt) : settings :=
  let c := ctx_of k opts in derive c (settled c opts).
Definition valid (k : ctor_kind) (opts : list opt) : bool :=
  let c := ctx_of k opts in forallb (opt_ok c) opts && net_ok c (settled c opts).

Lemma fail_on_opt_fail c ob o e : exists_obj c ob = true -> fail_on ob o = Some e -> opt_fail c o = Some e.
Proof.
  unfold fail_on, opt_fail. intros E. destruct (pre_ok o); simpl; [|auto].
  destruct (obj_beq (opt_target o) ob) eqn:T; [|discriminate]. apply obj_beq_true in T. rewrite T, E. auto.
Qed.

Lemma opt_fail_none_on c ob o : exists_obj c ob = true -> opt_fail c o = None -> fail_on ob o = None.
Proof.
  intros E H. destruct (fail_on ob o) eqn:F; [|reflexivity].
  rewrite (fail_on_opt_fail _ _ _ _ E F) in H. discriminate.
Qed.

Lemma opt_fail_some_on c o e : opt_fail c o = Some e ->
  exists ob, exists_obj c ob = true /\ fail_on ob o = Some e.
Proof.
  unfold opt_fail, fail_on. destruct (pre_ok o); simpl.
  - destruct (exists_obj c (opt_target o)) eqn:E; [|discriminate]. intros H.
    exists (opt_target o). rewrite obj_beq_refl. auto.
  - intros H. exists OGeneric. auto.
Qed.

Lemma forallb_opt_ok c opts : forallb (opt_ok c) opts = true <-> (forall o, In o opts -> opt_fail c o = None).
Proof.
  rewrite forallb_forall. unfold opt_ok. split; intros H o Ho; specialize (H o Ho);
    destruct (opt_fail c o); congruence.
Qed.

Theorem build_ok_iff k opts s : build k opts = Ok s <-> valid k opts = true /\ s = spec k opts.
Proof.
  unfold valid, spec, build. split.
  - destruct (pass OGeneric opts defaults) as [s1| |] eqn:P1; cbn [bind]; try discriminate.
    destruct (pass OArgs opts s1) as [s2| |] eqn:P2; cbn [bind]; try discriminate.
    rewrite (ctx_eq k opts s1 s2 P1 P2). set (c := ctx_of k opts).
    destruct (passes c later_objs opts s2) as [s3| |] eqn:P3; cbn [bind]; try discriminate.
    pose proof (chain_passes c opts s1 s2 s3 P1 P2 P3) as P.
    rewrite (chain_settled c opts s3 P) in *. unfold finish.
    destruct (net_ok c (settled c opts)) eqn:NO; [|discriminate]. intros H. inversion H; subst.
    split; [|reflexivity]. rewrite andb_true_r. apply forallb_opt_ok. intros o Ho.
    destruct (opt_fail c o) eqn:F; [|reflexivity]. exfalso.
    destruct (opt_fail_some_on _ _ _ F) as (ob & Hex & Hf).
    rewrite (passes_ok_char c all_objs opts _ _ P ob (all_objs_complete ob) Hex o Ho) in Hf. discriminate.
  - set (c := ctx_of k opts). intros [V ->]. apply andb_true_iff in V. destruct V as [V NO].
    rewrite forallb_opt_ok in V.
    assert (Hall : forall ob, In ob all_objs -> exists_obj c ob = true -> forall o, In o opts -> fail_on ob o = None).
    { intros ob _ Hex o Ho. apply (opt_fail_none_on c); auto. }
    destruct (pass_ok_intro OGeneric opts (Hall OGeneric (all_objs_complete _) eq_refl) defaults) as [s1 P1].
    destruct (pass_ok_intro OArgs opts (Hall OArgs (all_objs_complete _) eq_refl) s1) as [s2 P2].
    rewrite P1; cbn [bind]. rewrite P2; cbn [bind]. rewrite (ctx_eq k opts s1 s2 P1 P2). fold c.
    destruct (passes_ok_intro c later_objs opts (fun ob Hin => Hall ob (all_objs_complete ob)) s2) as [s3 P3].
    rewrite P3; cbn [bind]. pose proof (chain_passes c opts s1 s2 s3 P1 P2 P3) as P.
    rewrite (chain_settled c opts s3 P). unfold finish. rewrite NO. reflexivity.
Qed.

Theorem build_no_panic k opts : build k opts <> Panic.
Proof.
  unfold build. destruct (pass OGeneric opts defaults) as [s1| |] eqn:P1; cbn [bind]; try discriminate.
  2: exact (fun _ => pass_no_panic _ _ _ P1).
  destruct (pass OArgs opts s1) as [s2| |] eqn:P2; cbn [bind]; try discriminate.
  2: exact (fun _ => pass_no_panic _ _ _ P2).
  match goal with |- bind (passes ?c ?l ?o ?s) _ <> _ => destruct (passes c l o s) as [s3| |] eqn:P3 end; cbn [bind]; try discriminate.
  - unfold finish. match goal with |- (if ?b then _ else _) <> _ => destruct b end; discriminate.
  - exact (fun _ => passes_no_panic _ _ _ _ P3).
Qed.

(* an error of [build] is the failure of some option of the list in this construction, or the
   network driver's final check *)
Theorem build_err_char k opts e : build k opts = Err e ->
  (exists o, In o opts /\ opt_fail (ctx_of k opts) o = Some e)
  \/ (e = EBadOption /\ net_ok (ctx_of k opts) (settled (ctx_of k opts) opts) = false).
Proof.
  unfold build. destruct (pass OGeneric opts defaults) as [s1| |] eqn:P1; cbn [bind]; try discriminate.
  2: { intros H; inversion H; subst. left. destruct (pass_err_char _ _ _ _ P1) as (o & Ho & F).
       exists o. split; [exact Ho|]. apply (fail_on_opt_fail _ OGeneric); auto. }
  destruct (pass OArgs opts s1) as [s2| |] eqn:P2; cbn [bind]; try discriminate.
  2: { intros H; inversion H; subst. left. destruct (pass_err_char _ _ _ _ P2) as (o & Ho & F).
       exists o. split; [exact Ho|]. apply (fail_on_opt_fail _ OArgs); auto. }
  rewrite (ctx_eq k opts s1 s2 P1 P2). set (c := ctx_of k opts).
  destruct (passes c later_objs opts s2) as [s3| |] eqn:P3; cbn [bind]; try discriminate.
  - pose proof (chain_passes c opts s1 s2 s3 P1 P2 P3) as P.
    rewrite (chain_settled c opts s3 P). unfold finish.
    destruct (net_ok c (settled c opts)) eqn:NO; [discriminate|]. intros H; inversion H. right. auto.
  - intros H; inversion H; subst. left.
    destruct (passes_err_char _ _ _ _ _ P3) as (ob & o & _ & Hex & Ho & F).
    exists o. split; [exact Ho|]. apply (fail_on_opt_fail _ ob); auto.
Qed.
