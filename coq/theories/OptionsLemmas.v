(* OptionsLemmas.v — proofs about Options.v (C19). *)
From Scrapli Require Import Bytes Regex PlatformTypes Generated Options.
Open Scope N_scope.

(* ---------- the model covers exactly the constructors of driver/options ---------- *)
Lemma check_inventory_true : check_inventory = true.
Proof. vm_compute. reflexivity. Qed.

Lemma check_platform_inventory_true : check_platform_inventory = true.
Proof. vm_compute. reflexivity. Qed.

Lemma opt_samples_complete : forall o, mem_bytes (opt_name o) modelled_constructors = true.
Proof. destruct o; vm_compute; reflexivity. Qed.

(* ---------- decidable equalities ---------- *)
Lemma field_beq_true f g : field_beq f g = true -> f = g.
Proof. apply internal_field_dec_bl. Qed.
Lemma field_beq_refl f : field_beq f f = true.
Proof. apply internal_field_dec_lb. reflexivity. Qed.
Lemma field_beq_neq f g : f <> g -> field_beq f g = false.
Proof. intros H. destruct (field_beq f g) eqn:E; [apply field_beq_true in E; contradiction | reflexivity]. Qed.
Lemma field_beq_false f g : field_beq f g = false -> f <> g.
Proof. intros E ->. rewrite field_beq_refl in E. discriminate. Qed.

Lemma obj_beq_true a b : obj_beq a b = true -> a = b.
Proof. apply internal_obj_dec_bl. Qed.
Lemma obj_beq_refl a : obj_beq a a = true.
Proof. apply internal_obj_dec_lb. reflexivity. Qed.
Lemma obj_beq_false a b : obj_beq a b = false -> a <> b.
Proof. intros E ->. rewrite obj_beq_refl in E. discriminate. Qed.
Lemma obj_beq_neq a b : a <> b -> obj_beq a b = false.
Proof. intros H. destruct (obj_beq a b) eqn:E; [apply obj_beq_true in E; contradiction | reflexivity]. Qed.

(* ---------- one assignment, seen through [get] ---------- *)
Lemma get_w f w s :
  get f (w_apply w s) = if field_beq f (w_field w) then w_val w (get f s) else get f s.
Proof.
  destruct w as [g v|g v|g v|g v|g v], f as [f|f|f|f]; destruct f, g; reflexivity.
Qed.

(* a record is determined by its fields *)
Ltac use_field H f := let E := fresh "E" in pose proof (H f) as E; simpl in E; injection E as E; subst.
Ltac use_fields H l := match l with ?f :: ?t => use_field H f; use_fields H t | _ => idtac end.
Lemma settings_ext s s' : (forall f, get f s = get f s') -> s = s'.
Proof.
  intros H. destruct s, s'.
  let l := eval unfold all_fields in all_fields in use_fields H l.
  reflexivity.
Qed.

Lemma all_fields_complete f : In f all_fields.
Proof. destruct f as [f|f|f|f]; destruct f; simpl; tauto. Qed.

(* ---------- lists of assignments ---------- *)
Lemma get_apply_writes f ws : forall s, get f (apply_writes ws s) = writes_val f ws (get f s).
Proof.
  unfold apply_writes, writes_val. induction ws as [|w ws IH]; intro s; simpl; [reflexivity|].
  rewrite IH, get_w. reflexivity.
Qed.

Lemma writes_val_notin f ws : (forall w, In w ws -> w_field w <> f) -> forall v, writes_val f ws v = v.
Proof.
  unfold writes_val. induction ws as [|w ws IH]; intros H v; simpl; [reflexivity|].
  rewrite field_beq_neq by (intro E; apply (H w (or_introl eq_refl)); auto).
  apply IH. intros w' Hw'. apply H. right. exact Hw'.
Qed.

(* every assignment of an option is on a field of the object it type-asserts *)
Lemma writes_target o w : In w (opt_writes o) -> field_obj (w_field w) = opt_target o.
Proof.
  destruct o; simpl; try (match goal with r : option _ |- _ => destruct r end; simpl);
    intros H; repeat (destruct H as [H|H]; [subst w; reflexivity|]); contradiction.
Qed.

Lemma writes_val_other_obj f o v : field_obj f <> opt_target o -> writes_val f (opt_writes o) v = v.
Proof.
  intros H. apply writes_val_notin. intros w Hw E. apply H. rewrite <- E. apply writes_target. exact Hw.
Qed.

Lemma names_dec o f : {names o f} + {~ names o f}.
Proof. apply in_dec. apply field_eq_dec. Qed.

Lemma writes_val_unnamed f o v : ~ names o f -> writes_val f (opt_writes o) v = v.
Proof.
  intros H. apply writes_val_notin. intros w Hw E. apply H. unfold names. rewrite <- E.
  apply in_map. exact Hw.
Qed.

(* only WithSystemTransportOpenArgs appends, and nothing assigns ExtraArgs otherwise *)
Definition is_app (w : write) : bool := match w with WApp _ _ => true | _ => false end.

Lemma app_only_extra o w : In w (opt_writes o) -> is_app w = true -> w_field w = FL FExtraArgs.
Proof.
  destruct o; simpl; try (match goal with r : option _ |- _ => destruct r end; simpl);
    intros H; repeat (destruct H as [H|H]; [subst w; simpl; intro; (reflexivity || discriminate)|]); contradiction.
Qed.

Lemma extra_only_app o w : In w (opt_writes o) -> w_field w = FL FExtraArgs -> is_app w = true.
Proof.
  destruct o; simpl; try (match goal with r : option _ |- _ => destruct r end; simpl);
    intros H; repeat (destruct H as [H|H]; [subst w; simpl; intro; (reflexivity || discriminate)|]); contradiction.
Qed.

(* ---------- one pass ---------- *)
Definition fail_on (ob : obj) (o : opt) : option oerr :=
  if negb (pre_ok o) then Some EBadOption
  else if obj_beq (opt_target o) ob then post_err o else None.

Lemma apply_on_char ob o s :
  apply_on ob o s = match fail_on ob o with
                    | Some e => Err e
                    | None => Ok (if obj_beq (opt_target o) ob then apply_writes (opt_writes o) s else s)
                    end.
Proof.
  unfold apply_on, fail_on. destruct (pre_ok o); simpl; [|reflexivity].
  destruct (obj_beq (opt_target o) ob); [|reflexivity]. destruct (post_err o); reflexivity.
Qed.

Lemma pass_app ob l1 l2 : forall s, pass ob (l1 ++ l2) s = bind (pass ob l1 s) (pass ob l2).
Proof.
  induction l1 as [|o l1 IH]; intro s; simpl; [reflexivity|].
  destruct (apply_on ob o s); simpl; auto.
Qed.

Lemma pass_no_panic ob opts : forall s, pass ob opts s <> Panic.
Proof.
  induction opts as [|o t IH]; intro s; simpl; [discriminate|].
  rewrite apply_on_char. destruct (fail_on ob o); simpl; [discriminate|apply IH].
Qed.

Lemma pass_ok_char ob opts : forall s s', pass ob opts s = Ok s' -> forall o, In o opts -> fail_on ob o = None.
Proof.
  induction opts as [|o t IH]; intros s s' H o' Hin; simpl in *; [contradiction|].
  rewrite apply_on_char in H. destruct (fail_on ob o) eqn:F; simpl in H; [discriminate|].
  destruct Hin as [<-|Hin]; [exact F|]. eapply IH; eauto.
Qed.

Lemma pass_ok_intro ob opts : (forall o, In o opts -> fail_on ob o = None) -> forall s, exists s', pass ob opts s = Ok s'.
Proof.
  induction opts as [|o t IH]; intros H s; simpl; [eauto|].
  rewrite apply_on_char, (H o (or_introl eq_refl)); simpl. apply IH. intros o' Ho'. apply H. right. exact Ho'.
Qed.

Lemma pass_err_char ob opts : forall s e, pass ob opts s = Err e -> exists o, In o opts /\ fail_on ob o = Some e.
Proof.
  induction opts as [|o t IH]; intros s e H; simpl in *; [discriminate|].
  rewrite apply_on_char in H. destruct (fail_on ob o) eqn:F; simpl in H.
  - inversion H; subst. exists o. auto.
  - destruct (IH _ _ H) as (o' & Hin & Ho'). exists o'. auto.
Qed.

(* the state after a successful pass: the fields of that object hold the fold of the list's
   assignments to them, every other field is untouched *)
Lemma pass_get ob f opts : forall s s', pass ob opts s = Ok s' ->
  get f s' = if obj_beq (field_obj f) ob then raw_val f opts (get f s) else get f s.
Proof.
  unfold raw_val. induction opts as [|o t IH]; intros s s' H; simpl in *.
  - inversion H; subst. destruct (obj_beq (field_obj f) ob); reflexivity.
  - rewrite apply_on_char in H. destruct (fail_on ob o); simpl in H; [discriminate|].
    rewrite (IH _ _ H). destruct (obj_beq (opt_target o) ob) eqn:T.
    + rewrite get_apply_writes. destruct (obj_beq (field_obj f) ob) eqn:F; [reflexivity|].
      apply writes_val_other_obj. apply obj_beq_true in T. apply obj_beq_false in F. congruence.
    + destruct (obj_beq (field_obj f) ob) eqn:F; [|reflexivity].
      rewrite writes_val_other_obj; [reflexivity|].
      apply obj_beq_true in F. apply obj_beq_false in T. congruence.
Qed.

(* ---------- several passes ---------- *)
Lemma passes_no_panic c obs opts : forall s, passes c obs opts s <> Panic.
Proof.
  induction obs as [|ob t IH]; intro s; simpl; [discriminate|].
  unfold pass_if. destruct (exists_obj c ob); simpl; [|apply IH].
  destruct (pass ob opts s) eqn:P; simpl; [apply IH|discriminate|]. exfalso. exact (pass_no_panic _ _ _ P).
Qed.

Lemma passes_ok_char c obs opts : forall s s', passes c obs opts s = Ok s' ->
  forall ob, In ob obs -> exists_obj c ob = true -> forall o, In o opts -> fail_on ob o = None.
Proof.
  induction obs as [|ob t IH]; intros s s' H ob' Hin Hex o Ho; simpl in *; [contradiction|].
  unfold pass_if in H. destruct Hin as [<-|Hin].
  - rewrite Hex in H. destruct (pass ob opts s) eqn:P; simpl in H; try discriminate.
    eapply pass_ok_char; eauto.
  - destruct (exists_obj c ob).
    + destruct (pass ob opts s) eqn:P; simpl in H; try discriminate. eapply IH; eauto.
    + simpl in H. eapply IH; eauto.
Qed.

Lemma passes_ok_intro c obs opts :
  (forall ob, In ob obs -> exists_obj c ob = true -> forall o, In o opts -> fail_on ob o = None) ->
  forall s, exists s', passes c obs opts s = Ok s'.
Proof.
  induction obs as [|ob t IH]; intros H s; simpl; [eauto|].
  unfold pass_if. destruct (exists_obj c ob) eqn:E.
  - destruct (pass_ok_intro ob opts (H ob (or_introl eq_refl) E) s) as [s1 ->]. simpl.
    apply IH. intros ob' Hin. apply H. right. exact Hin.
  - simpl. apply IH. intros ob' Hin. apply H. right. exact Hin.
Qed.

Lemma passes_err_char c obs opts : forall s e, passes c obs opts s = Err e ->
  exists ob o, In ob obs /\ exists_obj c ob = true /\ In o opts /\ fail_on ob o = Some e.
Proof.
  induction obs as [|ob t IH]; intros s e H; simpl in *; [discriminate|].
  unfold pass_if in H. destruct (exists_obj c ob) eqn:E.
  - destruct (pass ob opts s) eqn:P; simpl in H.
    + destruct (IH _ _ H) as (ob' & o & ? & ? & ? & ?). exists ob', o. auto.
    + inversion H; subst. destruct (pass_err_char _ _ _ _ P) as (o & ? & ?). exists ob, o. auto.
    + discriminate.
  - simpl in H. destruct (IH _ _ H) as (ob' & o & ? & ? & ? & ?). exists ob', o. auto.
Qed.

Lemma passes_get c f opts obs : NoDup obs -> forall s s', passes c obs opts s = Ok s' ->
  get f s' = if existsb (obj_beq (field_obj f)) obs && exists_obj c (field_obj f)
             then raw_val f opts (get f s) else get f s.
Proof.
  induction obs as [|ob t IH]; intros ND s s' H; simpl in *.
  - inversion H; reflexivity.
  - apply NoDup_cons_iff in ND. destruct ND as [Hnot ND]. unfold pass_if in H.
    destruct (obj_beq (field_obj f) ob) eqn:F; simpl.
    + assert (Fe : field_obj f = ob) by (apply obj_beq_true; exact F).
      assert (existsb (obj_beq (field_obj f)) t = false) as Hn.
      { destruct (existsb (obj_beq (field_obj f)) t) eqn:X; [|reflexivity]. exfalso. apply Hnot.
        apply existsb_exists in X. destruct X as (x & Hx & Ex). apply obj_beq_true in Ex. congruence. }
      destruct (exists_obj c ob) eqn:E.
      * destruct (pass ob opts s) as [s1| |] eqn:P; simpl in H; try discriminate.
        rewrite (IH ND _ _ H), Hn. simpl. rewrite (pass_get _ f _ _ _ P), F.
        rewrite Fe, E. reflexivity.
      * simpl in H. rewrite (IH ND _ _ H), Hn. simpl. rewrite Fe, E. reflexivity.
    + destruct (exists_obj c ob) eqn:E.
      * destruct (pass ob opts s) as [s1| |] eqn:P; simpl in H; try discriminate.
        rewrite (IH ND _ _ H). rewrite (pass_get _ f _ _ _ P), F. reflexivity.
      * simpl in H. apply (IH ND _ _ H).
Qed.

(* ---------- the one-fold view ---------- *)
Lemma raw_settled_get_gen f opts : forall s,
  get f (fold_left (fun s o => apply_writes (opt_writes o) s) opts s) = raw_val f opts (get f s).
Proof.
  unfold raw_val. induction opts as [|o t IH]; intro s; simpl; [reflexivity|].
  rewrite IH, get_apply_writes. reflexivity.
Qed.

Lemma raw_settled_get f opts : get f (raw_settled opts) = raw_val f opts (get f defaults).
Proof. apply raw_settled_get_gen. Qed.

Lemma settled_get_gen c f opts : forall s,
  get f (fold_left (fun s o => if exists_obj c (opt_target o) then apply_writes (opt_writes o) s else s) opts s)
  = if exists_obj c (field_obj f) then raw_val f opts (get f s) else get f s.
Proof.
  unfold raw_val. induction opts as [|o t IH]; intro s; simpl.
  - destruct (exists_obj c (field_obj f)); reflexivity.
  - rewrite IH. destruct (exists_obj c (opt_target o)) eqn:T.
    + rewrite get_apply_writes. destruct (exists_obj c (field_obj f)) eqn:F; [reflexivity|].
      apply writes_val_other_obj. intro E. rewrite E in F. congruence.
    + destruct (exists_obj c (field_obj f)) eqn:F; [|reflexivity].
      rewrite writes_val_other_obj; [reflexivity|]. intro E. rewrite E in F. congruence.
Qed.

Lemma settled_get c f opts :
  get f (settled c opts) = if exists_obj c (field_obj f) then raw_val f opts (get f defaults) else get f defaults.
Proof. apply settled_get_gen. Qed.

Definition all_objs : list obj := OGeneric :: OArgs :: later_objs.

Lemma all_objs_nodup : NoDup all_objs.
Proof. repeat constructor; simpl; intuition discriminate. Qed.

Lemma all_objs_complete ob : In ob all_objs.
Proof. destruct ob; simpl; tauto. Qed.

Lemma in_all_objs f : existsb (obj_beq (field_obj f)) all_objs = true.
Proof. destruct (field_obj f); reflexivity. Qed.

(* the three stages of [build] are one [passes] over all objects *)
Lemma chain_passes c opts s1 s2 s3 :
  pass OGeneric opts defaults = Ok s1 -> pass OArgs opts s1 = Ok s2 ->
  passes c later_objs opts s2 = Ok s3 -> passes c all_objs opts defaults = Ok s3.
Proof.
  intros P1 P2 P3. unfold all_objs. cbn [passes]. unfold pass_if at 1. cbn [exists_obj]. rewrite P1.
  cbn [bind]. unfold pass_if at 1. cbn [exists_obj]. rewrite P2. cbn [bind]. exact P3.
Qed.

Lemma chain_settled c opts s3 : passes c all_objs opts defaults = Ok s3 -> s3 = settled c opts.
Proof.
  intros P. apply settings_ext. intro f.
  rewrite (passes_get c f opts all_objs all_objs_nodup _ _ P), in_all_objs, settled_get. reflexivity.
Qed.

Lemma ctx_eq k opts s1 s2 :
  pass OGeneric opts defaults = Ok s1 -> pass OArgs opts s1 = Ok s2 ->
  mkCtx k (getS FTransportType s1) (negb (getN FUserImpl s2 =? 0)) = ctx_of k opts.
Proof.
  intros P1 P2. unfold ctx_of.
  pose proof (pass_get _ (FS FTransportType) _ _ _ P1) as A.
  pose proof (pass_get _ (FN FUserImpl) _ _ _ P2) as B.
  pose proof (pass_get _ (FN FUserImpl) _ _ _ P1) as B1.
  change (obj_beq (field_obj (FS FTransportType)) OGeneric) with true in A.
  change (obj_beq (field_obj (FN FUserImpl)) OArgs) with true in B.
  change (obj_beq (field_obj (FN FUserImpl)) OGeneric) with false in B1.
  cbv iota in A, B, B1.
  rewrite B1 in B. rewrite <- raw_settled_get in A, B. unfold get in A, B.
  congruence.
Qed.

(* closed form of a successful construction *)
Definition spec (k : ctor_kind) (opts : list opt) : settings :=
  let c := ctx_of k opts in derive c (settled c opts).
Definition valid (k : ctor_kind) (opts : list opt) : bool :=
  let c := ctx_of k opts in forallb (opt_ok c) opts && net_ok c (settled c opts).

Lemma fail_on_opt_fail c ob o e : exists_obj c ob = true -> fail_on ob o = Some e -> opt_fail c o = Some e.
Proof.
  unfold fail_on, opt_fail. intros E. destruct (pre_ok o); simpl; [|auto].
  destruct (obj_beq (opt_target o) ob) eqn:T; [|discriminate]. apply obj_beq_true in T. rewrite T, E. auto.
Qed.

Lemma opt_fail_none_on c ob o : exists_obj c ob = true -> opt_fail c o = None -> fail_on ob o = None.
Proof.
  intros E H. destruct (fail_on ob o) eqn:F; [|reflexivity].
  rewrite (fail_on_opt_fail _ _ _ _ E F) in H. discriminate.
Qed.

Lemma opt_fail_some_on c o e : opt_fail c o = Some e ->
  exists ob, exists_obj c ob = true /\ fail_on ob o = Some e.
Proof.
  unfold opt_fail, fail_on. destruct (pre_ok o); simpl.
  - destruct (exists_obj c (opt_target o)) eqn:E; [|discriminate]. intros H.
    exists (opt_target o). rewrite obj_beq_refl. auto.
  - intros H. exists OGeneric. auto.
Qed.

Lemma forallb_opt_ok c opts : forallb (opt_ok c) opts = true <-> (forall o, In o opts -> opt_fail c o = None).
Proof.
  rewrite forallb_forall. unfold opt_ok. split; intros H o Ho; specialize (H o Ho);
    destruct (opt_fail c o); congruence.
Qed.

Theorem build_ok_iff k opts s : build k opts = Ok s <-> valid k opts = true /\ s = spec k opts.
Proof.
  unfold valid, spec, build. split.
  - destruct (pass OGeneric opts defaults) as [s1| |] eqn:P1; cbn [bind]; try discriminate.
    destruct (pass OArgs opts s1) as [s2| |] eqn:P2; cbn [bind]; try discriminate.
    rewrite (ctx_eq k opts s1 s2 P1 P2). set (c := ctx_of k opts).
    destruct (passes c later_objs opts s2) as [s3| |] eqn:P3; cbn [bind]; try discriminate.
    pose proof (chain_passes c opts s1 s2 s3 P1 P2 P3) as P.
    rewrite (chain_settled c opts s3 P) in *. unfold finish.
    destruct (net_ok c (settled c opts)) eqn:NO; [|discriminate]. intros H. inversion H; subst.
    split; [|reflexivity]. rewrite andb_true_r. apply forallb_opt_ok. intros o Ho.
    destruct (opt_fail c o) eqn:F; [|reflexivity]. exfalso.
    destruct (opt_fail_some_on _ _ _ F) as (ob & Hex & Hf).
    rewrite (passes_ok_char c all_objs opts _ _ P ob (all_objs_complete ob) Hex o Ho) in Hf. discriminate.
  - set (c := ctx_of k opts). intros [V ->]. apply andb_true_iff in V. destruct V as [V NO].
    rewrite forallb_opt_ok in V.
    assert (Hall : forall ob, In ob all_objs -> exists_obj c ob = true -> forall o, In o opts -> fail_on ob o = None).
    { intros ob _ Hex o Ho. apply (opt_fail_none_on c); auto. }
    destruct (pass_ok_intro OGeneric opts (Hall OGeneric (all_objs_complete _) eq_refl) defaults) as [s1 P1].
    destruct (pass_ok_intro OArgs opts (Hall OArgs (all_objs_complete _) eq_refl) s1) as [s2 P2].
    rewrite P1; cbn [bind]. rewrite P2; cbn [bind]. rewrite (ctx_eq k opts s1 s2 P1 P2). fold c.
    destruct (passes_ok_intro c later_objs opts (fun ob Hin => Hall ob (all_objs_complete ob)) s2) as [s3 P3].
    rewrite P3; cbn [bind]. pose proof (chain_passes c opts s1 s2 s3 P1 P2 P3) as P.
    rewrite (chain_settled c opts s3 P). unfold finish. rewrite NO. reflexivity.
Qed.

Theorem build_no_panic k opts : build k opts <> Panic.
Proof.
  unfold build. destruct (pass OGeneric opts defaults) as [s1| |] eqn:P1; cbn [bind]; try discriminate.
  2: exact (fun _ => pass_no_panic _ _ _ P1).
  destruct (pass OArgs opts s1) as [s2| |] eqn:P2; cbn [bind]; try discriminate.
  2: exact (fun _ => pass_no_panic _ _ _ P2).
  match goal with |- bind (passes ?c ?l ?o ?s) _ <> _ => destruct (passes c l o s) as [s3| |] eqn:P3 end; cbn [bind]; try discriminate.
  - unfold finish. match goal with |- (if ?b then _ else _) <> _ => destruct b end; discriminate.
  - exact (fun _ => passes_no_panic _ _ _ _ P3).
Qed.

(* an error of [build] is the failure of some option of the list in this construction, or the
   network driver's final check *)
Theorem build_err_char k opts e : build k opts = Err e ->
  (exists o, In o opts /\ opt_fail (ctx_of k opts) o = Some e)
  \/ (e = EBadOption /\ net_ok (ctx_of k opts) (settled (ctx_of k opts) opts) = false).
Proof.
  unfold build. destruct (pass OGeneric opts defaults) as [s1| |] eqn:P1; cbn [bind]; try discriminate.
  2: { intros H; inversion H; subst. left. destruct (pass_err_char _ _ _ _ P1) as (o & Ho & F).
       exists o. split; [exact Ho|]. apply (fail_on_opt_fail _ OGeneric); auto. }
  destruct (pass OArgs opts s1) as [s2| |] eqn:P2; cbn [bind]; try discriminate.
  2: { intros H; inversion H; subst. left. destruct (pass_err_char _ _ _ _ P2) as (o & Ho & F).
       exists o. split; [exact Ho|]. apply (fail_on_opt_fail _ OArgs); auto. }
  rewrite (ctx_eq k opts s1 s2 P1 P2). set (c := ctx_of k opts).
  destruct (passes c later_objs opts s2) as [s3| |] eqn:P3; cbn [bind]; try discriminate.
  - pose proof (chain_passes c opts s1 s2 s3 P1 P2 P3) as P.
    rewrite (chain_settled c opts s3 P). unfold finish.
    destruct (net_ok c (settled c opts)) eqn:NO; [discriminate|]. intros H; inversion H. right. auto.
  - intros H; inversion H; subst. left.
    destruct (passes_err_char _ _ _ _ _ P3) as (ob & o & _ & Hex & Ho & F).
    exists o. split; [exact Ho|]. apply (fail_on_opt_fail _ ob); auto.
Qed.

(* ---------- [build] is the fold of the list, in list order, over the existing objects ---------- *)
Lemma apply_opt_char c o s :
  apply_opt c o s = match opt_fail c o with
                    | Some e => Err e
                    | None => Ok (if exists_obj c (opt_target o) then apply_writes (opt_writes o) s else s)
                    end.
Proof.
  unfold apply_opt, opt_fail. destruct (pre_ok o); simpl; [|reflexivity].
  destruct (exists_obj c (opt_target o)); [|reflexivity]. destruct (post_err o); reflexivity.
Qed.

Lemma fold_opts_ok c opts : forall s s', fold_opts c opts s = Ok s' <->
  (forall o, In o opts -> opt_fail c o = None)
  /\ s' = fold_left (fun s o => if exists_obj c (opt_target o) then apply_writes (opt_writes o) s else s) opts s.
Proof.
  induction opts as [|o t IH]; intros s s'; simpl.
  - split; [intros H; inversion H; split; [intros ? []|reflexivity] | intros [_ ->]; reflexivity].
  - rewrite apply_opt_char. destruct (opt_fail c o) eqn:F; simpl.
    + split; [discriminate|]. intros [H _]. rewrite (H o (or_introl eq_refl)) in F. discriminate.
    + rewrite IH. split; intros [H ->]; (split; [|reflexivity]).
      * intros o' [<-|Ho']; auto.
      * intros o' Ho'. apply H. right. exact Ho'.
Qed.

Theorem flat_agree k opts s : build k opts = Ok s <-> build_flat k opts = Ok s.
Proof.
  rewrite build_ok_iff. unfold build_flat, valid, spec. set (c := ctx_of k opts). split.
  - intros [V ->]. apply andb_true_iff in V. destruct V as [V NO]. rewrite forallb_opt_ok in V.
    destruct (fold_opts c opts defaults) as [s'| |] eqn:F.
    + apply fold_opts_ok in F. destruct F as [_ ->]. fold (settled c opts). cbn [bind]. unfold finish.
      rewrite NO. reflexivity.
    + exfalso. assert (fold_opts c opts defaults = Ok (settled c opts)) as F' by (apply fold_opts_ok; auto).
      congruence.
    + exfalso. assert (fold_opts c opts defaults = Ok (settled c opts)) as F' by (apply fold_opts_ok; auto).
      congruence.
  - destruct (fold_opts c opts defaults) as [s'| |] eqn:F; cbn [bind]; try discriminate.
    apply fold_opts_ok in F. destruct F as [V ->]. fold (settled c opts). unfold finish.
    destruct (net_ok c (settled c opts)) eqn:NO; [|discriminate]. intros H; inversion H; subst.
    split; [|reflexivity]. rewrite andb_true_r. apply forallb_opt_ok. exact V.
Qed.

(* ---------- values ---------- *)
Lemma lastv_app l1 l2 d : lastv (l1 ++ l2) d = lastv l2 (lastv l1 d).
Proof. apply fold_left_app. Qed.

Lemma lastv_nonempty l d d' : l <> [] -> lastv l d = lastv l d'.
Proof. destruct l as [|x t]; [congruence|]. intros _. reflexivity. Qed.

Lemma last_nonempty_default {A} (l : list A) d d' : l <> [] -> last l d = last l d'.
Proof.
  induction l as [|x t IH]; [congruence|]. intros _. destruct t; [reflexivity|].
  change (last (x :: a :: t) d) with (last (a :: t) d). change (last (x :: a :: t) d') with (last (a :: t) d').
  apply IH. discriminate.
Qed.

Lemma lastv_last l d : lastv l d = last l d.
Proof.
  revert d. induction l as [|x t IH]; intro d; [reflexivity|].
  change (lastv (x :: t) d) with (lastv t x). rewrite IH. destruct t; [reflexivity|].
  change (last (x :: v :: t) d) with (last (v :: t) d). apply last_nonempty_default. discriminate.
Qed.

Lemma vals_app f l1 l2 : vals f (l1 ++ l2) = vals f l1 ++ vals f l2.
Proof. apply flat_map_app. Qed.

Lemma raw_val_app f l1 l2 v : raw_val f (l1 ++ l2) v = raw_val f l2 (raw_val f l1 v).
Proof. apply fold_left_app. Qed.

(* overwrite settings: the fold of assignments is "the last value, else what was there" *)
Lemma writes_val_lastv f ws : (forall w, In w ws -> is_app w = true -> w_field w <> f) ->
  forall v, writes_val f ws v = lastv (wvals f ws) v.
Proof.
  unfold writes_val, wvals. induction ws as [|w t IH]; intros H v; simpl; [reflexivity|].
  rewrite lastv_app, <- IH by (intros w' Hw'; apply H; right; exact Hw'). f_equal.
  destruct (field_beq f (w_field w)) eqn:E; [|reflexivity]. apply field_beq_true in E.
  pose proof (H w (or_introl eq_refl)) as Hw. destruct w; simpl in *; try reflexivity.
  exfalso. apply Hw; auto.
Qed.

Lemma raw_val_lastv f opts : f <> FL FExtraArgs -> forall v, raw_val f opts v = lastv (vals f opts) v.
Proof.
  intros Hf. unfold raw_val, vals. induction opts as [|o t IH]; intro v; simpl; [reflexivity|].
  rewrite lastv_app, <- IH. f_equal. apply writes_val_lastv.
  intros w Hw Ha E. apply Hf. rewrite <- E. apply (app_only_extra o); assumption.
Qed.

(* the additive setting: everything given, in order *)
Lemma lists_of_app a b : lists_of (a ++ b) = lists_of a ++ lists_of b.
Proof. apply flat_map_app. Qed.

Lemma writes_val_additive f ws : (forall w, In w ws -> w_field w = f -> is_app w = true) ->
  forall l, writes_val f ws (VL l) = VL (l ++ lists_of (wvals f ws)).
Proof.
  unfold writes_val, wvals. induction ws as [|w t IH]; intros H l; simpl.
  - rewrite app_nil_r. reflexivity.
  - destruct (field_beq f (w_field w)) eqn:E.
    + apply field_beq_true in E. pose proof (H w (or_introl eq_refl) (eq_sym E)) as Hw.
      destruct w; simpl in Hw; try discriminate. simpl.
      rewrite IH by (intros w' Hw'; apply H; right; exact Hw'). rewrite <- app_assoc. reflexivity.
    + simpl. apply IH. intros w' Hw'. apply H. right. exact Hw'.
Qed.

Lemma raw_val_additive opts : forall l,
  raw_val (FL FExtraArgs) opts (VL l) = VL (l ++ lists_of (vals (FL FExtraArgs) opts)).
Proof.
  unfold raw_val, vals. induction opts as [|o t IH]; intro l; simpl.
  - rewrite app_nil_r. reflexivity.
  - rewrite writes_val_additive by (intros w Hw E; apply (extra_only_app o); assumption).
    rewrite IH, lists_of_app, app_assoc. reflexivity.
Qed.

Lemma wvals_nil_unnamed f o : wvals f (opt_writes o) = [] -> ~ names o f.
Proof.
  unfold wvals, names. induction (opt_writes o) as [|w t IH]; simpl; [auto|].
  destruct (field_beq f (w_field w)) eqn:E; simpl; [discriminate|].
  intros H [A|B]; [rewrite A, field_beq_refl in E; discriminate | exact (IH H B)].
Qed.

Lemma raw_val_unnamed f opts v : vals f opts = [] -> raw_val f opts v = v.
Proof.
  unfold raw_val, vals. revert v. induction opts as [|o t IH]; intros v H; simpl in *; [reflexivity|].
  apply app_eq_nil in H. destruct H as [H1 H2]. rewrite writes_val_unnamed by (apply wvals_nil_unnamed; exact H1).
  apply IH. exact H2.
Qed.

(* ---------- derived settings touch nothing else ---------- *)
Lemma get_setS_other f g v s : f <> FS g -> get f (setS g v s) = get f s.
Proof. intros H. change (setS g v s) with (w_apply (WS g v) s). rewrite get_w. simpl. rewrite field_beq_neq by exact H. reflexivity. Qed.
Lemma get_setN_other f g v s : f <> FN g -> get f (setN g v s) = get f s.
Proof. intros H. change (setN g v s) with (w_apply (WN g v) s). rewrite get_w. simpl. rewrite field_beq_neq by exact H. reflexivity. Qed.
Lemma get_setB_other f g v s : f <> FB g -> get f (setB g v s) = get f s.
Proof. intros H. change (setB g v s) with (w_apply (WB g v) s). rewrite get_w. simpl. rewrite field_beq_neq by exact H. reflexivity. Qed.

Lemma derive_get c f s : derived (c_kind c) f = false -> get f (derive c s) = get f s.
Proof.
  unfold derive, derived. destruct (c_kind c); intro H.
  - reflexivity.
  - unfold derive_network. apply get_setS_other. apply field_beq_false. exact H.
  - apply orb_false_iff in H. destruct H as [H1 H2].
    unfold derive_netconf. rewrite get_setS_other by (apply field_beq_false; exact H1).
    destruct (exists_obj c OSSHArgs); [|reflexivity].
    apply get_setB_other. apply field_beq_false. exact H2.
Qed.

Lemma ctx_of_kind k opts : c_kind (ctx_of k opts) = k.
Proof. reflexivity. Qed.

(* the value of every non-derived setting of a successful construction *)
Lemma build_get k opts s f : build k opts = Ok s -> derived k f = false ->
  get f s = if exists_obj (ctx_of k opts) (field_obj f) then raw_val f opts (get f defaults) else get f defaults.
Proof.
  intros H D. apply build_ok_iff in H. destruct H as [_ ->]. unfold spec.
  rewrite derive_get by exact D. apply settled_get.
Qed.

(* ================= the property ================= *)

Theorem last_wins k opts s f : build k opts = Ok s ->
  derived k f = false -> f <> FL FExtraArgs -> exists_obj (ctx_of k opts) (field_obj f) = true ->
  get f s = lastv (vals f opts) (get f defaults).
Proof.
  intros H D A E. rewrite (build_get k opts s f H D), E. apply raw_val_lastv. exact A.
Qed.

Theorem additive k opts s : build k opts = Ok s -> exists_obj (ctx_of k opts) OSystem = true ->
  get (FL FExtraArgs) s = VL (lists_of (vals (FL FExtraArgs) opts)).
Proof.
  intros H E. rewrite (build_get k opts s (FL FExtraArgs) H) by (destruct k; reflexivity).
  change (field_obj (FL FExtraArgs)) with OSystem. rewrite E.
  change (get (FL FExtraArgs) defaults) with (VL []). apply raw_val_additive.
Qed.

Theorem frame k opts s f : build k opts = Ok s -> derived k f = false -> vals f opts = [] ->
  get f s = get f defaults.
Proof.
  intros H D V. rewrite (build_get k opts s f H D). destruct (exists_obj _ _); [|reflexivity].
  apply raw_val_unnamed. exact V.
Qed.

(* a setting of an object this construction does not create stays at its default *)
Theorem absent_default k opts s f : build k opts = Ok s -> derived k f = false ->
  exists_obj (ctx_of k opts) (field_obj f) = false -> get f s = get f defaults.
Proof. intros H D E. rewrite (build_get k opts s f H D), E. reflexivity. Qed.

(* the derived settings, stated as what they are *)
Theorem derived_network opts s : build Network opts = Ok s ->
  get (FS FPromptPattern) s = VS (join [BAR] (getL FPrivilegeLevels s)).
Proof.
  intros H. apply build_ok_iff in H. destruct H as [_ ->]. unfold spec, derive. rewrite ctx_of_kind.
  unfold derive_network. reflexivity.
Qed.

Theorem derived_netconf opts s : build Netconf opts = Ok s ->
  get (FS FPromptPattern) s = VS rx_ncd_v1Dot0Delim_src
  /\ (exists_obj (ctx_of Netconf opts) OSSHArgs = true -> get (FB FNetconfConnection) s = VB true).
Proof.
  intros H. apply build_ok_iff in H. destruct H as [_ ->]. unfold spec, derive. rewrite ctx_of_kind.
  unfold derive_netconf. repeat split. intros E. rewrite E. reflexivity.
Qed.

(* ---------- order does not matter between options naming different settings ---------- *)
Definition disjoint (a b : opt) : Prop := forall f, ~ (names a f /\ names b f).

Lemma raw_val_swap f l1 a b l2 v : disjoint a b ->
  raw_val f (l1 ++ a :: b :: l2) v = raw_val f (l1 ++ b :: a :: l2) v.
Proof.
  intros D. rewrite !raw_val_app. unfold raw_val at 1 3. simpl. f_equal.
  destruct (names_dec a f) as [Na|Na].
  - assert (~ names b f) as Nb by (intro Nb; exact (D f (conj Na Nb))).
    rewrite !(writes_val_unnamed f b) by exact Nb. reflexivity.
  - rewrite !(writes_val_unnamed f a) by exact Na. reflexivity.
Qed.

Lemma raw_settled_swap l1 a b l2 : disjoint a b ->
  raw_settled (l1 ++ a :: b :: l2) = raw_settled (l1 ++ b :: a :: l2).
Proof.
  intros D. apply settings_ext. intro f. rewrite !raw_settled_get. apply raw_val_swap. exact D.
Qed.

Lemma ctx_of_swap k l1 a b l2 : disjoint a b -> ctx_of k (l1 ++ a :: b :: l2) = ctx_of k (l1 ++ b :: a :: l2).
Proof. intros D. unfold ctx_of. rewrite (raw_settled_swap l1 a b l2 D). reflexivity. Qed.

Lemma settled_swap c l1 a b l2 : disjoint a b -> settled c (l1 ++ a :: b :: l2) = settled c (l1 ++ b :: a :: l2).
Proof.
  intros D. apply settings_ext. intro f. rewrite !settled_get. destruct (exists_obj c (field_obj f)); [|reflexivity].
  apply raw_val_swap. exact D.
Qed.

Lemma forallb_swap {A} (p : A -> bool) l1 a b l2 : forallb p (l1 ++ a :: b :: l2) = forallb p (l1 ++ b :: a :: l2).
Proof. rewrite !forallb_app. simpl. f_equal. rewrite !andb_assoc. f_equal. apply andb_comm. Qed.

Lemma valid_spec_swap k l1 a b l2 : disjoint a b ->
  valid k (l1 ++ a :: b :: l2) = valid k (l1 ++ b :: a :: l2) /\ spec k (l1 ++ a :: b :: l2) = spec k (l1 ++ b :: a :: l2).
Proof.
  intros D. unfold valid, spec. rewrite (ctx_of_swap k l1 a b l2 D). set (c := ctx_of k _).
  rewrite (settled_swap c l1 a b l2 D), (forallb_swap (opt_ok c) l1 a b l2). auto.
Qed.

Theorem perm k l1 a b l2 s : disjoint a b ->
  build k (l1 ++ a :: b :: l2) = Ok s -> build k (l1 ++ b :: a :: l2) = Ok s.
Proof.
  intros D. rewrite !build_ok_iff. destruct (valid_spec_swap k l1 a b l2 D) as [-> ->]. auto.
Qed.

(* ... and a failing list still fails after the swap *)
Theorem perm_fails k l1 a b l2 : disjoint a b ->
  (exists e, build k (l1 ++ a :: b :: l2) = Err e) -> exists e, build k (l1 ++ b :: a :: l2) = Err e.
Proof.
  intros D [e H]. destruct (build k (l1 ++ b :: a :: l2)) as [s|e'|] eqn:B.
  - exfalso. assert (disjoint b a) as D' by (intros f [X Y]; exact (D f (conj Y X))).
    rewrite (perm k l1 b a l2 s D' B) in H. discriminate.
  - eauto.
  - exfalso. exact (build_no_panic _ _ B).
Qed.

(* ---------- invalid values are rejected wherever they stand ---------- *)
Theorem invalid_anywhere k l1 o l2 :
  opt_fail (ctx_of k (l1 ++ o :: l2)) o <> None -> exists e, build k (l1 ++ o :: l2) = Err e.
Proof.
  intros F. destruct (build k (l1 ++ o :: l2)) as [s|e|] eqn:B.
  - exfalso. apply build_ok_iff in B. destruct B as [V _]. apply andb_true_iff in V. destruct V as [V _].
    rewrite forallb_opt_ok in V. apply F. apply V. apply in_or_app. right. left. reflexivity.
  - eauto.
  - exfalso. exact (build_no_panic _ _ B).
Qed.

(* the error is a bad-option error unless some option of the list fails with file-not-found *)
Theorem invalid_is_badoption k opts e : build k opts = Err e ->
  (forall o, In o opts -> opt_fail (ctx_of k opts) o <> Some EFileNotFound) -> e = EBadOption.
Proof.
  intros B H. destruct (build_err_char k opts e B) as [(o & Ho & F)|[-> _]]; [|reflexivity].
  destruct e; [reflexivity|]. exfalso. exact (H o Ho F).
Qed.

(* ---------- options that do not apply are ignored without error ---------- *)
Lemma pass_skip ob l1 o l2 s : pre_ok o = true -> opt_target o <> ob ->
  pass ob (l1 ++ o :: l2) s = pass ob (l1 ++ l2) s.
Proof.
  intros Hp Ht. rewrite !pass_app. destruct (pass ob l1 s) as [s1| |]; cbn [bind]; try reflexivity.
  cbn [pass]. rewrite apply_on_char. unfold fail_on. rewrite Hp, (obj_beq_neq _ _ Ht). reflexivity.
Qed.

Lemma passes_skip c obs l1 o l2 : pre_ok o = true -> exists_obj c (opt_target o) = false ->
  forall s, passes c obs (l1 ++ o :: l2) s = passes c obs (l1 ++ l2) s.
Proof.
  intros Hp He. induction obs as [|ob t IH]; intro s; cbn [passes]; [reflexivity|].
  unfold pass_if. destruct (exists_obj c ob) eqn:E.
  - rewrite pass_skip by (auto; intro X; rewrite X in He; congruence).
    destruct (pass ob (l1 ++ l2) s); cbn [bind]; auto.
  - cbn [bind]. apply IH.
Qed.

Theorem ignored_no_error k l1 o l2 :
  pre_ok o = true -> exists_obj (ctx_of k (l1 ++ o :: l2)) (opt_target o) = false ->
  build k (l1 ++ o :: l2) = build k (l1 ++ l2).
Proof.
  intros Hp He.
  assert (opt_target o <> OGeneric /\ opt_target o <> OArgs) as [T1 T2]
    by (split; intro X; rewrite X in He; discriminate).
  unfold build. rewrite (pass_skip OGeneric l1 o l2 defaults Hp T1).
  destruct (pass OGeneric (l1 ++ l2) defaults) as [s1| |] eqn:P1; cbn [bind]; try reflexivity.
  rewrite (pass_skip OArgs l1 o l2 s1 Hp T2).
  destruct (pass OArgs (l1 ++ l2) s1) as [s2| |] eqn:P2; cbn [bind]; try reflexivity.
  assert (P1' : pass OGeneric (l1 ++ o :: l2) defaults = Ok s1) by (rewrite pass_skip; auto).
  assert (P2' : pass OArgs (l1 ++ o :: l2) s1 = Ok s2) by (rewrite pass_skip; auto).
  rewrite <- (ctx_eq k _ s1 s2 P1' P2') in He.
  rewrite (passes_skip _ later_objs l1 o l2 Hp He). reflexivity.
Qed.

(* instances: what each constructor ignores outright *)
Definition foreign (k : ctor_kind) (ob : obj) : bool :=
  match ob, k with
  | ONetwork, Network | ONetconf, Netconf => false
  | ONetwork, _ | ONetconf, _ => true
  | _, _ => false
  end.

Corollary ignored_foreign k l1 o l2 : pre_ok o = true -> foreign k (opt_target o) = true ->
  build k (l1 ++ o :: l2) = build k (l1 ++ l2).
Proof.
  intros Hp Hf. apply ignored_no_error; [exact Hp|].
  destruct (opt_target o), k; simpl in *; try discriminate; reflexivity.
Qed.

(* ---------- user options override a platform definition's ---------- *)
Theorem user_over_platform k plat user s f : build k (plat ++ user) = Ok s ->
  derived k f = false -> f <> FL FExtraArgs -> exists_obj (ctx_of k (plat ++ user)) (field_obj f) = true ->
  get f s = lastv (vals f user) (lastv (vals f plat) (get f defaults)).
Proof.
  intros H D A E. rewrite (last_wins k _ s f H D A E), vals_app, lastv_app. reflexivity.
Qed.

Corollary user_wins k plat user s f : build k (plat ++ user) = Ok s ->
  derived k f = false -> f <> FL FExtraArgs -> exists_obj (ctx_of k (plat ++ user)) (field_obj f) = true ->
  vals f user <> [] -> forall d, get f s = lastv (vals f user) d.
Proof.
  intros H D A E V d. rewrite (user_over_platform k plat user s f H D A E). apply lastv_nonempty. exact V.
Qed.

Theorem user_after_platform_additive k plat user s : build k (plat ++ user) = Ok s ->
  exists_obj (ctx_of k (plat ++ user)) OSystem = true ->
  get (FL FExtraArgs) s = VL (lists_of (vals (FL FExtraArgs) plat) ++ lists_of (vals (FL FExtraArgs) user)).
Proof. intros H E. rewrite (additive k _ s H E), vals_app, lists_of_app. reflexivity. Qed.

(* ---------- platform definitions ---------- *)
Definition open_args_name : bytes := bs "transport-system-open-args".

Lemma in_modelled_platform n : In n modelled_platform_options ->
  n = bs "port" \/ n = bs "auth-bypass" \/ n = bs "auth-strict-key" \/ n = bs "prompt-pattern"
  \/ n = bs "username-pattern" \/ n = bs "password-pattern" \/ n = bs "passphrase-pattern"
  \/ n = bs "return-char" \/ n = bs "read-delay" \/ n = bs "timeout-ops" \/ n = bs "transport-type"
  \/ n = bs "read-size" \/ n = bs "transport-pty-height" \/ n = bs "transport-pty-width"
  \/ n = open_args_name.
Proof. unfold modelled_platform_options. simpl. intuition. Qed.

(* every recognised name with a value of its documented type becomes an option (no panic) *)
Theorem platform_option_typed n v : In n modelled_platform_options ->
  well_typed (n, v) = true -> exists o, platform_option n v = Ok o.
Proof.
  intros Hin. apply in_modelled_platform in Hin.
  repeat (destruct Hin as [->|Hin]); try subst n;
    destruct v; vm_compute; intro; try discriminate; eexists; reflexivity.
Qed.

(* ... and the option it becomes names the setting the platform documentation says *)
Theorem platform_option_effect :
  platform_option (bs "port") (YInt 2022) = Ok (WithPort 2022)
  /\ platform_option (bs "read-delay") (YFloat4 6) = Ok (WithReadDelay 1500000000)
  /\ platform_option (bs "timeout-ops") (YFloat4 8) = Ok (WithTimeoutOps 2000000000)
  /\ platform_option (bs "return-char") (YStr [13; 10]) = Ok (WithReturnChar [13; 10])
  /\ platform_option (bs "auth-bypass") (YBool true) = Ok WithAuthBypass
  /\ platform_option (bs "auth-strict-key") (YBool false) = Ok WithAuthNoStrictKey
  /\ (forall l, platform_option open_args_name (YSeq l) = Ok (WithSystemTransportOpenArgs l)).
Proof. repeat split; vm_compute; reflexivity. Qed.

(* transport-system-open-args with anything but a sequence of strings still panics (before the
   fix of finding F12 it panicked with EVERY value) *)
Theorem open_args_illtyped_panics v : (forall l, v <> YSeq l) -> platform_option open_args_name v = Panic.
Proof. intros H. destruct v; try (vm_compute; reflexivity). exfalso. exact (H l eq_refl). Qed.

Lemma platform_options_no_err defs e : platform_options defs <> Err e.
Proof.
  induction defs as [|[n v] t IH]; simpl; [discriminate|].
  assert (platform_option n v <> Err e) as H.
  { unfold platform_option.
    repeat match goal with |- (if ?b then _ else _) <> _ => destruct b end;
      try discriminate; destruct v; discriminate. }
  destruct (platform_option n v) as [o| |]; cbn [bind]; try congruence.
  destruct (platform_options t) as [os| |]; cbn [bind]; congruence.
Qed.

Lemma platform_options_panic defs n v : In (n, v) defs -> platform_option n v = Panic ->
  platform_options defs = Panic.
Proof.
  induction defs as [|[n' v'] t IH]; intros Hin Hp; simpl in *; [contradiction|].
  destruct Hin as [E|Hin].
  - inversion E; subst. rewrite Hp. reflexivity.
  - destruct (platform_option n' v') as [o|e|] eqn:P; cbn [bind]; try reflexivity.
    + rewrite (IH Hin Hp). reflexivity.
    + unfold platform_option in P.
      exfalso. revert P. repeat match goal with |- (if ?b then _ else _) = _ -> _ => destruct b end;
        try discriminate; destruct v'; discriminate.
Qed.

Theorem platform_open_args_illtyped_panics p user v : In (open_args_name, v) (pd_options p) ->
  (forall l, v <> YSeq l) -> build_platform p user = Panic.
Proof.
  intros Hin Hv. unfold build_platform, platform_opts.
  rewrite (platform_options_panic _ _ _ Hin (open_args_illtyped_panics v Hv)). reflexivity.
Qed.

Theorem platform_typed_ok defs :
  (forall d, In d defs -> In (fst d) modelled_platform_options /\ well_typed d = true) ->
  exists os, platform_options defs = Ok os /\ length os = length defs.
Proof.
  induction defs as [|[n v] t IH]; intros H; simpl.
  - exists []. auto.
  - destruct (H (n, v) (or_introl eq_refl)) as (Hin & Hty). simpl in Hin.
    destruct (platform_option_typed n v Hin Hty) as [o ->]. cbn [bind].
    destruct (IH (fun d Hd => H d (or_intror Hd))) as (os & -> & Hl). cbn [bind].
    exists (o :: os). simpl. auto.
Qed.

(* ---------- non-vacuity: concrete constructions, by computation ---------- *)
Definition ex_opts : list opt :=
  [ WithPort 23; WithTransportType tt_standard; WithAuthSecondary (bs "enable");
    WithSystemTransportOpenArgs [bs "-v"]; WithPort 2022; WithStandardTransportExtraCiphers [bs "3des-cbc"];
    WithAuthNoStrictKey; WithNetconfPreferredVersion (bs "1.1") ].

Example ex_generic :
  match build Generic ex_opts with
  | Ok s => getN FPort s = 2022 /\ getS FTransportType s = tt_standard /\ getB FStrictKey s = false
            /\ getL FExtraCiphers s = [bs "3des-cbc"] /\ getL FExtraArgs s = [] /\ getS FAuthSecondary s = []
  | _ => False
  end.
Proof. vm_compute. repeat split. Qed.

Example ex_netconf :
  match build Netconf (WithLogger 3 :: ex_opts) with
  | Ok s => getN FPort s = 2022 /\ getS FPreferredVersion s = bs "1.1" /\ getB FNetconfConnection s = true
            /\ getN FLogger s = 3
            /\ getS FPromptPattern s = rx_ncd_v1Dot0Delim_src
  | _ => False
  end.
Proof. vm_compute. repeat split. Qed.

Example ex_network_needs_privileges : build Network ex_opts = BadOption.
Proof. vm_compute. reflexivity. Qed.

Example ex_invalid_version_everywhere :
  build Generic (ex_opts ++ [WithNetconfPreferredVersion (bs "1.2")]) = BadOption
  /\ build Generic (WithTransportType (bs "ssh2") :: ex_opts) = BadOption
  /\ build Generic (ex_opts ++ [WithSSHConfigFile (bs "/missing") false]) = FileNotFound.
Proof. repeat split; vm_compute; reflexivity. Qed.

Example ex_additive :
  match build Generic [WithSystemTransportOpenArgs [bs "-a"]; WithPort 1; WithSystemTransportOpenArgs [bs "-b"; bs "-c"]] with
  | Ok s => getL FExtraArgs s = [bs "-a"; bs "-b"; bs "-c"]
  | _ => False
  end.
Proof. vm_compute. reflexivity. Qed.

Example ex_platform :
  let p := mkPdef Network [bs "% Error"] true false [bs "^a>$"; bs "^a#$"] (bs "p0") true false
                  [(bs "port", YInt 23); (bs "timeout-ops", YFloat4 8); (bs "return-char", YStr [13; 10]);
                   (open_args_name, YSeq [bs "-o"; bs "A=b"])] in
  match build_platform p [WithPort 2022; WithOnOpen 1; WithSystemTransportOpenArgs [bs "-v"]] with
  | Ok s => getN FPort s = 2022 /\ getL FExtraArgs s = [bs "-o"; bs "A=b"; bs "-v"] /\ getN FOnOpen s = 1 /\ getN FNetOnOpen s = platform_tag
            /\ getN FTimeoutOps s = 2000000000 /\ getS FReturnChar s = [13; 10]
            /\ getS FPromptPattern s = bs "^a>$|^a#$"
  | _ => False
  end.
Proof. vm_compute. repeat split. Qed.
