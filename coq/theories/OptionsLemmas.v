(* OptionsLemmas.v — proofs about Options.v (C19). *)
From Scrapli Require Import Bytes Regex PlatformTypes Generated Options.
Open Scope N_scope.

(* ---------- the model covers exactly the constructors of driver/options ---------- *)
Lemma check_inventory_true : check_inventory = true.
Proof. vm_compute. reflexivity. Qed.

Lemma check_platform_inventory_true : check_platform_inventory = true.
Proof. vm_compute. reflexivity. Qed.

Lemma opt_samples_complete : forall o, mem_bytes (opt_name o) modelled_constructors = true.
Proof. destruct o; vm_compute; reflexivity. Qed.

(* ---------- decidable equalities ---------- *)
Lemma field_beq_true f g : field_beq f g = true -> f = g.
Proof. apply internal_field_dec_bl. Qed.
Lemma field_beq_refl f : field_beq f f = true.
Proof. apply internal_field_dec_lb. reflexivity. Qed.
Lemma field_beq_neq f g : f <> g -> field_beq f g = false.
Proof. intros H. destruct (field_beq f g) eqn:E; [apply field_beq_true in E; contradiction | reflexivity]. Qed.
Lemma field_beq_false f g : field_beq f g = false -> f <> g.
Proof. intros E ->. rewrite field_beq_refl in E. discriminate. Qed.

Lemma obj_beq_true a b : obj_beq a b = true -> a = b.
Proof. apply internal_obj_dec_bl. Qed.
Lemma obj_beq_refl a : obj_beq a a = true.
Proof. apply internal_obj_dec_lb. reflexivity. Qed.
Lemma obj_beq_false a b : obj_beq a b = false -> a <> b.
Proof. intros E ->. rewrite obj_beq_refl in E. discriminate. Qed.
Lemma obj_beq_neq a b : a <> b -> obj_beq a b = false.
Proof. intros H. destruct (obj_beq a b) eqn:E; [apply obj_beq_true in E; contradiction | reflexivity]. Qed.

(* ---------- one assignment, seen through [get] ---------- *)
Lemma get_w f w s :
  get f (w_apply w s) = if field_beq f (w_field w) then w_val w (get f s) else get f s.
Proof.
  destruct w as [g v|g v|g v|g v|g v], f as [f|f|f|f]; destruct f, g; reflexivity.
Qed.

Lemma rebuild_id s : rebuild s = s.
Proof. destruct s; reflexivity. Qed.

Lemma settings_ext s s' : (forall f, get f s = get f s') -> s = s'.
Proof.
  intros H. rewrite <- (rebuild_id s), <- (rebuild_id s'). unfold rebuild.
  f_equal;
  match goal with
  | |- getN ?f _ = _ => generalize (H (FN f))
  | |- getB ?f _ = _ => generalize (H (FB f))
  | |- getS ?f _ = _ => generalize (H (FS f))
  | |- getL ?f _ = _ => generalize (H (FL f))
  end; simpl; congruence.
Qed.

Lemma all_fields_complete f : In f all_fields.
Proof. destruct f as [f|f|f|f]; destruct f; simpl; tauto. Qed.
