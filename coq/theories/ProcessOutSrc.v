(* ProcessOutSrc.v — channel/channel.go Channel.processOut as the source has it on this run (C01):
   the steps of Channel.process_out and their ORDER, as the whole trace of a run over two lines:
   split at LF; every line loses its trailing blanks; joined with LF; THEN the prompt pattern's
   matches are removed (only when the prompt is to be stripped); THEN the return character is trimmed
   from both ends, THEN line feeds — so a line of blanks at either end is gone before the edges are
   trimmed.  (What each step computes is compared on random inputs by the PF differential.) *)
From Scrapli Require Import DecideLang GeneratedSkel.
From Coq Require Import String List Bool.
Import ListNotations.
Open Scope string_scope.

Definition po_env (strip : bool) : denv :=
  mkEnvX (fun _ => false) (fun _ _ => false) (fun _ => "") (fun a => if String.eqb a "strip" then Some strip else None)
         (fun _ _ _ => None) (fun l => if String.eqb l "lines" then 2 else 0) (fun _ _ => None).

Fixpoint trace_eqb (a b : list (string * string)) : bool :=
  match a, b with
  | [], [] => true
  | (k, v) :: a', (k', v') :: b' => String.eqb k k' && String.eqb v v' && trace_eqb a' b'
  | _, _ => false
  end.

Definition po_line (i : nat) : list (string * string) :=
  [("l", unary i); ("i", "index of l"); ("cleanLines[i]", "bytes.TrimRight(l, "" "")")].

Definition po_spec (strip : bool) : list (string * string) :=
  app [("lines", "bytes.Split(b, []byte(""\n""))"); ("cleanLines", "make([][]byte, len(lines))")]
      (app (po_line 0) (app (po_line 1)
      (app [("b", "bytes.Join(cleanLines, []byte(""\n""))")]
      (app (if strip then [("b", "c.PromptPattern.ReplaceAll(b, nil)")] else [])
           [("b", "bytes.Trim(b, string(c.ReturnChar))"); ("b", "bytes.Trim(b, ""\n"")")])))).

Definition po_run_ok (strip : bool) : bool :=
  match DecideLang.exec 30 (po_env strip) process_out_code [] with
  | Returned st v => String.eqb v "b" && trace_eqb (rev st) (po_spec strip)
  | _ => false
  end.

Definition process_out_src_ok : bool :=
  po_run_ok false && po_run_ok true && tests_known process_out_code ["strip"].

Theorem process_out_is_source : process_out_src_ok = true.
Proof. vm_compute. reflexivity. Qed.
Print Assumptions process_out_is_source.
