(* DecideLemmas.v — lemmas about the interpreter of DecideLang that do not depend on any translated
   code: the one-statement steps (so that proofs never unfold [exec] on a whole function body) and
   the unary encoding of loop indices. *)
From Scrapli Require Import DecideLang.
From Coq Require Import String List Bool Arith Lia.
Import ListNotations.
Open Scope nat_scope.
Open Scope string_scope.

Lemma unary_length : forall i, String.length (unary i) = i.
Proof. induction i as [|i IH]; cbn [unary String.length]; [reflexivity | now rewrite IH]. Qed.

Lemma exec_range_then : forall f env v lst body rest s,
  exec (S f) env (DRange v lst body :: rest) s
  = (fun r => match r with Running s' => exec f env rest s' | x => x end)
      (range_loop (exec f env body) v (e_len env lst) 0 s).
Proof. reflexivity. Qed.


(* one-statement steps of the interpreter (kept as lemmas so that proofs never unfold [exec] on a
   whole function body) *)
Definition cont (f : nat) (env : denv) (rest : list dstmt) (r : dres) : dres :=
  match r with Running s' => exec f env rest s' | x => x end.
Lemma exec_step_assign : forall f env k v rest s, exec (S f) env (DAssign k v :: rest) s = exec f env rest ((k, v) :: s)%list.
Proof. reflexivity. Qed.
Lemma exec_step_call : forall f env c rest s, exec (S f) env (DCall c :: rest) s = exec f env rest (("!call", c) :: s)%list.
Proof. reflexivity. Qed.
Lemma exec_step_return : forall f env v rest s, exec (S f) env (DReturn v :: rest) s = Returned s v.
Proof. reflexivity. Qed.
Lemma exec_step_nil : forall f env s, exec (S f) env []%list s = Running s.
Proof. reflexivity. Qed.
Lemma exec_step_if : forall f env c t e rest s,
  exec (S f) env (DIf c t e :: rest) s
  = match eval env s c with
    | Some true => cont f env rest (exec f env t s)
    | Some false => cont f env rest (exec f env e s)
    | None => Stuck
    end.
Proof. intros. cbn [exec]. destruct (eval env s c) as [[|]|]; reflexivity. Qed.
Lemma exec_step_range : forall f env v lst body rest s,
  exec (S f) env (DRange v lst body :: rest) s
  = cont f env rest (range_loop (exec f env body) v (e_len env lst) 0 s).
Proof. reflexivity. Qed.
