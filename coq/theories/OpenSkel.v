(* OpenSkel.v — C10 (and C09 "fails cleanly"): "in every failure case the transport is closed".

   The Open functions of the channel and of the three drivers are not part of the operation
   language of Channel.v (their job is the life cycle, not the byte stream).  Their structure is
   re-extracted from the source on every run (gen/skel.go, GeneratedSkel.open_skeleton): the call
   that opens the layer below, every return with its kind (`return err` / `return nil`), every call
   that closes the connection, and deferred function literals.  [open_closes_ok] is a small
   dataflow check over that list:  once the layer below is open, every `return err` must be
   covered by a close — either a deferred one registered earlier (`defer{ call X.Close }`, which
   the source guards by `if reterr != nil`) or a direct close call since the previous return.  The
   failure return of the open call itself is exempt (nothing is open then).
   [open_functions_close_on_failure] evaluates it on what the source says now. *)
From Scrapli Require Import Bytes GeneratedSkel.
From Coq Require Import List Bool Arith NArith.
Import ListNotations.

Definition tok_is (t : bytes) (s : String.string) : bool := beqb t (bs s).
Arguments tok_is t s%string.

Definition is_open_call (t : bytes) : bool :=
  tok_is t "call c.t.Open" || tok_is t "call d.Channel.Open" || tok_is t "call d.Driver.Open".
Definition is_close_call (t : bytes) : bool :=
  tok_is t "call c.Close" || tok_is t "call d.Channel.Close" || tok_is t "call d.Driver.Close" || tok_is t "call d.Close".

(* st: 0 nothing opened; 1 open call seen, its own failure return not yet passed; 2 opened *)
Fixpoint scan (toks : list bytes) (st : nat) (guarded pending in_defer : bool) : bool :=
  match toks with
  | [] => true
  | t :: r =>
      if tok_is t "defer{" then scan r st guarded pending true
      else if tok_is t "}" then scan r st guarded pending false
      else if is_close_call t then
        if in_defer then scan r st true pending in_defer else scan r st guarded true in_defer
      else if is_open_call t then scan r 1%nat guarded pending in_defer
      else if tok_is t "return err" then
        if Nat.eqb st 2 then (guarded || pending) && scan r 2%nat guarded false in_defer
        else scan r (if Nat.eqb st 1 then 2%nat else st) guarded false in_defer
      else if tok_is t "return nil" then scan r (if Nat.eqb st 1 then 2%nat else st) guarded false in_defer
      else scan r st guarded pending in_defer
  end.

Definition open_closes_ok (toks : list bytes) : bool :=
  existsb is_open_call toks && existsb (fun t => tok_is t "return err") toks && scan toks 0%nat false false false.

Definition expected_open_functions : list bytes :=
  [bs "channel_Open"; bs "generic_Open"; bs "network_Open"; bs "netconf_Open"].

Definition open_all_ok : bool :=
  forallb (fun n => existsb (fun kv => beqb (fst kv) n && open_closes_ok (snd kv)) open_skeleton)
          expected_open_functions.

(* non-vacuity of the check itself: it rejects an Open that forgets the close *)
Example scan_rejects_missing_close :
  open_closes_ok [bs "call d.Channel.Open"; bs "return err"; bs "return err"; bs "return nil"] = false
  /\ open_closes_ok [bs "call d.Channel.Open"; bs "return err"; bs "call d.Channel.Close"; bs "return err";
                     bs "return err"; bs "return nil"] = false
  /\ open_closes_ok [bs "call d.Channel.Open"; bs "return err"; bs "defer{"; bs "call d.Channel.Close"; bs "}";
                     bs "return err"; bs "return err"; bs "return nil"] = true.
Proof. repeat split; vm_compute; reflexivity. Qed.

Lemma open_functions_close_on_failure : open_all_ok = true.
Proof. vm_compute. reflexivity. Qed.
