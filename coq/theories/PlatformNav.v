(* PlatformNav.v — C17, navigation on every embedded platform definition.

   C17.v proves that each embedded definition is well-formed and that the DFS returns the tree
   path; this file proves that privilege navigation WORKS on each of them: for every embedded
   network platform (quantified over [real_platforms], i.e. over whatever gen/ regenerated from
   the YAML on this run), with [prompt_of] := the level's canonical prompt, the hypotheses of the
   twin-aware acquire theorem (NetworkTwins.v) hold, hence AcquirePriv from any level with an
   accurate cache reaches any enterable target with exactly the commands of the tree path.

   Method: boolean checkers ([twins_ok_b], [unknown_ok_b], [cmds_weak_b], ...) with reflection
   lemmas, evaluated by vm_compute over [real_platforms], lifted through [forallb_forall].

   What the data forced (found by evaluating the strict checker [cmds_ok_b], see
   [strict_platforms_known]): NetworkAbs.cmds_ok demands a non-empty escalate command of every
   non-root level; nokia_sros' level configuration-with-path has none (it is entered by typing a
   path, the driver cannot acquire it: [start_only_levels_unreachable]).  The property text says
   "levels without an escalate command only as starting points", so the hypothesis is generalised
   rather than the platform excluded:
     - [cmds_ok_weak]: every non-root level has a de-escalate command; siblings' NON-EMPTY
       escalate commands differ; a NON-ROOT level's de-escalate command is not a child's escalate
       command (at the root both are "" on nokia_sros: the root's empty de-escalate and the
       start-only child's empty escalate — harmless, an empty line is a bare return);
     - [enters_ok_b ls p]: every level ENTERED (downwards) along the path p has an escalate
       command — required only of the path actually taken ([nav_reachable_b]).
   [cmds_ok] is the special case ([cmds_ok_weak_of_cmds_ok], [enters_ok_of_no_start_only]).
   New file; Network*.v, Platform*.v are reused unchanged. *)
From Coq Require Import Permutation List Lia Bool Arith.
From Scrapli Require Import Bytes Regex PlatformTypes Generated Channel Network NetworkAbs NetworkLemmas NetworkTwins Platform.
Import ListNotations.
Local Open Scope nat_scope.

(* ================================================================== *)
(* 1. the candidates of a prompt do not depend on the iteration order  *)
(* ================================================================== *)

(* the levels with the identity iteration orders: what the checkers evaluate *)
Definition lnet (ls : list (bytes * level)) : netcfg :=
  mkNet ls [] [] (mkCfg 0%nat REps [] 0%Z) (fun _ l => l) (fun l => l).

Lemma lnet_orders_ok ls : orders_ok (lnet ls).
Proof. split; intros; apply Permutation_refl. Qed.

Lemma dc_In_order_indep net prompt x : orders_ok net ->
  (In x (determine_current net prompt) <-> In x (determine_current (lnet (n_levels net)) prompt)).
Proof.
  intros [_ O2]. rewrite !determine_current_filter. cbn [lnet n_levels n_level_order].
  rewrite !in_map_iff.
  split; intros [kl [E H]]; exists kl; (split; [exact E|]); apply filter_In in H; apply filter_In;
    destruct H as [H1 H2]; (split; [|exact H2]).
  - eapply Permutation_in; [apply O2|exact H1].
  - eapply Permutation_in; [apply Permutation_sym; apply O2|exact H1].
Qed.

(* ================================================================== *)
(* 2. checkers for the prompt hypotheses                               *)
(* ================================================================== *)

Definition leaf_b (ls : list (bytes * level)) (x : bytes) : bool :=
  forallb (fun kl => negb (beqb (lv_previous (snd kl)) x)) ls.

Lemma leaf_b_leaf ls x : leaf_b ls x = true -> leaf ls x.
Proof.
  intros H y Hp. apply parent_Some in Hp. destruct Hp as [l [L1 [L2 _]]].
  unfold leaf_b in H. rewrite forallb_forall in H. specialize (H (y, l) (lookup_In _ _ _ L1)).
  cbn [snd] in H. rewrite L2, beqb_refl' in H. discriminate H.
Qed.

(* every level is among the candidates of its own prompt; whenever there is another candidate,
   the level and that candidate are leaves *)
Definition twins_ok_b (ls : list (bytes * level)) (prompt_of : bytes -> bytes) : bool :=
  forallb (fun m => let c := determine_current (lnet ls) (prompt_of m) in
                    mem_bytes m c && forallb (fun m' => beqb m' m || (leaf_b ls m && leaf_b ls m')) c)
          (names ls).

Lemma twins_ok_b_sound net prompt_of :
  orders_ok net -> twins_ok_b (n_levels net) prompt_of = true -> prompts_identify_upto_twins net prompt_of.
Proof.
  intros OK H m Hm. unfold twins_ok_b in H. rewrite forallb_forall in H. specialize (H m Hm).
  cbv beta zeta in H. apply andb_true_iff in H. destruct H as [H1 H2]. split.
  - apply (dc_In_order_indep net _ m OK). apply mem_bytes_In. exact H1.
  - intros m' Hin Hne. apply (dc_In_order_indep net _ m' OK) in Hin.
    rewrite forallb_forall in H2. specialize (H2 m' Hin).
    apply orb_true_iff in H2. destruct H2 as [H2|H2].
    + apply beqb_true_iff in H2. contradiction.
    + apply andb_true_iff in H2. destruct H2 as [L1 L2]. split; apply leaf_b_leaf; assumption.
Qed.

(* no level is called "UNKNOWN" (the sentinel the driver caches after every action) *)
Definition unknown_ok_b (ls : list (bytes * level)) : bool := negb (mem_bytes net_unknown_priv (names ls)).

Lemma unknown_ok_b_sound net prompt_of :
  tree_wf (n_levels net) = true -> orders_ok net -> unknown_ok_b (n_levels net) = true ->
  unknown_not_twin net prompt_of.
Proof.
  intros W OK H. apply unknown_not_level_not_twin; try assumption.
  apply mem_bytes_false. apply negb_true_iff. exact H.
Qed.

(* no level is called "" *)
Definition nonempty_names_b (ls : list (bytes * level)) : bool := negb (mem_bytes [] (names ls)).

Lemma nonempty_names_b_sound ls : nonempty_names_b ls = true -> ~ In [] (names ls).
Proof. intros H. apply mem_bytes_false. apply negb_true_iff. exact H. Qed.

(* ================================================================== *)
(* 3. the command hypotheses: strict (NetworkAbs.cmds_ok) and weak      *)
(* ================================================================== *)

(* as [cmds_ok] but without demanding an escalate command of every non-root level: sibling
   uniqueness is only asked of non-empty escalate commands *)
Definition cmds_ok_weak (ls : list (bytes * level)) : Prop :=
  (forall k l, In (k, l) ls -> lv_previous l <> [] -> lv_deescalate l <> [])
  /\ (forall k1 l1 k2 l2, In (k1, l1) ls -> In (k2, l2) ls -> lv_previous l1 = lv_previous l2 ->
                           lv_previous l1 <> [] -> lv_escalate l1 <> [] -> lv_escalate l1 = lv_escalate l2 -> k1 = k2)
  /\ (forall k l kc lc, In (k, l) ls -> In (kc, lc) ls -> lv_previous l <> [] ->
                         lv_previous lc = lv_name l -> lv_escalate lc <> lv_deescalate l).

Lemma cmds_ok_weak_of_cmds_ok ls : cmds_ok ls -> cmds_ok_weak ls.
Proof.
  intros [C1 [C2 C3]]. split; [|split].
  - intros k l H Hp. exact (proj2 (C1 k l H Hp)).
  - intros k1 l1 k2 l2 H1 H2 E Hp _ Ee. exact (C2 k1 l1 k2 l2 H1 H2 E Hp Ee).
  - intros k l kc lc H1 H2 _ E. exact (C3 k l kc lc H1 H2 E).
Qed.

Definition cmds_weak_b (ls : list (bytes * level)) : bool :=
  forallb (fun kl => beqb (lv_previous (snd kl)) [] || negb (beqb (lv_deescalate (snd kl)) [])) ls
  && forallb (fun kl1 => forallb (fun kl2 =>
        negb (beqb (lv_previous (snd kl1)) (lv_previous (snd kl2))
              && negb (beqb (lv_previous (snd kl1)) [])
              && negb (beqb (lv_escalate (snd kl1)) [])
              && beqb (lv_escalate (snd kl1)) (lv_escalate (snd kl2)))
        || beqb (fst kl1) (fst kl2)) ls) ls
  && forallb (fun kl => forallb (fun klc =>
        negb (negb (beqb (lv_previous (snd kl)) [])
              && beqb (lv_previous (snd klc)) (lv_name (snd kl))
              && beqb (lv_escalate (snd klc)) (lv_deescalate (snd kl)))) ls) ls.

Lemma beqb_neq_false (a b : bytes) : a <> b -> beqb a b = false.
Proof. apply beqb_false_iff. Qed.

Lemma cmds_weak_b_sound ls : cmds_weak_b ls = true -> cmds_ok_weak ls.
Proof.
  unfold cmds_weak_b. rewrite !andb_true_iff. intros [[B1 B2] B3].
  rewrite forallb_forall in B1, B2, B3. split; [|split].
  - intros k l H Hp. specialize (B1 _ H). cbn [snd] in B1.
    rewrite (beqb_neq_false _ _ Hp) in B1. cbn [orb] in B1. apply negb_true_iff in B1.
    apply beqb_false_iff. exact B1.
  - intros k1 l1 k2 l2 H1 H2 E Hp He Ee. specialize (B2 _ H1). rewrite forallb_forall in B2.
    specialize (B2 _ H2). cbn [fst snd] in B2.
    rewrite E, beqb_refl', <- E, (beqb_neq_false _ _ Hp), (beqb_neq_false _ _ He), Ee, beqb_refl' in B2.
    cbn [negb andb orb] in B2. apply beqb_true_iff. exact B2.
  - intros k l kc lc H1 H2 Hp E Ee. specialize (B3 _ H1). rewrite forallb_forall in B3.
    specialize (B3 _ H2). cbn [snd] in B3. rewrite (beqb_neq_false _ _ Hp), E, Ee, !beqb_refl' in B3. discriminate B3.
Qed.

(* the levels that cannot be entered: non-root levels without an escalate command *)
Definition is_start_only (kl : bytes * level) : bool :=
  negb (beqb (lv_previous (snd kl)) []) && beqb (lv_escalate (snd kl)) [].

Definition start_only (ls : list (bytes * level)) : list bytes := map fst (filter is_start_only ls).

(* decidable form of NetworkAbs.cmds_ok: the weak form, no start-only level, and the third clause
   also at the root *)
Definition cmds_ok_b (ls : list (bytes * level)) : bool :=
  cmds_weak_b ls && forallb (fun kl => negb (is_start_only kl)) ls
  && forallb (fun kl => forallb (fun klc =>
        negb (beqb (lv_previous (snd klc)) (lv_name (snd kl))
              && beqb (lv_escalate (snd klc)) (lv_deescalate (snd kl)))) ls) ls.

Lemma cmds_ok_b_sound ls : cmds_ok_b ls = true -> cmds_ok ls.
Proof.
  unfold cmds_ok_b. rewrite !andb_true_iff. intros [[Bw Bs] B3].
  destruct (cmds_weak_b_sound ls Bw) as [C1 [C2 _]]. rewrite forallb_forall in Bs, B3.
  assert (E1 : forall k l, In (k, l) ls -> lv_previous l <> [] -> lv_escalate l <> []).
  { intros k l H Hp He. specialize (Bs _ H). unfold is_start_only in Bs. cbn [snd] in Bs.
    rewrite (beqb_neq_false _ _ Hp), He in Bs. discriminate Bs. }
  split; [|split].
  - intros k l H Hp. split; [exact (E1 k l H Hp)|exact (C1 k l H Hp)].
  - intros k1 l1 k2 l2 H1 H2 E Hp Ee. exact (C2 k1 l1 k2 l2 H1 H2 E Hp (E1 k1 l1 H1 Hp) Ee).
  - intros k l kc lc H1 H2 E Ee. specialize (B3 _ H1). rewrite forallb_forall in B3.
    specialize (B3 _ H2). cbn [snd] in B3. rewrite E, Ee, !beqb_refl' in B3. discriminate B3.
Qed.

Lemma cmds_ok_b_no_start_only ls : cmds_ok_b ls = true -> start_only ls = [].
Proof.
  unfold cmds_ok_b. rewrite !andb_true_iff. intros [[_ Bs] _]. unfold start_only.
  induction ls as [|kl t IH]; [reflexivity|]. cbn [forallb] in Bs. apply andb_true_iff in Bs.
  destruct Bs as [B1 B2]. cbn [filter]. apply negb_true_iff in B1. rewrite B1. exact (IH B2).
Qed.

(* ================================================================== *)
(* 4. the levels entered along a path                                  *)
(* ================================================================== *)

(* the step x -> y is not the entering of a level without an escalate command *)
Definition enter_ok_b (ls : list (bytes * level)) (x y : bytes) : bool :=
  match lookup_level ls y with
  | Some ly => beqb (lv_previous ly) [] || negb (beqb (lv_previous ly) x) || negb (beqb (lv_escalate ly) [])
  | None => true
  end.

Fixpoint enters_ok_b (ls : list (bytes * level)) (p : list bytes) : bool :=
  match p with
  | x :: ((y :: _) as rest) => enter_ok_b ls x y && enters_ok_b ls rest
  | _ => true
  end.

(* "target reachable from m": the tree path from m enters no level without an escalate command *)
Definition nav_reachable_b (ls : list (bytes * level)) (m target : bytes) : bool :=
  match tree_path ls m target with Some p => enters_ok_b ls p | None => false end.

Lemma enter_ok_or_start_only ls x y : enter_ok_b ls x y = true \/ In y (start_only ls).
Proof.
  unfold enter_ok_b. destruct (lookup_level ls y) as [ly|] eqn:L; [|left; reflexivity].
  destruct (beqb_reflect (lv_previous ly) []) as [E0|E0]; [left; reflexivity|].
  destruct (beqb_reflect (lv_escalate ly) []) as [E1|E1]; [|left; apply orb_true_r].
  right. unfold start_only. apply in_map_iff. exists (y, ly). split; [reflexivity|].
  apply filter_In. split; [exact (lookup_In _ _ _ L)|].
  unfold is_start_only. cbn [snd]. rewrite (beqb_neq_false _ _ E0), E1. reflexivity.
Qed.

Lemma enters_ok_of_no_start_only ls p : start_only ls = [] -> enters_ok_b ls p = true.
Proof.
  intros E. induction p as [|x [|y rest] IH]; [reflexivity|reflexivity|].
  cbn [enters_ok_b]. apply andb_true_iff. split; [|exact IH].
  destruct (enter_ok_or_start_only ls x y) as [H|H]; [exact H|]. rewrite E in H. destruct H.
Qed.

(* ================================================================== *)
(* 5. the device follows, under the weak hypotheses                    *)
(* ================================================================== *)
Section DeviceWeak.
  Variable net : netcfg.
  Let ls := n_levels net.
  Hypothesis W : tree_wf ls = true.
  Hypothesis CW : cmds_ok_weak ls.

  Theorem dev_escalate_w d next rest :
    parent ls next = Some (d_mode d) -> enter_ok_b ls (d_mode d) next = true ->
    exists cmd,
      path_cmds ls (d_mode d :: next :: rest) = (d_mode d, cmd) :: path_cmds ls (next :: rest) /\
      dev_line ls d (action_line net (AEscalate next)) = mkADev next (d_log d ++ [(d_mode d, cmd)]).
  Proof.
    intros Hp He. set (m := d_mode d) in *. apply parent_Some in Hp. destruct Hp as [nl [L1 [L2 L3]]].
    exists (lv_escalate nl). split.
    - cbn [path_cmds]. rewrite L1, L2, beqb_refl'. reflexivity.
    - unfold action_line. fold ls. rewrite L1. destruct CW as [C1 [C2 C3]].
      pose proof (lookup_In _ _ _ L1) as Hin.
      assert (Hprev : lv_previous nl <> []) by (rewrite L2; exact L3).
      assert (Hesc : lv_escalate nl <> []).
      { unfold enter_ok_b in He. rewrite L1, L2, beqb_refl', (beqb_neq_false _ _ L3) in He.
        cbn [negb orb] in He. apply negb_true_iff in He. apply beqb_false_iff. exact He. }
      unfold dev_line. destruct (lv_escalate nl) as [|b cmd] eqn:Ecmd; [contradiction|].
      unfold child_by_cmd. fold m.
      destruct (filter (fun kl => beqb (lv_previous (snd kl)) m && beqb (lv_escalate (snd kl)) (b :: cmd)) ls)
        as [|[k l] t] eqn:F.
      + exfalso. assert (Hf : In (next, nl) (filter (fun kl => beqb (lv_previous (snd kl)) m && beqb (lv_escalate (snd kl)) (b :: cmd)) ls)).
        { apply filter_In. split; [exact Hin|]. cbn [snd]. rewrite L2, Ecmd, !beqb_refl'. reflexivity. }
        rewrite F in Hf. destruct Hf.
      + assert (Hf : In (k, l) (filter (fun kl => beqb (lv_previous (snd kl)) m && beqb (lv_escalate (snd kl)) (b :: cmd)) ls))
          by (rewrite F; left; reflexivity).
        apply filter_In in Hf. destruct Hf as [Hkl Hc]. cbn [snd] in Hc. apply andb_true_iff in Hc.
        destruct Hc as [Hc1 Hc2]. apply beqb_true_iff in Hc1. apply beqb_true_iff in Hc2.
        assert (k = next).
        { apply (C2 k l next nl Hkl Hin); [congruence|congruence|rewrite Hc2; discriminate|congruence]. }
        subst k. cbn [snd]. rewrite (wf_key_name ls W _ _ Hkl). reflexivity.
  Qed.

  Theorem dev_deescalate_w d next rest :
    d_mode d <> [] ->
    parent ls (d_mode d) = Some next ->
    exists cmd,
      path_cmds ls (d_mode d :: next :: rest) = (d_mode d, cmd) :: path_cmds ls (next :: rest) /\
      dev_line ls d (action_line net (ADeescalate (d_mode d))) = mkADev next (d_log d ++ [(d_mode d, cmd)]).
  Proof.
    intros Hm0 Hp. set (m := d_mode d) in *. pose proof Hp as Hp0.
    apply parent_Some in Hp. destruct Hp as [lm [L1 [L2 L3]]].
    destruct (parent_in_names ls W _ _ Hp0) as [Hm [Hn _]].
    destruct (wf_lookup_total ls W next Hn) as [nl [N1 [_ _]]].
    exists (lv_deescalate lm). split.
    - cbn [path_cmds]. rewrite N1, L1.
      destruct (beqb_reflect (lv_previous nl) m) as [E|E]; [|reflexivity].
      exfalso. assert (Hpn : parent ls next = Some m).
      { apply parent_Some. exists nl. repeat split; [exact N1|exact E|]. exact Hm0. }
      pose proof (dep_parent ls W _ _ Hp0). pose proof (dep_parent ls W _ _ Hpn). lia.
    - unfold action_line. fold ls. fold m. rewrite L1. destruct CW as [C1 [C2 C3]].
      pose proof (lookup_In _ _ _ L1) as Hin.
      assert (Hprev : lv_previous lm <> []) by (rewrite L2; exact L3).
      pose proof (C1 m lm Hin Hprev) as Hde.
      unfold dev_line. destruct (lv_deescalate lm) as [|b cmd] eqn:Ecmd; [contradiction|].
      unfold child_by_cmd. fold m.
      destruct (filter (fun kl => beqb (lv_previous (snd kl)) m && beqb (lv_escalate (snd kl)) (b :: cmd)) ls)
        as [|[k l] t] eqn:F.
      + rewrite L1, Ecmd, beqb_refl'. rewrite L2. destruct next as [|? ?]; [contradiction|]. reflexivity.
      + exfalso.
        assert (Hf : In (k, l) (filter (fun kl => beqb (lv_previous (snd kl)) m && beqb (lv_escalate (snd kl)) (b :: cmd)) ls))
          by (rewrite F; left; reflexivity).
        apply filter_In in Hf. destruct Hf as [Hkl Hc]. cbn [snd] in Hc. apply andb_true_iff in Hc.
        destruct Hc as [Hc1 Hc2]. apply beqb_true_iff in Hc1. apply beqb_true_iff in Hc2.
        apply (C3 m lm k l Hin Hkl); [exact Hprev|rewrite (wf_key_name ls W _ _ Hin); exact Hc1|congruence].
  Qed.
End DeviceWeak.

(* ================================================================== *)
(* 6. AcquirePriv walks the tree path when the path can be entered     *)
(* ================================================================== *)
Section NavWeak.
  Variable net : netcfg.
  Variable prompt_of : bytes -> bytes.
  Hypothesis W : tree_wf (n_levels net) = true.
  Hypothesis NE : ~ In [] (names (n_levels net)).
  Hypothesis OK : orders_ok net.
  Hypothesis AL : ambiguous_only_at_leaves net prompt_of.
  Hypothesis UK : unknown_not_twin net prompt_of.
  Hypothesis CW : cmds_ok_weak (n_levels net).

  Lemma acquire_abs_walk_weak target : In target (names (n_levels net)) ->
    forall p d cached count fuel,
      In (d_mode d) (names (n_levels net)) ->
      resolves net prompt_of cached target (d_mode d) ->
      tree_path (n_levels net) (d_mode d) target = Some p ->
      enters_ok_b (n_levels net) p = true ->
      length p <= fuel -> count + length p <= 2 * length (n_levels net) + 1 ->
      exists d', acquire_abs fuel net prompt_of d cached target count = AOk d' target /\
                 d_mode d' = target /\ d_log d' = d_log d ++ path_cmds (n_levels net) p.
  Proof.
    intros Ht. induction p as [|x p IH]; intros d cached count fuel Hm R Htp Hen Hlen Hcnt.
    - exfalso. destruct (tree_path_spec_strong _ W _ _ Hm Ht) as [q [Hq [[Hh _] _]]].
      rewrite Htp in Hq. inversion Hq; subst q. discriminate.
    - destruct fuel as [|f]; [cbn in Hlen; lia|]. cbn [acquire_abs].
      rewrite (process_acquire_resolved net prompt_of W AL cached target (d_mode d) Hm Ht R).
      destruct (bytes_eq_dec (d_mode d) target) as [E|E].
      + rewrite E in Htp.
        replace (pa_tail net (d_mode d) target) with (PAOk ANone target)
          by (rewrite E; symmetry; apply pa_tail_at_target).
        rewrite (tree_path_self _ W target Ht) in Htp. inversion Htp; subst x p.
        exists d. split; [reflexivity|]. split; [exact E|]. cbn [path_cmds]. rewrite app_nil_r. reflexivity.
      + destruct (pa_tail_step net W NE OK target (d_mode d) Hm Ht E) as [next [rest [Htp' [Hn [Hpa Hcase]]]]].
        rewrite Htp in Htp'. inversion Htp'; subst x p. clear Htp'.
        rewrite Hpa.
        destruct (tree_path_tail _ W _ _ _ _ Hm Ht Htp) as [Htl _].
        pose proof (resolves_after_step net prompt_of W OK AL UK target (d_mode d) next rest Hm Ht Htp) as R'.
        assert (Hlt : Nat.ltb (2 * length (n_levels net)) (S count) = false).
        { apply Nat.ltb_ge. cbn [length] in Hcnt. lia. }
        cbn [enters_ok_b] in Hen. apply andb_true_iff in Hen. destruct Hen as [Hen1 Hen2].
        destruct Hcase as [[Hp Ha]|[Hp Ha]]; rewrite Ha; cbv beta iota zeta; rewrite Hlt.
        * destruct (dev_escalate_w net W CW d next rest Hp Hen1) as [cmd [Hpc Hdl]]. rewrite Hdl.
          destruct (IH (mkADev next (d_log d ++ [(d_mode d, cmd)])) net_unknown_priv (S count) f)
            as [d' [H1 [H2 H3]]];
            [exact Hn|exact R'|exact Htl|exact Hen2|cbn [length] in *; lia|cbn [length] in *; lia|].
          exists d'. split; [exact H1|]. split; [exact H2|].
          rewrite H3. cbn [d_log]. rewrite Hpc, <- app_assoc. reflexivity.
        * assert (Hm0 : d_mode d <> []) by (intros E0; apply NE; rewrite <- E0; exact Hm).
          destruct (dev_deescalate_w net W CW d next rest Hm0 Hp) as [cmd [Hpc Hdl]]. rewrite Hdl.
          destruct (IH (mkADev next (d_log d ++ [(d_mode d, cmd)])) net_unknown_priv (S count) f)
            as [d' [H1 [H2 H3]]];
            [exact Hn|exact R'|exact Htl|exact Hen2|cbn [length] in *; lia|cbn [length] in *; lia|].
          exists d'. split; [exact H1|]. split; [exact H2|].
          rewrite H3. cbn [d_log]. rewrite Hpc, <- app_assoc. reflexivity.
  Qed.

  Theorem acquire_reaches_target_weak_s d cached target :
    In (d_mode d) (names (n_levels net)) -> In target (names (n_levels net)) ->
    nav_reachable_b (n_levels net) (d_mode d) target = true ->
    cache_ok net prompt_of d cached ->
    exists p d', tree_path (n_levels net) (d_mode d) target = Some p /\
                 acquire_priv_abs net prompt_of d cached target = AOk d' target /\
                 d_mode d' = target /\ d_log d' = d_log d ++ path_cmds (n_levels net) p /\
                 cache_ok net prompt_of d' target.
  Proof.
    intros Hm Ht Hr C.
    destruct (tree_path_spec_strong _ W _ _ Hm Ht) as [p [Hp [[_ [_ [Hnd _]]] Hnames]]].
    unfold nav_reachable_b in Hr. rewrite Hp in Hr.
    assert (Hlen : length p <= length (n_levels net)).
    { assert (length p <= length (names (n_levels net))) by (apply NoDup_incl_length; [exact Hnd|exact Hnames]).
      unfold names in *. rewrite map_length in *. lia. }
    assert (R : resolves net prompt_of cached target (d_mode d)).
    { destruct C as [C|C]; [left; exact C|right; left; exact C]. }
    destruct (acquire_abs_walk_weak target Ht p d cached 0 (2 * length (n_levels net) + 2) Hm R Hp Hr)
      as [d' [H1 [H2 H3]]]; [lia|lia|].
    exists p, d'. split; [exact Hp|]. split; [|split; [exact H2|split; [exact H3|]]].
    - unfold acquire_priv_abs. destruct (names_In _ target Ht) as [l Hl]. rewrite Hl. exact H1.
    - left. symmetry. exact H2.
  Qed.
End NavWeak.

(* NetworkTwins.acquire_reaches_target_twins with [cmds_ok] required only along the path taken *)
Theorem acquire_reaches_target_twins_weak : forall net prompt_of d cached target,
  tree_wf (n_levels net) = true -> ~ In [] (names (n_levels net)) ->
  orders_ok net -> prompts_identify_upto_twins net prompt_of -> unknown_not_twin net prompt_of ->
  cmds_ok_weak (n_levels net) ->
  In (d_mode d) (names (n_levels net)) -> In target (names (n_levels net)) ->
  nav_reachable_b (n_levels net) (d_mode d) target = true ->
  cache_ok net prompt_of d cached ->
  exists p d', tree_path (n_levels net) (d_mode d) target = Some p /\
               acquire_priv_abs net prompt_of d cached target = AOk d' target /\
               d_mode d' = target /\ d_log d' = d_log d ++ path_cmds (n_levels net) p /\
               cache_ok net prompt_of d' target.
Proof.
  intros net prompt_of d cached target W NE OK PT UK CW Hm Ht Hr C.
  apply acquire_reaches_target_weak_s; try assumption.
  apply twins_ambiguous_only_at_leaves. exact PT.
Qed.

(* ================================================================== *)
(* 7. the embedded platforms                                           *)
(* ================================================================== *)

Definition is_network (pd : platform_def) : bool := beqb (pf_driver_type (pd_default pd)) (bs "network").

Definition real_network_platforms : list platform_def := filter is_network real_platforms.

Definition pd_levels (pd : platform_def) : list (bytes * level) := pf_levels (pd_default pd).

(* the canonical prompt of each level (Generated.platform_prompts, keyed by definition file) *)
Definition canonical_table (pd : platform_def) : list (bytes * bytes) :=
  match lookup_bytes (pd_file pd) platform_prompts with Some l => l | None => [] end.

Definition canonical_prompt_of (pd : platform_def) (m : bytes) : bytes :=
  match lookup_bytes m (canonical_table pd) with Some p => p | None => [] end.

(* a target all of whose ancestors (itself included) can be entered *)
Definition target_ok_b (ls : list (bytes * level)) (t : bytes) : bool :=
  forallb (fun a => negb (mem_bytes a (start_only ls))) (ancestors (S (length ls)) ls t).

(* ... is reachable from every level (checked by enumeration of the pairs) *)
Definition targets_reachable_b (ls : list (bytes * level)) : bool :=
  forallb (fun m => forallb (fun t => negb (target_ok_b ls t) || nav_reachable_b ls m t) (names ls)) (names ls).

Definition nav_ok_b (pd : platform_def) : bool :=
  let ls := pd_levels pd in
  is_network pd
  && tree_wf ls && nonempty_names_b ls && unknown_ok_b ls
  && twins_ok_b ls (canonical_prompt_of pd)
  && cmds_weak_b ls
  && targets_reachable_b ls.

Definition nav_platforms : list platform_def := filter nav_ok_b real_platforms.

(* EVERY embedded network platform passes (no exception list is needed) *)
Lemma all_network_platforms_nav_ok : forallb nav_ok_b real_network_platforms = true.
Proof. vm_compute. reflexivity. Qed.

(* NB: [real_platforms] is concrete data.  The proofs below never let [apply]/[rewrite]/conversion
   unify THROUGH it (the reduction machine would start evaluating the regex matcher on the
   definitions): the two filtered lists are only used through their membership lemmas, whose
   proofs unfold the list constant first (Strategy) and then match syntactically. *)
Local Strategy expand [nav_platforms real_network_platforms].

Lemma real_network_platforms_spec pd :
  In pd real_network_platforms <-> In pd real_platforms /\ is_network pd = true.
Proof. unfold real_network_platforms. exact (filter_In is_network pd real_platforms). Qed.

Lemma nav_platforms_spec pd : In pd nav_platforms <-> In pd real_platforms /\ nav_ok_b pd = true.
Proof. unfold nav_platforms. exact (filter_In nav_ok_b pd real_platforms). Qed.

Lemma forallb_In {A} (f : A -> bool) (l : list A) : forallb f l = true -> forall x, In x l -> f x = true.
Proof. intros H. apply forallb_forall. exact H. Qed.

Lemma network_platform_real pd :
  In pd real_platforms -> pf_driver_type (pd_default pd) = bs "network" -> In pd real_network_platforms.
Proof.
  intros Hin Hty. apply (proj2 (real_network_platforms_spec pd)). split; [exact Hin|].
  unfold is_network. rewrite Hty. apply beqb_refl'.
Qed.

Lemma network_platform_in_nav pd :
  In pd real_platforms -> pf_driver_type (pd_default pd) = bs "network" -> In pd nav_platforms.
Proof.
  intros Hin Hty. apply (proj2 (nav_platforms_spec pd)). split; [exact Hin|].
  exact (forallb_In nav_ok_b real_network_platforms all_network_platforms_nav_ok pd
                    (network_platform_real pd Hin Hty)).
Qed.

Lemma nav_ok_parts pd : nav_ok_b pd = true ->
  let ls := pd_levels pd in
  tree_wf ls = true /\ nonempty_names_b ls = true /\ unknown_ok_b ls = true
  /\ twins_ok_b ls (canonical_prompt_of pd) = true /\ cmds_weak_b ls = true /\ targets_reachable_b ls = true.
Proof.
  unfold nav_ok_b. cbv zeta. rewrite !andb_true_iff. intros [[[[[[_ H1] H2] H3] H4] H5] H6].
  repeat split; assumption.
Qed.

(* the hypotheses of the acquire theorem hold of every platform in [nav_platforms], whatever the
   iteration orders *)
Theorem nav_platform_hypotheses : forall pd, In pd nav_platforms ->
  forall net, n_levels net = pd_levels pd -> orders_ok net ->
  tree_wf (n_levels net) = true /\ ~ In [] (names (n_levels net))
  /\ prompts_identify_upto_twins net (canonical_prompt_of pd)
  /\ unknown_not_twin net (canonical_prompt_of pd)
  /\ cmds_ok_weak (n_levels net).
Proof.
  intros pd Hin net Hl OK. destruct (proj1 (nav_platforms_spec pd) Hin) as [_ Hb].
  destruct (nav_ok_parts pd Hb) as [H1 [H2 [H3 [H4 [H5 _]]]]]. cbv zeta in *. rewrite <- Hl in *.
  split; [exact H1|]. split; [apply nonempty_names_b_sound; exact H2|].
  split; [apply twins_ok_b_sound; assumption|].
  split; [apply unknown_ok_b_sound; assumption|].
  apply cmds_weak_b_sound. exact H5.
Qed.

(* navigation: on every platform in [nav_platforms], from any level with an accurate cache (or an
   unambiguous prompt), acquiring a target whose tree path enters no level without an escalate
   command reaches it with exactly the tree-path commands, and the cache is accurate again *)
Theorem platform_navigation : forall pd, In pd nav_platforms ->
  forall net prompt_of, n_levels net = pd_levels pd -> prompt_of = canonical_prompt_of pd ->
  orders_ok net ->
  forall d cached target,
    In (d_mode d) (names (n_levels net)) -> In target (names (n_levels net)) ->
    nav_reachable_b (n_levels net) (d_mode d) target = true ->
    cache_ok net prompt_of d cached ->
    exists p d', tree_path (n_levels net) (d_mode d) target = Some p /\
                 acquire_priv_abs net prompt_of d cached target = AOk d' target /\
                 d_mode d' = target /\ d_log d' = d_log d ++ path_cmds (n_levels net) p /\
                 cache_ok net prompt_of d' target.
Proof.
  intros pd Hin net prompt_of Hl Hpr OK d cached target Hm Ht Hr C. subst prompt_of.
  destruct (nav_platform_hypotheses pd Hin net Hl OK) as [W [NE [PT [UK CW]]]].
  apply acquire_reaches_target_twins_weak; assumption.
Qed.

(* which targets: every level that is not a level without an escalate command nor below one *)
Theorem platform_navigation_targets : forall pd, In pd nav_platforms ->
  forall net prompt_of, n_levels net = pd_levels pd -> prompt_of = canonical_prompt_of pd ->
  orders_ok net ->
  forall d cached target,
    In (d_mode d) (names (n_levels net)) -> In target (names (n_levels net)) ->
    target_ok_b (n_levels net) target = true ->
    cache_ok net prompt_of d cached ->
    exists p d', tree_path (n_levels net) (d_mode d) target = Some p /\
                 acquire_priv_abs net prompt_of d cached target = AOk d' target /\
                 d_mode d' = target /\ d_log d' = d_log d ++ path_cmds (n_levels net) p /\
                 cache_ok net prompt_of d' target.
Proof.
  intros pd Hin net prompt_of Hl Hpr OK d cached target Hm Ht Hok C.
  refine (platform_navigation pd Hin net prompt_of Hl Hpr OK d cached target Hm Ht _ C).
  destruct (proj1 (nav_platforms_spec pd) Hin) as [_ Hb].
  destruct (nav_ok_parts pd Hb) as [_ [_ [_ [_ [_ H6]]]]]. cbv zeta in H6. rewrite <- Hl in H6.
  unfold targets_reachable_b in H6. rewrite forallb_forall in H6. specialize (H6 _ Hm).
  rewrite forallb_forall in H6. specialize (H6 _ Ht). rewrite Hok in H6. exact H6.
Qed.

(* the statement for every embedded network platform *)
Theorem every_network_platform_navigates : forall pd, In pd real_platforms ->
  pf_driver_type (pd_default pd) = bs "network" ->
  forall net, n_levels net = pf_levels (pd_default pd) -> orders_ok net ->
  forall d cached target,
    In (d_mode d) (names (n_levels net)) -> In target (names (n_levels net)) ->
    (nav_reachable_b (n_levels net) (d_mode d) target = true \/ target_ok_b (n_levels net) target = true) ->
    cache_ok net (canonical_prompt_of pd) d cached ->
    exists p d', tree_path (n_levels net) (d_mode d) target = Some p /\
                 acquire_priv_abs net (canonical_prompt_of pd) d cached target = AOk d' target /\
                 d_mode d' = target /\ d_log d' = d_log d ++ path_cmds (n_levels net) p /\
                 cache_ok net (canonical_prompt_of pd) d' target.
Proof.
  intros pd Hin Hty net Hl OK d cached target Hm Ht [Hr|Hr] C.
  - exact (platform_navigation pd (network_platform_in_nav pd Hin Hty) net _ Hl eq_refl OK d cached target Hm Ht Hr C).
  - exact (platform_navigation_targets pd (network_platform_in_nav pd Hin Hty) net _ Hl eq_refl OK d cached target Hm Ht Hr C).
Qed.

(* session start (d.CurrentPriv = "UNKNOWN") in a level whose prompt is unambiguous *)
Corollary every_network_platform_navigates_from_start : forall pd, In pd real_platforms ->
  pf_driver_type (pd_default pd) = bs "network" ->
  forall net, n_levels net = pf_levels (pd_default pd) -> orders_ok net ->
  forall d target,
    In (d_mode d) (names (n_levels net)) -> In target (names (n_levels net)) ->
    target_ok_b (n_levels net) target = true ->
    determine_current net (canonical_prompt_of pd (d_mode d)) = [d_mode d] ->
    exists p d', tree_path (n_levels net) (d_mode d) target = Some p /\
                 acquire_priv_abs net (canonical_prompt_of pd) d net_unknown_priv target = AOk d' target /\
                 d_mode d' = target /\ d_log d' = d_log d ++ path_cmds (n_levels net) p /\
                 cache_ok net (canonical_prompt_of pd) d' target.
Proof.
  intros pd Hin Hty net Hl OK d target Hm Ht Hok U.
  exact (every_network_platform_navigates pd Hin Hty net Hl OK d net_unknown_priv target Hm Ht
           (or_intror Hok) (or_intror U)).
Qed.

(* ================================================================== *)
(* 8. the exceptions, exactly                                          *)
(* ================================================================== *)

(* the levels without an escalate command — "only starting points".  Documented list; a level
   appearing in a regenerated definition that is not listed here fails [start_only_levels_known]:
     nokia_sros / configuration-with-path: previous-priv exec, de-escalate "exit all", escalate ""
       (entered by typing a configuration path; its prompt "(ex)[path]" is matched so that the
       driver can LEAVE it, there is no single command to enter it). *)
Definition known_start_only : list (bytes * bytes) :=
  [ (bs "nokia_sros", bs "configuration-with-path") ].

Lemma start_only_levels_known :
  forallb (fun pd => forallb (fun t => existsb (fun e => beqb (fst e) (pd_file pd) && beqb (snd e) t) known_start_only)
                             (start_only (pd_levels pd)))
          real_network_platforms = true.
Proof. vm_compute. reflexivity. Qed.

(* platforms on which the strict NetworkAbs.cmds_ok holds are all but the documented ones; on
   those every level is a valid target from every level *)
Definition known_partial_platforms : list bytes := map fst known_start_only.

Lemma strict_platforms_known :
  forallb (fun pd => cmds_ok_b (pd_levels pd) || mem_bytes (pd_file pd) known_partial_platforms)
          real_network_platforms = true.
Proof. vm_compute. reflexivity. Qed.

Theorem strict_platform_navigation : forall pd, In pd real_platforms ->
  pf_driver_type (pd_default pd) = bs "network" ->
  ~ In (pd_file pd) known_partial_platforms ->
  forall net, n_levels net = pf_levels (pd_default pd) -> orders_ok net ->
  cmds_ok (n_levels net) /\
  forall d cached target,
    In (d_mode d) (names (n_levels net)) -> In target (names (n_levels net)) ->
    cache_ok net (canonical_prompt_of pd) d cached ->
    exists p d', tree_path (n_levels net) (d_mode d) target = Some p /\
                 acquire_priv_abs net (canonical_prompt_of pd) d cached target = AOk d' target /\
                 d_mode d' = target /\ d_log d' = d_log d ++ path_cmds (n_levels net) p /\
                 cache_ok net (canonical_prompt_of pd) d' target.
Proof.
  intros pd Hin Hty Hnk net Hl OK.
  assert (Hs : cmds_ok_b (n_levels net) = true).
  { pose proof (forallb_In _ real_network_platforms strict_platforms_known pd
                           (network_platform_real pd Hin Hty)) as H.
    cbv beta in H. apply orb_true_iff in H. destruct H as [H|H].
    - rewrite Hl. exact H.
    - exfalso. apply Hnk. exact (proj1 (mem_bytes_In _ _) H). }
  split; [apply cmds_ok_b_sound; exact Hs|].
  intros d cached target Hm Ht C.
  refine (every_network_platform_navigates pd Hin Hty net Hl OK d cached target Hm Ht (or_introl _) C).
  unfold nav_reachable_b.
  destruct (nav_platform_hypotheses pd (network_platform_in_nav pd Hin Hty) net Hl OK) as [W _].
  destruct (tree_path_spec_strong _ W _ _ Hm Ht) as [p [Hp _]]. rewrite Hp.
  apply enters_ok_of_no_start_only. apply cmds_ok_b_no_start_only. exact Hs.
Qed.

(* the restriction is necessary, not an artefact of the proof: with the device in the parent of a
   level without an escalate command and an accurate cache, AcquirePriv of that level never
   succeeds (the driver sends the empty escalate command until the loop bound) — on every
   embedded platform, for every such level (vacuous where there is none) *)
Definition start_only_fails_b (pd : platform_def) : bool :=
  let ls := pd_levels pd in
  forallb (fun kl =>
             negb (is_start_only kl)
             || match acquire_priv_abs (lnet ls) (canonical_prompt_of pd)
                        (mkADev (lv_previous (snd kl)) []) (lv_previous (snd kl)) (fst kl) with
                | AOk _ _ => false
                | _ => true
                end) ls.

Lemma start_only_levels_unreachable : forallb start_only_fails_b real_network_platforms = true.
Proof. vm_compute. reflexivity. Qed.

(* non-vacuity: the hypotheses on [net] are satisfiable (identity iteration orders), so on every
   embedded network platform the statement applies to every pair of levels *)
Corollary every_network_platform_navigates_identity_order : forall pd, In pd real_platforms ->
  pf_driver_type (pd_default pd) = bs "network" ->
  forall m target log, In m (names (pd_levels pd)) -> In target (names (pd_levels pd)) ->
    target_ok_b (pd_levels pd) target = true ->
    exists p d', tree_path (pd_levels pd) m target = Some p /\
                 acquire_priv_abs (lnet (pd_levels pd)) (canonical_prompt_of pd) (mkADev m log) m target = AOk d' target /\
                 d_mode d' = target /\ d_log d' = log ++ path_cmds (pd_levels pd) p.
Proof.
  intros pd Hin Hty m target log Hm Ht Hok.
  destruct (every_network_platform_navigates pd Hin Hty (lnet (pd_levels pd)) eq_refl
              (lnet_orders_ok _) (mkADev m log) m target Hm Ht (or_intror Hok) (or_introl eq_refl))
    as [p [d' [H1 [H2 [H3 [H4 _]]]]]].
  exists p, d'. repeat split; assumption.
Qed.

(* independent cross-check by execution (does not use the theorems): on every embedded network
   platform, for every pair (m, target) with an enterable target, running the abstract AcquirePriv
   with the device in m and the cache m ends in the target having sent the tree-path commands *)
Fixpoint log_eqb (a b : list (bytes * bytes)) : bool :=
  match a, b with
  | [], [] => true
  | (x1, y1) :: ta, (x2, y2) :: tb => beqb x1 x2 && beqb y1 y2 && log_eqb ta tb
  | _, _ => false
  end.

Definition nav_executes_b (pd : platform_def) : bool :=
  let ls := pd_levels pd in
  forallb (fun m => forallb (fun t =>
     negb (target_ok_b ls t)
     || match tree_path ls m t, acquire_priv_abs (lnet ls) (canonical_prompt_of pd) (mkADev m []) m t with
        | Some p, AOk d' c => beqb (d_mode d') t && beqb c t && log_eqb (d_log d') (path_cmds ls p)
        | _, _ => false
        end) (names ls)) (names ls).

Lemma nav_executes_everywhere : forallb nav_executes_b real_network_platforms = true.
Proof. vm_compute. reflexivity. Qed.

(* informational (printed at compile time, asserts nothing): the current data *)
Eval vm_compute in map (fun pd => (pd_file pd, start_only (pd_levels pd)))
                       (filter (fun pd => match start_only (pd_levels pd) with [] => false | _ => true end)
                               real_network_platforms).
Eval vm_compute in (length real_platforms, length real_network_platforms, length nav_platforms).

Print Assumptions acquire_reaches_target_twins_weak.
Print Assumptions platform_navigation.
Print Assumptions platform_navigation_targets.
Print Assumptions every_network_platform_navigates.
Print Assumptions every_network_platform_navigates_from_start.
Print Assumptions strict_platform_navigation.
Print Assumptions every_network_platform_navigates_identity_order.
Print Assumptions nav_executes_everywhere.
Print Assumptions start_only_levels_known.
Print Assumptions start_only_levels_unreachable.
